package main

// C05 — parameters are decoded as the inverse of OpenAPI style serialisation.
// Real code exercised: openapi3filter.decodeStyledParameter (through the verif hook VerifDecodeStyledParameter:
// decoded value, found flag, error) and openapi3filter.ValidateParameter (verdict and error kind), on a
// parameter and a request built from the case.

import (
	"context"
	"encoding/json"
	"errors"
	"fmt"
	"math"
	"math/big"
	"net/http"
	"net/url"
	"os"
	"sort"
	"strconv"
	"strings"
	"sync"

	"github.com/getkin/kin-openapi/openapi3"
	"github.com/getkin/kin-openapi/openapi3filter"
	"github.com/getkin/kin-openapi/routers"

	"kinverif/internal/hx"
)

func init() {
	hx.Register(&hx.Prop{
		ID: "C05",
		Rule: "exhaustive: the 17 legal (in, style, explode) cells × parameter names (plain and with regex/URL/header/cookie metacharacters: $filter, a.b, x+y, n|m, q*, u[x], k(1)) × {integer, int32, number, boolean, string, array of each, flat object, deepObject with primitive, array-valued and nested-object properties (all subsets of well-formed keys), deepObject at every depth (three schemas of depth 4–5: objects in objects, arrays of objects, arrays of arrays, nested free-form maps × random subsets of their well-formed leaves with well- and ill-typed texts × a key soup of depth 1–5)} × " +
			"value sets (sizes 0–3, negative numbers, dots, delimiters inside strings, strings starting with letters of the parameter name, key orders) × absent/empty/present × required × allowEmptyValue × constraint variants (min/max, enum, minItems, required properties), " +
			"each serialised by an independent Go implementation of the OpenAPI style table (the driver re-encodes and must agree); allOf/anyOf/oneOf over pairs of leaf schemas × raw texts and × array/object values serialised for the cell (deepObject included); absence with and without other path/query parameters; " +
			"plus a seeded stream of malformed / free carrier texts assembled from delimiters, prefixes and primitive tokens (incl. non-decimal integers, odd pair counts, wrong prefixes). " +
			"Content-described parameters (content: {<media>: {schema}}): 4 locations × media key sets × 10 schemas × JSON and non-JSON texts × one / several / no values × required × allowEmptyValue (verdict only). " +
			"Cases whose style or explode equals the location's default also run with that keyword left out of the document (style only, explode only, both). " +
			"Every header case runs twice: as a request parameter (ValidateParameter) and as a response header (ValidateResponse → validateResponseHeader). " +
			"Whole requests (mode req): ValidateRequest on a route whose path item and operation both declare parameters — exhaustive: {query limit (3 declarations), header X-Seq (2)} declared or not on each level × list order × {one call, ExcludeRequestQueryParams call then default call} × MultiError × 6 requests; seeded: six location/name keys (incl. the same name in path and query; declarations with defaulted style/explode, an anyOf composition, and parameters of the classes EnumGoType and CookieExplode) × shuffled lists × 1–4 calls with per-call options (incl. nil Options) and requests; observed per call the failing parameters, after the calls the document's parameter slots. " +
			"A case is non-trivial when the decoder is actually entered (the driver then reports cell, shape, verdict, value kind, round-trip oracle and model≠spec branches); requests with an empty PathParams map / empty query (early return) count as trivial.",
		Exhaustive: true,
		Gen:        genC05,
		Run:        runC05,
		Compare:    cmpC05,
		Shrink:     shrinkC05,
		Workers:    8,
		Assumptions: []string{
			"number texts: strconv.ParseFloat is trusted; the model keeps the exact decimal value and the harness compares with the nearest float64",
			"number texts with '_' digit separators or hex floats are reported unsupported by the driver; texts never contain U+001F or non-ASCII characters; cookie values avoid ';', '\"', '\\' and outer spaces (net/http cookie syntax)",
			"deepObject keys of the two-level schemas have at most three bracket segments; array indexes are canonical decimals (other shapes are reported unsupported by the driver and only run for crashes)",
			"schemas carry no default, pattern, format other than int32, nullable or nested compositions; a schema without type carries at most an enum",
			"content-described parameters: json.Unmarshal is trusted (the driver parses the same text with Lean's JSON parser); values are scalars, arrays of scalars or flat objects of scalars (other JSON shapes are reported unsupported by the driver); JSON texts are plain (no escapes, no exotic number spellings)",
		},
	})
}

// ---------------------------------------------------------------- building the real inputs

func c05Prim(m map[string]any) *openapi3.Schema {
	s := &openapi3.Schema{}
	switch jstr(m, "t") {
	case "integer":
		s.Type = &openapi3.Types{"integer"}
	case "int32":
		s.Type = &openapi3.Types{"integer"}
		s.Format = "int32"
	case "number":
		s.Type = &openapi3.Types{"number"}
	case "boolean":
		s.Type = &openapi3.Types{"boolean"}
	default:
		s.Type = &openapi3.Types{"string"}
	}
	if f, ok := c05Num(m["min"]); ok {
		s.Min = &f
	}
	if f, ok := c05Num(m["max"]); ok {
		s.Max = &f
	}
	for _, e := range jlist(m["enum"]) {
		s.Enum = append(s.Enum, c05EnumVal(e))
	}
	return s
}

func c05Num(v any) (float64, bool) {
	switch x := v.(type) {
	case float64:
		return x, true
	case int:
		return float64(x), true
	case int64:
		return float64(x), true
	case json.Number:
		f, err := strconv.ParseFloat(string(x), 64)
		return f, err == nil
	}
	return 0, false
}

func c05EnumVal(e any) any {
	if f, ok := c05Num(e); ok {
		return f // JSON numbers of a loaded document are float64
	}
	if l, ok := e.([]any); ok {
		out := []any{}
		for _, x := range l {
			out = append(out, c05EnumVal(x))
		}
		return out
	}
	return e
}

func c05Leaf(m map[string]any) *openapi3.Schema {
	switch jstr(m, "k") {
	case "arr":
		s := &openapi3.Schema{Type: &openapi3.Types{"array"}}
		it, _ := m["items"].(map[string]any)
		s.Items = c05Prim(it).NewRef()
		if f, ok := c05Num(m["minItems"]); ok {
			s.MinItems = uint64(f)
		}
		if f, ok := c05Num(m["maxItems"]); ok {
			u := uint64(f)
			s.MaxItems = &u
		}
		for _, e := range jlist(m["enum"]) {
			s.Enum = append(s.Enum, c05EnumVal(e))
		}
		return s
	case "untyped":
		s := &openapi3.Schema{} // no type, no composition
		for _, e := range jlist(m["enum"]) {
			s.Enum = append(s.Enum, c05EnumVal(e))
		}
		return s
	case "obj", "deep":
		s := &openapi3.Schema{Type: &openapi3.Types{"object"}, Properties: openapi3.Schemas{}}
		for _, kv := range jlist(m["props"]) {
			p := jlist(kv)
			if len(p) != 2 {
				continue
			}
			k, _ := p[0].(string)
			pm, _ := p[1].(map[string]any)
			if jstr(pm, "k") == "arr" {
				it, _ := pm["items"].(map[string]any)
				a := &openapi3.Schema{Type: &openapi3.Types{"array"}, Items: c05Prim(it).NewRef()}
				s.Properties[k] = a.NewRef()
			} else if jstr(pm, "k") == "obj" {
				o := &openapi3.Schema{Type: &openapi3.Types{"object"}, Properties: openapi3.Schemas{}}
				for _, skv := range jlist(pm["props"]) {
					sp := jlist(skv)
					if len(sp) != 2 {
						continue
					}
					sk, _ := sp[0].(string)
					spm, _ := sp[1].(map[string]any)
					o.Properties[sk] = c05Prim(spm).NewRef()
				}
				o.Required = toStrs(pm["required"])
				s.Properties[k] = o.NewRef()
			} else {
				s.Properties[k] = c05Prim(pm).NewRef()
			}
		}
		s.Required = toStrs(m["required"])
		if am, ok := m["addl"].(map[string]any); ok {
			s.AdditionalProperties = openapi3.AdditionalProperties{Schema: c05Prim(am).NewRef()}
		}
		return s
	default:
		return c05Prim(m)
	}
}

// c05Nest builds a nested property schema (kind prim | arr{items} | obj{props, required, addl}) of any depth.
func c05Nest(m map[string]any) *openapi3.Schema {
	switch jstr(m, "k") {
	case "arr":
		it, _ := m["items"].(map[string]any)
		return &openapi3.Schema{Type: &openapi3.Types{"array"}, Items: c05Nest(it).NewRef()}
	case "obj", "nest":
		s := &openapi3.Schema{Type: &openapi3.Types{"object"}, Properties: openapi3.Schemas{}}
		for _, kv := range jlist(m["props"]) {
			p := jlist(kv)
			if len(p) != 2 {
				continue
			}
			k, _ := p[0].(string)
			pm, _ := p[1].(map[string]any)
			s.Properties[k] = c05Nest(pm).NewRef()
		}
		s.Required = toStrs(m["required"])
		if am, ok := m["addl"].(map[string]any); ok {
			s.AdditionalProperties = openapi3.AdditionalProperties{Schema: c05Nest(am).NewRef()}
		}
		return s
	default:
		return c05Prim(m)
	}
}

func c05Schema(m map[string]any) *openapi3.Schema {
	k := jstr(m, "k")
	if k == "nest" {
		return c05Nest(m)
	}
	if k == "allOf" || k == "anyOf" || k == "oneOf" {
		s := &openapi3.Schema{}
		var refs openapi3.SchemaRefs
		for _, a := range jlist(m["alts"]) {
			am, _ := a.(map[string]any)
			refs = append(refs, c05Leaf(am).NewRef())
		}
		switch k {
		case "allOf":
			s.AllOf = refs
		case "anyOf":
			s.AnyOf = refs
		default:
			s.OneOf = refs
		}
		return s
	}
	return c05Leaf(m)
}

func c05Build(c hx.Case) (*openapi3.Parameter, *openapi3filter.RequestValidationInput) {
	sm, _ := c["schema"].(map[string]any)
	name := jstr(c, "name")
	p := &openapi3.Parameter{Name: name, In: jstr(c, "in"), Required: jbool(c, "required"),
		AllowEmptyValue: jbool(c, "allowEmpty"), Schema: c05Schema(sm).NewRef()}
	// the document may leave out style, explode, or both: Parameter.SerializationMethod supplies the defaults
	if !jbool(c, "useDefaults") && !jbool(c, "omitStyle") {
		p.Style = jstr(c, "style")
	}
	if !jbool(c, "useDefaults") && !jbool(c, "omitExplode") {
		ex := jbool(c, "explode")
		p.Explode = &ex
	}
	req, _ := http.NewRequest("GET", "http://example.com/x", nil)
	in := &openapi3filter.RequestValidationInput{Request: req, Options: &openapi3filter.Options{}}
	if s, ok := c["path"].(string); ok {
		in.PathParams = map[string]string{name: s}
	}
	if jbool(c, "pathOthers") {
		if in.PathParams == nil {
			in.PathParams = map[string]string{}
		}
		in.PathParams["zz9"] = "1"
	}
	if q := jlist(c["query"]); len(q) > 0 {
		vals := url.Values{}
		for _, kv := range q {
			p := jlist(kv)
			if len(p) != 2 {
				continue
			}
			k, _ := p[0].(string)
			for _, v := range jlist(p[1]) {
				s, _ := v.(string)
				vals.Add(k, s)
			}
		}
		req.URL.RawQuery = vals.Encode()
	}
	if h, ok := c["header"].([]any); ok {
		vs := []string{}
		for _, v := range h {
			s, _ := v.(string)
			vs = append(vs, s)
		}
		req.Header[http.CanonicalHeaderKey(name)] = vs
	}
	if s, ok := c["cookie"].(string); ok {
		req.Header["Cookie"] = []string{name + "=" + s}
	}
	return p, in
}

// ---------------------------------------------------------------- observation

func c05Canon(v any) any {
	switch x := v.(type) {
	case nil:
		return nil
	case int64:
		return map[string]any{"$t": "int64", "v": strconv.FormatInt(x, 10)}
	case int32:
		return map[string]any{"$t": "int32", "v": strconv.FormatInt(int64(x), 10)}
	case int:
		return map[string]any{"$t": "int", "v": strconv.Itoa(x)}
	case float64:
		return map[string]any{"$t": "float64", "f": strconv.FormatFloat(x, 'g', -1, 64)}
	case bool, string:
		return x
	case []any:
		out := make([]any, len(x))
		for i, e := range x {
			out[i] = c05Canon(e)
		}
		return out
	case map[string]any:
		if x == nil {
			return nil
		}
		out := map[string]any{}
		for k, e := range x {
			out[k] = c05Canon(e)
		}
		return out
	}
	return map[string]any{"$t": fmt.Sprintf("%T", v)}
}

func c05ErrKind(err error) string {
	if err == nil {
		return ""
	}
	var pe *openapi3filter.ParseError
	if errors.As(err, &pe) {
		return "parse"
	}
	if strings.Contains(err.Error(), "invalid serialization method") {
		return "badMethod"
	}
	return "other"
}

// c05RunResp: the header of the case as a *response* header: decoded value through VerifDecodeHeader (decodeValue over
// headerParamDecoder, as validateResponseHeader calls it), verdict from ValidateResponse on a response that declares
// only this header.
func c05RunResp(c hx.Case) any {
	p, in := c05Build(c)
	hdr := &openapi3.Header{Parameter: openapi3.Parameter{Required: p.Required, Schema: p.Schema, Style: p.Style, Explode: p.Explode}}
	respHeader := http.Header{}
	if h, ok := c["header"].([]any); ok {
		vs := []string{}
		for _, v := range h {
			s, _ := v.(string)
			vs = append(vs, s)
		}
		respHeader[http.CanonicalHeaderKey(p.Name)] = vs
	}
	sm, _ := hdr.SerializationMethod()
	val, found, derr := openapi3filter.VerifDecodeHeader(respHeader, p.Name, sm, p.Schema, p.Required)
	desc := ""
	resp := &openapi3.Response{Description: &desc, Headers: openapi3.Headers{p.Name: &openapi3.HeaderRef{Value: hdr}}}
	op := &openapi3.Operation{Responses: openapi3.NewResponses(openapi3.WithStatus(200, &openapi3.ResponseRef{Value: resp}))}
	in.Route = &routers.Route{Operation: op}
	rin := &openapi3filter.ResponseValidationInput{RequestValidationInput: in, Status: 200, Header: respHeader, Options: &openapi3filter.Options{}}
	verr := openapi3filter.ValidateResponse(context.Background(), rin)
	verdict := "accept"
	if verr != nil {
		var re *openapi3filter.ResponseError
		var se *openapi3.SchemaError
		var me openapi3.MultiError
		switch {
		case !errors.As(verr, &re):
			verdict = "other"
		case re.Err == nil:
			verdict = "missing" // "response header %q missing" is the only ResponseError of this path without a cause
		case errors.As(re.Err, &se) || errors.As(re.Err, &me):
			verdict = "schema"
		default:
			verdict = c05ErrKind(re.Err)
		}
	}
	out := map[string]any{"kind": verdict, "verdict": verdict, "found": found, "value": c05Canon(val)}
	if k := c05ErrKind(derr); k != "" {
		out["err"] = k
		out["value"] = nil
	} else {
		out["err"] = nil
	}
	return out
}

// c05RunContent: a content-described parameter (content: {<media>: {schema}}): ValidateParameter's verdict only — the decoded
// value of decodeContentParameter is not observable.
func c05RunContent(c hx.Case) any {
	name := jstr(c, "name")
	content := openapi3.Content{}
	for _, m := range jlist(c["media"]) {
		mt := &openapi3.MediaType{}
		if sm, ok := c["schema"].(map[string]any); ok {
			mt.Schema = c05Schema(sm).NewRef()
		}
		ms, _ := m.(string)
		content[ms] = mt
	}
	d := cloneCase(c)
	d["schema"] = map[string]any{"k": "prim", "t": "string"}
	_, in := c05Build(d)
	p := &openapi3.Parameter{Name: name, In: jstr(c, "in"), Required: jbool(c, "required"), AllowEmptyValue: jbool(c, "allowEmpty"), Content: content}
	verr := openapi3filter.ValidateParameter(context.Background(), in, p)
	verdict := "accept"
	if verr != nil {
		var re *openapi3filter.RequestError
		var se *openapi3.SchemaError
		var me openapi3.MultiError
		switch {
		case !errors.As(verr, &re):
			verdict = "other"
		case errors.Is(re.Err, openapi3filter.ErrInvalidRequired):
			verdict = "missing"
		case errors.Is(re.Err, openapi3filter.ErrInvalidEmptyValue):
			verdict = "empty"
		case errors.As(re.Err, &se) || errors.As(re.Err, &me):
			verdict = "schema"
		default:
			verdict = "other"
		}
	}
	return map[string]any{"kind": verdict, "verdict": verdict, "found": nil, "value": nil, "err": nil}
}

func runC05(c hx.Case) any {
	if jstr(c, "mode") == "req" {
		return c05RunReq(c)
	}
	if jstr(c, "mode") == "resp" {
		return c05RunResp(c)
	}
	if jstr(c, "mode") == "content" {
		return c05RunContent(c)
	}
	p, in := c05Build(c)
	val, found, derr := openapi3filter.VerifDecodeStyledParameter(p, in)
	p2, in2 := c05Build(c)
	verr := openapi3filter.ValidateParameter(context.Background(), in2, p2)
	verdict := "accept"
	if verr != nil {
		var re *openapi3filter.RequestError
		var se *openapi3.SchemaError
		var me openapi3.MultiError
		switch {
		case !errors.As(verr, &re):
			verdict = "other"
		case errors.Is(re.Err, openapi3filter.ErrInvalidRequired):
			verdict = "missing"
		case errors.Is(re.Err, openapi3filter.ErrInvalidEmptyValue):
			verdict = "empty"
		case errors.As(re.Err, &se) || errors.As(re.Err, &me):
			verdict = "schema"
		default:
			verdict = c05ErrKind(re.Err)
		}
	}
	out := map[string]any{"kind": verdict, "verdict": verdict, "found": found, "value": c05Canon(val)}
	if k := c05ErrKind(derr); k != "" {
		out["err"] = k
		out["value"] = nil
	} else {
		out["err"] = nil
	}
	return out
}

// ---------------------------------------------------------------- comparison

func c05Rat(m map[string]any) (*big.Rat, bool) {
	switch m["$t"] {
	case "int64", "int32", "int":
		r, ok := new(big.Rat).SetString(fmt.Sprint(m["v"]))
		return r, ok
	case "float64":
		if f, ok := m["f"]; ok {
			x, err := strconv.ParseFloat(fmt.Sprint(f), 64)
			if err != nil || math.IsNaN(x) || math.IsInf(x, 0) {
				return nil, false
			}
			return new(big.Rat).SetFloat64(x), true
		}
		mant, ok1 := new(big.Int).SetString(fmt.Sprint(m["m"]), 10)
		e, err := strconv.Atoi(fmt.Sprint(m["e"]))
		if !ok1 || err != nil || e > 400 {
			return nil, false
		}
		if e < -400 {
			if len(mant.String()) > 60 {
				return nil, false
			}
			return new(big.Rat), true // underflows to zero
		}
		r := new(big.Rat).SetInt(mant)
		p := new(big.Rat).SetInt(new(big.Int).Exp(big.NewInt(10), big.NewInt(int64(abs(e))), nil))
		if e >= 0 {
			r.Mul(r, p)
		} else {
			r.Quo(r, p)
		}
		f, _ := r.Float64() // nearest float64, as strconv.ParseFloat rounds
		if math.IsInf(f, 0) {
			return nil, false
		}
		return new(big.Rat).SetFloat64(f), true
	}
	return nil, false
}

func abs(x int) int {
	if x < 0 {
		return -x
	}
	return x
}

// c05Same compares two canonical values; strict also compares the Go numeric type.
func c05Same(a, b any, strict bool) bool {
	switch x := a.(type) {
	case nil:
		return b == nil
	case bool:
		y, ok := b.(bool)
		return ok && x == y
	case string:
		y, ok := b.(string)
		return ok && x == y
	case []any:
		y, ok := b.([]any)
		if !ok || len(x) != len(y) {
			return false
		}
		for i := range x {
			if !c05Same(x[i], y[i], strict) {
				return false
			}
		}
		return true
	case map[string]any:
		y, ok := b.(map[string]any)
		if !ok {
			return false
		}
		if _, isNum := x["$t"]; isNum {
			if _, isNum2 := y["$t"]; !isNum2 {
				return false
			}
			tx, ty := fmt.Sprint(x["$t"]), fmt.Sprint(y["$t"])
			if strict && tx != ty {
				return false
			}
			if !strict && (tx == "float64") != (ty == "float64") {
				return false
			}
			ra, ok1 := c05Rat(x)
			rb, ok2 := c05Rat(y)
			return ok1 && ok2 && ra.Cmp(rb) == 0
		}
		if len(x) != len(y) {
			return false
		}
		for k, v := range x {
			w, ok := y[k]
			if !ok || !c05Same(v, w, strict) {
				return false
			}
		}
		return true
	}
	return false
}

func c05IsDecodeErr(v string) bool { return v == "parse" || v == "badMethod" || v == "other" }

func cmpC05(c hx.Case, impl any, reply map[string]any) hx.Verdict {
	v := cmpC05x(c, impl, reply)
	if fn := os.Getenv("C05_DEBUG"); fn != "" && (!v.IM || !v.IS) {
		c05DbgMu.Lock()
		if f, err := os.OpenFile(fn, os.O_APPEND|os.O_CREATE|os.O_WRONLY, 0o644); err == nil {
			b, _ := json.Marshal(map[string]any{"case": c, "impl": impl, "model": reply["model"], "spec": reply["spec"], "excl": reply["excl"], "im": v.IM, "is": v.IS, "detail": v.Detail})
			f.Write(append(b, '\n'))
			f.Close()
		}
		c05DbgMu.Unlock()
	}
	return v
}

var c05DbgMu sync.Mutex

func cmpC05x(c hx.Case, impl any, reply map[string]any) hx.Verdict {
	im, _ := impl.(map[string]any)
	model, _ := reply["model"].(map[string]any)
	spec, _ := reply["spec"].(map[string]any)
	if im == nil || model == nil || spec == nil {
		return hx.Verdict{IM: false, IS: im != nil && im["panic"] == nil, Detail: "missing observation"}
	}
	if _, p := im["panic"]; p {
		return hx.Verdict{IM: false, IS: false, Detail: "implementation panicked: " + fmt.Sprint(im["panic"]) + " at " + fmt.Sprint(im["site"])}
	}
	if jbool(reply, "unsupported") {
		return hx.Verdict{IM: true, IS: true}
	}
	if jstr(c, "mode") == "req" {
		return c05CmpReq(c, im, model, spec)
	}
	v := hx.Verdict{IM: true, IS: true}
	if !jbool(spec, "enc_ok") {
		return hx.Verdict{IM: false, IS: true, Detail: "the case's carrier is not the driver's encoding of its texts (encoder mismatch between harness and model)"}
	}
	if !jbool(spec, "decode_agrees") {
		return hx.Verdict{IM: false, IS: true, Detail: "specification decoder and round-trip oracle disagree in the driver"}
	}
	if jstr(c, "mode") == "content" { // verdict only
		iv, mv, sv := jstr(im, "verdict"), jstr(model, "verdict"), jstr(spec, "verdict")
		if iv != mv {
			v.IM = false
			v.Detail = fmt.Sprintf("verdict: impl %s, model %s", iv, mv)
		}
		if iv != sv {
			v.IS = false
			v.Detail = fmt.Sprintf("verdict: impl %s, specification %s; ", iv, sv) + v.Detail
		}
		return v
	}
	ierr, merr := fmt.Sprint(im["err"]), fmt.Sprint(model["err"])
	iv, mv, sv := jstr(im, "verdict"), jstr(model, "verdict"), jstr(spec, "verdict")
	decodeSame := func(m map[string]any) bool {
		if fmt.Sprint(im["err"]) != fmt.Sprint(m["err"]) {
			return false
		}
		return im["err"] != nil || (jbool(im, "found") == jbool(m, "found") && c05Same(im["value"], m["value"], true))
	}
	// since f73e4f9 keys with text outside the bracket groups are skipped, so no two keys of a request share their groups
	// and the result cannot depend on the map order; the driver still evaluates the model on the reversed query and
	// reports a difference, which would be a modelling error (or a regression of that repair)
	alt, _ := reply["model_alt"].(map[string]any)
	_ = decodeSame
	switch {
	case alt != nil:
		v.IM = false
		v.Detail = fmt.Sprintf("the model's result depends on the order of the query entries (%s/%s vs %s/%s)",
			hx.Canon(model["value"]), mv, hx.Canon(alt["value"]), jstr(alt, "verdict"))
	case ierr != merr:
		v.IM = false
		v.Detail = fmt.Sprintf("decode error kind: impl %s, model %s", ierr, merr)
	case im["err"] == nil && (jbool(im, "found") != jbool(model, "found") || !c05Same(im["value"], model["value"], true)):
		v.IM = false
		v.Detail = fmt.Sprintf("decoded: impl %s found=%v, model %s found=%v", hx.Canon(im["value"]), im["found"], hx.Canon(model["value"]), model["found"])
	case iv != mv:
		v.IM = false
		v.Detail = fmt.Sprintf("verdict: impl %s, model %s", iv, mv)
	}
	switch {
	case iv != sv:
		v.IS = false
		v.Detail = fmt.Sprintf("verdict: impl %s, specification %s (spec value %s); ", iv, sv, hx.Canon(spec["value"])) + v.Detail
	case !c05IsDecodeErr(iv) && !c05Same(im["value"], spec["value"], false):
		v.IS = false
		v.Detail = fmt.Sprintf("decoded value: impl %s, specification %s; ", hx.Canon(im["value"]), hx.Canon(spec["value"])) + v.Detail
	}
	return v
}

// ---------------------------------------------------------------- the specification's encoder, written independently in Go

type c05Cell struct {
	in, style string
	explode   bool
}

var c05Cells = []c05Cell{
	{"path", "simple", false}, {"path", "simple", true}, {"path", "label", false}, {"path", "label", true},
	{"path", "matrix", false}, {"path", "matrix", true},
	{"query", "form", true}, {"query", "form", false}, {"query", "spaceDelimited", true}, {"query", "spaceDelimited", false},
	{"query", "pipeDelimited", true}, {"query", "pipeDelimited", false}, {"query", "deepObject", true},
	{"header", "simple", false}, {"header", "simple", true},
	{"cookie", "form", false}, {"cookie", "form", true},
}

func c05IsDefault(cl c05Cell) bool {
	switch cl.in {
	case "path", "header":
		return cl.style == "simple" && !cl.explode
	default:
		return cl.style == "form" && cl.explode
	}
}

// c05Encode returns the carrier fields for the texts (kind prim: string, arr: []string, obj: [][2]string); ok=false when the
// OpenAPI table has no entry for the combination.
func c05Encode(cl c05Cell, name, kind string, prim string, arr []string, obj [][2]string) (map[string]any, bool) {
	flat := func(sep string) string {
		l := []string{}
		for _, kv := range obj {
			l = append(l, kv[0], kv[1])
		}
		return strings.Join(l, sep)
	}
	eq := func(sep string) string {
		l := []string{}
		for _, kv := range obj {
			l = append(l, kv[0]+"="+kv[1])
		}
		return strings.Join(l, sep)
	}
	strs := func(l []string) []any {
		out := []any{}
		for _, s := range l {
			out = append(out, s)
		}
		return out
	}
	switch cl.in {
	case "path":
		var s string
		switch cl.style {
		case "simple":
			switch kind {
			case "prim":
				s = prim
			case "arr":
				s = strings.Join(arr, ",")
			default:
				if cl.explode {
					s = eq(",")
				} else {
					s = flat(",")
				}
			}
		case "label":
			switch kind {
			case "prim":
				s = "." + prim
			case "arr":
				if cl.explode {
					s = "." + strings.Join(arr, ".")
				} else {
					s = "." + strings.Join(arr, ",")
				}
			default:
				if cl.explode {
					s = "." + eq(".")
				} else {
					s = "." + flat(",")
				}
			}
		case "matrix":
			switch kind {
			case "prim":
				s = ";" + name + "=" + prim
			case "arr":
				if cl.explode {
					s = ";" + name + "=" + strings.Join(arr, ";"+name+"=")
				} else {
					s = ";" + name + "=" + strings.Join(arr, ",")
				}
			default:
				if cl.explode {
					s = ";" + eq(";")
				} else {
					s = ";" + name + "=" + flat(",")
				}
			}
		default:
			return nil, false
		}
		return map[string]any{"path": s}, true
	case "query":
		switch kind {
		case "prim":
			if cl.style != "form" {
				return nil, false
			}
			return map[string]any{"query": []any{[]any{name, []any{prim}}}}, true
		case "arr":
			if cl.style == "deepObject" {
				return nil, false
			}
			if cl.explode {
				if len(arr) == 0 {
					return map[string]any{"query": []any{}}, true
				}
				return map[string]any{"query": []any{[]any{name, strs(arr)}}}, true
			}
			sep := map[string]string{"form": ",", "spaceDelimited": " ", "pipeDelimited": "|"}[cl.style]
			return map[string]any{"query": []any{[]any{name, []any{strings.Join(arr, sep)}}}}, true
		default:
			if cl.style == "deepObject" || (cl.style == "form" && cl.explode) {
				seen := map[string]bool{}
				for _, kv := range obj {
					if seen[kv[0]] {
						return nil, false // one query key per property
					}
					seen[kv[0]] = true
				}
			}
			switch {
			case cl.style == "form" && cl.explode:
				q := []any{}
				for _, kv := range obj {
					q = append(q, []any{kv[0], []any{kv[1]}})
				}
				return map[string]any{"query": q}, true
			case cl.style == "form":
				return map[string]any{"query": []any{[]any{name, []any{flat(",")}}}}, true
			case cl.style == "deepObject":
				q := []any{}
				for _, kv := range obj {
					q = append(q, []any{name + "[" + kv[0] + "]", []any{kv[1]}})
				}
				return map[string]any{"query": q}, true
			}
			return nil, false
		}
	case "header":
		switch kind {
		case "prim":
			return map[string]any{"header": []any{prim}}, true
		case "arr":
			return map[string]any{"header": []any{strings.Join(arr, ",")}}, true
		default:
			if cl.explode {
				return map[string]any{"header": []any{eq(",")}}, true
			}
			return map[string]any{"header": []any{flat(",")}}, true
		}
	case "cookie":
		switch kind {
		case "prim":
			return map[string]any{"cookie": prim}, true
		case "arr":
			return map[string]any{"cookie": strings.Join(arr, ",")}, true
		default:
			return map[string]any{"cookie": flat(",")}, true
		}
	}
	return nil, false
}

// ---------------------------------------------------------------- generator

func c05PS(t string) map[string]any { return map[string]any{"k": "prim", "t": t} }

func c05With(m map[string]any, kv ...any) map[string]any {
	out := map[string]any{}
	for k, v := range m {
		out[k] = v
	}
	for i := 0; i+1 < len(kv); i += 2 {
		out[kv[i].(string)] = kv[i+1]
	}
	return out
}

var c05Texts = map[string][]string{
	"integer": {"0", "5", "-3", "12", "907", "2147483648", "-2147483648", "9223372036854775807", "9223372036854775808"},
	"int32":   {"0", "7", "-3", "2147483647", "2147483648", "-2147483648", "-2147483649"},
	"number":  {"1.5", "-0.25", "3", "1e3", "2.50", "-7", "0.1", ".5", "5.", "NaN", "-Inf", "infinity"},
	"boolean": {"true", "false"},
	"string":  {"a", "id", "dave", "$f", "u[", "p1", "a.b", ".bashrc", "x,y", "k=v", "a|b", "i d", ";p=", "0x", "ppq", "true", "12", "=", "idid"},
}

var c05Types = []string{"integer", "int32", "number", "boolean", "string"}

func c05CookieSafe(s string) bool {
	if strings.ContainsAny(s, ";\"\\") || strings.TrimSpace(s) != s {
		return false
	}
	for _, r := range s {
		if r < 0x20 || r >= 0x7f {
			return false
		}
	}
	return true
}

func c05CarrierSafe(cl c05Cell, car map[string]any) bool {
	if cl.in == "cookie" {
		s, _ := car["cookie"].(string)
		return c05CookieSafe(s)
	}
	return true
}

func c05Case(cl c05Cell, name string, schema map[string]any, car map[string]any, required, allowEmpty bool) hx.Case {
	c := hx.Case{"in": cl.in, "style": cl.style, "explode": cl.explode, "name": name, "schema": schema,
		"required": required, "allowEmpty": allowEmpty, "path": nil, "query": []any{}, "header": nil, "cookie": nil, "enc": nil}
	for k, v := range car {
		c[k] = v
	}
	return c
}

func c05EncCase(cl c05Cell, name string, schema map[string]any, kind, prim string, arr []string, obj [][2]string, required, allowEmpty bool, extraQuery []any) (hx.Case, bool) {
	car, ok := c05Encode(cl, name, kind, prim, arr, obj)
	if !ok || !c05CarrierSafe(cl, car) {
		return nil, false
	}
	c := c05Case(cl, name, schema, car, required, allowEmpty)
	var texts any
	switch kind {
	case "prim":
		texts = prim
	case "arr":
		l := []any{}
		for _, s := range arr {
			l = append(l, s)
		}
		texts = l
	default:
		l := []any{}
		for _, kv := range obj {
			l = append(l, []any{kv[0], kv[1]})
		}
		texts = l
	}
	c["enc"] = map[string]any{"kind": kind, "texts": texts}
	if len(extraQuery) > 0 && cl.in == "query" {
		c["query"] = append(append([]any{}, jlist(c["query"])...), extraQuery...)
		c["enc"] = nil // the carrier is no longer the bare encoding
	}
	return c, true
}

func c05AbsentCar(cl c05Cell, name string, mode int) map[string]any {
	// mode 0: absent; 1: present and empty; 2 (query): other parameters only
	switch cl.in {
	case "path":
		if mode == 1 {
			return map[string]any{"path": ""}
		}
		if mode == 2 {
			return map[string]any{"pathOthers": true}
		}
	case "query":
		if mode == 1 {
			return map[string]any{"query": []any{[]any{name, []any{""}}}}
		}
		if mode == 2 {
			return map[string]any{"query": []any{[]any{"zz", []any{"1"}}}}
		}
	case "header":
		if mode == 1 {
			return map[string]any{"header": []any{""}}
		}
		if mode == 2 {
			return map[string]any{"header": []any{}}
		}
	case "cookie":
		if mode == 1 {
			return map[string]any{"cookie": ""}
		}
	}
	return map[string]any{}
}

func genC05(ctx *hx.Ctx, emit0 func(hx.Case)) {
	r := ctx.Rng
	// whole requests through ValidateRequest: path-item and operation parameter lists, call sequences (c05req.go)
	c05GenReq(ctx, emit0)
	// every header case is also run as a response header (validateResponseHeader: the same decoder, another decision)
	emit := func(c hx.Case) {
		emit0(c)
		if jstr(c, "in") == "header" && !jbool(c, "allowEmpty") && !jbool(c, "useDefaults") {
			d := cloneCase(c)
			d["mode"] = "resp"
			emit0(d)
		}
	}
	names := []string{"p", "id"}
	// parameter names with characters that are special to regular expressions, URLs, header or cookie syntax
	special := []string{"$filter", "a.b", "x+y", "n|m", "q*", "u[x]", "k(1)"}
	allNames := append(append([]string{}, names...), special...)
	nameOK := func(cl c05Cell, name string) bool {
		if cl.in == "cookie" { // net/http drops cookies whose name is not a token
			return !strings.ContainsAny(name, "[]()")
		}
		return true
	}
	bools := []bool{false, true}
	sendN := 0
	send := func(c hx.Case, ok bool) {
		if ok {
			cl := c05Cell{jstr(c, "in"), jstr(c, "style"), jbool(c, "explode")}
			if c05IsDefault(cl) {
				d := cloneCase(c)
				d["useDefaults"] = true
				emit(d)
			}
			// style spelled out, explode left to its default (and the other way round): the two defaults are independent
			sendN++
			defExplode := cl.in == "query" || cl.in == "cookie"
			defStyle := map[string]string{"path": "simple", "header": "simple", "query": "form", "cookie": "form"}[cl.in]
			if cl.explode == defExplode && sendN%2 == 0 {
				d := cloneCase(c)
				d["omitExplode"] = true
				emit(d)
			}
			if cl.style == defStyle && sendN%3 == 0 {
				d := cloneCase(c)
				d["omitStyle"] = true
				emit(d)
			}
			emit(c)
		}
	}
	// ---- A. primitives: every cell × type × text × presence flags
	for _, cl := range c05Cells {
		for ni, name := range allNames {
			if !nameOK(cl, name) {
				continue
			}
			for _, t := range c05Types {
				variants := []map[string]any{c05PS(t)}
				switch t {
				case "integer", "int32":
					variants = append(variants, c05With(c05PS(t), "min", 0, "max", 10), c05With(c05PS(t), "enum", []any{5, 7}))
				case "number":
					variants = append(variants, c05With(c05PS(t), "max", 2), c05With(c05PS(t), "enum", []any{1.5, 3}))
				case "string":
					variants = append(variants, c05With(c05PS(t), "enum", []any{"a", "id"}))
				case "boolean":
					variants = append(variants, c05With(c05PS(t), "enum", []any{true}))
				}
				for vi, sch := range variants {
					for ti, txt := range c05Texts[t] {
						if ni >= 2 && (vi > 0 || ti%3 != ni%3) {
							continue // unusual names: a third of the texts, plain schema
						}
						for _, req := range bools {
							if vi > 0 && req {
								continue
							}
							c, ok := c05EncCase(cl, name, sch, "prim", txt, nil, nil, req, false, nil)
							send(c, ok)
						}
					}
					if vi == 0 {
						for mode := 0; mode < 3; mode++ {
							for _, req := range bools {
								for _, ae := range bools {
									emit(c05Case(cl, name, sch, c05AbsentCar(cl, name, mode), req, ae))
								}
							}
						}
					}
				}
			}
		}
	}
	// ---- A2. schemas without type ({} and {enum: [...]}): every cell × texts × presence
	untypedSchemas := []map[string]any{{"k": "untyped", "enum": []any{}}, {"k": "untyped", "enum": []any{"a", "id", "12"}}}
	for _, cl := range c05Cells {
		for ni, name := range allNames {
			if !nameOK(cl, name) || (ni >= 2 && ni%2 == 1) {
				continue
			}
			for _, sch := range untypedSchemas {
				for _, txt := range []string{"a", "id", "12", "dave", "x,y", "1.5", "true"} {
					for _, req := range bools {
						c, ok := c05EncCase(cl, name, sch, "prim", txt, nil, nil, req, false, nil)
						if ok {
							c["enc"] = nil // the round-trip oracle is for typed leaves
							emit(c)
						}
					}
				}
				for mode := 0; mode < 3; mode++ {
					for _, req := range bools {
						for _, ae := range bools {
							emit(c05Case(cl, name, sch, c05AbsentCar(cl, name, mode), req, ae))
						}
					}
				}
			}
		}
	}
	// ---- B. arrays: every cell × item type × lists of 1..3 texts (all lists of length ≤ 2 over the text set, sampled triples)
	for _, cl := range c05Cells {
		for ni, name := range allNames {
			if !nameOK(cl, name) {
				continue
			}
			for _, t := range c05Types {
				base := map[string]any{"k": "arr", "items": c05PS(t)}
				txts := c05Texts[t]
				var lists [][]string
				for _, a := range txts {
					lists = append(lists, []string{a})
					for _, b := range txts {
						lists = append(lists, []string{a, b})
					}
				}
				for i := 0; i < 12; i++ {
					lists = append(lists, []string{hx.Pick(r, txts), hx.Pick(r, txts), hx.Pick(r, txts)})
				}
				lists = append(lists, []string{}, []string{""}, []string{txts[0], ""}, []string{"", txts[0]})
				for li, l := range lists {
					if ni == 1 && !ctx.Thorough() && li%3 != 0 {
						continue
					}
					if ni >= 2 && li%7 != ni%7 {
						continue
					}
					c, ok := c05EncCase(cl, name, base, "arr", "", l, nil, li%5 == 0, false, nil)
					send(c, ok)
				}
				// constraint variants on a few lists
				var vs []map[string]any
				vs = append(vs, c05With(base, "minItems", 2), c05With(base, "maxItems", 1))
				switch t {
				case "integer", "int32":
					vs = append(vs, c05With(base, "enum", []any{[]any{5, 12}, []any{0}}), c05With(base, "items", c05With(c05PS(t), "enum", []any{5, 0})),
						c05With(base, "items", c05With(c05PS(t), "max", 6)))
				case "number":
					vs = append(vs, c05With(base, "enum", []any{[]any{1.5, 3}}))
				case "string":
					vs = append(vs, c05With(base, "enum", []any{[]any{"a", "id"}}), c05With(base, "items", c05With(c05PS(t), "enum", []any{"a"})))
				}
				for _, sch := range vs {
					for _, l := range [][]string{{txts[0]}, {txts[1], txts[3%len(txts)]}, {txts[0], txts[1]}, {txts[1]}} {
						c, ok := c05EncCase(cl, name, sch, "arr", "", l, nil, false, false, nil)
						send(c, ok)
					}
				}
				for mode := 0; mode < 3; mode++ {
					for _, req := range bools {
						emit(c05Case(cl, name, base, c05AbsentCar(cl, name, mode), req, mode == 1))
					}
				}
			}
		}
	}
	// ---- C. flat objects
	objSchemas := []map[string]any{
		{"k": "obj", "props": []any{[]any{"a", c05PS("integer")}, []any{"b", c05PS("string")}, []any{"id", c05PS("boolean")}}, "required": []any{}, "addl": nil},
		{"k": "obj", "props": []any{[]any{"a", c05PS("integer")}, []any{"b", c05PS("string")}}, "required": []any{"a"}, "addl": nil},
		{"k": "obj", "props": []any{[]any{"n", c05PS("number")}, []any{"a", c05With(c05PS("int32"), "max", 6)}}, "required": []any{}, "addl": c05PS("integer")},
		{"k": "obj", "props": []any{}, "required": []any{}, "addl": c05PS("string")},
		{"k": "obj", "props": []any{[]any{"a", c05With(c05PS("int32"), "enum", []any{5, 7})}}, "required": []any{}, "addl": nil},
	}
	objVals := map[string][]string{"a": {"5", "-3", "12", "x", ""}, "b": {"dave", "a.b", "p", "k=v", "x,y", ""}, "id": {"true", "false", "maybe"},
		"n": {"1.5", "-2"}, "zz": {"1", "q"}, "p": {"7"}}
	objKeys := []string{"a", "b", "id", "n", "zz", "p"}
	for _, cl := range c05Cells {
		for ni, name := range allNames {
			if !nameOK(cl, name) {
				continue
			}
			for si, sch := range objSchemas {
				if ni >= 2 && si != 0 && si != 2 {
					continue
				}
				var kvsets [][][2]string
				kvsets = append(kvsets, [][2]string{})
				for _, k1 := range objKeys {
					for _, v1 := range objVals[k1] {
						kvsets = append(kvsets, [][2]string{{k1, v1}})
					}
				}
				n2 := 60
				if ctx.Thorough() {
					n2 = 400
				}
				for i := 0; i < n2; i++ {
					k1, k2 := hx.Pick(r, objKeys), hx.Pick(r, objKeys)
					kv := [][2]string{{k1, hx.Pick(r, objVals[k1])}, {k2, hx.Pick(r, objVals[k2])}}
					if r.Chance(40) {
						k3 := hx.Pick(r, objKeys)
						kv = append(kv, [2]string{k3, hx.Pick(r, objVals[k3])})
					}
					kvsets = append(kvsets, kv)
				}
				for i, kv := range kvsets {
					if ni >= 2 && i%6 != ni%6 {
						continue
					}
					var extra []any
					if cl.in == "query" && i%4 == 1 {
						extra = []any{[]any{"other", []any{"1"}}}
					}
					c, ok := c05EncCase(cl, name, sch, "obj", "", nil, kv, i%3 == 0, false, extra)
					send(c, ok)
				}
				for mode := 0; mode < 3; mode++ {
					for _, req := range bools {
						emit(c05Case(cl, name, sch, c05AbsentCar(cl, name, mode), req, si == 0 && mode == 1))
					}
				}
			}
		}
	}
	// ---- D. deepObject: primitive, array-valued and nested-object properties
	nested := map[string]any{"k": "obj", "props": []any{[]any{"x", c05PS("integer")}, []any{"y", c05PS("string")}}, "required": []any{}}
	deepSch := map[string]any{"k": "deep", "props": []any{[]any{"a", c05PS("integer")}, []any{"s", c05PS("string")},
		[]any{"l", map[string]any{"k": "arr", "items": c05PS("integer")}}, []any{"o", nested}}, "required": []any{}}
	deepSch2 := c05With(deepSch, "required", []any{"a"})
	deepSch3 := c05With(deepSch, "props", []any{[]any{"a", c05With(c05PS("integer"), "max", 6)}, []any{"o", c05With(nested, "required", []any{"x"})}})
	deepSchemas := []map[string]any{deepSch, deepSch2, deepSch3}
	deepCl := c05Cell{"query", "deepObject", true}
	// D1: structured — every subset of well-formed keys with well-formed (and a few ill-typed) values, every name
	type dk struct {
		key  string
		vals []string
	}
	deepParts := []dk{{"[a]", []string{"7", "-4", "x"}}, {"[s]", []string{"dave", ""}}, {"[l][0]", []string{"1"}}, {"[l][1]", []string{"2", "q"}},
		{"[l][2]", []string{"3"}}, {"[o][x]", []string{"5", "z"}}, {"[o][y]", []string{"w"}}, {"[zz]", []string{"1"}},
		{"[a]zz", []string{"9", "y"}}} // text after the closing bracket: not a key of the parameter; the code reads it as [a]
	for ni, name := range allNames {
		for mask := 1; mask < 1<<len(deepParts); mask++ {
			if ni >= 2 && mask%5 != ni%5 {
				continue
			}
			if !ctx.Thorough() && ni < 2 && mask%2 == 0 {
				continue
			}
			for variant := 0; variant < 2; variant++ {
				q := []any{}
				differs := variant == 0
				for bi, part := range deepParts {
					if mask&(1<<bi) == 0 {
						continue
					}
					v := part.vals[0]
					if variant == 1 && len(part.vals) > 1 {
						v = part.vals[(mask+bi)%len(part.vals)]
						differs = differs || v != part.vals[0]
					}
					q = append(q, []any{name + part.key, []any{v}})
				}
				if !differs {
					continue
				}
				emit(c05Case(deepCl, name, deepSchemas[(mask+variant)%3], map[string]any{"query": q}, mask%3 == 0, false))
			}
		}
		for mode := 0; mode < 3; mode++ {
			for _, req := range bools {
				emit(c05Case(deepCl, name, deepSch2, c05AbsentCar(deepCl, name, mode), req, false))
			}
		}
	}
	// D2: random — clashes, wrong shapes, deeper keys, several values, foreign keys
	deepKeys := []string{"[a]", "[s]", "[l][0]", "[l][1]", "[l][2]", "[l]", "[a][0]", "[zz]", "[zz][q]", "[l][x]", "[s][k]", "[a][b][c]", "[l][01]",
		"[o][x]", "[o][y]", "[o]", "[o][zz]", "[o][x][q]", "[l][0][x]", "[o][x][q][r]",
		"[a]zz", "[a][", "[s]]", "[o][x]zz", "[l][0]x", "[a]x[b]", "[o]q[x]", "[zz]y",
		"[l][1024]", "[l][1025]", "[l][1026]", "[l][2000]", "[l][20000000]"} // sliceMapToSlice: at most 1024 indexes beyond the elements given
	deepVals := []string{"1", "-4", "x", "", "12", "010"}
	nDeep := 3000
	if ctx.Thorough() {
		nDeep = 60000
	}
	for i := 0; i < nDeep; i++ {
		name := hx.Pick(r, allNames)
		q := []any{}
		seen := map[string]bool{}
		for j, k := 0, 1+r.Intn(4); j < k; j++ {
			key := name + hx.Pick(r, deepKeys)
			if r.Chance(8) {
				key = hx.Pick(r, []string{"zz", name, name + "x[a]", "other[a]", "p[a]", "filter[a]", "axb[a]"})
			}
			if seen[key] {
				continue
			}
			seen[key] = true
			vals := []any{hx.Pick(r, deepVals)}
			if r.Chance(5) {
				vals = append(vals, hx.Pick(r, deepVals))
			}
			q = append(q, []any{key, vals})
		}
		emit(c05Case(deepCl, name, hx.Pick(r, deepSchemas), map[string]any{"query": q}, r.Chance(40), false))
	}
	// ---- D3. deepObject at every depth: objects in objects, arrays of objects, arrays of arrays, nested free-form maps
	nObj := func(req []any, addl any, kv ...any) map[string]any {
		props := []any{}
		for i := 0; i+1 < len(kv); i += 2 {
			props = append(props, []any{kv[i], kv[i+1]})
		}
		return map[string]any{"k": "obj", "props": props, "required": req, "addl": addl}
	}
	nArr := func(items map[string]any) map[string]any { return map[string]any{"k": "arr", "items": items} }
	asNest := func(m map[string]any) map[string]any { return c05With(m, "k", "nest") }
	inner := nObj([]any{}, nil, "z", c05PS("string"), "w", nArr(c05PS("integer")), "r", nObj([]any{"u"}, nil, "u", c05PS("boolean")))
	nest1 := asNest(nObj([]any{}, nil, "a", c05PS("integer"), "o", nObj([]any{}, nil, "x", c05With(c05PS("integer"), "max", 6), "q", inner),
		"l", nArr(nObj([]any{}, nil, "k", c05PS("integer"), "s", c05PS("string"))), "m", nArr(nArr(c05PS("integer"))),
		"t", nObj([]any{}, c05PS("number"))))
	nest2 := asNest(nObj([]any{"o"}, nObj([]any{}, nil, "v", c05PS("integer")), "o", nObj([]any{"q"}, c05PS("string"), "q", inner)))
	nest3 := asNest(nObj([]any{}, nArr(c05PS("int32")), "a", c05PS("boolean"), "l", nArr(nArr(nObj([]any{}, nil, "k", c05PS("number"))))))
	nestSchemas := []map[string]any{nest1, nest2, nest3}
	// well-formed leaves per schema: key suffix -> texts (first = well typed)
	nestLeaves := [][]dk{
		{{"[a]", []string{"7", "x"}}, {"[o][x]", []string{"5", "9", "z"}}, {"[o][q][z]", []string{"dave", ""}}, {"[o][q][w][0]", []string{"1"}},
			{"[o][q][w][1]", []string{"2", "q"}}, {"[o][q][r][u]", []string{"true", "no"}}, {"[l][0][k]", []string{"3"}}, {"[l][1][s]", []string{"v"}},
			{"[l][1][k]", []string{"4", "k"}}, {"[m][0][0]", []string{"1"}}, {"[m][0][1]", []string{"2"}}, {"[m][1][0]", []string{"3", "x"}},
			{"[t][any]", []string{"1.5", "n"}}, {"[t][b]", []string{"2"}}, {"[zz][y]", []string{"1"}}},
		{{"[o][q][z]", []string{"dave"}}, {"[o][q][w][0]", []string{"1", "w"}}, {"[o][q][r][u]", []string{"false"}}, {"[o][free]", []string{"s"}},
			{"[e1][v]", []string{"5", "x"}}, {"[e2][v]", []string{"6"}}, {"[e2][zz]", []string{"1"}}, {"[o][q][r][zz]", []string{"1"}}},
		{{"[a]", []string{"true", "1x"}}, {"[l][0][0][k]", []string{"1.5", "k"}}, {"[l][0][1][k]", []string{"2"}}, {"[l][1][0][k]", []string{"3"}},
			{"[n1][0]", []string{"4", "2147483648"}}, {"[n1][1]", []string{"5"}}, {"[n2][0]", []string{"6"}}},
	}
	for si, sch := range nestSchemas {
		parts := nestLeaves[si]
		for ni, name := range allNames {
			if ni >= 2 && ni%3 != si%3 {
				continue
			}
			nSub := 300
			if ctx.Thorough() {
				nSub = 4000
			}
			for i := 0; i < nSub; i++ {
				q := []any{}
				for bi, part := range parts {
					if !r.Chance(35) {
						continue
					}
					v := part.vals[0]
					if r.Chance(15) {
						v = part.vals[(i+bi)%len(part.vals)]
					}
					q = append(q, []any{name + part.key, []any{v}})
				}
				if len(q) == 0 {
					continue
				}
				emit(c05Case(deepCl, name, sch, map[string]any{"query": q}, i%3 == 0, false))
			}
			for mode := 0; mode < 3; mode++ {
				for _, req := range bools {
					emit(c05Case(deepCl, name, sch, c05AbsentCar(deepCl, name, mode), req, false))
				}
			}
		}
	}
	// random key soup of depth 1–5 over the segment vocabulary of the nested schemas: clashes, scalars for maps, maps for scalars,
	// holes, foreign keys, junk after the brackets
	nSegs := []string{"a", "o", "x", "q", "z", "w", "r", "u", "l", "m", "k", "s", "t", "v", "e1", "n1", "0", "1", "2", "zz", "any", "1024", "1025", "3000"}
	nSoup := 4000
	if ctx.Thorough() {
		nSoup = 80000
	}
	for i := 0; i < nSoup; i++ {
		name := hx.Pick(r, allNames)
		sch := hx.Pick(r, nestSchemas)
		q := []any{}
		seen := map[string]bool{}
		for j, k := 0, 1+r.Intn(5); j < k; j++ {
			key := name
			for d, dn := 0, 1+r.Intn(5); d < dn; d++ {
				key += "[" + hx.Pick(r, nSegs) + "]"
			}
			if r.Chance(4) {
				key += hx.Pick(r, []string{"zz", "[", "]"})
			}
			if seen[key] {
				continue
			}
			seen[key] = true
			vals := []any{hx.Pick(r, deepVals)}
			if r.Chance(4) {
				vals = append(vals, hx.Pick(r, deepVals))
			}
			q = append(q, []any{key, vals})
		}
		emit(c05Case(deepCl, name, sch, map[string]any{"query": q}, r.Chance(40), false))
	}
	// ---- H. content-described parameters: location × media keys × schema × JSON / non-JSON texts × number of values × flags
	cSchemas := []any{c05PS("integer"), c05With(c05PS("number"), "max", 2), c05PS("string"), c05With(c05PS("string"), "enum", []any{"a", "dave"}), c05PS("boolean"),
		map[string]any{"k": "arr", "items": c05PS("integer")}, map[string]any{"k": "arr", "items": c05PS("string"), "minItems": 2},
		objSchemas[1], map[string]any{"k": "anyOf", "alts": []any{c05PS("integer"), c05PS("boolean")}}, nil}
	cTexts := []string{"5", "-3", "1.5", "true", "null", "dave", "\"dave\"", "\"a\"", "[1,2]", "[\"a\",\"b\"]", "[]", "{}", "{\"a\":1}", "{\"a\":\"x\",\"b\":\"y\"}",
		"{\"b\":\"y\"}", "a,b", "{a:1}", "[1,", "", "1 2", "[[1]]", "{\"a\":{\"z\":1}}"}
	cMedia := [][]any{{"application/json"}, {"application/json"}, {"*/*"}, {"application/*"}, {"text/plain"}, {"application/json", "text/plain"}, {}, {"application/json; charset=utf-8"}}
	for li, loc := range []string{"path", "query", "header", "cookie"} {
		cl := c05Cell{loc, "", false}
		for mi, media := range cMedia {
			for si, sch := range cSchemas {
				if mi >= 2 && (si+mi)%3 != 0 {
					continue
				}
				for ti, txt := range cTexts {
					if !ctx.Thorough() && mi >= 1 && (ti+si)%2 == 1 {
						continue
					}
					if loc == "cookie" && !c05CookieSafe(txt) {
						continue
					}
					var car map[string]any
					switch loc {
					case "path":
						car = map[string]any{"path": txt}
					case "query":
						car = map[string]any{"query": []any{[]any{"p", []any{txt}}}}
					case "header":
						car = map[string]any{"header": []any{txt}}
					default:
						car = map[string]any{"cookie": txt}
					}
					c := c05Case(cl, "p", nil, car, (ti+si+li)%2 == 0, ti%5 == 0)
					c["mode"], c["media"], c["schema"] = "content", media, sch
					emit0(c)
				}
				// several values (query: array of items; header: refused), no value, absent
				multi := [][]string{{"1", "2"}, {"a", "b"}, {"\"a\"", "\"b\""}, {"1", "x"}, {"[1]", "2"}, {"null", "1"}}
				for vi, vs := range multi {
					l := []any{}
					for _, v := range vs {
						l = append(l, v)
					}
					if loc == "query" {
						c := c05Case(cl, "p", nil, map[string]any{"query": []any{[]any{"p", l}}}, vi%2 == 0, false)
						c["mode"], c["media"], c["schema"] = "content", media, sch
						emit0(c)
					}
					if loc == "header" {
						c := c05Case(cl, "p", nil, map[string]any{"header": l}, vi%2 == 0, false)
						c["mode"], c["media"], c["schema"] = "content", media, sch
						emit0(c)
					}
				}
				for mode := 0; mode < 3; mode++ {
					for _, req := range bools {
						c := c05Case(cl, "p", nil, c05AbsentCar(c05Cell{loc, "", false}, "p", mode), req, mode == 1 && req)
						c["mode"], c["media"], c["schema"] = "content", media, sch
						emit0(c)
					}
				}
			}
		}
	}
	// ---- E. compositions over pairs of leaf schemas
	leaves := []map[string]any{c05PS("integer"), c05PS("string"), c05PS("boolean"), c05With(c05PS("integer"), "max", 6), c05PS("number"),
		{"k": "arr", "items": c05PS("integer")}, {"k": "arr", "items": c05PS("string")}, objSchemas[0], objSchemas[1]}
	// … and leaves whose values / enums meet across alternatives (a value read by one alternative is validated against all)
	leaves = append(leaves, c05PS("int32"), c05With(c05PS("integer"), "enum", []any{5, 12}),
		map[string]any{"k": "arr", "items": c05PS("integer"), "enum": []any{[]any{1, 2}}}, map[string]any{"k": "arr", "items": c05PS("int32")},
		map[string]any{"k": "untyped", "enum": []any{}})
	compRaw := []string{"5", "12", "true", "dave", "1,2", "a,5", "a,5,b,x", "a=5", "1.5", "", "a,x"}
	for _, cl := range c05Cells {
		if cl.style == "deepObject" {
			continue
		}
		for _, k := range []string{"allOf", "anyOf", "oneOf"} {
			for i, l1 := range leaves {
				for j, l2 := range leaves {
					if !ctx.Thorough() && (i+j)%2 == 1 {
						continue
					}
					sch := map[string]any{"k": k, "alts": []any{l1, l2}}
					for ri, raw := range compRaw {
						if !ctx.Thorough() && (ri+i+j)%3 != 0 {
							continue
						}
						car, ok := c05Encode(cl, "p", "prim", raw, nil, nil)
						if !ok {
							// query styles without a primitive form: put the text as the only value
							car = map[string]any{"query": []any{[]any{"p", []any{raw}}}}
						}
						if !c05CarrierSafe(cl, car) {
							continue
						}
						emit(c05Case(cl, "p", sch, car, (i+ri)%2 == 0, false))
					}
					emit(c05Case(cl, "p", sch, c05AbsentCar(cl, "p", 0), (i+j)%2 == 0, false))
					emit(c05Case(cl, "p", sch, c05AbsentCar(cl, "p", 2), (i+j)%2 == 0, false))
				}
			}
		}
	}
	// ---- E2. compositions × values serialised for the cell (arrays and objects in their proper style form), every cell incl. deepObject
	type cv struct {
		kind string
		prim string
		arr  []string
		obj  [][2]string
	}
	compVals := []cv{{"prim", "5", nil, nil}, {"prim", "dave", nil, nil}, {"arr", "", []string{"1", "2"}, nil}, {"arr", "", []string{"a", "b"}, nil},
		{"arr", "", []string{"7"}, nil}, {"obj", "", nil, [][2]string{{"a", "5"}, {"b", "x"}}}, {"obj", "", nil, [][2]string{{"a", "x"}}}, {"obj", "", nil, [][2]string{{"b", "y"}}}}
	for ci, cl := range c05Cells {
		for ki, k := range []string{"allOf", "anyOf", "oneOf"} {
			for i, l1 := range leaves {
				for j, l2 := range leaves {
					if !ctx.Thorough() && (i+j+ci)%2 == 1 {
						continue
					}
					sch := map[string]any{"k": k, "alts": []any{l1, l2}}
					for vi, v := range compVals {
						if !ctx.Thorough() && (vi+i+ki)%2 == 1 {
							continue
						}
						name := allNames[(ci+i+j+vi)%len(allNames)]
						if !nameOK(cl, name) {
							name = "p"
						}
						car, ok := c05Encode(cl, name, v.kind, v.prim, v.arr, v.obj)
						if !ok || !c05CarrierSafe(cl, car) {
							continue
						}
						emit(c05Case(cl, name, sch, car, (i+vi)%2 == 0, false))
					}
				}
			}
		}
	}
	// ---- F. free / malformed carrier texts
	toks := []string{"1", "-2", "12", "a", "id", "p", "b", "true", "false", "x", "0x1F", "010", "+5", "00", "0b11", "0o17", "08", "1.5", "1e2", "-", "", "dave", "5", "0", "1_0", "-0", "+0x1", "NaN", "inf", "+Infinity", "nan"}
	seps := []string{",", ",", ".", ";", "=", "|", " ", ";p=", ";id=", "", "&"}
	allLeaves := append(append([]map[string]any{}, leaves...), c05PS("int32"), map[string]any{"k": "arr", "items": c05PS("number")},
		map[string]any{"k": "arr", "items": c05PS("boolean")}, objSchemas[2], objSchemas[3], map[string]any{"k": "arr", "items": c05PS("int32")})
	nFree := 9000
	if ctx.Thorough() {
		nFree = 400000
	}
	for i := 0; i < nFree; i++ {
		cl := hx.Pick(r, c05Cells)
		if cl.style == "deepObject" {
			continue
		}
		name := hx.Pick(r, names)
		if r.Chance(30) {
			name = hx.Pick(r, special)
			if !nameOK(cl, name) {
				name = "p"
			}
		}
		sch := hx.Pick(r, allLeaves)
		mk := func() string {
			var sb strings.Builder
			switch {
			case cl.in != "path":
			case r.Chance(75):
				switch cl.style {
				case "label":
					sb.WriteString(".")
				case "matrix":
					if jstr(sch, "k") == "obj" && cl.explode {
						sb.WriteString(";")
					} else {
						sb.WriteString(";" + name + "=")
					}
				}
			case r.Chance(50):
				sb.WriteString(hx.Pick(r, []string{".", ";", ";" + name, ";p=", ";id=", ";x="}))
			}
			n := 1 + r.Intn(5)
			var sep string
			if r.Chance(70) {
				sep = hx.Pick(r, seps)
			}
			for j := 0; j < n; j++ {
				if j > 0 {
					if sep != "" || r.Chance(50) {
						if sep != "" {
							sb.WriteString(sep)
						} else {
							sb.WriteString(hx.Pick(r, seps))
						}
					}
				}
				sb.WriteString(hx.Pick(r, toks))
				if jstr(sch, "k") == "obj" && r.Chance(50) {
					sb.WriteString(hx.Pick(r, []string{"=", ","}))
					sb.WriteString(hx.Pick(r, toks))
				}
			}
			return sb.String()
		}
		var car map[string]any
		switch cl.in {
		case "path":
			car = map[string]any{"path": mk()}
			if r.Chance(10) {
				car["pathOthers"] = true
			}
		case "header":
			car = map[string]any{"header": []any{mk()}}
		case "cookie":
			s := mk()
			if !c05CookieSafe(s) {
				continue
			}
			car = map[string]any{"cookie": s}
		default:
			q := []any{}
			seen := map[string]bool{}
			for j, k := 0, 1+r.Intn(3); j < k; j++ {
				key := hx.Pick(r, []string{name, name, "a", "b", "id", "zz", "n"})
				if seen[key] {
					continue
				}
				seen[key] = true
				vals := []any{mk()}
				for r.Chance(25) {
					vals = append(vals, mk())
				}
				q = append(q, []any{key, vals})
			}
			car = map[string]any{"query": q}
		}
		emit(c05Case(cl, name, sch, car, r.Chance(40), r.Chance(20)))
	}
}

// ---------------------------------------------------------------- shrinker

func c05DropChars(s string) []string {
	var out []string
	rs := []rune(s)
	if len(rs) > 4 {
		out = append(out, string(rs[:len(rs)/2]), string(rs[len(rs)/2:]))
	}
	for i := range rs {
		out = append(out, string(rs[:i])+string(rs[i+1:]))
	}
	return out
}

func shrinkC05(c hx.Case) []hx.Case {
	if jstr(c, "mode") == "req" {
		return c05ShrinkReq(c)
	}
	var out []hx.Case
	if c["enc"] != nil {
		x := cloneCase(c)
		x["enc"] = nil
		return []hx.Case{x}
	}
	for _, k := range []string{"required", "allowEmpty", "useDefaults", "omitStyle", "omitExplode"} {
		if jbool(c, k) {
			x := cloneCase(c)
			x[k] = false
			out = append(out, x)
		}
	}
	// schema: drop alternatives, constraints, properties
	if sm, ok := c["schema"].(map[string]any); ok {
		put := func(ns map[string]any) {
			x := cloneCase(c)
			x["schema"] = ns
			out = append(out, x)
		}
		if alts := jlist(sm["alts"]); len(alts) > 0 {
			for _, a := range alts {
				if am, ok := a.(map[string]any); ok {
					put(am)
				}
			}
			if len(alts) > 1 {
				for _, n := range dropEach(alts) {
					put(c05With(sm, "alts", n))
				}
			}
		}
		for _, k := range []string{"min", "max", "enum", "minItems", "maxItems", "addl"} {
			if v, ok := sm[k]; ok && v != nil {
				ns := c05With(sm)
				delete(ns, k)
				if k == "addl" {
					ns[k] = nil
				}
				put(ns)
			}
		}
		for _, k := range []string{"props", "required"} {
			if l := jlist(sm[k]); len(l) > 0 {
				for _, n := range dropEach(l) {
					put(c05With(sm, k, n))
				}
			}
		}
		if it, ok := sm["items"].(map[string]any); ok {
			for _, k := range []string{"min", "max", "enum"} {
				if v, ok := it[k]; ok && v != nil {
					ni := c05With(it)
					delete(ni, k)
					put(c05With(sm, "items", ni))
				}
			}
		}
	}
	// carrier strings
	for _, k := range []string{"path", "cookie"} {
		if s, ok := c[k].(string); ok {
			for _, n := range c05DropChars(s) {
				if k == "cookie" && !c05CookieSafe(n) {
					continue
				}
				x := cloneCase(c)
				x[k] = n
				out = append(out, x)
			}
		}
	}
	if h, ok := c["header"].([]any); ok && len(h) > 0 {
		s, _ := h[0].(string)
		for _, n := range c05DropChars(s) {
			x := cloneCase(c)
			x["header"] = []any{n}
			out = append(out, x)
		}
	}
	if q := jlist(c["query"]); len(q) > 0 {
		if len(q) > 1 {
			for _, n := range dropEach(q) {
				x := cloneCase(c)
				x["query"] = n
				out = append(out, x)
			}
		}
		for i, kv := range q {
			p := jlist(kv)
			if len(p) != 2 {
				continue
			}
			vals := jlist(p[1])
			if len(vals) > 1 {
				for _, n := range dropEach(vals) {
					x := cloneCase(c)
					nq := append([]any{}, q...)
					nq[i] = []any{p[0], n}
					x["query"] = nq
					out = append(out, x)
				}
			}
			for vi, v := range vals {
				s, _ := v.(string)
				for _, n := range c05DropChars(s) {
					x := cloneCase(c)
					nq := append([]any{}, q...)
					nv := append([]any{}, vals...)
					nv[vi] = n
					nq[i] = []any{p[0], nv}
					x["query"] = nq
					out = append(out, x)
				}
			}
		}
	}
	sort.SliceStable(out, func(i, j int) bool { return len(hx.Canon(out[i])) < len(hx.Canon(out[j])) })
	return out
}
