package main

// C03 — keys of the map-like containers (Responses, Paths, Callback) and of the named maps (components collections,
// properties, encoding, content, v2 definitions / responses), in unusual but legal spellings: lower / mixed-case status
// ranges, keys that differ only in case, keys with spaces, escapes, quotes, non-ASCII letters, numeric-looking and
// keyword-looking keys, `default` vs `Default`. The round trip must give every key back exactly as written and keep two
// keys that differ only in spelling apart. Each key alone (every format of the kind), pairs of near-equal keys, and whole
// documents through the Loader.

import (
	"kinverif/internal/hx"
)

var c03KeysResponses = []string{"2xx", "2XX", "4Xx", "5xX", "1xX", "3xx", "default", "Default", "DEFAULT", "200", "099", "0200", "1e2", "2xxx", "xx2", "X-up", "20x"}
var c03PairsResponses = [][]string{{"2xx", "2XX"}, {"4Xx", "4XX", "4xx"}, {"default", "Default"}, {"200", "0200"}, {"5xX", "5Xx"}}
var c03KeysPaths = []string{"/A", "/a b", "/a%20b", "/ü", "/a\"q", "/1", "/a/", "//", "/{ID}", "/a~1b", "/A/{id}", "/a.b", "/a;v=1", "/2xx", "/default"}
var c03PairsPaths = [][]string{{"/a", "/A"}, {"/a b", "/a%20b"}, {"/a", "/a/"}, {"/{id}", "/{ID}"}}
var c03KeysNames = []string{"A", "a b", "{$request.body#/URL}", "HTTP://CB", "200", "1e2", "2xx", "true", "null", "Default", "default", "ü", "k\"q", "a.b", "a/b", "a~1b", "a%20b", "X-up", "0", "-1", "~", "yes"}
var c03PairsNames = [][]string{{"cb", "CB"}, {"a", "A"}, {"2xx", "2XX"}, {"default", "Default"}, {"a b", "a%20b"}, {"1", "01"}}

func genC03Keys(ctx *hx.Ctx, emit func(hx.Case)) {
	resp := func() any { return map[string]any{"description": "d"} }
	item := func() any { return map[string]any{"description": "d"} }
	type ml struct {
		kind  string
		keys  []string
		pairs [][]string
		val   func() any
	}
	for _, m := range []ml{
		{"maplike:openapi3.Responses", c03KeysResponses, c03PairsResponses, resp},
		{"maplike:openapi3.Paths", c03KeysPaths, c03PairsPaths, item},
		{"maplike:openapi3.Callback", c03KeysNames, c03PairsNames, item},
	} {
		k, ok := c03ByName[m.kind]
		if !ok {
			continue
		}
		formats := c03FormatsOf(k)
		for _, key := range m.keys {
			for _, f := range formats {
				c03Emit(emit, k, f, map[string]any{key: m.val()}, false)
			}
		}
		for i, p := range m.pairs {
			doc := map[string]any{"x-k": 1}
			for _, key := range p {
				doc[key] = m.val()
			}
			c03Emit(emit, k, formats[i%len(formats)], doc, false)
			if ctx.Thorough() {
				for _, f := range formats {
					c03Emit(emit, k, f, doc, false)
				}
			}
		}
	}
	// named maps, through the kinds that hold them
	colls := func(keys []string) map[string]any {
		mk := func(v func() any) map[string]any {
			out := map[string]any{}
			for _, key := range keys {
				out[key] = v()
			}
			return out
		}
		return map[string]any{
			"schemas":         mk(func() any { return map[string]any{"type": "string"} }),
			"responses":       mk(resp),
			"parameters":      mk(func() any { return map[string]any{"name": "p", "in": "query"} }),
			"examples":        mk(func() any { return map[string]any{"summary": "s"} }),
			"headers":         mk(func() any { return map[string]any{"description": "h"} }),
			"securitySchemes": mk(func() any { return map[string]any{"type": "http", "scheme": "basic"} }),
			"links":           mk(func() any { return map[string]any{"operationId": "o"} }),
			"callbacks":       mk(func() any { return map[string]any{"cb": item()} }),
		}
	}
	holders := []struct {
		kind string
		doc  func(keys []string) map[string]any
	}{
		{"kind:openapi3.Components", colls},
		{"kind:openapi3.Schema", func(keys []string) map[string]any {
			p := map[string]any{}
			for _, key := range keys {
				p[key] = map[string]any{"type": "string"}
			}
			return map[string]any{"type": "object", "properties": p}
		}},
		{"kind:openapi3.MediaType", func(keys []string) map[string]any {
			e, x := map[string]any{}, map[string]any{}
			for _, key := range keys {
				e[key] = map[string]any{"contentType": "a/b"}
				x[key] = map[string]any{"summary": "s"}
			}
			return map[string]any{"encoding": e, "examples": x}
		}},
		{"kind:openapi3.Response", func(keys []string) map[string]any {
			c, h := map[string]any{}, map[string]any{}
			for _, key := range keys {
				c[key] = map[string]any{"example": 1}
				h[key] = map[string]any{"description": "h"}
			}
			return map[string]any{"description": "d", "content": c, "headers": h}
		}},
		{"kind:openapi2.T", func(keys []string) map[string]any {
			d, r := map[string]any{}, map[string]any{}
			for _, key := range keys {
				d[key] = map[string]any{"type": "string"}
				r[key] = map[string]any{"description": "d"}
			}
			return map[string]any{"swagger": "2.0", "info": map[string]any{"title": "t", "version": "1"}, "paths": map[string]any{}, "definitions": d, "responses": r}
		}},
		{"kind:openapi2.Operation", func(keys []string) map[string]any {
			r := map[string]any{}
			for _, key := range keys {
				r[key] = map[string]any{"description": "d"}
			}
			return map[string]any{"responses": r}
		}},
	}
	for hi, h := range holders {
		k, ok := c03ByName[h.kind]
		if !ok {
			continue
		}
		formats := c03FormatsOf(k)
		keys := c03KeysNames
		pairs := c03PairsNames
		if h.kind == "kind:openapi2.Operation" {
			keys, pairs = c03KeysResponses, c03PairsResponses
		}
		for i, key := range keys {
			c03Emit(emit, k, formats[(i+hi)%len(formats)], h.doc([]string{key}), false)
			if ctx.Thorough() {
				for _, f := range formats {
					c03Emit(emit, k, f, h.doc([]string{key}), false)
				}
			}
		}
		for i, p := range pairs {
			c03Emit(emit, k, formats[(i+hi+1)%len(formats)], h.doc(p), false)
		}
	}
	// whole documents through the Loader: response keys and path keys
	tk := c03ByName["kind:openapi3.T"]
	whole := func(paths map[string]any) map[string]any {
		return map[string]any{"openapi": "3.0.3", "info": map[string]any{"title": "t", "version": "1"}, "paths": paths}
	}
	op := func(keys []string) map[string]any {
		r := map[string]any{}
		for _, key := range keys {
			r[key] = resp()
		}
		return map[string]any{"get": map[string]any{"responses": r}}
	}
	lf := []string{"json", "yaml"}
	for i, key := range c03KeysResponses {
		c03Emit(emit, tk, lf[i%2], whole(map[string]any{"/a": op([]string{key})}), true)
	}
	for i, p := range c03PairsResponses {
		c03Emit(emit, tk, lf[i%2], whole(map[string]any{"/a": op(p)}), true)
	}
	for i, key := range c03KeysPaths {
		if key == "/{ID}" || key == "/A/{id}" {
			continue // a templated path needs its path parameter declared for the loader's document; covered at kind level
		}
		c03Emit(emit, tk, lf[(i+1)%2], whole(map[string]any{key: op([]string{"200"})}), true)
	}
	for i, p := range c03PairsPaths[:3] {
		ps := map[string]any{}
		for _, key := range p {
			ps[key] = op([]string{"200"})
		}
		c03Emit(emit, tk, lf[i%2], whole(ps), true)
	}
}
