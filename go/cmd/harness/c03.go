package main

// C03 — marshalling then reloading a document loses and invents nothing.
// Real code exercised: the hand-written UnmarshalJSON / MarshalJSON / MarshalYAML of every object kind of
// openapi3 and openapi2 (through encoding/json, oasdiff/yaml and oasdiff/yaml3), and Loader.LoadFromData for
// whole v3 documents. A case is {kind, wrap, fmt, doc}: doc is parsed into the Go type of the kind, serialised
// (first), parsed again, serialised again (second).

import (
	"bytes"
	"encoding/json"
	"fmt"
	"math"
	"os"
	"reflect"
	"sort"
	"strconv"
	"strings"
	"sync"

	"github.com/getkin/kin-openapi/openapi2"
	"github.com/getkin/kin-openapi/openapi3"
	"github.com/oasdiff/yaml"
	yaml3 "github.com/oasdiff/yaml3"

	"kinverif/internal/hx"
)

func init() {
	hx.Register(&hx.Prop{
		ID: "C03",
		Rule: "type-directed by reflection over the library's own structs. Exhaustive: every object kind of openapi3 and openapi2 (struct kinds, reference wrappers, map-like containers) × every single field × every value variant of the field's Go type " +
			"(non-default, redundant default, null, empty, $ref with and without siblings, $ref that is empty / null / not a string, type lists that are empty, hold null or are ill-typed) × 3 extension shapes (none, x- extension, unknown key) × writers/readers (encoding/json, oasdiff/yaml, yaml3 via MarshalYAML); every pair of fields of every kind; " +
			"the Schema post-processing grid format × example (flat and nested); " +
			"then a seeded random stream of nested documents (depth ≤ 4; 400 per kind quick, 8000 thorough) of every kind, whole v3 documents through Loader.LoadFromData (800 / 20000; components that are chains of references, paths that refer to other paths) and whole v2 documents. " +
			"The Loader route, directed (c03loader.go): every reference site of every component kind (schemas in properties / items / allOf / anyOf / oneOf / not / additionalProperties / parameter / header / media type; parameters of path items and operations; headers of responses and encodings; request bodies; responses; security schemes; examples; links; callbacks) × " +
			"{direct, chain of 2, chain of 3, fragment in another file, chain inside another file, chain through another file back into the root, whole other file} with IsExternalRefsAllowed and an in-memory ReadFromURIFunc; path-item references: single, chains of 2 and 3 in either declaration order, shared target, templated path, in a callback, whole other file, other file that is itself a reference, fragment of another file, chain inside another file, a referenced path item whose own callback refers back to it (key met again while in progress: directly, through a chain, from two referrers); wrappers met again while in progress: self-referring and mutually referring schemas (properties, items, additionalProperties, allOf, through an alias), a callback component used by its own operation. Keys, directed: every map-like container (Responses, Paths, Callback) and the named maps (components collections, properties, encoding, examples, content, headers, v2 definitions / responses) × keys in unusual but legal spellings (lower / mixed-case status ranges, default vs Default, spaces, percent and ~ escapes, quotes, non-ASCII, numeric- and keyword-looking keys) alone, pairs / triples of keys that differ only in case or escaping, and the response / path keys in whole documents through the Loader. " +
			"Each of them through three entry points: LoadFromData(WithPath), LoadFromFile on real files in a fresh directory, json/yaml.Unmarshal + ResolveRefsIn. For these the loaded document is serialised and compared with the input (every $ref text as written, nothing of the resolved value). One case compares the harness's registry of kinds with the object kinds of the regenerated table. " +
			"A case is non-trivial when the model reports a branch (a kind visited, a field kept, a default dropped, a required key added, an extension or unknown key kept, a reference taken, siblings dropped, …); the branch spec.normal counts the cases in deep normal form, excl.notClean those outside the scope of the deep theorems.",
		Exhaustive: true,
		Gen:        genC03,
		Run:        runC03,
		RunChild:   runC03Direct,
		Compare:    cmpC03,
		Shrink:     shrinkC03,
		Workers:    12,
		Assumptions: []string{
			"numbers in generated documents are integers below 2^31 and multiples of 0.5 (exact in float64 and printed identically by encoding/json and the YAML writers)",
			"encoding/json, oasdiff/yaml, oasdiff/yaml3 and marshmallow are exercised, not modelled: leaf values are opaque to the model",
			"a generated document that the library refuses to parse is outside the property's quantifier (counted as outcome kind 'unparsed')",
		},
	})
}

// ------------------------------------------------------------------ registry of kinds

type c03Kind struct {
	name string
	wrap string // kind | ref | maplike
	typ  reflect.Type
}

var c03Kinds []c03Kind
var c03ByName = map[string]c03Kind{}

func c03Reg(wrap string, v any) {
	t := reflect.TypeOf(v)
	pkg := t.PkgPath()[strings.LastIndex(t.PkgPath(), "/")+1:]
	k := c03Kind{name: pkg + "." + t.Name(), wrap: wrap, typ: t}
	c03Kinds = append(c03Kinds, k)
	c03ByName[k.wrap+":"+k.name] = k
}

func init() {
	for _, v := range []any{openapi3.T{}, openapi3.Components{}, openapi3.Contact{}, openapi3.Discriminator{}, openapi3.Encoding{}, openapi3.Example{},
		openapi3.ExternalDocs{}, openapi3.Header{}, openapi3.Info{}, openapi3.License{}, openapi3.Link{}, openapi3.MediaType{}, openapi3.OAuthFlow{}, openapi3.OAuthFlows{},
		openapi3.Operation{}, openapi3.Parameter{}, openapi3.PathItem{}, openapi3.RequestBody{}, openapi3.Response{}, openapi3.Schema{}, openapi3.SecurityScheme{},
		openapi3.Server{}, openapi3.ServerVariable{}, openapi3.Tag{}, openapi3.XML{},
		openapi2.T{}, openapi2.Header{}, openapi2.Operation{}, openapi2.Parameter{}, openapi2.PathItem{}, openapi2.Response{}, openapi2.Schema{}, openapi2.SecurityScheme{}} {
		c03Reg("kind", v)
	}
	for _, v := range []any{openapi3.CallbackRef{}, openapi3.ExampleRef{}, openapi3.HeaderRef{}, openapi3.LinkRef{}, openapi3.ParameterRef{}, openapi3.RequestBodyRef{},
		openapi3.ResponseRef{}, openapi3.SchemaRef{}, openapi3.SecuritySchemeRef{}, openapi2.SchemaRef{}} {
		c03Reg("ref", v)
	}
	for _, v := range []any{openapi3.Paths{}, openapi3.Responses{}, openapi3.Callback{}} {
		c03Reg("maplike", v)
	}
}

// ------------------------------------------------------------------ running the real code

func c03Read(format string, data []byte, target any) error {
	if format == "json" {
		return json.Unmarshal(data, target)
	}
	return yaml.Unmarshal(data, target)
}

// c03Write serialises v with the writer of the format and returns (bytes in that format, the same as JSON)
func c03Write(format string, v any) ([]byte, []byte, error) {
	switch format {
	case "json":
		b, err := json.Marshal(v)
		return b, b, err
	case "yaml":
		b, err := yaml.Marshal(v)
		if err != nil {
			return nil, nil, err
		}
		j, err := yaml.YAMLToJSON(b)
		return b, j, err
	default: // yaml3: the MarshalYAML methods are called by the YAML encoder itself
		b, err := yaml3.Marshal(v)
		if err != nil {
			return nil, nil, err
		}
		j, err := yaml.YAMLToJSON(b)
		return b, j, err
	}
}

func c03Canon(v any) any {
	switch x := v.(type) {
	case map[string]any:
		out := make(map[string]any, len(x))
		for k, e := range x {
			out[k] = c03Canon(e)
		}
		return out
	case []any:
		out := make([]any, len(x))
		for i, e := range x {
			out[i] = c03Canon(e)
		}
		return out
	case json.Number:
		f, err := x.Float64()
		if err != nil {
			return "num:" + x.String()
		}
		return "num:" + strconv.FormatFloat(f, 'g', -1, 64)
	case float64:
		return "num:" + strconv.FormatFloat(x, 'g', -1, 64)
	case int:
		return "num:" + strconv.FormatFloat(float64(x), 'g', -1, 64)
	}
	return v
}

func c03Parse(b []byte) (any, error) {
	dec := json.NewDecoder(bytes.NewReader(b))
	dec.UseNumber()
	var v any
	err := dec.Decode(&v)
	return v, err
}

// runC03: whole documents go through the loader, which sets Value next to Ref on every reference — a
// marshaller that then follows Value can recurse without end (fatal stack overflow), so those cases are
// evaluated in a child process; everything else runs in-process.
func runC03(c hx.Case) any {
	if jbool(c, "listKinds") {
		// the kinds this harness can generate (its reflection registry), to be compared with the rows of the table
		out := []string{}
		for _, k := range c03Kinds {
			out = append(out, k.wrap+":"+k.name)
		}
		sort.Strings(out)
		return map[string]any{"kind": "registry", "kinds": out}
	}
	if jbool(c, "loader") {
		return hx.RunIsolated("C03", c, 20000)
	}
	return runC03Direct(c)
}

func runC03Direct(c hx.Case) any {
	wrap := jstr(c, "wrap")
	if wrap == "" {
		wrap = "kind"
	}
	k, ok := c03ByName[strings.TrimSuffix(wrap, "+loader")+":"+jstr(c, "kind")]
	if !ok {
		return map[string]any{"kind": "harness-error", "err": "unknown kind " + jstr(c, "kind")}
	}
	format := jstr(c, "fmt")
	if format == "" {
		format = "json"
	}
	in, err := json.Marshal(c["doc"])
	if err != nil {
		return map[string]any{"kind": "harness-error", "err": err.Error()}
	}
	if format != "json" {
		if in, err = yaml.JSONToYAML(in); err != nil {
			return map[string]any{"kind": "harness-error", "err": err.Error()}
		}
	}
	useLoader := jbool(c, "loader") && k.name == "openapi3.T"
	files, _ := c["files"].(map[string]any)
	entry := jstr(c, "entry")
	load := func(data []byte) (any, error) {
		if useLoader {
			switch entry {
			case "file":
				return c03LoadFromFile(data, files)
			case "resolveIn":
				// json/yaml.Unmarshal first, then Loader.ResolveRefsIn on the parsed document
				var doc openapi3.T
				if err := c03Read(format, data, &doc); err != nil {
					return nil, err
				}
				ld, loc := c03NewLoader(files)
				if err := ld.ResolveRefsIn(&doc, loc); err != nil {
					return nil, err
				}
				return &doc, nil
			}
			ld, loc := c03NewLoader(files)
			if loc != nil {
				return ld.LoadFromDataWithPath(data, loc)
			}
			return ld.LoadFromData(data)
		}
		x := reflect.New(k.typ).Interface()
		return x, c03Read(format, data, x)
	}
	x, err := load(in)
	if err != nil {
		return map[string]any{"kind": "unparsed", "err": err.Error()}
	}
	b1, j1, err := c03Write(format, x)
	if err != nil {
		return map[string]any{"kind": "marshal-error", "stage": "first", "err": err.Error()}
	}
	first, err := c03Parse(j1)
	if err != nil {
		return map[string]any{"kind": "marshal-error", "stage": "first-not-json", "err": err.Error(), "text": string(j1)}
	}
	y, err := load(b1)
	if err != nil {
		return map[string]any{"kind": "reload-error", "err": err.Error(), "first": c03Canon(first)}
	}
	_, j2, err := c03Write(format, y)
	if err != nil {
		return map[string]any{"kind": "marshal-error", "stage": "second", "err": err.Error(), "first": c03Canon(first)}
	}
	second, err := c03Parse(j2)
	if err != nil {
		return map[string]any{"kind": "marshal-error", "stage": "second-not-json", "err": err.Error()}
	}
	return map[string]any{"kind": "ok", "first": c03Canon(first), "second": c03Canon(second)}
}

// cmpC03 with an optional debugging log of every disagreement (C03_DEBUG=<file>)
func cmpC03(c hx.Case, impl any, reply map[string]any) hx.Verdict {
	v := cmpC03x(c, impl, reply)
	if p := os.Getenv("C03_DEBUG"); p != "" && (!v.IM || !v.IS) {
		c03DebugMu.Lock()
		if f, err := os.OpenFile(p, os.O_APPEND|os.O_CREATE|os.O_WRONLY, 0o644); err == nil {
			b, _ := json.Marshal(map[string]any{"case": c, "im": v.IM, "is": v.IS, "detail": v.Detail, "excl": reply["excl"]})
			f.Write(append(b, '\n'))
			f.Close()
		}
		c03DebugMu.Unlock()
	}
	return v
}

var c03DebugMu sync.Mutex

func cmpC03x(c hx.Case, impl any, reply map[string]any) hx.Verdict {
	im, _ := impl.(map[string]any)
	if jbool(c, "listKinds") {
		have := toStrs(im["kinds"])
		want := toStrs(reply["model"])
		if !sameStrs(have, want, false) {
			return hx.Verdict{IM: false, IS: true, Detail: fmt.Sprintf("the generator's registry of kinds %v differs from the object kinds of the descriptor table %v: a kind of the library is not generated (or no longer exists)", have, want)}
		}
		return hx.Verdict{IM: true, IS: true}
	}
	model, _ := reply["model"].(map[string]any)
	spec, _ := reply["spec"].(map[string]any)
	if im == nil || model == nil || spec == nil {
		return hx.Verdict{IM: false, IS: true, Detail: "missing observation"}
	}
	normal := jbool(spec, "normal")
	if _, crashed := im["crash"]; crashed || jbool(im, "hang") {
		return hx.Verdict{IM: false, IS: false, Detail: "serialising the loaded document crashed or hung: " + hx.Canon(im)}
	}
	switch jstr(im, "kind") {
	case "panic", "":
		if _, p := im["panic"]; p {
			mf, _ := model["first"].(map[string]any)
			return hx.Verdict{IM: mf != nil && jbool(mf, "panic"), IS: false, Detail: "implementation panicked: " + fmt.Sprint(im["panic"]) + " at " + fmt.Sprint(im["site"])}
		}
		return hx.Verdict{IM: false, IS: true, Detail: "unexpected observation " + hx.Canon(im)}
	case "harness-error":
		return hx.Verdict{IM: false, IS: true, Detail: "harness: " + jstr(im, "err")}
	case "unparsed":
		if mf, _ := model["first"].(map[string]any); mf != nil && jbool(mf, "unparsed") {
			return hx.Verdict{IM: true, IS: true} // the model says so too (typing of `Types`)
		}
		if jbool(c, "mustLoad") {
			// a directed loader document: built so that every reference resolves
			return hx.Verdict{IM: false, IS: true, Detail: "directed loader document refused: " + jstr(im, "err")}
		}
		// outside the quantifier; a document the specification side calls normal is well-typed and must parse
		// (the loader applies document-level checks of its own while resolving references: not a parsing matter)
		if normal && !jbool(c, "loader") {
			return hx.Verdict{IM: false, IS: true, Detail: "normal-form document refused by the parser: " + jstr(im, "err")}
		}
		return hx.Verdict{IM: true, IS: true}
	case "marshal-error", "reload-error":
		return hx.Verdict{IM: false, IS: false, Detail: jstr(im, "kind") + ": the parsed document cannot be serialised and parsed again: " + jstr(im, "err")}
	}
	for _, l := range jlist(reply["branches"]) {
		if l == "table.miss" {
			return hx.Verdict{IM: false, IS: true, Detail: "kind missing from the descriptor table"}
		}
	}
	doc := hx.Canon(c03Canon(c["doc"]))
	first, second := hx.Canon(im["first"]), hx.Canon(im["second"])
	mfirst, msecond := hx.Canon(c03Canon(model["first"])), hx.Canon(c03Canon(model["second"]))
	v := hx.Verdict{IM: true, IS: true}
	imEqual := first == mfirst && second == msecond
	if !imEqual && jstr(c, "fmt") == "yaml3" {
		// the yaml3 encoder writes a nil slice as [] and a nil map as {} where encoding/json writes null: a
		// convention of the writer, not of the marshallers; the model is writer-agnostic, so for this writer the
		// model/implementation comparison (only that one) identifies null, [] and {}
		imEqual = hx.Canon(c03NilNorm(im["first"])) == hx.Canon(c03NilNorm(c03Canon(model["first"]))) &&
			hx.Canon(c03NilNorm(im["second"])) == hx.Canon(c03NilNorm(c03Canon(model["second"])))
	}
	if !imEqual {
		v.IM = false
		v.Detail = fmt.Sprintf("impl first %s second %s; model first %s second %s", first, second, mfirst, msecond)
	}
	if second != first {
		v.IS = false
		v.Detail = fmt.Sprintf("not stable: first serialisation %s, after reload %s", first, second)
	} else if normal && first != doc {
		v.IS = false
		v.Detail = fmt.Sprintf("normal-form input %s serialises to %s (%s)", doc, first, c03Diff(c["doc"], im["first"]))
	}
	return v
}

func c03NilNorm(v any) any {
	switch x := v.(type) {
	case nil:
		return "∅"
	case map[string]any:
		if len(x) == 0 {
			return "∅"
		}
		out := make(map[string]any, len(x))
		for k, e := range x {
			out[k] = c03NilNorm(e)
		}
		return out
	case []any:
		if len(x) == 0 {
			return "∅"
		}
		out := make([]any, len(x))
		for i, e := range x {
			out[i] = c03NilNorm(e)
		}
		return out
	}
	return v
}

// c03Diff names the first differing path of two JSON values (for messages only).
func c03Diff(a, b any) string {
	a, b = c03Canon(a), c03Canon(b)
	var rec func(p string, x, y any) string
	rec = func(p string, x, y any) string {
		xm, xok := x.(map[string]any)
		ym, yok := y.(map[string]any)
		if xok && yok {
			keys := map[string]bool{}
			for k := range xm {
				keys[k] = true
			}
			for k := range ym {
				keys[k] = true
			}
			ks := []string{}
			for k := range keys {
				ks = append(ks, k)
			}
			sort.Strings(ks)
			for _, k := range ks {
				xv, xin := xm[k]
				yv, yin := ym[k]
				if !xin {
					return p + "/" + k + " invented"
				}
				if !yin {
					return p + "/" + k + " lost"
				}
				if d := rec(p+"/"+k, xv, yv); d != "" {
					return d
				}
			}
			return ""
		}
		xl, xok := x.([]any)
		yl, yok := y.([]any)
		if xok && yok && len(xl) == len(yl) {
			for i := range xl {
				if d := rec(p+"/"+strconv.Itoa(i), xl[i], yl[i]); d != "" {
					return d
				}
			}
			return ""
		}
		if hx.Canon(x) != hx.Canon(y) {
			return p + " changed"
		}
		return ""
	}
	return rec("", a, b)
}

// ------------------------------------------------------------------ type-directed generation

type c03Gen struct {
	r      *hx.Rng
	sloppy int  // percent chance of a redundant default / null / sibling at every choice point
	loader bool // references must be resolvable by the loader; path-item refs are avoided
}

var (
	tAny       = reflect.TypeOf((*any)(nil)).Elem()
	tTypes     = reflect.TypeOf(openapi3.Types{})
	tAddProps  = reflect.TypeOf(openapi3.AdditionalProperties{})
	c03_tOrigin    = reflect.TypeOf(openapi3.Origin{})
	c03Strings = []string{"s", "a b", "x-y", "true", "12", "2020-01-02", "null", "é✓", "a: b", "#/x", "~", "0x1f", " lead", "multi\nline", "date", "2020-01-02T00:00:00Z", "T00:00:00Z", "[]", "{}", "1e3", "-", "yes"}
)

func c03IsRefWrapper(t reflect.Type) bool {
	if t.Kind() != reflect.Struct {
		return false
	}
	_, r := t.FieldByName("Ref")
	_, v := t.FieldByName("Value")
	return r && v
}

func c03IsMaplike(t reflect.Type) (reflect.Type, bool) {
	if t.Kind() != reflect.Struct {
		return nil, false
	}
	f, ok := t.FieldByName("m")
	if !ok || f.Type.Kind() != reflect.Map {
		return nil, false
	}
	return f.Type.Elem(), true
}

// collection name of the components section a wrapper's references point into
func c03Collection(t reflect.Type) string {
	switch t.Name() {
	case "SchemaRef":
		if strings.HasSuffix(t.PkgPath(), "openapi2") {
			return "#/definitions/"
		}
		return "#/components/schemas/"
	case "ParameterRef":
		return "#/components/parameters/"
	case "HeaderRef":
		return "#/components/headers/"
	case "RequestBodyRef":
		return "#/components/requestBodies/"
	case "ResponseRef":
		return "#/components/responses/"
	case "SecuritySchemeRef":
		return "#/components/securitySchemes/"
	case "ExampleRef":
		return "#/components/examples/"
	case "LinkRef":
		return "#/components/links/"
	case "CallbackRef":
		return "#/components/callbacks/"
	}
	return "#/x/"
}

type c03Field struct {
	key string
	typ reflect.Type
}

func c03Fields(t reflect.Type) []c03Field {
	var out []c03Field
	for i := 0; i < t.NumField(); i++ {
		f := t.Field(i)
		if f.Anonymous {
			ft := f.Type
			if ft.Kind() == reflect.Struct {
				out = append(out, c03Fields(ft)...)
			}
			continue
		}
		if !f.IsExported() {
			continue
		}
		tag := strings.Split(f.Tag.Get("json"), ",")[0]
		if tag == "" || tag == "-" || tag == "__origin__" {
			continue
		}
		out = append(out, c03Field{tag, f.Type})
	}
	return out
}

func (g *c03Gen) num() any {
	switch g.r.Intn(6) {
	case 0:
		return 0
	case 1:
		return 1.5
	case 2:
		return -2
	case 3:
		return 100000
	case 4:
		return 2.5
	}
	return g.r.Intn(50) + 1
}

func (g *c03Gen) leafAny(depth int) any {
	switch g.r.Intn(8) {
	case 0:
		return hx.Pick(g.r, c03Strings)
	case 1:
		return g.num()
	case 2:
		return g.r.Bool()
	case 3:
		if depth > 0 {
			return []any{g.leafAny(depth - 1), g.leafAny(depth - 1)}
		}
		return []any{}
	case 4:
		if depth > 0 {
			return map[string]any{"k": g.leafAny(depth - 1), "$ref": "not-a-ref", "description": ""}
		}
		return map[string]any{}
	case 5:
		return ""
	case 6:
		return 0
	}
	return "v" + strconv.Itoa(g.r.Intn(9))
}

func (g *c03Gen) sl() bool { return g.r.Chance(g.sloppy) }

// value generates a JSON value for a Go field type.
func (g *c03Gen) value(t reflect.Type, depth int) any {
	if t.Kind() == reflect.Pointer {
		if g.sl() && g.r.Chance(30) {
			return nil
		}
		e := t.Elem()
		switch e.Kind() {
		case reflect.Float64:
			return g.num()
		case reflect.Uint64:
			return g.r.Intn(10)
		case reflect.Bool:
			return g.r.Bool()
		case reflect.String:
			if g.r.Chance(20) {
				return ""
			}
			return hx.Pick(g.r, c03Strings)
		}
		return g.value(e, depth)
	}
	switch {
	case t == tAny:
		if g.sl() && g.r.Chance(30) {
			return nil
		}
		return g.leafAny(2)
	case t == tTypes:
		switch {
		case g.sl():
			return hx.Pick(g.r, []any{[]any{"string"}, []any{}, nil})
		case g.r.Chance(70):
			return hx.Pick(g.r, []string{"string", "object", "integer", "array"})
		}
		return []any{"string", "null"}
	case t == tAddProps:
		switch g.r.Intn(4) {
		case 0:
			return true
		case 1:
			return false
		case 2:
			if g.sl() {
				return map[string]any{}
			}
		}
		f, _ := reflect.TypeOf(openapi3.Schema{}).FieldByName("Items")
		return g.value(f.Type, depth)
	}
	switch t.Kind() {
	case reflect.String:
		if g.sl() {
			return ""
		}
		return hx.Pick(g.r, c03Strings)
	case reflect.Bool:
		if g.sl() {
			return false
		}
		return true
	case reflect.Uint64, reflect.Int, reflect.Int64:
		if g.sl() {
			return 0
		}
		return g.r.Intn(20) + 1
	case reflect.Float64:
		return g.num()
	case reflect.Interface:
		return g.leafAny(2)
	case reflect.Slice:
		if g.sl() {
			return hx.Pick(g.r, []any{[]any{}, nil})
		}
		n := 1 + g.r.Intn(2)
		out := []any{}
		for i := 0; i < n; i++ {
			out = append(out, g.value(t.Elem(), depth-1))
		}
		return out
	case reflect.Map:
		if g.sl() {
			return hx.Pick(g.r, []any{map[string]any{}, nil})
		}
		n := 1 + g.r.Intn(2)
		out := map[string]any{}
		for i := 0; i < n; i++ {
			k := hx.Pick(g.r, []string{"A", "b", "application/json", "k1", "x-m"})
			e := g.value(t.Elem(), depth-1)
			if e == nil && !g.sl() {
				continue
			}
			out[k] = e
		}
		if len(out) == 0 && !g.sl() {
			out["A"] = g.value(t.Elem(), 0)
		}
		return out
	case reflect.Struct:
		return g.object(t, depth)
	}
	return nil
}

// object generates a JSON object for a struct kind, a reference wrapper or a map-like container.
func (g *c03Gen) object(t reflect.Type, depth int) any {
	if c03IsRefWrapper(t) {
		vf, _ := t.FieldByName("Value")
		if depth <= 0 || g.r.Chance(35) {
			out := map[string]any{"$ref": c03Collection(t) + hx.Pick(g.r, []string{"A", "B"})}
			if g.sl() {
				out["x-sib"] = g.leafAny(1)
				if g.r.Bool() {
					out["description"] = "sibling"
				}
			}
			return out
		}
		return g.value(vf.Type.Elem(), depth)
	}
	if et, ok := c03IsMaplike(t); ok {
		out := map[string]any{}
		var keys []string
		switch t.Name() {
		case "Paths":
			keys = []string{"/a", "/b/{id}", "/"}
		case "Responses":
			keys = []string{"200", "default", "4XX"}
		default:
			keys = []string{"{$request.body#/url}", "http://cb"}
		}
		n := g.r.Intn(3)
		if !g.sl() && n == 0 {
			n = 1
		}
		for i := 0; i < n; i++ {
			v := g.value(et, depth-1)
			if v == nil && !g.sl() {
				v = map[string]any{}
			}
			out[hx.Pick(g.r, keys)] = v
		}
		if g.r.Chance(30) {
			out["x-ext"] = g.leafAny(1)
		}
		return out
	}
	out := map[string]any{}
	fields := c03Fields(t)
	if len(fields) == 0 {
		return out
	}
	// required-looking fields (no omitempty) are mostly present
	for i := 0; i < t.NumField(); i++ {
		f := t.Field(i)
		tag := f.Tag.Get("json")
		key := strings.Split(tag, ",")[0]
		if key == "" || key == "-" || strings.Contains(tag, "omitempty") || !f.IsExported() {
			continue
		}
		if !g.sl() || g.r.Bool() {
			out[key] = g.value(f.Type, depth-1)
			if out[key] == nil && !g.sl() {
				delete(out, key)
				out[key] = g.nonNil(f.Type, depth-1)
			}
		}
	}
	if t.Name() == "RequestBody" && (!g.sl() || g.r.Bool()) {
		out["content"] = g.nonNil(reflect.TypeOf(openapi3.Content{}), depth-1)
	}
	n := g.r.Intn(4)
	if depth <= 0 {
		n = g.r.Intn(2)
	}
	if t.Name() == "Schema" || t.Name() == "Parameter" {
		n += g.r.Intn(4)
	}
	for i := 0; i < n; i++ {
		f := hx.Pick(g.r, fields)
		if f.key == "$ref" && (g.loader || !g.sl()) {
			continue
		}
		if depth <= 0 && c03Deep(f.typ) {
			continue
		}
		v := g.value(f.typ, depth-1)
		if v == nil && !g.sl() {
			continue
		}
		out[f.key] = v
	}
	if g.r.Chance(25) {
		out["x-"+hx.Pick(g.r, []string{"a", "ext", "Z-1"})] = g.leafAny(2)
	}
	if g.r.Chance(10) {
		out[hx.Pick(g.r, []string{"bogus", "x_y", "$id", "unknownKey"})] = g.leafAny(1)
	}
	return out
}

func (g *c03Gen) nonNil(t reflect.Type, depth int) any {
	s := g.sloppy
	g.sloppy = 0
	defer func() { g.sloppy = s }()
	for i := 0; i < 5; i++ {
		if v := g.value(t, depth); v != nil {
			return v
		}
	}
	return map[string]any{}
}

func c03Deep(t reflect.Type) bool {
	for t.Kind() == reflect.Pointer || t.Kind() == reflect.Slice || t.Kind() == reflect.Map {
		t = t.Elem()
	}
	return t.Kind() == reflect.Struct && t != tTypes
}

// ------------------------------------------------------------------ value variants for the exhaustive part

// variants lists JSON values for one field type: non-default values first, then the redundant defaults.
func c03Variants(g *c03Gen, t reflect.Type) []any {
	if t.Kind() == reflect.Pointer {
		e := t.Elem()
		switch e.Kind() {
		case reflect.Float64:
			return []any{1.5, 0, -3, nil}
		case reflect.Uint64:
			return []any{7, 0, nil}
		case reflect.Bool:
			return []any{true, false, nil}
		case reflect.String:
			return []any{"d", "", nil}
		}
		return append(c03Variants(g, e), nil)
	}
	switch {
	case t == tAny:
		return []any{"e", 0, "", false, []any{}, map[string]any{}, map[string]any{"k": []any{1, "a"}}, nil}
	case t == tTypes:
		// the last five are refused (or repaired: null element ↦ "") by Types.UnmarshalJSON
		return []any{"string", []any{"string", "null"}, []any{"integer"}, []any{}, []any{nil}, []any{"string", nil}, 5, []any{5}, true, map[string]any{}}
	case t == tAddProps:
		return []any{true, false, map[string]any{"type": "string"}, map[string]any{"$ref": "#/components/schemas/A"}, map[string]any{}, nil}
	}
	switch t.Kind() {
	case reflect.String:
		return []any{"s", "true", ""}
	case reflect.Bool:
		return []any{true, false}
	case reflect.Uint64, reflect.Int, reflect.Int64:
		return []any{3, 0}
	case reflect.Interface:
		return []any{"e", 0, nil}
	case reflect.Slice:
		out := []any{}
		for _, e := range c03Variants(g, t.Elem()) {
			out = append(out, []any{e})
		}
		if len(out) > 3 {
			out = out[:3]
		}
		if ev := c03Variants(g, t.Elem()); len(ev) > 1 {
			out = append(out, []any{ev[0], ev[1]})
		}
		return append(out, []any{nil}, []any{}, nil)
	case reflect.Map:
		out := []any{}
		for _, e := range c03Variants(g, t.Elem()) {
			out = append(out, map[string]any{"A": e})
		}
		if len(out) > 4 {
			out = out[:4]
		}
		if ev := c03Variants(g, t.Elem()); len(ev) > 1 {
			out = append(out, map[string]any{"A": ev[0], "x-b": ev[1]})
		}
		return append(out, map[string]any{"A": nil}, map[string]any{}, nil)
	case reflect.Struct:
		if c03IsRefWrapper(t) {
			vf, _ := t.FieldByName("Value")
			ref := c03Collection(t) + "A"
			out := []any{map[string]any{"$ref": ref}, map[string]any{"$ref": ref, "x-sib": 1, "description": "sibling"}, map[string]any{"$ref": ""},
				map[string]any{"$ref": 5}, map[string]any{"$ref": nil, "description": "d"}, map[string]any{"$ref": "", "description": "d", "x-e": 1}}
			return append(out, c03Variants(g, vf.Type.Elem())...)
		}
		g1 := &c03Gen{r: g.r, sloppy: 0}
		g2 := &c03Gen{r: g.r, sloppy: 40}
		return []any{map[string]any{}, g1.object(t, 1), g1.object(t, 2), g2.object(t, 2)}
	}
	return []any{nil}
}

func c03Minimal(k c03Kind) map[string]any { return map[string]any{} }

var c03AllFormats = []string{"json", "yaml", "yaml3"}

// c03FormatsOf: the yaml3 writer calls MarshalYAML itself; kinds without that method (most of openapi2) are only
// ever written through MarshalJSON (encoding/json, oasdiff/yaml)
func c03FormatsOf(k c03Kind) []string {
	if _, ok := reflect.PointerTo(k.typ).MethodByName("MarshalYAML"); ok {
		return c03AllFormats
	}
	return c03AllFormats[:2]
}

func c03Emit(emit func(hx.Case), k c03Kind, format string, doc any, loader bool) {
	c := hx.Case{"kind": k.name, "wrap": k.wrap, "fmt": format, "doc": c03Plain(doc)}
	if loader {
		c["loader"] = true
	}
	emit(c)
}

// c03Plain converts ints/floats produced by the generator into json.Number-free plain JSON (through encoding/json)
func c03Plain(v any) any {
	b, _ := json.Marshal(v)
	var out any
	dec := json.NewDecoder(bytes.NewReader(b))
	dec.UseNumber()
	dec.Decode(&out)
	return out
}

func genC03(ctx *hx.Ctx, emit func(hx.Case)) {
	r := ctx.Rng
	g := &c03Gen{r: r, sloppy: 0}
	emit(hx.Case{"listKinds": true}) // the registry below covers every object kind of the regenerated table
	exts := []map[string]any{{}, {"x-ext": map[string]any{"a": []any{1, "b"}}}, {"unknownKey": "u"}}
	// 1. exhaustive: every kind × every field × every variant × extension shape × format
	for _, k := range c03Kinds {
		c03Formats := c03FormatsOf(k)
		var fields []c03Field
		switch k.wrap {
		case "kind":
			fields = c03Fields(k.typ)
		case "ref":
			for fi, format := range c03Formats {
				for _, v := range c03Variants(g, k.typ) {
					if v == nil {
						continue
					}
					c03Emit(emit, k, format, v, false)
					_ = fi
				}
			}
			continue
		case "maplike":
			et, _ := c03IsMaplike(k.typ)
			keys := map[string][]string{"Paths": {"/a", "/b/{id}"}, "Responses": {"200", "default"}, "Callback": {"{$request.body#/url}", "cb"}}[k.typ.Name()]
			for _, format := range c03Formats {
				for _, v := range c03Variants(g, et) {
					for _, e := range exts[:2] {
						doc := map[string]any{keys[0]: v}
						for ek, ev := range e {
							doc[ek] = ev
						}
						c03Emit(emit, k, format, doc, false)
					}
				}
				c03Emit(emit, k, format, map[string]any{}, false)
				vs := c03Variants(g, et)
				c03Emit(emit, k, format, map[string]any{keys[0]: vs[0], keys[1]: vs[len(vs)-2], "x-a": nil, "x-b": 1}, false)
			}
			continue
		}
		for _, format := range c03Formats {
			for ei, e := range exts {
				base := func() map[string]any {
					d := map[string]any{}
					for ek, ev := range e {
						d[ek] = ev
					}
					return d
				}
				c03Emit(emit, k, format, base(), false)
				for _, f := range fields {
					vs := c03Variants(g, f.typ)
					for vi, v := range vs {
						if !ctx.Thorough() && format != "json" && ei > 0 && vi > 1 {
							continue // quick tier: the YAML writers see every field with its first two variants under every extension shape
						}
						d := base()
						d[f.key] = v
						c03Emit(emit, k, format, d, false)
					}
				}
			}
		}
		// pairs of fields (first variant of each; second variant of the second in thorough)
		for i := range fields {
			for j := i + 1; j < len(fields); j++ {
				vi, vj := c03Variants(g, fields[i].typ), c03Variants(g, fields[j].typ)
				format := c03Formats[(i+j)%len(c03Formats)]
				c03Emit(emit, k, format, map[string]any{fields[i].key: vi[0], fields[j].key: vj[0]}, false)
				if ctx.Thorough() && len(vj) > 1 {
					c03Emit(emit, k, c03Formats[(i+j+1)%len(c03Formats)], map[string]any{fields[i].key: vi[0], fields[j].key: vj[1], "x-p": true}, false)
				}
			}
		}
		// all fields at once
		for _, format := range c03Formats {
			d := map[string]any{"x-all": 1}
			for _, f := range fields {
				if f.key == "$ref" {
					continue
				}
				d[f.key] = c03Variants(g, f.typ)[0]
			}
			c03Emit(emit, k, format, d, false)
		}
	}
	// 1b. the post-processing of Schema.UnmarshalJSON: every format × example shape, flat and nested
	sk := c03ByName["kind:openapi3.Schema"]
	for _, f := range []any{"date", "date-time", "datetime", "Date", "time", "", nil} {
		for _, e := range []any{"2020-01-02T00:00:00Z", "2020-01-02T00:00:00ZT00:00:00Z", "T00:00:00Z", "2020-01-02T00:00:00z", "2020-01-02", "", 5, nil, []any{"2020-01-02T00:00:00Z"}} {
			for i, format := range c03AllFormats {
				d := map[string]any{"type": "string"}
				if f != nil {
					d["format"] = f
				}
				if e != nil {
					d["example"] = e
				}
				c03Emit(emit, sk, format, d, false)
				if i == 0 || ctx.Thorough() {
					c03Emit(emit, sk, format, map[string]any{"items": d, "default": e}, false)
				}
			}
		}
	}
	// 2. random nested documents of every kind
	n := 400
	if ctx.Thorough() {
		n = 8000
	}
	for i := 0; i < n; i++ {
		for _, k := range c03Kinds {
			gg := &c03Gen{r: r, sloppy: []int{0, 0, 15, 40}[r.Intn(4)]}
			depth := 1 + r.Intn(3)
			if k.name == "openapi3.T" || k.name == "openapi2.T" {
				depth = 3 + r.Intn(2)
			}
			c03Emit(emit, k, hx.Pick(r, c03FormatsOf(k)), gg.object(k.typ, depth), false)
		}
	}
	// 2b. the Loader route, directed: every reference site × every reference form, path-item references
	genC03Loader(ctx, emit)
	// 2c. keys of the map-like containers and named maps in unusual but legal spellings
	genC03Keys(ctx, emit)
	// 3. whole v3 documents through the loader (references resolvable)
	m := 800
	if ctx.Thorough() {
		m = 20000
	}
	tk := c03ByName["kind:openapi3.T"]
	for i := 0; i < m; i++ {
		gg := &c03Gen{r: r, sloppy: []int{0, 0, 10}[r.Intn(3)], loader: true}
		doc, _ := gg.object(tk.typ, 4).(map[string]any)
		doc["openapi"] = "3.0.3"
		if _, ok := doc["info"].(map[string]any); !ok {
			doc["info"] = map[string]any{"title": "t", "version": "1"}
		}
		if _, ok := doc["paths"].(map[string]any); !ok {
			doc["paths"] = map[string]any{}
		}
		c03Resolvable(gg, doc)
		if r.Chance(50) {
			c03PathRefs(gg, doc)
		}
		format := "json"
		if i%3 == 1 {
			format = "yaml"
		}
		c03Emit(emit, tk, format, doc, true)
	}
}

// c03Resolvable adds a component for every "#/components/<collection>/<name>" reference of the document.
func c03Resolvable(g *c03Gen, doc map[string]any) {
	types := map[string]reflect.Type{
		"schemas": reflect.TypeOf(openapi3.Schema{}), "parameters": reflect.TypeOf(openapi3.Parameter{}), "headers": reflect.TypeOf(openapi3.Header{}),
		"requestBodies": reflect.TypeOf(openapi3.RequestBody{}), "responses": reflect.TypeOf(openapi3.Response{}), "securitySchemes": reflect.TypeOf(openapi3.SecurityScheme{}),
		"examples": reflect.TypeOf(openapi3.Example{}), "links": reflect.TypeOf(openapi3.Link{}), "callbacks": reflect.TypeOf(openapi3.Callback{}),
	}
	chained := map[string]bool{}
	for round := 0; round < 4; round++ {
		refs := map[string]bool{}
		var walk func(v any)
		walk = func(v any) {
			switch x := v.(type) {
			case map[string]any:
				if s, ok := x["$ref"].(string); ok && strings.HasPrefix(s, "#/components/") {
					refs[s] = true
				}
				for _, e := range x {
					walk(e)
				}
			case []any:
				for _, e := range x {
					walk(e)
				}
			}
		}
		walk(doc)
		comps, _ := doc["components"].(map[string]any)
		if comps == nil {
			if len(refs) == 0 {
				return
			}
			comps = map[string]any{}
			doc["components"] = comps
		}
		added := false
		for ref := range refs {
			parts := strings.Split(strings.TrimPrefix(ref, "#/components/"), "/")
			if len(parts) != 2 || types[parts[0]] == nil {
				continue
			}
			coll, _ := comps[parts[0]].(map[string]any)
			if coll == nil {
				coll = map[string]any{}
				comps[parts[0]] = coll
			}
			if cur, ok := coll[parts[1]].(map[string]any); ok {
				if _, isRef := cur["$ref"]; !isRef || chained[ref] {
					continue
				}
			}
			if round < 2 && g.r.Chance(30) {
				// a chain: this component is itself a reference to a fresh one, made real by a later round
				coll[parts[1]] = map[string]any{"$ref": "#/components/" + parts[0] + "/" + parts[1] + "x"}
				chained[ref] = true
			} else {
				gg := &c03Gen{r: g.r, sloppy: 0, loader: true}
				coll[parts[1]] = gg.object(types[parts[0]], 0)
			}
			added = true
		}
		if !added {
			return
		}
	}
}

// ------------------------------------------------------------------ shrinking: drop keys / elements anywhere

func shrinkC03(c hx.Case) []hx.Case {
	var out []hx.Case
	var paths [][]any
	var walk func(v any, p []any)
	walk = func(v any, p []any) {
		if len(paths) > 400 {
			return
		}
		switch x := v.(type) {
		case map[string]any:
			ks := []string{}
			for k := range x {
				ks = append(ks, k)
			}
			sort.Strings(ks)
			for _, k := range ks {
				paths = append(paths, append(append([]any{}, p...), k))
			}
			for _, k := range ks {
				walk(x[k], append(append([]any{}, p...), k))
			}
		case []any:
			for i := range x {
				paths = append(paths, append(append([]any{}, p...), i))
			}
			for i := range x {
				walk(x[i], append(append([]any{}, p...), i))
			}
		}
	}
	walk(c["doc"], nil)
	for _, p := range paths {
		x := cloneCase(c)
		x["doc"] = c03Remove(c["doc"], p)
		out = append(out, x)
	}
	if jstr(c, "fmt") != "json" {
		x := cloneCase(c)
		x["fmt"] = "json"
		out = append(out, x)
	}
	return out
}

func c03Remove(v any, p []any) any {
	if len(p) == 0 {
		return v
	}
	switch x := v.(type) {
	case map[string]any:
		k := p[0].(string)
		out := map[string]any{}
		for kk, e := range x {
			if kk == k {
				if len(p) > 1 {
					out[kk] = c03Remove(e, p[1:])
				}
				continue
			}
			out[kk] = e
		}
		return out
	case []any:
		i := p[0].(int)
		out := []any{}
		for j, e := range x {
			if j == i {
				if len(p) > 1 {
					out = append(out, c03Remove(e, p[1:]))
				}
				continue
			}
			out = append(out, e)
		}
		return out
	}
	return v
}

var _ = math.Abs
