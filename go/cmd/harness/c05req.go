package main

// C05, mode "req" — whole requests through openapi3filter.ValidateRequest over a route whose path item AND operation
// declare parameters (overrides by location+name, ExcludeRequestQueryParams, MultiError), as a *sequence* of calls on
// one loaded document. Observed: per call the failing parameters (location, name, error kind) in the order reported,
// and after the last call the document's two parameter lists (slot → index of the ParameterRef that was loaded there).
// Model and specification: lean/KinModel/StyleRequest.lean (runCalls / specCalls).

import (
	"context"
	"errors"
	"fmt"
	"net/http"
	"net/url"
	"sort"
	"strings"

	"github.com/getkin/kin-openapi/openapi3"
	"github.com/getkin/kin-openapi/openapi3filter"
	"github.com/getkin/kin-openapi/routers"

	"kinverif/internal/hx"
)

func c05ReqParam(m map[string]any) *openapi3.Parameter {
	sm, _ := m["schema"].(map[string]any)
	p := &openapi3.Parameter{Name: jstr(m, "name"), In: jstr(m, "in"), Required: jbool(m, "required"),
		AllowEmptyValue: jbool(m, "allowEmpty"), Schema: c05Schema(sm).NewRef()}
	if !jbool(m, "useDefaults") && !jbool(m, "omitStyle") {
		p.Style = jstr(m, "style")
	}
	if !jbool(m, "useDefaults") && !jbool(m, "omitExplode") {
		ex := jbool(m, "explode")
		p.Explode = &ex
	}
	return p
}

func c05ReqParams(v any) openapi3.Parameters {
	var out openapi3.Parameters // nil when the document declares none
	for _, x := range jlist(v) {
		m, _ := x.(map[string]any)
		out = append(out, &openapi3.ParameterRef{Value: c05ReqParam(m)})
	}
	return out
}

func c05ReqInput(rm map[string]any) *openapi3filter.RequestValidationInput {
	req, _ := http.NewRequest("GET", "http://example.com/x", nil)
	in := &openapi3filter.RequestValidationInput{Request: req}
	if pp := jlist(rm["pathParams"]); len(pp) > 0 {
		in.PathParams = map[string]string{}
		for _, kv := range pp {
			p := jlist(kv)
			if len(p) == 2 {
				k, _ := p[0].(string)
				v, _ := p[1].(string)
				in.PathParams[k] = v
			}
		}
	}
	if q := jlist(rm["query"]); len(q) > 0 {
		vals := url.Values{}
		for _, kv := range q {
			p := jlist(kv)
			if len(p) != 2 {
				continue
			}
			k, _ := p[0].(string)
			for _, v := range jlist(p[1]) {
				s, _ := v.(string)
				vals.Add(k, s)
			}
		}
		req.URL.RawQuery = vals.Encode()
	}
	for _, kv := range jlist(rm["headers"]) {
		p := jlist(kv)
		if len(p) != 2 {
			continue
		}
		k, _ := p[0].(string)
		vs := []string{}
		for _, v := range jlist(p[1]) {
			s, _ := v.(string)
			vs = append(vs, s)
		}
		req.Header[http.CanonicalHeaderKey(k)] = vs
	}
	var cks []string
	for _, kv := range jlist(rm["cookies"]) {
		p := jlist(kv)
		if len(p) == 2 {
			k, _ := p[0].(string)
			v, _ := p[1].(string)
			cks = append(cks, k+"="+v)
		}
	}
	if len(cks) > 0 {
		req.Header["Cookie"] = []string{strings.Join(cks, "; ")}
	}
	return in
}

func c05ReqErr(err error) []any {
	var re *openapi3filter.RequestError
	if !errors.As(err, &re) || re.Parameter == nil {
		return []any{"?", "?", "other"}
	}
	var se *openapi3.SchemaError
	var me openapi3.MultiError
	kind := ""
	switch {
	case errors.Is(re.Err, openapi3filter.ErrInvalidRequired):
		kind = "missing"
	case errors.Is(re.Err, openapi3filter.ErrInvalidEmptyValue):
		kind = "empty"
	case errors.As(re.Err, &se) || errors.As(re.Err, &me):
		kind = "schema"
	default:
		kind = c05ErrKind(re.Err)
	}
	return []any{re.Parameter.In, re.Parameter.Name, kind}
}

func c05SlotIdx(now, loaded openapi3.Parameters) []any {
	out := []any{}
	for _, r := range now {
		idx := -1
		for i, l := range loaded {
			if l == r {
				idx = i
				break
			}
		}
		out = append(out, idx)
	}
	return out
}

func c05RunReq(c hx.Case) any {
	pi := c05ReqParams(c["pathItem"])
	ops := c05ReqParams(c["operation"])
	loadedPI := append(openapi3.Parameters{}, pi...)
	loadedOps := append(openapi3.Parameters{}, ops...)
	item := &openapi3.PathItem{Parameters: pi}
	op := &openapi3.Operation{Parameters: ops}
	item.Get = op
	route := &routers.Route{Spec: &openapi3.T{}, PathItem: item, Operation: op, Method: "GET", Path: "/x"}
	calls := []any{}
	for _, cv := range jlist(c["calls"]) {
		cm, _ := cv.(map[string]any)
		rm, _ := cm["req"].(map[string]any)
		in := c05ReqInput(rm)
		in.Route = route
		in.Options = &openapi3filter.Options{ExcludeRequestQueryParams: jbool(cm, "excludeQuery"), MultiError: jbool(cm, "multi")}
		if jbool(cm, "nilOptions") && !jbool(cm, "excludeQuery") && !jbool(cm, "multi") {
			in.Options = nil // ValidateRequest supplies &Options{}
		}
		err := openapi3filter.ValidateRequest(context.Background(), in)
		var me openapi3.MultiError
		switch {
		case err == nil:
			calls = append(calls, map[string]any{"k": "ok", "errs": []any{}})
		case jbool(cm, "multi") && errors.As(err, &me):
			errs := []any{}
			for _, e := range me {
				errs = append(errs, c05ReqErr(e))
			}
			calls = append(calls, map[string]any{"k": "multi", "errs": errs})
		default:
			calls = append(calls, map[string]any{"k": "first", "errs": []any{c05ReqErr(err)}})
		}
	}
	return map[string]any{"calls": calls,
		"doc": map[string]any{"pathItem": c05SlotIdx(item.Parameters, loadedPI), "operation": c05SlotIdx(op.Parameters, loadedOps)}}
}

func c05ErrKeys(v any) []string {
	out := []string{}
	for _, e := range jlist(v) {
		out = append(out, strings.Join(toStrs(e), "\x1f"))
	}
	return out
}

func c05CmpReq(c hx.Case, im, model, spec map[string]any) hx.Verdict {
	v := hx.Verdict{IM: true, IS: true}
	if hx.Canon(im["doc"]) != hx.Canon(model["doc"]) {
		v.IM = false
		v.Detail = fmt.Sprintf("document after the calls: impl %s, model %s", hx.Canon(im["doc"]), hx.Canon(model["doc"]))
	}
	if hx.Canon(im["doc"]) != hx.Canon(spec["doc"]) {
		v.IS = false
		v.Detail = fmt.Sprintf("the calls changed the loaded document: parameter slots now hold %s (loaded: %s)", hx.Canon(im["doc"]), hx.Canon(spec["doc"]))
	}
	ic, mc, sc := jlist(im["calls"]), jlist(model["calls"]), jlist(spec["calls"])
	if len(ic) != len(mc) || len(ic) != len(sc) {
		return hx.Verdict{IM: false, IS: false, Detail: "number of calls differs"}
	}
	for i := range ic {
		io, _ := ic[i].(map[string]any)
		mo, _ := mc[i].(map[string]any)
		if hx.Canon(io) != hx.Canon(mo) && v.IM {
			v.IM = false
			v.Detail = fmt.Sprintf("call %d: impl %s, model %s", i, hx.Canon(io), hx.Canon(mo))
		}
		ie, se := c05ErrKeys(io["errs"]), c05ErrKeys(sc[i])
		ok := true
		switch jstr(io, "k") {
		case "ok":
			ok = len(se) == 0
		case "multi":
			a, b := append([]string{}, ie...), append([]string{}, se...)
			sort.Strings(a)
			sort.Strings(b)
			ok = sameStrs(a, b, true)
		default: // the first failure must be one the specification names
			ok = false
			for _, s := range se {
				if len(ie) == 1 && s == ie[0] {
					ok = true
				}
			}
		}
		if !ok && v.IS {
			v.IS = false
			v.Detail = fmt.Sprintf("call %d: ValidateRequest reports %s, the specification's failing parameters are %s", i, hx.Canon(io), hx.Canon(sc[i]))
		}
	}
	return v
}

// ---------------------------------------------------------------- generator

type c05ReqKey struct {
	variants []map[string]any // declarations of one (in, name)
	values   []any            // nil: absent; string: one text
}

func c05ReqPD(in, style string, explode bool, name string, required bool, schema map[string]any) map[string]any {
	return map[string]any{"in": in, "style": style, "explode": explode, "name": name, "required": required, "allowEmpty": false, "schema": schema}
}

func c05ReqKeys() []c05ReqKey {
	intS := func(kv ...any) map[string]any { return c05With(c05PS("integer"), kv...) }
	arrS := func(items map[string]any, kv ...any) map[string]any {
		return c05With(map[string]any{"k": "arr", "items": items}, kv...)
	}
	return []c05ReqKey{
		{ // query limit
			variants: []map[string]any{
				c05ReqPD("query", "form", true, "limit", true, intS("max", 10)),
				c05ReqPD("query", "form", true, "limit", false, intS("max", 100)),
				c05ReqPD("query", "form", true, "limit", false, c05PS("string")),
				c05With(c05ReqPD("query", "form", true, "limit", true, intS("min", 0)), "useDefaults", true), // style and explode left to SerializationMethod
				c05ReqPD("query", "form", true, "limit", false, map[string]any{"k": "anyOf", "alts": []any{intS("max", 10), c05PS("boolean")}}),
				c05ReqPD("query", "form", true, "limit", false, c05With(c05PS("int32"), "enum", []any{5, 50})), // class EnumGoType (F-C05-2)
			},
			values: []any{nil, "5", "50", "500", "abc", "-3"},
		},
		{ // header X-Seq
			variants: []map[string]any{
				c05ReqPD("header", "simple", false, "X-Seq", true, intS()),
				c05ReqPD("header", "simple", false, "X-Seq", false, intS("min", 5)),
				c05With(c05ReqPD("header", "simple", false, "X-Seq", false, c05PS("boolean")), "useDefaults", true),
			},
			values: []any{nil, "1", "7", "x"},
		},
		{ // query fields
			variants: []map[string]any{
				c05ReqPD("query", "form", false, "fields", false, arrS(c05PS("string"), "maxItems", 2)),
				c05ReqPD("query", "pipeDelimited", false, "fields", false, arrS(c05With(c05PS("string"), "enum", []any{"a", "b", "c", "d"}), "maxItems", 4)),
				c05ReqPD("query", "form", true, "fields", true, arrS(c05PS("string"))),
			},
			values: []any{nil, "a,b", "a|b|c", "a,b,c", "a|b|c|d|a", "x"},
		},
		{ // path id
			variants: []map[string]any{
				c05ReqPD("path", "simple", false, "id", true, intS()),
				c05ReqPD("path", "simple", false, "id", true, c05PS("string")),
				c05ReqPD("path", "label", false, "id", true, intS("max", 9)),
			},
			values: []any{nil, "7", "x", ".7", "12"},
		},
		{ // query id: the same NAME as the path parameter in another location — never an override of it
			variants: []map[string]any{
				c05ReqPD("query", "form", true, "id", false, c05PS("string")),
				c05ReqPD("query", "form", true, "id", true, intS("max", 9)),
			},
			values: []any{nil, "7", "x", "12"},
		},
		{ // cookie ck
			variants: []map[string]any{
				c05ReqPD("cookie", "form", false, "ck", false, intS()),
				c05ReqPD("cookie", "form", false, "ck", true, c05With(c05PS("string"), "enum", []any{"z", "y"})),
				c05ReqPD("cookie", "form", true, "ck", false, arrS(c05PS("integer"))), // class CookieExplode (F-C05-1)
			},
			values: []any{nil, "3", "z"},
		},
	}
}

// c05ReqMake: the request that carries values[i] for keys[i] (nil: absent)
func c05ReqMake(keys []c05ReqKey, vals []any) map[string]any {
	pp, q, h, ck := []any{}, []any{}, []any{}, []any{}
	for i, k := range keys {
		s, ok := vals[i].(string)
		if !ok {
			continue
		}
		name := jstr(k.variants[0], "name")
		switch jstr(k.variants[0], "in") {
		case "path":
			pp = append(pp, []any{name, s})
		case "query":
			q = append(q, []any{name, []any{s}})
		case "header":
			h = append(h, []any{name, []any{s}})
		case "cookie":
			ck = append(ck, []any{name, s})
		}
	}
	return map[string]any{"pathParams": pp, "query": q, "headers": h, "cookies": ck}
}

func c05GenReq(ctx *hx.Ctx, emit func(hx.Case)) {
	r := ctx.Rng
	keys := c05ReqKeys()
	// (1) exhaustive over two keys (query limit, header X-Seq): every way to declare each of them on the path item
	// (not / variant) and on the operation (not / variant) × both list orders × {plain, exclude-then-plain} × MultiError
	// × a value menu; the same request is sent on every call
	two := keys[:2]
	exh := map[string]int{"limit": 3, "X-Seq": 2} // the further declarations (defaulted keywords, compositions, known-finding classes) are left to the stream
	opt := func(k c05ReqKey) []map[string]any {
		return append([]map[string]any{nil}, k.variants[:exh[jstr(k.variants[0], "name")]]...)
	}
	for _, piL := range opt(two[0]) {
		for _, opL := range opt(two[0]) {
			for _, piS := range opt(two[1]) {
				for _, opS := range opt(two[1]) {
					for order := 0; order < 2; order++ {
						mk := func(a, b map[string]any) []any {
							l := []any{}
							if order == 1 {
								a, b = b, a
							}
							for _, x := range []map[string]any{a, b} {
								if x != nil {
									l = append(l, x)
								}
							}
							return l
						}
						pi, op := mk(piL, piS), mk(opL, opS)
						if len(pi)+len(op) == 0 || (order == 1 && len(pi) < 2 && len(op) < 2) {
							continue
						}
						for _, lv := range []any{nil, "50", "abc"} {
							for _, sv := range []any{nil, "1"} {
								rq := c05ReqMake(two, []any{lv, sv})
								for _, multi := range []bool{false, true} {
									for _, hist := range [][]bool{{false}, {true, false}} {
										calls := []any{}
										for _, ex := range hist {
											calls = append(calls, map[string]any{"excludeQuery": ex, "multi": multi, "req": rq})
										}
										emit(hx.Case{"mode": "req", "pathItem": pi, "operation": op, "calls": calls})
									}
								}
							}
						}
					}
				}
			}
		}
	}
	// (2) seeded stream over all six keys: random declarations on both levels, shuffled lists, 1–4 calls with random
	// options and random requests
	n := 2500
	if ctx.Thorough() {
		n = 30000
	}
	shuffle := func(l []any) {
		for i := len(l) - 1; i > 0; i-- {
			j := r.Intn(i + 1)
			l[i], l[j] = l[j], l[i]
		}
	}
	for it := 0; it < n; it++ {
		pi, op := []any{}, []any{}
		for _, k := range keys {
			if r.Chance(60) {
				pi = append(pi, hx.Pick(r, k.variants))
			}
			if r.Chance(50) {
				op = append(op, hx.Pick(r, k.variants))
			}
		}
		shuffle(pi)
		shuffle(op)
		calls := []any{}
		nc := 1 + r.Intn(4)
		var rq map[string]any
		for i := 0; i < nc; i++ {
			if rq == nil || r.Chance(60) {
				vals := make([]any, len(keys))
				for ki, k := range keys {
					vals[ki] = hx.Pick(r, k.values)
				}
				rq = c05ReqMake(keys, vals)
			}
			if r.Chance(12) {
				calls = append(calls, map[string]any{"excludeQuery": false, "multi": false, "nilOptions": true, "req": rq})
				continue
			}
			calls = append(calls, map[string]any{"excludeQuery": r.Chance(35), "multi": r.Chance(50), "req": rq})
		}
		emit(hx.Case{"mode": "req", "pathItem": pi, "operation": op, "calls": calls})
	}
}

// ---------------------------------------------------------------- shrinker

func c05ShrinkReq(c hx.Case) []hx.Case {
	var out []hx.Case
	for _, k := range []string{"calls", "pathItem", "operation"} {
		l := jlist(c[k])
		if len(l) > 1 || (k != "calls" && len(l) > 0) {
			for _, n := range dropEach(l) {
				x := cloneCase(c)
				x[k] = n
				out = append(out, x)
			}
		}
	}
	calls := jlist(c["calls"])
	for i, cv := range calls {
		cm, _ := cv.(map[string]any)
		rm, _ := cm["req"].(map[string]any)
		for _, part := range []string{"pathParams", "query", "headers", "cookies"} {
			if l := jlist(rm[part]); len(l) > 0 {
				for _, n := range dropEach(l) {
					x := cloneCase(c)
					nc := append([]any{}, calls...)
					nc[i] = c05With(cm, "req", c05With(rm, part, n))
					x["calls"] = nc
					out = append(out, x)
				}
			}
		}
		if jbool(cm, "multi") {
			x := cloneCase(c)
			nc := append([]any{}, calls...)
			nc[i] = c05With(cm, "multi", false)
			x["calls"] = nc
			out = append(out, x)
		}
	}
	return out
}
