package main

// C15 — a loaded document can be shared by concurrent validations.
//
// Real code exercised: openapi3.Loader + T.Validate (construction), gorillamux.NewRouter / legacy.NewRouter
// (construction), then CONCURRENTLY on one shared document: both routers' FindRoute, openapi3filter.ValidateRequest,
// openapi3filter.ValidateResponse, (*openapi3.Schema).VisitJSON, openapi3gen.NewSchemaRefForValue.
//
// Every case is evaluated in a child process of the -race harness. A "cold" case gets a FRESH process, so that
// first-use lazy initialisation (uniqueness checker, pattern cache, type-info cache) happens inside the concurrent
// phase, with no sequential warm-up. The child reads back the race detector's log for exactly this case.
// Observation: {race, diverge, docChanged}: a detector report with a kin-openapi frame; some concurrent call
// whose verdict differs from the same call run alone on a freshly loaded document; canonical JSON of the
// shared document differs after the calls.

import (
	"bufio"
	"bytes"
	"context"
	"encoding/json"
	"fmt"
	"io"
	"mime/multipart"
	"net/http"
	"net/http/httptest"
	"net/textproto"
	"os"
	"os/exec"
	"path/filepath"
	"reflect"
	"regexp"
	"sort"
	"strconv"
	"strings"
	"sync"
	"time"

	"github.com/getkin/kin-openapi/openapi3"
	"github.com/getkin/kin-openapi/openapi3filter"
	"github.com/getkin/kin-openapi/openapi3gen"
	"github.com/getkin/kin-openapi/routers"
	"github.com/getkin/kin-openapi/routers/gorillamux"
	"github.com/getkin/kin-openapi/routers/legacy"

	"kinverif/internal/hx"
)

func init() {
	hx.Register(&hx.Prop{
		ID: "C15",
		Rule: "corpus (inputs of the repaired findings F-C15-1 and F-C15-2, shapes of past seeded defects); exhaustive: all 28 unordered pairs of the 7 operation kinds " +
			"(gorillamux FindRoute, legacy FindRoute, ValidateRequest, ValidateResponse, VisitJSON, NewSchemaRefForValue, the handler of Validator.Middleware on one shared Validator); re-validation of the shared document ((*T).Validate) next to each kind × {fresh process (first use raced), warm process} " +
			"on a document with patterns, uniqueItems arrays, scalar defaults, allOf/oneOf, multipart and urlencoded bodies with additionalProperties schemas; " +
			"the same pattern text reached with two regex compilers (per-call option) × document validated with the default / the second compiler / pattern validation off × {fresh, warm}; " +
			"fresh-process first use of eight self-referential Go types; " +
			"slices of the shared document: one path item with 0-8 path-level parameters (encoding/json leaves 3 and 5-7 with spare capacity; the observed cap of every PathItem.Parameters is compared with the model's decodedCap) × {2 operations with 1 own required header each, 3 operations with 2/1/2 own parameters}, requests for the different operations validated concurrently, with and without their own required header; " +
			"`type` lists (2-6 types, not in alphabetical order) with values of none of the types, 3-value enums, 3-name required lists, 3-branch oneOf × {fresh, warm}; " +
			"then a seeded random stream of documents (1-4 operations, several methods under one path item, path-level parameters (1-7, overriding or not) next to own parameters, component schemas shared by $ref, security requirements, string/integer formats from the process-wide registries incl. two custom ones and a custom body decoder registered at process start, type lists, enums, random schemas of depth ≤ 3, per-case unique patterns so that pattern compilation is raced even in a warm process) " +
			"with per-call options (regex compiler, defaults, multi-error, exclusions, authentication outcome, generator customizer callback) " +
			"and 2-6 calls run by 2-12 goroutines, 1-3 calls each, 1-2 rounds on freshly loaded documents. Every case runs in a child of the -race harness; " +
			"verdicts are compared with the same call run alone on a freshly loaded document — for fresh-process cases alone means in two FURTHER fresh processes that run the calls sequentially in forward and reverse order (process-wide caches survive a reloaded document) —; the document's canonical JSON is compared before/after. " +
			"declared response headers (a required integer header, a pattern-constrained one, a definition named Content-Type) inline or as one component response referenced by three operations, responses with / without / with ill-typed header values × {fresh, warm}; array defaults whose elements are objects (or arrays of objects) receiving nested defaults from the item schema, through ValidateRequest and VisitJSON × {fresh, warm}; " +
			"history / reuse: ONE goroutine performing every call of a case three times in a row on the same document / routers / Validator, in the given and in reverse order (all kinds + re-validation, the two regex compilers on one pattern, the path-item family for 0/3/4/5 path-level parameters, the schema-list family, generation for eight recursive types; every 12th warm case of the random stream) — deterministic, no schedule involved; " +
			"A case is non-trivial when at least two goroutines run, or one goroutine performs every call at least twice (the driver reports operation kinds, kind pairs, raced cells, slice shapes, registries, reuse).",
		Exhaustive: true,
		Gen:        genC15,
		Run:        runC15,
		RunChild:   runC15Child,
		Compare:    cmpC15,
		Shrink:     shrinkC15,
		Workers:    8,
		Assumptions: []string{
			"the Go race detector reports races only on schedules that occur and only while its shadow history lasts: absence of a report is evidence, the footprint theorems are the claim",
			"only detector reports with a frame in github.com/getkin/kin-openapi count (DESIGN §8.1)",
			"registration APIs (RegisterBodyDecoder, RegisterArrayUniqueItemsChecker, DefineStringFormat…) are not among the concurrent calls",
			"one openapi3gen.Generator is not shared between goroutines (NewSchemaRefForValue creates one per call); the schemas output map is per call",
			"verdict = error text (multi-errors sorted) plus the request body / query after validation; a concurrent verdict counts as divergent only if it differs from the solo verdict AND never occurs among 40 further solo runs (calls that are not reproducible alone — Go map order inside the library — are counted, not compared)",
		},
	})
}

// ---------------------------------------------------------------- child management

var (
	c15EnvOnce sync.Once
	c15LogDir  string
)

// c15Env makes sure GORACE / VERIF_RACE_LOG are set for the children (./check sets them; a bare replay does not).
func c15Env() {
	c15EnvOnce.Do(func() {
		if os.Getenv("VERIF_RACE_LOG") == "" || !strings.Contains(os.Getenv("GORACE"), "log_path=") {
			exe, _ := os.Executable()
			dir := filepath.Join(filepath.Dir(exe), "out")
			os.MkdirAll(dir, 0o755)
			prefix := filepath.Join(dir, fmt.Sprintf("C15.race-%d", os.Getpid()))
			os.Setenv("VERIF_RACE_LOG", prefix)
			os.Setenv("GORACE", "halt_on_error=0 exitcode=0 log_path="+prefix)
		}
		// the race runtime sleeps one second at exit by default: one fresh process per cold case cannot afford that
		os.Setenv("GORACE", os.Getenv("GORACE")+" atexit_sleep_ms=0")
	})
}

// runFresh evaluates one case in a brand-new process (nothing of the library has run in it).
func runFresh(c hx.Case, timeout time.Duration) any {
	exe, err := os.Executable()
	if err != nil {
		return map[string]any{"crash": err.Error()}
	}
	cmd := exec.Command(exe, "-prop", "C15", "-child")
	cmd.Env = append(os.Environ(), "GOMEMLIMIT=2GiB", "GOTRACEBACK=single")
	b, _ := json.Marshal(c)
	cmd.Stdin = bytes.NewReader(append(b, '\n'))
	var out, errb bytes.Buffer
	cmd.Stdout = &out
	cmd.Stderr = &errb
	if err := cmd.Start(); err != nil {
		return map[string]any{"crash": err.Error()}
	}
	done := make(chan error, 1)
	go func() { done <- cmd.Wait() }()
	select {
	case <-done:
	case <-time.After(timeout):
		cmd.Process.Kill()
		<-done
		return map[string]any{"hang": true}
	}
	line, _ := bufio.NewReader(&out).ReadBytes('\n')
	var v any
	dec := json.NewDecoder(bytes.NewReader(line))
	dec.UseNumber()
	if len(line) == 0 || dec.Decode(&v) != nil {
		msg := errb.String()
		first := ""
		for _, l := range strings.Split(msg, "\n") {
			if strings.HasPrefix(l, "fatal error") || strings.HasPrefix(l, "panic") {
				first = l
				break
			}
		}
		if first == "" && len(msg) > 0 {
			first = strings.SplitN(msg, "\n", 2)[0]
		}
		return map[string]any{"crash": first}
	}
	return v
}

func runC15(c hx.Case) any {
	c15Env()
	if jbool(c, "cold") {
		// "the verdict it returns when run alone": process-wide state (caches) survives a freshly loaded document,
		// so the solo verdicts are taken in two further FRESH processes that run the calls one after the other,
		// in forward and in reverse order, and are handed to the process that runs them concurrently
		x := cloneCase(c)
		for _, order := range []string{"fwd", "rev"} {
			y := cloneCase(c)
			y["soloOrder"] = order
			if m, ok := runFresh(y, 60*time.Second).(map[string]any); ok {
				if l, ok := m["solo"].([]any); ok {
					x["solo_"+order] = l
				}
			}
		}
		return runFresh(x, 60*time.Second)
	}
	return hx.RunIsolated("C15", c, 60000)
}

// a second regex dialect (per-call option Options.RegexCompiler / SetSchemaRegexCompiler): case-insensitive
func c15CI(expr string) (openapi3.RegexMatcher, error) { return regexp.Compile("(?i)" + expr) }

// ---------------------------------------------------------------- race log

var c15LogOff int64

type raceReport struct {
	Summary string
	Kin     bool
}

func readRaceLog() []raceReport {
	prefix := os.Getenv("VERIF_RACE_LOG")
	if prefix == "" || !raceEnabled {
		return nil
	}
	f, err := os.Open(prefix + "." + strconv.Itoa(os.Getpid()))
	if err != nil {
		return nil
	}
	defer f.Close()
	f.Seek(c15LogOff, io.SeekStart)
	b, _ := io.ReadAll(f)
	c15LogOff += int64(len(b))
	var out []raceReport
	for _, blk := range strings.Split(string(b), "WARNING: DATA RACE")[1:] {
		var frames []string
		kin := false
		for _, l := range strings.Split(blk, "\n") {
			t := strings.TrimSpace(l)
			if strings.HasPrefix(t, "Goroutine ") {
				break // creation stacks do not count
			}
			if strings.Contains(t, "kin-openapi/") && strings.HasSuffix(t, ")") && !strings.HasPrefix(t, "/") {
				kin = true
				fn := t[strings.Index(t, "kin-openapi/")+len("kin-openapi/"):]
				if i := strings.LastIndex(fn, "("); i > 0 && strings.HasSuffix(fn, "()") {
					fn = fn[:i]
				}
				if len(frames) == 0 || frames[len(frames)-1] != fn {
					frames = append(frames, fn)
				}
			}
		}
		if len(frames) > 4 {
			frames = frames[:4]
		}
		out = append(out, raceReport{Summary: strings.Join(frames, " < "), Kin: kin})
	}
	return out
}

// ---------------------------------------------------------------- building the document

func c15DocJSON(doc map[string]any) []byte {
	paths := map[string]any{}
	var c15SharedResp map[string]any
	for _, o := range jlist(doc["ops"]) {
		op := o.(map[string]any)
		item, _ := paths[jstr(op, "path")].(map[string]any)
		if item == nil {
			item = map[string]any{}
			paths[jstr(op, "path")] = item
		}
		oper := map[string]any{}
		if params := c15Params(jlist(op["params"])); params != nil {
			oper["parameters"] = params
		}
		if b, ok := op["body"].(map[string]any); ok {
			oper["requestBody"] = map[string]any{"content": map[string]any{jstr(b, "mt"): map[string]any{"schema": b["schema"]}}}
		}
		resp := map[string]any{"description": "ok"}
		sharedResp := false
		if r, ok := op["resp"].(map[string]any); ok {
			resp["content"] = map[string]any{"application/json": map[string]any{"schema": r["schema"]}}
			// declared response headers (a declared "Content-Type" is legal and must be ignored by validation)
			if hs, ok := r["headers"].(map[string]any); ok && len(hs) > 0 {
				hm := map[string]any{}
				for name, h := range hs {
					hd := map[string]any{"schema": h.(map[string]any)["schema"]}
					if jbool(h.(map[string]any), "required") {
						hd["required"] = true
					}
					hm[name] = hd
				}
				resp["headers"] = hm
			}
			sharedResp = jbool(r, "shared")
		}
		if sharedResp {
			// one component response referenced by every operation that asks for it (the first one defines it)
			if c15SharedResp == nil {
				c15SharedResp = resp
			}
			oper["responses"] = map[string]any{"200": map[string]any{"$ref": "#/components/responses/Shared"}}
		} else {
			oper["responses"] = map[string]any{"200": resp}
		}
		if jbool(op, "secure") {
			oper["security"] = []any{map[string]any{"k": []any{}}}
		}
		item[jstr(op, "method")] = oper
	}
	// path-level parameters (PathItem.Parameters): shared by all operations of the path item
	if items, ok := doc["items"].(map[string]any); ok {
		for path, l := range items {
			if item, ok := paths[path].(map[string]any); ok {
				if params := c15Params(jlist(l)); params != nil {
					item["parameters"] = params
				}
			}
		}
	}
	// servers of single path items (the routers register them per path)
	if is, ok := doc["itemServers"].(map[string]any); ok {
		for path, u := range is {
			if item, ok := paths[path].(map[string]any); ok {
				item["servers"] = []any{map[string]any{"url": u}}
			}
		}
	}
	d := map[string]any{"openapi": "3.0.0", "info": map[string]any{"title": "t", "version": "1"}, "paths": paths}
	comps := map[string]any{}
	if s, ok := doc["schemas"].(map[string]any); ok && len(s) > 0 {
		comps["schemas"] = s
	}
	for _, o := range jlist(doc["ops"]) {
		if jbool(o.(map[string]any), "secure") {
			comps["securitySchemes"] = map[string]any{"k": map[string]any{"type": "apiKey", "in": "header", "name": "X-Key"}}
		}
	}
	if c15SharedResp != nil {
		comps["responses"] = map[string]any{"Shared": c15SharedResp}
	}
	if len(comps) > 0 {
		d["components"] = comps
	}
	if jbool(doc, "servers") {
		d["servers"] = []any{map[string]any{"url": "http://example.com/"}}
	}
	b, _ := json.Marshal(d)
	return b
}

func c15Params(l []any) []any {
	var params []any
	for _, p := range l {
		pm := p.(map[string]any)
		q := map[string]any{"name": pm["name"], "in": pm["in"], "schema": pm["schema"]}
		if jstr(pm, "in") == "path" || jbool(pm, "required") {
			q["required"] = true
		}
		params = append(params, q)
	}
	return params
}

// c15Caps: [path, len, cap] of every non-empty PathItem.Parameters of the loaded document, sorted by path: which of
// the document's slices the decoder left with spare capacity (compared with the model's `decodedCap`)
func (w *c15World) caps() []any {
	out := []any{}
	m := w.doc.Paths.Map()
	ks := make([]string, 0, len(m))
	for k := range m {
		ks = append(ks, k)
	}
	sort.Strings(ks)
	for _, k := range ks {
		if pi := m[k]; pi != nil && len(pi.Parameters) > 0 {
			out = append(out, []any{k, len(pi.Parameters), cap(pi.Parameters)})
		}
	}
	return out
}

type c15World struct {
	doc *openapi3.T
	g   routers.Router
	l   routers.Router
	// one Validator per router and mode, shared by all goroutines (as a server shares its middleware)
	mw map[string]*openapi3filter.Validator
}

// c15DocRx: how the document is validated ("" default regex compiler, "ci" the second dialect, "off" pattern
// validation of the document disabled) — the same options go to legacy.NewRouter, which validates again.
var c15DocRx string

func c15Load(data []byte) (*c15World, error) {
	loader := openapi3.NewLoader()
	doc, err := loader.LoadFromData(data)
	if err != nil {
		return nil, fmt.Errorf("load: %w", err)
	}
	var vopts []openapi3.ValidationOption
	switch c15DocRx {
	case "ci":
		vopts = append(vopts, openapi3.SetRegexCompiler(c15CI))
	case "off":
		vopts = append(vopts, openapi3.DisableSchemaPatternValidation())
	}
	if err := doc.Validate(context.Background(), vopts...); err != nil {
		return nil, fmt.Errorf("validate: %w", err)
	}
	g, err := gorillamux.NewRouter(doc)
	if err != nil {
		return nil, fmt.Errorf("gorillamux: %w", err)
	}
	l, err := legacy.NewRouter(doc, vopts...)
	if err != nil {
		return nil, fmt.Errorf("legacy: %w", err)
	}
	w := &c15World{doc: doc, g: g, l: l, mw: map[string]*openapi3filter.Validator{}}
	for rk, r := range map[string]routers.Router{"g": g, "l": l} {
		for _, strict := range []bool{false, true} {
			w.mw[fmt.Sprintf("%s%v", rk, strict)] = openapi3filter.NewValidator(r, openapi3filter.Strict(strict),
				openapi3filter.ValidationOptions(openapi3filter.Options{AuthenticationFunc: openapi3filter.NoopAuthenticationFunc, MultiError: strict}))
		}
	}
	return w, nil
}

func (w *c15World) snapshot() string {
	b, err := json.Marshal(w.doc)
	if err != nil {
		return "marshal error: " + err.Error()
	}
	return string(b)
}

// ---------------------------------------------------------------- Go types for schema generation

type c15Inner struct {
	A int      `json:"a"`
	B []string `json:"b,omitempty"`
}
type c15T0 struct {
	Name string `json:"name"`
	N    int64  `json:"n"`
}
type c15T1 struct {
	ID    string            `json:"id"`
	Tags  []string          `json:"tags"`
	Inner c15Inner          `json:"inner"`
	M     map[string]c15T0  `json:"m"`
	P     *c15Inner         `json:"p,omitempty"`
	When  time.Time         `json:"when"`
	Raw   json.RawMessage   `json:"raw"`
	F     float64           `json:"f"`
	Any   any               `json:"any"`
	Bytes []byte            `json:"bytes"`
	Arr   [3]int            `json:"arr"`
	MM    map[string][]bool `json:"mm"`
}
type c15T2 struct {
	c15T0
	Extra  bool     `json:"extra"`
	Skip   string   `json:"-"`
	Nested []c15T1  `json:"nested"`
	U      uint8    `json:"u"`
	PP     **c15T0  `json:"pp"`
	private int
}
type c15T3 struct {
	Next  *c15T3 `json:"next"`
	Value string `json:"value"`
}
type c15T4 struct {
	X c15T5 `json:"x"`
	L []c15T5
}
type c15T5 struct {
	Y string `json:"y" yaml:"y"`
	Z *c15T0 `json:"z"`
}
type c15T6 map[string]*c15T2
type c15T7 []c15T4

// which of the values below have a self-referential type (the class of finding F-C15-2)
var c15Recursive = map[int]bool{3: true, 11: true, 12: true, 13: true, 14: true, 15: true, 16: true, 17: true, 18: true, 19: true}

// more self-referential types: a type descriptor is built once per process, so every distinct type is one more
// first use that goroutines of a fresh process can race on
type c15R0 struct {
	Next *c15R0 `json:"next"`
	A    int    `json:"a"`
}
type c15R1 struct {
	Kids []c15R1 `json:"kids"`
	B    string  `json:"b"`
}
type c15R2 struct {
	M map[string]*c15R2 `json:"m"`
	C bool              `json:"c"`
}
type c15R3 struct {
	Other *c15R4 `json:"other"`
	D     int    `json:"d"`
}
type c15R4 struct {
	Back *c15R3 `json:"back"`
	E    string `json:"e"`
}
type c15R5 struct {
	L, R *c15R5
	V    float64
}
type c15R6 struct {
	Inner struct {
		Up *c15R6 `json:"up"`
	} `json:"inner"`
}
type c15R7 struct {
	Self **c15R7 `json:"self"`
	T    c15T0   `json:"t"`
}

var c15GenValues = []any{c15T0{}, &c15T1{}, c15T2{}, &c15T3{}, c15T4{}, c15T5{}, c15T6{}, c15T7{}, 3, "s", []int{1}, map[string]c15T3{},
	&c15R0{}, c15R1{}, &c15R2{}, c15R3{}, &c15R4{}, &c15R5{}, c15R6{}, &c15R7{}}

// ---------------------------------------------------------------- executing one call

func errText(err error) string {
	if err == nil {
		return "ok"
	}
	if me, ok := err.(openapi3.MultiError); ok {
		var l []string
		for _, e := range me {
			l = append(l, errText(e))
		}
		sort.Strings(l)
		return "multi[" + strings.Join(l, " || ") + "]"
	}
	if re, ok := err.(*openapi3filter.RequestError); ok {
		if me, ok := re.Err.(openapi3.MultiError); ok {
			return "request-error: " + re.Reason + ": " + errText(me)
		}
	}
	if re, ok := err.(*openapi3filter.ResponseError); ok {
		if me, ok := re.Err.(openapi3.MultiError); ok {
			return "response-error: " + re.Reason + ": " + errText(me)
		}
	}
	return fmt.Sprintf("%T: %s", err, err.Error())
}

func c15Request(w *c15World, docSpec, call map[string]any) *http.Request {
	ops := jlist(docSpec["ops"])
	idx := c15Int(call["op"])
	method, path := "GET", "/nowhere"
	if idx >= 0 && idx < len(ops) {
		op := ops[idx].(map[string]any)
		method = strings.ToUpper(jstr(op, "method"))
		path = strings.ReplaceAll(jstr(op, "path"), "{id}", jstr(call, "pathv"))
	}
	if jbool(call, "miss") {
		path += "/missing"
	}
	if m := jstr(call, "method"); m != "" {
		method = m
	}
	var body io.Reader
	ct := jstr(call, "ct")
	if parts, ok := call["parts"].([]any); ok {
		var buf bytes.Buffer
		mw := multipart.NewWriter(&buf)
		mw.SetBoundary("c15boundary")
		for _, p := range parts {
			pm := p.(map[string]any)
			h := textproto.MIMEHeader{}
			h.Set("Content-Disposition", fmt.Sprintf(`form-data; name=%q`, jstr(pm, "name")))
			if pct := jstr(pm, "ct"); pct != "" {
				h.Set("Content-Type", pct)
			}
			pw, _ := mw.CreatePart(h)
			pw.Write([]byte(jstr(pm, "value")))
		}
		mw.Close()
		body = &buf
		ct = "multipart/form-data; boundary=c15boundary"
	} else if s, ok := call["body"].(string); ok {
		body = strings.NewReader(s)
	}
	u := "http://example.com" + path
	if q := jstr(call, "query"); q != "" {
		u += "?" + q
	}
	req, err := http.NewRequest(method, u, body)
	if err != nil {
		req, _ = http.NewRequest(method, "http://example.com/bad", nil)
	}
	if ct != "" {
		req.Header.Set("Content-Type", ct)
	}
	if h := jstr(call, "header"); h != "" {
		req.Header.Set("X-H", h)
	}
	if jbool(call, "key") {
		req.Header.Set("X-Key", "secret")
	}
	if hm, ok := call["headers"].(map[string]any); ok {
		for k, v := range hm {
			req.Header.Set(k, fmt.Sprint(v))
		}
	}
	return req
}

func c15Int(v any) int {
	switch x := v.(type) {
	case json.Number:
		n, _ := x.Int64()
		return int(n)
	case float64:
		return int(x)
	case int:
		return x
	}
	return 0
}

func (w *c15World) router(call map[string]any) routers.Router {
	if jstr(call, "router") == "l" {
		return w.l
	}
	return w.g
}

func c15Exec(w *c15World, docSpec, call map[string]any) (res string) {
	defer func() {
		if r := recover(); r != nil {
			res = fmt.Sprintf("panic: %v", r)
		}
	}()
	ctx := context.Background()
	switch jstr(call, "k") {
	case "frg", "frl":
		r := w.g
		if jstr(call, "k") == "frl" {
			r = w.l
		}
		route, pp, err := r.FindRoute(c15Request(w, docSpec, call))
		if err != nil {
			return "route-error: " + err.Error()
		}
		keys := make([]string, 0, len(pp))
		for k, v := range pp {
			keys = append(keys, k+"="+v)
		}
		sort.Strings(keys)
		server := "-"
		if route.Server != nil {
			server = route.Server.URL // both routers name the server the request was matched through
		}
		return fmt.Sprintf("route %s %s %v server=%s", route.Method, route.Path, keys, server)
	case "dval":
		// re-validation of the shared, already validated document (what legacy.NewRouter does for a second router)
		var vopts []openapi3.ValidationOption
		switch c15DocRx {
		case "ci":
			vopts = append(vopts, openapi3.SetRegexCompiler(c15CI))
		case "off":
			vopts = append(vopts, openapi3.DisableSchemaPatternValidation())
		}
		return "dval " + errText(w.doc.Validate(ctx, vopts...))
	case "mw":
		// the middleware: FindRoute + ValidateRequest + handler + ValidateResponse on the shared Validator
		req := c15Request(w, docSpec, call)
		rk := "g"
		if jstr(call, "router") == "l" {
			rk = "l"
		}
		v := w.mw[fmt.Sprintf("%s%v", rk, jbool(call, "strict"))]
		status := c15Int(call["status"])
		if status == 0 {
			status = 200
		}
		seen := ""
		h := v.Middleware(http.HandlerFunc(func(rw http.ResponseWriter, r *http.Request) {
			if r.Body != nil {
				b, _ := io.ReadAll(r.Body)
				seen = fmt.Sprint(len(b))
			}
			rw.Header().Set("Content-Type", "application/json")
			rw.WriteHeader(status)
			rw.Write([]byte(jstr(call, "respBody")))
		}))
		rec := httptest.NewRecorder()
		h.ServeHTTP(rec, req)
		return fmt.Sprintf("mw %d | %s | handlerSawBody=%s | query=%s", rec.Code, clip(strings.TrimSpace(rec.Body.String()), 400), seen, req.URL.RawQuery)
	case "vreq":
		req := c15Request(w, docSpec, call)
		route, pp, err := w.router(call).FindRoute(req)
		if err != nil {
			return "route-error: " + err.Error()
		}
		opt := &openapi3filter.Options{SkipSettingDefaults: jbool(call, "skipDefaults"), MultiError: jbool(call, "multi"),
			ExcludeRequestBody: jbool(call, "exBody"), ExcludeRequestQueryParams: jbool(call, "exQuery"),
			ExcludeReadOnlyValidations: jbool(call, "exRO"),
			AuthenticationFunc:         openapi3filter.NoopAuthenticationFunc}
		if jstr(call, "auth") == "deny" {
			opt.AuthenticationFunc = func(context.Context, *openapi3filter.AuthenticationInput) error { return fmt.Errorf("denied") }
		}
		if jstr(call, "rx") == "ci" {
			opt.RegexCompiler = c15CI
		}
		in := &openapi3filter.RequestValidationInput{Request: req, PathParams: pp, Route: route, Options: opt}
		err = openapi3filter.ValidateRequest(ctx, in)
		after := ""
		if req.Body != nil {
			b, _ := io.ReadAll(req.Body)
			after = string(b)
			if strings.HasPrefix(req.Header.Get("Content-Type"), "multipart/") {
				after = fmt.Sprint(len(after))
			}
		}
		return errText(err) + " | body=" + after + " | query=" + req.URL.RawQuery
	case "vresp":
		req := c15Request(w, docSpec, call)
		route, pp, err := w.router(call).FindRoute(req)
		if err != nil {
			return "route-error: " + err.Error()
		}
		status := c15Int(call["status"])
		if status == 0 {
			status = 200
		}
		rin := &openapi3filter.ResponseValidationInput{
			RequestValidationInput: &openapi3filter.RequestValidationInput{Request: req, PathParams: pp, Route: route},
			Status:                 status,
			Header:                 http.Header{"Content-Type": []string{"application/json"}},
			Options: &openapi3filter.Options{IncludeResponseStatus: true, MultiError: jbool(call, "multi"),
				ExcludeResponseBody: jbool(call, "exBody"), ExcludeWriteOnlyValidations: jbool(call, "exRO")},
		}
		if hm, ok := call["rhdr"].(map[string]any); ok {
			for k, v := range hm {
				rin.Header.Set(k, fmt.Sprint(v))
			}
		}
		rin.SetBodyBytes([]byte(jstr(call, "body")))
		return errText(openapi3filter.ValidateResponse(ctx, rin))
	case "visit":
		ref := w.doc.Components.Schemas[jstr(call, "schema")]
		if ref == nil || ref.Value == nil {
			return "no such schema"
		}
		var v any
		if err := json.Unmarshal([]byte(jstr(call, "value")), &v); err != nil {
			return "bad value"
		}
		var opts []openapi3.SchemaValidationOption
		set := false
		if jstr(call, "rx") == "ci" {
			opts = append(opts, openapi3.SetSchemaRegexCompiler(c15CI))
		}
		for _, o := range toStrs(call["opts"]) {
			switch o {
			case "multi":
				opts = append(opts, openapi3.MultiErrors())
			case "failfast":
				opts = append(opts, openapi3.FailFast())
			case "asreq":
				opts = append(opts, openapi3.VisitAsRequest())
			case "asrep":
				opts = append(opts, openapi3.VisitAsResponse())
			case "defaults":
				opts = append(opts, openapi3.DefaultsSet(func() { set = true }))
			}
		}
		err := ref.Value.VisitJSON(v, opts...)
		b, _ := json.Marshal(v)
		return fmt.Sprintf("%s | value=%s | set=%v", errText(err), b, set)
	case "gen":
		t := c15Int(call["type"]) % len(c15GenValues)
		schemas := openapi3.Schemas{}
		var opts []openapi3gen.Option
		for _, o := range toStrs(call["opts"]) {
			switch o {
			case "allExported":
				opts = append(opts, openapi3gen.UseAllExportedFields())
			case "throwCycle":
				opts = append(opts, openapi3gen.ThrowErrorOnCycle())
			case "components":
				opts = append(opts, openapi3gen.CreateComponentSchemas(openapi3gen.ExportComponentSchemasOptions{ExportComponentSchemas: true}))
			case "customizer":
				// a per-call callback that edits every schema the generator produces
				opts = append(opts, openapi3gen.SchemaCustomizer(func(name string, t reflect.Type, tag reflect.StructTag, schema *openapi3.Schema) error {
					schema.Description = "c15:" + name + ":" + t.Kind().String()
					if schema.Type != nil && schema.Type.Is("string") {
						schema.MinLength = 1
					}
					return nil
				}))
			}
		}
		ref, err := openapi3gen.NewSchemaRefForValue(c15GenValues[t], schemas, opts...)
		if err != nil {
			return "gen-error: " + err.Error()
		}
		b, _ := json.Marshal(ref)
		s, _ := json.Marshal(schemas)
		return string(b) + " | " + string(s)
	}
	return "unknown call kind"
}

// ---------------------------------------------------------------- process-wide registries

var c15RegOnce sync.Once

// c15Registries fills the library's process-wide registries (string / integer formats, body decoders) once, at the
// start of the child process, before any goroutine is started: registration is not among the concurrent calls, the
// READS of the registries by concurrent validations are.
func c15Registries() {
	c15RegOnce.Do(func() {
		openapi3.DefineStringFormatValidator("c15fmt", openapi3.NewRegexpFormatValidator(`^[a-c]+$`))
		openapi3.DefineIntegerFormatValidator("c15even", openapi3.NewCallbackValidator(func(v int64) error {
			if v%2 != 0 {
				return fmt.Errorf("odd")
			}
			return nil
		}))
		openapi3filter.RegisterBodyDecoder("application/x-c15", func(body io.Reader, _ http.Header, _ *openapi3.SchemaRef, _ openapi3filter.EncodingFn) (any, error) {
			var v any
			dec := json.NewDecoder(body)
			dec.UseNumber()
			if err := dec.Decode(&v); err != nil {
				return nil, &openapi3filter.ParseError{Kind: openapi3filter.KindInvalidFormat, Cause: err}
			}
			return v, nil
		})
	})
}

// ---------------------------------------------------------------- one case (child side)

func runC15Child(c hx.Case) any {
	c15Registries()
	docSpec, _ := c["doc"].(map[string]any)
	calls := jlist(c["calls"])
	g, per, rounds := c15Int(c["g"]), c15Int(c["per"]), c15Int(c["rounds"])
	if g < 1 {
		g = 1
	}
	if per < 1 {
		per = 1
	}
	if rounds < 1 {
		rounds = 1
	}
	if len(calls) == 0 {
		return map[string]any{"kind": "clean", "race": false, "diverge": false, "docChanged": false, "detector": raceEnabled}
	}
	data := c15DocJSON(docSpec)
	c15DocRx = jstr(docSpec, "docRx")
	if order := jstr(c, "soloOrder"); order != "" {
		// solo mode: nothing concurrent; every call once, one after the other, each on a freshly loaded document
		solo := make([]any, len(calls))
		for n := range calls {
			i := n
			if order == "rev" {
				i = len(calls) - 1 - n
			}
			w, err := c15Load(data)
			if err != nil {
				return map[string]any{"kind": "setup", "setupError": err.Error()}
			}
			solo[i] = c15Exec(w, docSpec, calls[i].(map[string]any))
		}
		return map[string]any{"kind": "solo", "solo": solo}
	}
	readRaceLog() // discard anything left over from an earlier case of this (pooled) process
	type obs struct {
		call int
		res  string
	}
	var all []obs
	docChanged := false
	var changedNote string
	var caps []any
	for r := 0; r < rounds; r++ {
		w, err := c15Load(data)
		if err != nil {
			return map[string]any{"kind": "setup", "setupError": err.Error()}
		}
		before := w.snapshot()
		if r == 0 {
			caps = w.caps()
		}
		results := make([][]obs, g)
		start := make(chan struct{})
		var wg sync.WaitGroup
		for j := 0; j < g; j++ {
			wg.Add(1)
			go func(j int) {
				defer wg.Done()
				<-start
				for k := 0; k < per; k++ {
					ci := (j + k) % len(calls)
					results[j] = append(results[j], obs{ci, c15Exec(w, docSpec, calls[ci].(map[string]any))})
				}
			}(j)
		}
		close(start)
		wg.Wait()
		if after := w.snapshot(); after != before {
			docChanged = true
			changedNote = diffNote(before, after)
		}
		for _, l := range results {
			all = append(all, l...)
		}
	}
	reports := readRaceLog()
	// reference: every call alone, on a freshly loaded document (twice: reproducibility)
	ref := make([]string, len(calls))
	stable := make([]bool, len(calls))
	for i := range calls {
		var two [2]string
		for n := 0; n < 2; n++ {
			w, err := c15Load(data)
			if err != nil {
				return map[string]any{"kind": "setup", "setupError": err.Error()}
			}
			before := w.snapshot()
			two[n] = c15Exec(w, docSpec, calls[i].(map[string]any))
			if after := w.snapshot(); after != before {
				docChanged = true
				if changedNote == "" {
					changedNote = "(run alone) " + diffNote(before, after)
				}
			}
		}
		ref[i], stable[i] = two[0], two[0] == two[1]
	}
	var divs []string
	unstable := 0
	// A call whose verdict is not reproducible when run ALONE (Go map iteration inside the library, e.g. the
	// generator's component export for mutually recursive types) says nothing about schedules: a concurrent
	// verdict that differs from the reference is re-checked against many more solo runs and is a divergence only
	// if no solo run ever produces it.
	soloSeen := map[int]map[string]bool{}
	seenAlone := func(ci int, res string) bool {
		if soloSeen[ci] == nil {
			soloSeen[ci] = map[string]bool{}
			for n := 0; n < 40; n++ {
				w, err := c15Load(data)
				if err != nil {
					break
				}
				soloSeen[ci][c15Exec(w, docSpec, calls[ci].(map[string]any))] = true
			}
		}
		return soloSeen[ci][res]
	}
	// solo verdicts from fresh processes (cold cases): forward and reverse order
	soloF, soloR := toStrs(c["solo_fwd"]), toStrs(c["solo_rev"])
	fresh := len(soloF) == len(calls) && len(soloR) == len(calls)
	if fresh {
		for i := range calls {
			if !stable[i] || soloF[i] == soloR[i] {
				continue
			}
			if seenAlone(i, soloF[i]) && seenAlone(i, soloR[i]) {
				stable[i] = false // not reproducible alone either
				continue
			}
			divs = append(divs, fmt.Sprintf("call %d: verdict depends on which calls ran before it in the process: %q when the calls run in order, %q in reverse order",
				i, clip(soloF[i], 300), clip(soloR[i], 300)))
		}
	}
	alone := append([]string{}, ref...)
	if fresh {
		for i := range calls {
			if !stable[i] || soloF[i] != soloR[i] {
				continue
			}
			alone[i] = soloF[i]
			if ref[i] != soloF[i] && !seenAlone(i, soloF[i]) {
				// the state the concurrent calls left behind in this process changed what the call returns alone
				divs = append(divs, fmt.Sprintf("call %d: alone in a fresh process %q, alone in the process after the concurrent calls %q",
					i, clip(soloF[i], 300), clip(ref[i], 300)))
			}
		}
	}
	for _, o := range all {
		if !stable[o.call] {
			unstable++
			continue
		}
		if o.res != alone[o.call] {
			if seenAlone(o.call, o.res) {
				unstable++
				continue
			}
			if len(divs) < 3 {
				divs = append(divs, fmt.Sprintf("call %d: concurrent %q, alone %q", o.call, clip(o.res, 300), clip(alone[o.call], 300)))
			} else {
				divs = append(divs, "")
			}
		}
	}
	readRaceLog() // the sequential reference runs cannot race; keep the log position in step
	var kin, other []string
	for _, r := range reports {
		if r.Kin {
			kin = append(kin, r.Summary)
		} else {
			other = append(other, r.Summary)
		}
	}
	out := map[string]any{"race": len(kin) > 0, "diverge": len(divs) > 0, "docChanged": docChanged, "detector": raceEnabled, "caps": caps}
	kind := "clean"
	if len(kin) > 0 {
		kind = "race"
		if len(kin) > 3 {
			kin = kin[:3]
		}
		out["races"] = kin
	} else if len(divs) > 0 {
		kind = "diverge"
	} else if docChanged {
		kind = "docChanged"
	}
	if len(divs) > 0 {
		if len(divs) > 3 {
			divs = divs[:3]
		}
		out["divergences"] = divs
	}
	if docChanged {
		out["docDiff"] = changedNote
	}
	if len(other) > 0 {
		out["racesElsewhere"] = len(other)
	}
	if unstable > 0 {
		out["unstableCalls"] = unstable
	}
	out["kind"] = kind
	out["sampleVerdict"] = clip(ref[0], 120)
	vk := map[string]int{} // how the calls of this case end when run alone (accepted / rejected / not routed …)
	for _, v := range ref {
		switch {
		case strings.HasPrefix(v, "ok"), strings.HasPrefix(v, "route "), strings.HasPrefix(v, "{"), strings.HasPrefix(v, "mw 2"), v == "dval ok":
			vk["accepted"]++
		case strings.HasPrefix(v, "route-error"):
			vk["notRouted"]++
		case strings.HasPrefix(v, "panic"):
			vk["panic"]++
		default:
			vk["rejected"]++
		}
	}
	out["verdictKinds"] = vk
	return out
}

func clip(s string, n int) string {
	if len(s) > n {
		return s[:n] + "…"
	}
	return s
}

func diffNote(a, b string) string {
	i := 0
	for i < len(a) && i < len(b) && a[i] == b[i] {
		i++
	}
	lo := i - 60
	if lo < 0 {
		lo = 0
	}
	hi := i + 60
	if hi > len(b) {
		hi = len(b)
	}
	return "…" + b[lo:hi] + "…"
}

// ---------------------------------------------------------------- comparison

func cmpC15(c hx.Case, impl any, reply map[string]any) hx.Verdict {
	im, _ := impl.(map[string]any)
	model, _ := reply["model"].(map[string]any)
	spec, _ := reply["spec"].(map[string]any)
	if im == nil {
		return hx.Verdict{IM: false, IS: false, Detail: "no observation"}
	}
	if e, ok := im["setupError"].(string); ok {
		return hx.Verdict{IM: false, IS: true, Detail: "generator produced a document the library rejects: " + e}
	}
	if _, ok := im["hang"]; ok {
		return hx.Verdict{IM: false, IS: false, Detail: "concurrent calls did not finish"}
	}
	iRace, iDiv, iDoc := jbool(im, "race"), jbool(im, "diverge"), jbool(im, "docChanged")
	detail := ""
	if cr, ok := im["crash"].(string); ok {
		// the runtime killed the process: `concurrent map writes` and friends are data races it detected itself
		iRace = true
		iDoc = jbool(model, "docChanged")
		detail = "process died: " + cr
	}
	if d, ok := im["detector"].(bool); ok && !d {
		return hx.Verdict{IM: false, IS: true, Detail: "harness was built without -race: no detector"}
	}
	if iRace {
		detail += fmt.Sprintf(" data race: %v", im["races"])
	}
	if iDiv {
		detail += fmt.Sprintf(" verdict differs from the solo run: %v", im["divergences"])
	}
	if iDoc {
		detail += fmt.Sprintf(" shared document changed: %v", im["docDiff"])
	}
	// the detector is sound, not complete: a race it reports must be in the model; a race of the model may go unreported
	imOK := (!iRace || jbool(model, "race")) && iDiv == jbool(model, "diverge") && iDoc == jbool(model, "docChanged")
	if ic, ok := im["caps"]; ok && ic != nil {
		// the model's account of which path-level parameter lists were decoded with spare capacity
		if a, b := hx.Canon(ic), hx.Canon(reply["caps"]); a != b {
			imOK = false
			detail += fmt.Sprintf(" decoded capacities [path, len, cap]: library %s, model %s", a, b)
		}
	}
	isOK := iRace == jbool(spec, "race") && iDiv == jbool(spec, "diverge") && iDoc == jbool(spec, "docChanged")
	return hx.Verdict{IM: imOK, IS: isOK, Detail: strings.TrimSpace(detail)}
}

// ---------------------------------------------------------------- generation

type c15Gen struct {
	r   *hx.Rng
	schemas map[string]any // component schemas of the document being generated ($ref targets)
	tag string // makes the patterns of this case unique in the process (cold compile even when warm)
	n   int
	sharedDefaults bool // may produce the schema shape of the repaired finding F-C15-1 (object default receiving nested defaults)
	lists bool // may produce `type` lists, enums, 3-branch compositions, 3-name `required` lists, path-level parameters
}

func (g *c15Gen) pattern() string {
	g.n++
	switch g.r.Intn(4) {
	case 0:
		return "^[ab]+(" + g.tag + ")?$"
	case 1:
		return "^x" + g.tag + "*[0-9]{1,3}$"
	case 2:
		return "^[a-c]{2,}$" // shared between cases: warm in a pooled process
	default:
		return fmt.Sprintf("^(ab|%s%d)+$", g.tag, g.n)
	}
}

var c15Strings = []string{"ab", "abab", "x12", "zz", "", "abc", "ba", "AB", "aBAb", "X12", "2020-01-02"}

// lists of the document that encoding/json leaves with spare capacity (3, 5-7 elements): `type` lists (not in
// alphabetical order), `enum`
var c15TypeLists = [][]any{{"string", "number", "boolean"}, {"string", "integer"}, {"object", "array", "string"},
	{"string", "number", "integer", "boolean", "array"}, {"number", "boolean"}, {"string", "boolean", "object", "number", "integer", "array"}}

func c15TypeListSchema(tl []any) map[string]any {
	s := map[string]any{"type": tl}
	for _, t := range tl {
		if t == "array" {
			s["items"] = map[string]any{"type": "integer"} // document validation wants items next to an array type
		}
	}
	return s
}

func (g *c15Gen) scalar() map[string]any {
	if g.lists && g.r.Chance(12) {
		// entries of the process-wide format registries (custom ones registered at process start, and built-in ones)
		return hx.Pick(g.r, []map[string]any{{"type": "string", "format": "c15fmt"}, {"type": "integer", "format": "c15even"},
			{"type": "integer", "format": "int32"}, {"type": "string", "format": "date-time"}})
	}
	if g.lists && g.r.Chance(18) {
		if g.r.Bool() {
			return c15TypeListSchema(hx.Pick(g.r, c15TypeLists))
		}
		return map[string]any{"type": "string", "enum": hx.Pick(g.r, [][]any{{"ab", "zz", "x12"}, {"ab", "abab", "ba", "AB", "abc"}, {"ab", "zz"}})}
	}
	switch g.r.Intn(4) {
	case 0:
		s := map[string]any{"type": "string"}
		if g.r.Chance(70) {
			s["pattern"] = g.pattern()
		}
		if g.r.Chance(30) {
			s["minLength"] = 1
		}
		if _, hasPat := s["pattern"]; !hasPat && g.r.Chance(40) {
			s["default"] = "ab" // document validation checks defaults against the schema
		}
		return s
	case 1:
		s := map[string]any{"type": "integer"}
		if g.r.Chance(50) {
			s["minimum"] = 0
		}
		if g.r.Chance(50) {
			s["maximum"] = 50
		}
		if g.r.Chance(35) {
			s["default"] = g.r.Intn(9)
		}
		return s
	case 2:
		if g.r.Chance(40) {
			return map[string]any{"type": "string", "format": "date"} // the process-wide format registry
		}
		return map[string]any{"type": "boolean"}
	default:
		return map[string]any{"type": "string", "pattern": g.pattern()}
	}
}

func (g *c15Gen) schema(depth int) map[string]any {
	if depth <= 0 {
		return g.scalar()
	}
	switch g.r.Intn(8) {
	case 0, 1:
		return g.scalar()
	case 2, 3:
		s := map[string]any{"type": "array", "items": g.schema(depth - 1)}
		if g.r.Chance(60) {
			s["uniqueItems"] = true
		}
		if g.r.Chance(30) {
			s["maxItems"] = 3
		}
		return s
	case 4, 5:
		return g.object(depth)
	case 6:
		k := hx.Pick(g.r, []string{"allOf", "anyOf", "oneOf"})
		l := []any{g.object(depth - 1), g.object(depth - 1)}
		if g.lists && g.r.Chance(50) {
			l = append(l, g.object(depth-1)) // three branches: decoded with cap 4
		}
		return map[string]any{k: l}
	default:
		s := g.object(depth)
		s["additionalProperties"] = g.schema(depth - 1)
		return s
	}
}

func (g *c15Gen) object(depth int) map[string]any {
	props := map[string]any{}
	names := []string{"a", "b", "c", "d"}
	n := 1 + g.r.Intn(3)
	for i := 0; i < n; i++ {
		props[names[i]] = g.schema(depth - 1)
	}
	s := map[string]any{"type": "object", "properties": props}
	if g.r.Chance(30) {
		s["required"] = []any{"a"}
		if g.lists && g.r.Bool() {
			s["required"] = []any{"a", "b", "c"}[:1+g.r.Intn(3)]
		}
	}
	if g.r.Chance(15) {
		s["additionalProperties"] = false
	}
	if g.sharedDefaults && g.r.Chance(10) {
		// an array default whose elements are objects that receive nested defaults from the item schema
		props["l"] = map[string]any{"type": "array", "default": []any{map[string]any{"s": "ab"}},
			"items": map[string]any{"type": "object", "properties": map[string]any{"s": map[string]any{"type": "string"},
				"n": map[string]any{"type": "integer", "default": 1 + g.r.Intn(5)}}}}
	}
	if g.sharedDefaults && g.r.Chance(12) {
		// the shape of finding F-C15-1: an object-valued default that itself receives a nested default
		props["o"] = map[string]any{"type": "object", "default": map[string]any{},
			"properties": map[string]any{"n": map[string]any{"type": "integer", "default": 1 + g.r.Intn(5)}}}
	}
	return s
}

// value produces a JSON value for a schema: mostly fitting, sometimes not.
func (g *c15Gen) value(s map[string]any, depth int) any {
	if g.r.Chance(8) {
		return hx.Pick(g.r, []any{nil, 7, "zz", []any{1, 1}, map[string]any{}})
	}
	if ref, ok := s["$ref"].(string); ok {
		t, _ := g.schemas[strings.TrimPrefix(ref, "#/components/schemas/")].(map[string]any)
		if t == nil || depth > 6 {
			return nil
		}
		return g.value(t, depth+1)
	}
	for _, k := range []string{"allOf", "anyOf", "oneOf"} {
		if l, ok := s[k].([]any); ok && len(l) > 0 {
			return g.value(l[g.r.Intn(len(l))].(map[string]any), depth)
		}
	}
	if e, ok := s["enum"].([]any); ok && g.r.Chance(70) {
		return hx.Pick(g.r, e)
	}
	if tl, ok := s["type"].([]any); ok {
		// a value of one of the listed types — or, half of the time, of none of them (the "must be one of" error path)
		t := hx.Pick(g.r, tl)
		if g.r.Bool() {
			for _, c := range []string{"object", "boolean", "string", "array", "number"} {
				listed := false
				for _, x := range tl {
					listed = listed || x == c || (c == "number" && x == "integer")
				}
				if !listed {
					t = c
					break
				}
			}
		}
		switch t {
		case "string":
			return hx.Pick(g.r, c15Strings)
		case "number", "integer":
			return g.r.Intn(60) - 5
		case "boolean":
			return g.r.Bool()
		case "array":
			return []any{1, "a"}
		default:
			return map[string]any{"k": 1}
		}
	}
	switch s["type"] {
	case "string":
		return hx.Pick(g.r, c15Strings)
	case "integer":
		return g.r.Intn(60) - 5
	case "boolean":
		return g.r.Bool()
	case "array":
		items, _ := s["items"].(map[string]any)
		n := g.r.Intn(4)
		l := []any{}
		for i := 0; i < n; i++ {
			l = append(l, g.value(items, depth+1))
		}
		if n > 1 && g.r.Chance(30) {
			l[1] = l[0]
		}
		return l
	case "object":
		o := map[string]any{}
		props, _ := s["properties"].(map[string]any)
		for _, k := range c15_sortedKeys(props) {
			if g.r.Chance(65) {
				o[k] = g.value(props[k].(map[string]any), depth+1)
			}
		}
		if g.r.Chance(25) {
			if ap, ok := s["additionalProperties"].(map[string]any); ok {
				o["zz"] = g.value(ap, depth+1)
			} else {
				o["zz"] = 1
			}
		}
		return o
	}
	return nil
}

func c15_sortedKeys(m map[string]any) []string {
	ks := make([]string, 0, len(m))
	for k := range m {
		ks = append(ks, k)
	}
	sort.Strings(ks)
	return ks
}

func jsonText(v any) string {
	b, _ := json.Marshal(v)
	return string(b)
}

// flat object schema for form bodies (multipart / urlencoded): scalar and array-of-scalar properties, and the
// additionalProperties schema WITH properties that the multipart decoder merges into its property table
func (g *c15Gen) formSchema() map[string]any {
	props := map[string]any{"a": g.scalar(), "b": g.scalar()}
	if g.r.Chance(50) {
		props["l"] = map[string]any{"type": "array", "items": map[string]any{"type": "integer"}, "uniqueItems": g.r.Bool()}
	}
	s := map[string]any{"type": "object", "properties": props}
	switch g.r.Intn(4) {
	case 0:
		s["additionalProperties"] = map[string]any{"type": "object", "properties": map[string]any{"x": g.scalar(), "y": g.scalar()}}
	case 1:
		s["additionalProperties"] = map[string]any{"type": "string", "pattern": g.pattern()}
	case 2:
		s["additionalProperties"] = true
	}
	if g.r.Chance(20) {
		return map[string]any{"allOf": []any{s, map[string]any{"type": "object", "properties": map[string]any{"e": g.scalar()}}}}
	}
	return s
}

func (g *c15Gen) formValue(name string, s map[string]any) string {
	switch s["type"] {
	case "integer":
		return strconv.Itoa(g.r.Intn(60) - 5)
	case "boolean":
		return strconv.FormatBool(g.r.Bool())
	case "object":
		return `{"x":"ab"}`
	}
	return hx.Pick(g.r, c15Strings)
}

func (g *c15Gen) doc(nops int) map[string]any {
	// component schemas first: operations may share them by $ref (one *Schema object reached from several places)
	g.schemas = map[string]any{"S0": g.schema(3), "S1": g.schema(2)}
	if g.r.Chance(40) {
		g.schemas["S2"] = map[string]any{"type": "object", "properties": map[string]any{
			"s0": map[string]any{"$ref": "#/components/schemas/S0"}, "l": map[string]any{"type": "array", "items": map[string]any{"$ref": "#/components/schemas/S1"}}}}
	}
	jsonSchema := func() map[string]any {
		if g.r.Chance(35) {
			names := c15_sortedKeys(g.schemas)
			return map[string]any{"$ref": "#/components/schemas/" + hx.Pick(g.r, names)}
		}
		return g.schema(2)
	}
	paths := []string{"/p0/{id}", "/p1", "/p2/{id}/sub"}
	methods := []string{"post", "put", "get", "delete", "patch"}
	used := map[string]bool{}
	items := map[string]any{}
	var ops []any
	for i := 0; i < nops; i++ {
		// several operations may live under ONE path item (different methods): the routers pick by method
		path := paths[i%len(paths)]
		if i > 0 && g.r.Chance(50) {
			path = ops[g.r.Intn(len(ops))].(map[string]any)["path"].(string)
		}
		method := hx.Pick(g.r, methods)
		for n := 0; used[path+" "+method] && n < 10; n++ {
			method = methods[(n+i)%len(methods)]
		}
		if used[path+" "+method] {
			continue
		}
		used[path+" "+method] = true
		op := map[string]any{"path": path, "method": method}
		var params []any
		if strings.Contains(path, "{id}") {
			ps := map[string]any{"type": "integer"}
			if g.r.Bool() {
				ps = map[string]any{"type": "string", "pattern": g.pattern()}
			}
			params = append(params, map[string]any{"name": "id", "in": "path", "schema": ps})
		}
		if g.r.Chance(60) {
			qs := g.scalar()
			if g.r.Chance(40) {
				qs = map[string]any{"type": "array", "items": map[string]any{"type": "integer"}, "uniqueItems": true}
			}
			params = append(params, map[string]any{"name": "q", "in": "query", "schema": qs})
		}
		if g.r.Chance(40) {
			params = append(params, map[string]any{"name": "X-H", "in": "header", "schema": map[string]any{"type": "string", "pattern": g.pattern()}})
		}
		if g.lists {
			// path-level parameters of the path item (once per path): 1-7 of them, so that the decoded list has spare
			// capacity (3, 5-7) or not; the path parameter may live at path level, at operation level, or at both (override)
			if _, done := items[path]; !done && g.r.Chance(60) {
				n := hx.Pick(g.r, []int{1, 2, 3, 3, 3, 4, 5, 6, 7})
				var l []any
				if strings.Contains(path, "{id}") && g.r.Chance(70) {
					l = append(l, map[string]any{"name": "id", "in": "path", "schema": map[string]any{"type": "string"}})
				}
				for k := len(l); k < n; k++ {
					ps := map[string]any{"type": "string"}
					if g.r.Chance(30) {
						ps["pattern"] = g.pattern()
					}
					l = append(l, map[string]any{"name": fmt.Sprintf("X-P%d", k), "in": "header", "schema": ps, "required": g.r.Chance(25)})
				}
				items[path] = l
			}
			// an own parameter that the other operations of the path item do not have
			if g.r.Chance(60) {
				params = append(params, map[string]any{"name": "X-Own-" + method, "in": "header", "schema": map[string]any{"type": "string", "minLength": 2}, "required": g.r.Chance(70)})
			}
			if l, ok := items[path].([]any); ok && len(params) > 0 && len(l) > 0 && strings.Contains(path, "{id}") && jstr(l[0].(map[string]any), "in") == "path" && g.r.Chance(50) {
				params = params[1:] // the path parameter is declared at path level only
			}
		}
		op["params"] = params
		if method == "post" || method == "put" || method == "patch" {
			switch g.r.Intn(5) {
			case 0, 1, 4:
				op["body"] = map[string]any{"mt": "application/json", "schema": jsonSchema()}
				if g.lists && g.r.Chance(30) {
					op["body"].(map[string]any)["mt"] = "application/x-c15" // decoder registered at process start
				}
			case 2:
				op["body"] = map[string]any{"mt": "multipart/form-data", "schema": g.formSchema()}
			case 3:
				op["body"] = map[string]any{"mt": "application/x-www-form-urlencoded", "schema": g.formSchema()}
			}
		}
		if g.r.Chance(70) {
			op["resp"] = map[string]any{"schema": jsonSchema()}
			if g.lists && g.r.Chance(35) {
				// declared response headers, among them a definition named Content-Type (to be ignored)
				op["resp"].(map[string]any)["headers"] = map[string]any{
					"X-Rate":       map[string]any{"schema": map[string]any{"type": "integer"}, "required": g.r.Bool()},
					"Content-Type": map[string]any{"schema": map[string]any{"type": "string"}},
				}
			}
		}
		if g.r.Chance(25) {
			op["secure"] = true // security requirement: the per-call AuthenticationFunc decides
		}
		ops = append(ops, op)
	}
	d := map[string]any{"ops": ops, "schemas": g.schemas, "servers": g.r.Chance(20),
		"docRx": hx.Pick(g.r, []string{"", "ci", "off"})}
	if len(items) > 0 {
		d["items"] = items
	}
	if g.lists && g.r.Chance(25) {
		// one path item with servers of its own (matching the requests' host, or not: then its requests are not routed)
		is := map[string]any{}
		p := ops[g.r.Intn(len(ops))].(map[string]any)["path"].(string)
		is[p] = hx.Pick(g.r, []string{"http://example.com/", "http://example.com/", "http://other.example/"})
		d["itemServers"] = is
		d["servers"] = true
	}
	return d
}

func bodySchemaProps(s map[string]any) map[string]any {
	if l, ok := s["allOf"].([]any); ok {
		out := map[string]any{}
		for _, x := range l {
			for k, v := range bodySchemaProps(x.(map[string]any)) {
				out[k] = v
			}
		}
		return out
	}
	p, _ := s["properties"].(map[string]any)
	return p
}

func (g *c15Gen) call(kind string, doc map[string]any) map[string]any {
	ops := jlist(doc["ops"])
	idx := g.r.Intn(len(ops))
	op := ops[idx].(map[string]any)
	c := map[string]any{"k": kind}
	reqPart := func() {
		hdrs := map[string]any{}
		c["op"] = idx
		c["pathv"] = hx.Pick(g.r, []string{"7", "ab", "x12", "12", "AB"})
		c["router"] = hx.Pick(g.r, []string{"g", "l"})
		if jbool(op, "secure") {
			c["key"] = g.r.Chance(80)
			if g.r.Chance(30) {
				c["auth"] = "deny"
			}
		}
		for _, p := range jlist(op["params"]) {
			pm := p.(map[string]any)
			ps := pm["schema"].(map[string]any)
			switch jstr(pm, "in") {
			case "query":
				if g.r.Chance(70) {
					if ps["type"] == "array" {
						c["query"] = hx.Pick(g.r, []string{"q=1&q=2", "q=1&q=1", "q=3"})
					} else {
						c["query"] = "q=" + g.formValue("q", ps)
					}
				}
			case "header":
				if jstr(pm, "name") != "X-H" {
					if g.r.Chance(85) {
						hdrs[jstr(pm, "name")] = hx.Pick(g.r, c15Strings[:4])
					}
				} else if g.r.Chance(80) {
					c["header"] = hx.Pick(g.r, c15Strings[:4])
				}
			}
		}
		if items, ok := doc["items"].(map[string]any); ok {
			for _, p := range jlist(items[jstr(op, "path")]) {
				if pm := p.(map[string]any); jstr(pm, "in") == "header" && g.r.Chance(85) {
					hdrs[jstr(pm, "name")] = hx.Pick(g.r, c15Strings[:4])
				}
			}
		}
		if len(hdrs) > 0 {
			c["headers"] = hdrs
		}
	}
	switch kind {
	case "frg", "frl":
		reqPart()
		delete(c, "router")
		if g.r.Chance(20) {
			c["miss"] = true
		}
		if g.r.Chance(10) {
			c["method"] = "DELETE"
		}
	case "vreq", "mw":
		reqPart()
		if kind == "vreq" {
			c["skipDefaults"] = g.r.Chance(25)
			c["multi"] = g.r.Chance(40)
			if g.r.Chance(40) {
				c["rx"] = "ci" // per-call regex compiler
			}
			for _, o := range []string{"exBody", "exQuery", "exRO"} {
				if g.r.Chance(12) {
					c[o] = true
				}
			}
		} else {
			// the Validator's options are fixed at construction and shared; per call: mode, handler's answer
			delete(c, "auth")
			c["strict"] = g.r.Bool()
			c["status"] = hx.Pick(g.r, []int{200, 200, 200, 404, 201})
			c["respBody"] = "{}"
			if r, ok := op["resp"].(map[string]any); ok {
				c["respBody"] = jsonText(g.value(r["schema"].(map[string]any), 0))
			}
		}
		if b, ok := op["body"].(map[string]any); ok {
			bs := b["schema"].(map[string]any)
			switch jstr(b, "mt") {
			case "application/json", "application/x-c15":
				c["ct"] = jstr(b, "mt")
				c["body"] = jsonText(g.value(bs, 0))
			case "multipart/form-data":
				var parts []any
				props := bodySchemaProps(bs)
				for _, k := range c15_sortedKeys(props) {
					ps := props[k].(map[string]any)
					if ps["type"] == "array" {
						for i := 0; i < 1+g.r.Intn(2); i++ {
							parts = append(parts, map[string]any{"name": k, "value": strconv.Itoa(g.r.Intn(3))})
						}
					} else if g.r.Chance(80) {
						parts = append(parts, map[string]any{"name": k, "value": g.formValue(k, ps)})
					}
				}
				if g.r.Chance(50) {
					parts = append(parts, map[string]any{"name": "x", "value": "ab"})
				}
				if parts == nil {
					parts = []any{}
				}
				c["parts"] = parts
			default:
				var kv []string
				props := bodySchemaProps(bs)
				for _, k := range c15_sortedKeys(props) {
					ps := props[k].(map[string]any)
					if ps["type"] == "array" {
						kv = append(kv, k+"=1", k+"="+strconv.Itoa(1+g.r.Intn(2)))
					} else if g.r.Chance(80) {
						kv = append(kv, k+"="+g.formValue(k, ps))
					}
				}
				c["ct"] = "application/x-www-form-urlencoded"
				c["body"] = strings.Join(kv, "&")
			}
		}
	case "vresp":
		reqPart()
		c["multi"] = g.r.Chance(40)
		for _, o := range []string{"exBody", "exRO"} {
			if g.r.Chance(12) {
				c[o] = true
			}
		}
		c["body"] = "{}"
		if r, ok := op["resp"].(map[string]any); ok {
			c["body"] = jsonText(g.value(r["schema"].(map[string]any), 0))
			if _, ok := r["headers"]; ok && g.r.Chance(70) {
				c["rhdr"] = map[string]any{"X-Rate": hx.Pick(g.r, []string{"5", "abc", "12"})}
			}
		}
	case "visit":
		name := hx.Pick(g.r, c15_sortedKeys(doc["schemas"].(map[string]any)))
		c["schema"] = name
		if g.r.Chance(40) {
			c["rx"] = "ci"
		}
		c["value"] = jsonText(g.value(doc["schemas"].(map[string]any)[name].(map[string]any), 0))
		opts := []any{}
		for _, o := range []string{"multi", "asreq", "defaults"} {
			if g.r.Chance(40) {
				opts = append(opts, o)
			}
		}
		if g.r.Chance(10) {
			opts = append(opts, "failfast")
		}
		c["opts"] = opts
	case "dval":
	case "gen":
		t := g.r.Intn(len(c15GenValues))
		c["type"] = t
		if c15Recursive[t] {
			c["rec"] = true
		}
		opts := []any{}
		if g.r.Chance(30) {
			opts = append(opts, "allExported")
		}
		if g.r.Chance(20) {
			opts = append(opts, "components")
		}
		if g.r.Chance(30) {
			opts = append(opts, "customizer")
		}
		c["opts"] = opts
	}
	return c
}

var c15Kinds = []string{"frg", "frl", "vreq", "vresp", "visit", "gen", "mw"}

// kitchen-sink document of the exhaustive part
func c15SinkDoc(tag string) map[string]any {
	pat := func(i int) string { return fmt.Sprintf("^[ab]+(%s%d)?$", tag, i) }
	item := map[string]any{"type": "object", "properties": map[string]any{
		"name": map[string]any{"type": "string", "pattern": pat(0)},
		"n":    map[string]any{"type": "integer", "default": 3, "minimum": 0},
		"tags": map[string]any{"type": "array", "uniqueItems": true, "items": map[string]any{"type": "string", "pattern": pat(1)}},
	}, "required": []any{"name"}}
	form := map[string]any{"type": "object", "properties": map[string]any{
		"a": map[string]any{"type": "string", "pattern": pat(2)},
		"l": map[string]any{"type": "array", "uniqueItems": true, "items": map[string]any{"type": "integer"}},
	}, "additionalProperties": map[string]any{"type": "object", "properties": map[string]any{"x": map[string]any{"type": "string"}, "y": map[string]any{"type": "integer"}}}}
	return map[string]any{
		"ops": []any{
			map[string]any{"path": "/p0/{id}", "method": "post",
				"params": []any{
					map[string]any{"name": "id", "in": "path", "schema": map[string]any{"type": "string", "pattern": pat(3)}},
					map[string]any{"name": "q", "in": "query", "schema": map[string]any{"type": "array", "uniqueItems": true, "items": map[string]any{"type": "integer"}}},
					map[string]any{"name": "d", "in": "query", "schema": map[string]any{"type": "integer", "default": 5}},
				},
				"body": map[string]any{"mt": "application/json", "schema": map[string]any{"allOf": []any{item, map[string]any{"type": "object",
					"properties": map[string]any{"k": map[string]any{"oneOf": []any{map[string]any{"type": "integer"}, map[string]any{"type": "string", "pattern": pat(4)}}}}}}}},
				"resp": map[string]any{"schema": map[string]any{"type": "array", "uniqueItems": true, "items": item}}},
			map[string]any{"path": "/p1", "method": "put", "params": []any{},
				"body": map[string]any{"mt": "multipart/form-data", "schema": form},
				"resp": map[string]any{"schema": item}},
			map[string]any{"path": "/p2/{id}/sub", "method": "post",
				"params": []any{map[string]any{"name": "id", "in": "path", "schema": map[string]any{"type": "integer"}}},
				"body":   map[string]any{"mt": "application/x-www-form-urlencoded", "schema": form}},
		},
		"schemas": map[string]any{"S0": map[string]any{"type": "array", "uniqueItems": true, "items": item}, "S1": item},
	}
}

func c15SinkCall(kind string, variant int) map[string]any {
	switch kind {
	case "frg", "frl":
		return map[string]any{"k": kind, "op": variant % 3, "pathv": []string{"ab", "7", "12"}[variant%3]}
	case "vreq":
		switch variant % 3 {
		case 0:
			return map[string]any{"k": "vreq", "op": 0, "pathv": "ab", "router": "g", "query": "q=1&q=2", "ct": "application/json",
				"body": `{"name":"ab","tags":["a","b"],"k":"ba"}`, "skipDefaults": false, "multi": false}
		case 1:
			return map[string]any{"k": "vreq", "op": 1, "pathv": "7", "router": "l", "skipDefaults": false, "multi": true,
				"parts": []any{map[string]any{"name": "a", "value": "ab"}, map[string]any{"name": "l", "value": "1"}, map[string]any{"name": "l", "value": "2"},
					map[string]any{"name": "x", "value": "zz"}}}
		default:
			return map[string]any{"k": "vreq", "op": 2, "pathv": "12", "router": "g", "ct": "application/x-www-form-urlencoded", "body": "a=zz&l=1&l=1", "skipDefaults": true, "multi": false}
		}
	case "mw":
		c := c15SinkCall("vreq", variant)
		c["k"] = "mw"
		c["strict"] = variant%2 == 0
		c["respBody"] = []string{`[{"name":"ab","tags":["a"]},{"name":"ba"}]`, `{"name":"abab"}`, `[{"name":"zz"},{"name":"zz"}]`}[variant%3]
		return c
	case "vresp":
		return map[string]any{"k": "vresp", "op": 0, "pathv": "ab", "router": []string{"g", "l"}[variant%2], "multi": variant%2 == 1,
			"body": []string{`[{"name":"ab","tags":["a"]},{"name":"ba"}]`, `[{"name":"zz"},{"name":"zz"}]`}[variant%2]}
	case "visit":
		return map[string]any{"k": "visit", "schema": []string{"S0", "S1"}[variant%2],
			"value": []string{`[{"name":"ab","tags":["a","a"]}]`, `{"name":"abab"}`}[variant%2], "opts": [][]any{{"multi"}, {"asreq", "defaults"}}[variant%2]}
	default:
		t := 1 + variant%3
		c := map[string]any{"k": "gen", "type": t, "opts": []any{}}
		if c15Recursive[t] {
			c["rec"] = true
		}
		return c
	}
}

// c15PathItemCase: one path item `/pi/{id}` with nItem path-level parameters and operations with different own parameters.
func c15PathItemCase(nItem, variant, n int) hx.Case {
	str := map[string]any{"type": "string", "minLength": 2}
	var item []any
	if nItem > 0 {
		item = append(item, map[string]any{"name": "id", "in": "path", "schema": map[string]any{"type": "string"}})
	}
	for k := 1; k < nItem; k++ {
		item = append(item, map[string]any{"name": fmt.Sprintf("X-P%d", k), "in": "header", "schema": str, "required": k == 1})
	}
	own := func(names ...string) []any {
		var l []any
		if nItem == 0 {
			l = append(l, map[string]any{"name": "id", "in": "path", "schema": map[string]any{"type": "string"}})
		}
		for _, nm := range names {
			l = append(l, map[string]any{"name": nm, "in": "header", "schema": str, "required": true})
		}
		return l
	}
	methods := []string{"get", "delete", "put"}
	owns := [][]string{{"X-Get"}, {"X-Delete"}, {"X-Put"}}
	if variant == 1 {
		owns = [][]string{{"X-Get", "X-Get2"}, {"X-Delete"}, {"X-Put", "X-Put2"}}
	}
	nops := 2 + variant
	var ops, calls []any
	for i := 0; i < nops; i++ {
		ops = append(ops, map[string]any{"path": "/pi/{id}", "method": methods[i], "params": own(owns[i]...)})
		good := map[string]any{"X-P1": "ab"}
		for _, h := range owns[i] {
			good[h] = "ab"
		}
		calls = append(calls, map[string]any{"k": "vreq", "op": i, "pathv": "7", "router": []string{"g", "l"}[(i+nItem)%2], "headers": good, "multi": i == 1, "skipDefaults": true})
		if i == 1 {
			// the same request through the shared middleware
			calls = append(calls, map[string]any{"k": "mw", "op": i, "pathv": "7", "router": []string{"l", "g"}[(i+nItem)%2], "headers": good, "strict": nItem%2 == 0, "respBody": "{}"})
		}
	}
	// a request that lacks its own required header: rejected alone, with a message naming that header
	calls = append(calls, map[string]any{"k": "vreq", "op": 0, "pathv": "7", "router": "g", "headers": map[string]any{"X-P1": "ab"}, "multi": true, "skipDefaults": true})
	doc := map[string]any{"ops": ops, "schemas": map[string]any{}}
	if item != nil {
		doc["items"] = map[string]any{"/pi/{id}": item}
	}
	return hx.Case{"doc": doc, "calls": calls, "g": 8, "per": 4, "rounds": 2, "cold": false, "sched": 700 + n}
}

// c15RespHeaderCase: responses that DECLARE headers — a required integer header, a pattern-constrained one and a
// definition named "Content-Type" (legal; to be ignored) — inline per operation or as ONE component response that two
// operations reference; responses with / without / with ill-typed header values validated through both routers.
func c15RespHeaderCase(variant int, cold bool, n int) hx.Case {
	tag := fmt.Sprintf("rh%d", n)
	hdrs := func() map[string]any {
		return map[string]any{
			"X-Rate":       map[string]any{"schema": map[string]any{"type": "integer", "minimum": 1}, "required": true},
			"X-Tag":        map[string]any{"schema": map[string]any{"type": "string", "pattern": "^[ab]+(" + tag + ")?$"}},
			"Content-Type": map[string]any{"schema": map[string]any{"type": "string", "enum": []any{"text/never"}}},
		}
	}
	body := map[string]any{"type": "object", "properties": map[string]any{"name": map[string]any{"type": "string"}}}
	resp := func() map[string]any {
		return map[string]any{"schema": body, "headers": hdrs(), "shared": variant%2 == 1}
	}
	doc := map[string]any{"ops": []any{
		map[string]any{"path": "/rh", "method": "get", "params": []any{}, "resp": resp()},
		map[string]any{"path": "/rh", "method": "put", "params": []any{}, "resp": resp()},
		map[string]any{"path": "/rh2", "method": "get", "params": []any{}, "resp": resp()},
	}, "schemas": map[string]any{}}
	calls := []any{
		map[string]any{"k": "vresp", "op": 0, "router": "g", "multi": false, "body": `{"name":"ab"}`, "rhdr": map[string]any{"X-Rate": "5", "X-Tag": "ab"}},
		map[string]any{"k": "vresp", "op": 1, "router": "l", "multi": true, "body": `{"name":"ab"}`, "rhdr": map[string]any{"X-Rate": "abc"}},
		map[string]any{"k": "vresp", "op": 2, "router": "g", "multi": true, "body": `{"name":1}`, "rhdr": map[string]any{"X-Tag": "zz"}},
		map[string]any{"k": "vresp", "op": 0, "router": "l", "multi": false, "body": `{}`, "rhdr": map[string]any{"X-Rate": "0", "X-Tag": "ba"}},
	}
	return hx.Case{"doc": doc, "calls": calls, "g": 8, "per": 3, "rounds": 2, "cold": cold, "sched": 1300 + n}
}

// c15ArrayDefaultCase: a property whose default is an ARRAY of objects (or an array of arrays of objects) and whose item
// schema declares defaults for properties the default's elements leave out; requests that omit the property, with
// defaults enabled, through ValidateRequest and VisitJSON — the elements of the injected default must not be the
// document's own maps.
func c15ArrayDefaultCase(variant int, cold bool, n int) hx.Case {
	elem := map[string]any{"type": "object", "properties": map[string]any{
		"label":  map[string]any{"type": "string"},
		"weight": map[string]any{"type": "integer", "default": 1 + variant},
	}}
	var tags map[string]any
	if variant%2 == 0 {
		tags = map[string]any{"type": "array", "items": elem, "default": []any{map[string]any{"label": "general"}, map[string]any{"label": "x", "weight": 9}}}
	} else {
		tags = map[string]any{"type": "array", "items": map[string]any{"type": "array", "items": elem},
			"default": []any{[]any{map[string]any{"label": "general"}}, []any{}}}
	}
	s := map[string]any{"type": "object", "properties": map[string]any{"name": map[string]any{"type": "string", "minLength": 2}, "tags": tags}}
	doc := map[string]any{"ops": []any{
		map[string]any{"path": "/ad", "method": "post", "params": []any{}, "body": map[string]any{"mt": "application/json", "schema": map[string]any{"$ref": "#/components/schemas/AD"}}},
		map[string]any{"path": "/ad2", "method": "put", "params": []any{}, "body": map[string]any{"mt": "application/json", "schema": s}},
	}, "schemas": map[string]any{"AD": s}}
	calls := []any{
		map[string]any{"k": "vreq", "op": 0, "router": "g", "ct": "application/json", "body": `{"name":"ab"}`, "skipDefaults": false, "multi": false},
		map[string]any{"k": "vreq", "op": 1, "router": "l", "ct": "application/json", "body": `{"name":"a"}`, "skipDefaults": false, "multi": true},
		map[string]any{"k": "visit", "schema": "AD", "value": `{"name":"zz"}`, "opts": []any{"asreq", "defaults"}},
		map[string]any{"k": "vreq", "op": 0, "router": "l", "ct": "application/json", "body": `{"name":"ab","tags":[]}`, "skipDefaults": false, "multi": false},
		map[string]any{"k": "vreq", "op": 1, "router": "g", "ct": "application/json", "body": `{"name":"ab"}`, "skipDefaults": true, "multi": false},
	}
	return hx.Case{"doc": doc, "calls": calls, "g": 8, "per": 3, "rounds": 2, "cold": cold, "sched": 1400 + n}
}

// c15SchemaListCase: lists inside schemas that are decoded with spare capacity, and values that take the error paths
// which print / walk those lists
func c15SchemaListCase(v int, cold bool, n int) hx.Case {
	tl := c15TypeLists[[]int{0, 3, 5}[v%3]]
	tag := fmt.Sprintf("sl%d", n)
	s0 := map[string]any{"type": "object", "required": []any{"t", "e", "k"}, "properties": map[string]any{
		"t": c15TypeListSchema(tl),
		"e": map[string]any{"type": "string", "enum": []any{"ab", "zz", "x12"}},
		"k": map[string]any{"oneOf": []any{map[string]any{"type": "integer"}, map[string]any{"type": "boolean"}, map[string]any{"type": "string", "pattern": "^[ab]+(" + tag + ")?$"}}},
	}}
	doc := map[string]any{
		"ops": []any{map[string]any{"path": "/p1", "method": "post", "params": []any{
			map[string]any{"name": "q", "in": "query", "schema": c15TypeListSchema(tl)}},
			"body": map[string]any{"mt": "application/json", "schema": map[string]any{"$ref": "#/components/schemas/S0"}},
			"resp": map[string]any{"schema": map[string]any{"type": "array", "items": map[string]any{"$ref": "#/components/schemas/S0"}}}}},
		"schemas": map[string]any{"S0": s0},
	}
	calls := []any{
		map[string]any{"k": "visit", "schema": "S0", "value": `{"t":null,"e":"nope","k":[]}`, "opts": []any{"multi"}},
		map[string]any{"k": "visit", "schema": "S0", "value": `{"t":"ab","e":"ab","k":"ab"}`, "opts": []any{}},
		map[string]any{"k": "vreq", "op": 0, "router": "g", "ct": "application/json", "body": `{"t":{"x":null},"e":"zz"}`, "multi": true, "skipDefaults": false},
		map[string]any{"k": "vreq", "op": 0, "router": "l", "ct": "application/json", "body": `{"t":1.5,"e":"x12","k":true}`, "multi": false, "skipDefaults": true},
		map[string]any{"k": "vresp", "op": 0, "router": "g", "multi": true, "body": `[{"t":null,"e":"ab","k":1},{"t":"s","e":"q","k":"zz"}]`},
	}
	return hx.Case{"doc": doc, "calls": calls, "g": 8, "per": 3, "rounds": 2, "cold": cold, "sched": 800 + n}
}

func genC15(ctx *hx.Ctx, emit func(hx.Case)) {
	r := ctx.Rng
	// exhaustive: every unordered pair of operation kinds, first use raced (fresh process) and warm
	n := 0
	for i, a := range c15Kinds {
		for _, b := range c15Kinds[i:] {
			for _, cold := range []bool{true, false} {
				n++
				tag := "w"
				if !cold {
					tag = fmt.Sprintf("e%d", n) // a pattern no earlier case of the pooled process compiled
				}
				calls := []any{c15SinkCall(a, 0), c15SinkCall(b, 1)}
				if a == b {
					calls = append(calls, c15SinkCall(a, 2))
				}
				emit(hx.Case{"doc": c15SinkDoc(tag), "calls": calls, "g": 8, "per": 2, "rounds": 1, "cold": cold, "sched": n})
			}
		}
	}
	// all six kinds at once, many goroutines (the design-time run)
	for _, cold := range []bool{true, false} {
		var calls []any
		for i, k := range c15Kinds {
			calls = append(calls, c15SinkCall(k, i), c15SinkCall(k, i+1))
		}
		emit(hx.Case{"doc": c15SinkDoc("all"), "calls": calls, "g": 32, "per": 3, "rounds": 2, "cold": cold, "sched": 99})
	}
	// first use of the type-info cache for self-referential types (the input class of the repaired F-C15-2: what
	// showed was schedule-dependent, so it gets many fresh processes, each with eight first uses raced by
	// goroutines running in step)
	nRec := 24
	if ctx.Thorough() {
		nRec = 200
	}
	for i := 0; i < nRec; i++ {
		var calls []any
		for t := 12; t < 20; t++ {
			c := map[string]any{"k": "gen", "type": t, "rec": true, "opts": []any{}}
			if (i+t)%3 == 0 {
				c["opts"] = []any{"allExported"}
			}
			calls = append(calls, c)
		}
		emit(hx.Case{"doc": c15SinkDoc("rec"), "calls": calls, "g": 16 + 8*(i%3), "per": 8, "rounds": 1, "cold": true, "sched": 1000 + i})
	}
	// per-call options that change verdicts, next to process-wide caches: the SAME pattern text reached with two
	// regex compilers (request bodies and VisitJSON), on documents validated with either compiler or with pattern
	// validation of the document off; values on which the two dialects disagree
	for _, cold := range []bool{true, false} {
		for di, docRx := range []string{"", "ci", "off"} {
			for v := 0; v < 2; v++ {
				n++
				doc := c15SinkDoc(fmt.Sprintf("rx%d", n))
				doc["docRx"] = docRx
				val := []string{"ABAB", "abab"}[v]
				calls := []any{
					map[string]any{"k": "visit", "schema": "S1", "value": `{"name":"` + val + `"}`, "opts": []any{"multi"}, "rx": "ci"},
					map[string]any{"k": "visit", "schema": "S1", "value": `{"name":"` + val + `"}`, "opts": []any{"multi"}},
					map[string]any{"k": "vreq", "op": 0, "pathv": "ab", "router": "g", "query": "q=1", "ct": "application/json",
						"body": `{"name":"` + val + `","tags":["A","b"]}`, "skipDefaults": false, "multi": false, "rx": "ci"},
					map[string]any{"k": "vreq", "op": 0, "pathv": "ab", "router": "l", "query": "q=1", "ct": "application/json",
						"body": `{"name":"` + val + `","tags":["A","b"]}`, "skipDefaults": false, "multi": true},
				}
				if v == 1 {
					calls[0], calls[1], calls[2], calls[3] = calls[3], calls[2], calls[1], calls[0]
				}
				emit(hx.Case{"doc": doc, "calls": calls, "g": 8, "per": 2, "rounds": 1, "cold": cold, "sched": 500 + n + di})
			}
		}
	}
	// slices of the shared document. A path item with n = 0..8 path-level parameters (encoding/json leaves the list with
	// spare capacity for n = 3, 5, 6, 7) and two or three operations whose OWN parameters differ (a required header each;
	// one variant with two own parameters, which no longer fit into the spare slot of n = 3 but do for n = 5, 6):
	// requests for the different operations validated concurrently, each with exactly its own required header
	// (accepted alone) or without it (rejected alone, naming ITS header). Whoever treats the path item's list as
	// scratch space (append, in-place edits) makes one operation's requests be judged by another's parameters.
	maxItem := 8
	if ctx.Thorough() {
		maxItem = 17 // … 9-15 have spare capacity again, 16 has none
	}
	for nItem := 0; nItem <= maxItem; nItem++ {
		for variant := 0; variant < 2; variant++ {
			n++
			emit(c15PathItemCase(nItem, variant, n))
		}
	}
	// the same for lists inside schemas: `type` lists (unsorted, 2-6 entries) with values of none of the types, enums,
	// 3-name `required`, 3-branch compositions — first mismatch raced in a fresh process as well
	for _, cold := range []bool{true, false} {
		for v := 0; v < 3; v++ {
			n++
			emit(c15SchemaListCase(v, cold, n))
		}
	}
	// declared response headers (inline / one shared component response) and array-of-objects defaults
	for v := 0; v < 2; v++ {
		for _, cold := range []bool{true, false} {
			n++
			emit(c15RespHeaderCase(v, cold, n))
			n++
			emit(c15ArrayDefaultCase(v, cold, n))
		}
	}
	// re-validation of the shared document next to each kind of concurrent call (out of the property's list of calls, but
	// table ConstructionWrites says it only reads a validated document: checked here under -race)
	for i, k := range c15Kinds {
		n++
		tag := fmt.Sprintf("dv%d", n)
		emit(hx.Case{"doc": c15SinkDoc(tag), "calls": []any{map[string]any{"k": "dval"}, c15SinkCall(k, i), c15SinkCall(k, i+1)}, "g": 8, "per": 2, "rounds": 1, "cold": i == 2, "sched": 900 + n})
	}
	// single goroutine: the sequential behaviour of the same machinery (trivial cases)
	emit(hx.Case{"doc": c15SinkDoc("one"), "calls": []any{c15SinkCall("vreq", 0), c15SinkCall("visit", 1)}, "g": 1, "per": 2, "rounds": 1, "cold": false, "sched": 1})
	// history / reuse (theorems sequential_reuse, call_after_any_history, concurrent_reuse): ONE goroutine performs every
	// call of the case three times over, one after the other, on the same loaded document / routers / Validator, in
	// the given order and in reverse order — no schedule is involved, so anything a call leaves behind for the next one
	// (a cache filled with a per-call value, a list of the document sorted or extended in place, a field of the shared
	// route or Validator) shows deterministically: each verdict is compared with the call alone on a freshly loaded
	// document (and, cold, alone in a fresh process), the document with its JSON before.
	c15Seq := func(c hx.Case, cold bool) {
		calls := jlist(c["calls"])
		for _, rev := range []bool{false, true} {
			n++
			cc := cloneCase(c)
			l := append([]any{}, jlist(cc["calls"])...)
			if rev {
				for a, b := 0, len(l)-1; a < b; a, b = a+1, b-1 {
					l[a], l[b] = l[b], l[a]
				}
			}
			cc["calls"], cc["g"], cc["per"], cc["rounds"], cc["cold"], cc["sched"] = l, 1, 3*len(calls), 1, cold, 1200+n
			emit(cc)
		}
	}
	{
		var calls []any
		for i, k := range c15Kinds {
			calls = append(calls, c15SinkCall(k, i), c15SinkCall(k, i+1))
		}
		calls = append(calls, map[string]any{"k": "dval"})
		c15Seq(hx.Case{"doc": c15SinkDoc("seqall"), "calls": calls}, true)
		// the same pattern text reached with two regex compilers, one call after the other
		for v, val := range []string{"ABAB", "abab"} {
			n++
			c15Seq(hx.Case{"doc": c15SinkDoc(fmt.Sprintf("seqrx%d", n)), "calls": []any{
				map[string]any{"k": "visit", "schema": "S1", "value": `{"name":"` + val + `"}`, "opts": []any{"multi"}, "rx": "ci"},
				map[string]any{"k": "visit", "schema": "S1", "value": `{"name":"` + val + `"}`, "opts": []any{"multi"}},
				map[string]any{"k": "vreq", "op": 0, "pathv": "ab", "router": "g", "query": "q=1", "ct": "application/json",
					"body": `{"name":"` + val + `","tags":["A","b"]}`, "skipDefaults": false, "multi": false, "rx": "ci"},
				map[string]any{"k": "vreq", "op": 0, "pathv": "ab", "router": "l", "query": "q=1", "ct": "application/json",
					"body": `{"name":"` + val + `","tags":["A","b"]}`, "skipDefaults": false, "multi": true},
			}}, v == 0)
		}
		for _, nItem := range []int{0, 3, 4, 5} {
			c15Seq(c15PathItemCase(nItem, nItem%2, n), false)
		}
		for v := 0; v < 3; v++ {
			c15Seq(c15SchemaListCase(v, false, n), v == 0)
		}
		for v := 0; v < 2; v++ {
			c15Seq(c15RespHeaderCase(v, false, n), false)
			c15Seq(c15ArrayDefaultCase(v, false, n), false)
		}
		for t := 0; t < 2; t++ { // first and repeated generation for recursive types, with and without options
			var gc []any
			for ty := 12; ty < 20; ty++ {
				c := map[string]any{"k": "gen", "type": ty, "rec": true, "opts": []any{}}
				if (ty+t)%3 == 0 {
					c["opts"] = []any{"allExported"}
				}
				gc = append(gc, c)
			}
			c15Seq(hx.Case{"doc": c15SinkDoc("seqrec"), "calls": gc}, true)
		}
	}

	nCold, nWarm := 110, 260
	if ctx.Thorough() {
		nCold, nWarm = 1200, 4200
	}
	for i := 0; i < nCold+nWarm; i++ {
		cold := i%((nCold+nWarm)/nCold) == 0
		g := &c15Gen{r: r, tag: fmt.Sprintf("s%dc%d", ctx.Seed, i), sharedDefaults: i%5 == 4, lists: i%3 != 0}
		doc := g.doc(1 + r.Intn(3))
		nc := 2 + r.Intn(5)
		var calls []any
		for j := 0; j < nc; j++ {
			kind := hx.Pick(r, c15Kinds)
			if r.Chance(6) {
				kind = "dval"
			}
			calls = append(calls, g.call(kind, doc))
		}
		c := hx.Case{"doc": doc, "calls": calls, "g": 2 + r.Intn(11), "per": 1 + r.Intn(3), "rounds": 1 + r.Intn(2), "cold": cold, "sched": int(r.U64() % 100000)}
		if !cold && i%12 == 7 {
			c["g"], c["per"], c["rounds"] = 1, 3*len(calls), 1 // one goroutine, every call three times in a row (reuse)
		}
		emit(c)
	}
}

func shrinkC15(c hx.Case) []hx.Case {
	var out []hx.Case
	if l := jlist(c["calls"]); len(l) > 1 {
		for _, n := range dropEach(l) {
			x := cloneCase(c)
			x["calls"] = n
			out = append(out, x)
		}
	}
	for _, k := range []string{"rounds", "per"} {
		if c15Int(c[k]) > 1 {
			x := cloneCase(c)
			x[k] = 1
			out = append(out, x)
		}
	}
	if g := c15Int(c["g"]); g > 2 {
		x := cloneCase(c)
		x["g"] = g / 2
		out = append(out, x)
	}
	// simplify schemas: replace component schemas and bodies that no remaining call needs by {}
	if doc, ok := c["doc"].(map[string]any); ok {
		used := map[string]bool{}
		for _, cl := range jlist(c["calls"]) {
			used[jstr(cl.(map[string]any), "schema")] = true
		}
		if ss, ok := doc["schemas"].(map[string]any); ok {
			for _, k := range c15_sortedKeys(ss) {
				if !used[k] && len(ss[k].(map[string]any)) > 0 {
					x := cloneCase(c)
					nd := cloneCase(doc)
					ns := cloneCase(ss)
					ns[k] = map[string]any{}
					nd["schemas"] = ns
					x["doc"] = nd
					out = append(out, x)
				}
			}
		}
	}
	return out
}
