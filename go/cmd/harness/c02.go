package main

// C02 — loading resolves every $ref to exactly the object it designates.
// Real code exercised: openapi3.Loader (LoadFromFile / LoadFromDataWithPath / LoadFromData / LoadFromIoReader / LoadFromURI)
// with an in-memory ReadFromURIFunc over generated multi-file layouts. Observed: the load error, and
// Value (canonical JSON) of every *Ref / $ref path item reachable from the returned *T.

import (
	"bytes"
	"encoding/json"
	"fmt"
	"net/url"
	"os"
	"path"
	"reflect"
	"sort"
	"strconv"
	"strings"

	"github.com/getkin/kin-openapi/openapi3"

	"kinverif/internal/hx"
)

func init() {
	hx.Register(&hx.Prop{
		ID: "C02",
		Rule: "exhaustive: every reference-capable position (top-level components of the nine kinds, path items, every nested child slot) × target location " +
			"(same document, external fragment in same/parent/sibling/child directory, whole file in another directory whose object holds a relative ref, untyped x- extension) × chain length 1..2 × path spellings " +
			"(x.json, ./x.json, ../d/x.json, d/../x.json, absolute, doubled slash) × root directory depth × entry point (file, data+path, data, http URI); shapes: diamond, self and mutual cycles per kind, " +
			"callback/path-item cycles, pointer escapes (~0, ~1, ~01 with decoy siblings), dangling (component, file, nil field), wrong kind, scalar target, slash-less fragment, pure $ref cycle, '#', " +
			"histories of 2..3 loads on ONE Loader (a revision whose reference dangles below a referenced component, then the corrected one with the same reference texts; every pair of entry points LoadFromData / LoadFromFile / LoadFromDataWithPath / LoadFromURI; the same root twice; two roots sharing an external document that the first load walked cleanly / left half-walked; histories over a store that CHANGES between the loads: the root edited in place — repaired, broken by the edit, changed, three revisions — for every pair of located entry points, an external fragment document edited, a whole-file element replaced / removed, an external document appearing / disappearing), null members at loop-element positions (in the root, below a typed target, below an untyped x- target), two documents with one path on two hosts, the #29 two-directory layout, kind clash per slot (same document / document loaded through the reference), path-item chains (2..3 hops, across directories, cyclic, to a whole file, through a callback), '#/…' inside whole-file elements per kind, pointers through a header, 3-hop chains per kind; then a seeded random stream of 2..4-file layouts with random components whose child slots are inline values or references to random components by random spelling, and a random stream of changing-store histories (2..3 independent random layouts on one Loader, the store replaced in between); data loads of changing-store histories partly through LoadFromIoReader. " +
			"A case is non-trivial when the driver reports at least one branch (it always reports the reference forms, kinds and classes present).",
		Exhaustive: true,
		Gen:        genC02,
		Run:        runC02,
		Compare:    cmpC02,
		Shrink:     shrinkC02,
		Workers:    8,
		TimeoutMs:  10000,
		Assumptions: []string{
			"files are JSON; the YAML front end is not exercised",
			"the in-memory reader resolves a location like a file system (path.Clean before lookup)",
			"value objects are generated in the marshaller's normal form, so that Value marshals back to the raw object",
			"IsExternalRefsAllowed = true",
			"no parameter with both schema and content is generated (the loader rejects it); a document with a null member where an object belongs may be rejected or loaded — when it loads, its references must be resolved",
			"within one epoch of a history one in-memory store; between epochs the store is replaced (files edited, added, removed) while the Loader stays; at most one LoadFromData load per epoch (so several per history)",
			"RefPath() is not compared (for a reference met first through a backtrack callback it depends on the visiting order)",
		},
	})
}

// ---------------------------------------------------------------- running the real loader

func c02Key(u *url.URL) string {
	if u.Host == "" && u.Scheme == "" {
		return path.Clean(u.Path)
	}
	return u.Scheme + "://" + u.Host + path.Clean(u.Path)
}

func c02KeyStr(s string) string {
	u, err := url.Parse(s)
	if err != nil {
		return s
	}
	return c02Key(u)
}

type c02Obs struct {
	refs map[string]map[string]any // rid -> canonical text -> value
}

func (o *c02Obs) add(rid string, v any) {
	if o.refs[rid] == nil {
		o.refs[rid] = map[string]any{}
	}
	o.refs[rid][hx.Canon(v)] = v
}

func c02Generic(v any) any {
	b, err := json.Marshal(v)
	if err != nil {
		return map[string]any{"marshal-error": err.Error()}
	}
	var out any
	dec := json.NewDecoder(strings.NewReader(string(b)))
	dec.UseNumber()
	if dec.Decode(&out) != nil {
		return nil
	}
	return out
}

func c02Rid(ext map[string]any) string {
	if s, ok := ext["x-rid"].(string); ok {
		return s
	}
	if ext["x-rid"] != nil {
		return fmt.Sprint(ext["x-rid"])
	}
	return "?"
}

func (o *c02Obs) pathItem(key string, pi *openapi3.PathItem, seen map[uintptr]bool) {
	if pi == nil {
		return
	}
	if pi.Ref != "" {
		cp := *pi
		cp.Ref = ""
		g := c02Strip(c02Generic(&cp))
		if m, ok := g.(map[string]any); ok && len(m) == 0 {
			g = nil
		}
		o.add("pi:"+key, g)
	}
	o.visit(reflect.ValueOf(pi), seen)
}

var (
	tAnyMap = reflect.TypeOf(map[string]any{})
	tOrigin = reflect.TypeOf(&openapi3.Origin{})
)

func (o *c02Obs) visit(v reflect.Value, seen map[uintptr]bool) {
	switch v.Kind() {
	case reflect.Ptr:
		if v.IsNil() {
			return
		}
		if v.Type() == tOrigin {
			return
		}
		p := v.Pointer()
		if seen[p] {
			return
		}
		seen[p] = true
		if v.CanInterface() {
			rec := func(ref string, ext map[string]any, value any, isNil bool) {
				if ref != "" {
					if isNil {
						o.add(c02Rid(ext), nil)
					} else {
						o.add(c02Rid(ext), c02Generic(value))
					}
				}
			}
			switch x := v.Interface().(type) {
			case *openapi3.Paths:
				m := x.Map()
				for _, k := range c02Sorted(m) {
					o.pathItem(k, m[k], seen)
				}
				return
			case *openapi3.Callback:
				m := x.Map()
				for _, k := range c02Sorted(m) {
					o.pathItem(k, m[k], seen)
				}
				return
			case *openapi3.Responses:
				m := x.Map()
				for _, k := range c02Sorted(m) {
					o.visit(reflect.ValueOf(m[k]), seen)
				}
				return
			case *openapi3.SchemaRef:
				rec(x.Ref, x.Extensions, x.Value, x.Value == nil)
			case *openapi3.HeaderRef:
				rec(x.Ref, x.Extensions, x.Value, x.Value == nil)
			case *openapi3.ParameterRef:
				rec(x.Ref, x.Extensions, x.Value, x.Value == nil)
			case *openapi3.RequestBodyRef:
				rec(x.Ref, x.Extensions, x.Value, x.Value == nil)
			case *openapi3.ResponseRef:
				rec(x.Ref, x.Extensions, x.Value, x.Value == nil)
			case *openapi3.SecuritySchemeRef:
				rec(x.Ref, x.Extensions, x.Value, x.Value == nil)
			case *openapi3.ExampleRef:
				rec(x.Ref, x.Extensions, x.Value, x.Value == nil)
			case *openapi3.LinkRef:
				rec(x.Ref, x.Extensions, x.Value, x.Value == nil)
			case *openapi3.CallbackRef:
				if x.Ref != "" {
					if x.Value == nil {
						o.add(c02Rid(x.Extensions), nil)
					} else {
						o.add(c02Rid(x.Extensions), c02Generic(x.Value))
					}
				}
			case *openapi3.PathItem:
				// reached other than through a keyed map: nothing to record, descend
			}
		}
		o.visit(v.Elem(), seen)
	case reflect.Struct:
		t := v.Type()
		for i := 0; i < v.NumField(); i++ {
			f := t.Field(i)
			if f.PkgPath != "" { // unexported
				continue
			}
			if f.Type == tAnyMap || f.Type == tOrigin {
				continue
			}
			o.visit(v.Field(i), seen)
		}
	case reflect.Map:
		if v.Type() == tAnyMap {
			return
		}
		keys := v.MapKeys()
		sort.Slice(keys, func(i, j int) bool { return fmt.Sprint(keys[i]) < fmt.Sprint(keys[j]) })
		for _, k := range keys {
			o.visit(v.MapIndex(k), seen)
		}
	case reflect.Slice:
		for i := 0; i < v.Len(); i++ {
			o.visit(v.Index(i), seen)
		}
	}
}

func c02Sorted[E any](m map[string]E) []string {
	out := make([]string, 0, len(m))
	for k := range m {
		out = append(out, k)
	}
	sort.Strings(out)
	return out
}

func c02ListAt(v any, i int) any {
	if l := jlist(v); i < len(l) {
		return l[i]
	}
	return nil
}

// c02Loads: the loads of a case — the short form {entry, root} is a history of one load
func c02Loads(c hx.Case) [][2]string {
	ls := jlist(c["loads"])
	if len(ls) == 0 {
		return [][2]string{{jstr(c, "entry"), jstr(c, "root")}}
	}
	out := [][2]string{}
	for _, l := range ls {
		lm, _ := l.(map[string]any)
		out = append(out, [2]string{jstr(lm, "entry"), jstr(lm, "root")})
	}
	return out
}

// runC02 makes the loads of the case one after the other on ONE Loader. Long form {epochs: [{files, loads}, …]}: the
// store is replaced between two epochs (the files were edited), the Loader stays the same.
func runC02(c hx.Case) any {
	files := map[string][]byte{}
	virtual := map[string][]byte{}
	c02SetStore := func(ep map[string]any) {
		for k := range files {
			delete(files, k)
		}
		for k := range virtual {
			delete(virtual, k)
		}
		short := len(jlist(ep["loads"])) == 0
		for i, f := range jlist(ep["files"]) {
			fm, _ := f.(map[string]any)
			b, _ := json.Marshal(fm["json"])
			key := c02KeyStr(jstr(fm, "path"))
			if jbool(fm, "virtual") || (short && i == 0 && jstr(ep, "entry") == "data") {
				// a root document given as data: it has no location and is not part of the store
				virtual[key] = b
				if short {
					virtual[""] = b
				}
				continue
			}
			files[key] = b
		}
	}
	reads := 0
	l := openapi3.NewLoader()
	l.IsExternalRefsAllowed = true
	l.ReadFromURIFunc = func(_ *openapi3.Loader, u *url.URL) ([]byte, error) {
		reads++
		if reads > 3000 {
			// "loading always terminates": a legitimate load of these layouts needs a few hundred reads at most
			panic("C02: more than 3000 file reads: loading does not terminate")
		}
		if d, ok := files[c02Key(u)]; ok {
			return d, nil
		}
		return nil, fmt.Errorf("no such file: %s", u)
	}
	epochs := []map[string]any{}
	for _, e := range jlist(c["epochs"]) {
		if em, ok := e.(map[string]any); ok {
			epochs = append(epochs, em)
		}
	}
	if len(epochs) == 0 {
		epochs = append(epochs, map[string]any(c))
	}
	loads := []any{}
	for _, ep := range epochs {
		c02SetStore(ep)
		for li, ld := range c02Loads(hx.Case(ep)) {
			entry, root := ld[0], ld[1]
			via := "" // "reader": the data load goes through LoadFromIoReader (which hands over to LoadFromData)
			if lm, ok := c02ListAt(ep["loads"], li).(map[string]any); ok {
				via = jstr(lm, "via")
			}
			var doc *openapi3.T
			var err error
			switch entry {
			case "file":
				doc, err = l.LoadFromFile(root)
			case "path":
				u, _ := url.Parse(root)
				doc, err = l.LoadFromDataWithPath(files[c02KeyStr(root)], u)
			case "uri":
				u, _ := url.Parse(root)
				doc, err = l.LoadFromURI(u)
			default:
				d, ok := virtual[c02KeyStr(root)]
				if !ok {
					d = virtual[""]
				}
				if via == "reader" {
					doc, err = l.LoadFromIoReader(bytes.NewReader(d))
				} else {
					doc, err = l.LoadFromData(d)
				}
			}
			if err != nil {
				loads = append(loads, map[string]any{"outcome": "err", "error": err.Error(), "refs": map[string]any{}})
				continue
			}
			o := &c02Obs{refs: map[string]map[string]any{}}
			o.visit(reflect.ValueOf(doc), map[uintptr]bool{})
			refs := map[string]any{}
			for rid, vs := range o.refs {
				lst := []any{}
				for _, k := range c02Sorted(vs) {
					lst = append(lst, vs[k])
				}
				refs[rid] = lst
			}
			loads = append(loads, map[string]any{"outcome": "ok", "refs": refs})
		}
	}
	last, _ := loads[len(loads)-1].(map[string]any)
	return map[string]any{"outcome": last["outcome"], "error": last["error"], "refs": last["refs"], "loads": loads}
}

// ---------------------------------------------------------------- comparison

// canonical text of a value; the x-rid tags of nested reference objects are not part of the value
// (the marshaller drops the siblings of $ref)
func c02Strip(v any) any {
	switch x := v.(type) {
	case map[string]any:
		o := map[string]any{}
		for k, e := range x {
			if k != "x-rid" {
				o[k] = c02Strip(e)
			}
		}
		return o
	case []any:
		o := make([]any, len(x))
		for i, e := range x {
			o[i] = c02Strip(e)
		}
		return o
	}
	return v
}

func c02Canon(v any) string { return hx.Canon(c02Strip(v)) }

func c02Set(v any) []string {
	out := []string{}
	for _, x := range jlist(v) {
		out = append(out, c02Canon(x))
	}
	sort.Strings(out)
	return out
}

func cmpC02(c hx.Case, impl any, reply map[string]any) hx.Verdict {
	im, _ := impl.(map[string]any)
	model, _ := reply["model"].(map[string]any)
	spec, _ := reply["spec"].(map[string]any)
	if im == nil || model == nil || spec == nil {
		return hx.Verdict{IM: false, IS: true, Detail: "missing observation"}
	}
	v := hx.Verdict{IM: true, IS: true}
	if _, p := im["panic"]; p {
		return hx.Verdict{IM: false, IS: false, Detail: fmt.Sprintf("panic: %v", im["panic"])}
	}
	if _, p := im["hang"]; p {
		return hx.Verdict{IM: false, IS: false, Detail: "hang"}
	}
	il, ml, sl := jlist(im["loads"]), jlist(model["loads"]), jlist(spec["loads"])
	if len(il) != len(ml) || len(il) != len(sl) {
		return hx.Verdict{IM: false, IS: true, Detail: fmt.Sprintf("loads: impl %d, model %d, spec %d", len(il), len(ml), len(sl))}
	}
	for i := range il {
		a, _ := il[i].(map[string]any)
		m, _ := ml[i].(map[string]any)
		sp, _ := sl[i].(map[string]any)
		lv := c02CmpLoad(a, m, sp)
		pre := ""
		if len(il) > 1 {
			pre = fmt.Sprintf("load %d of %d: ", i+1, len(il))
		}
		if !lv.IM && v.IM {
			v.IM = false
			if v.IS {
				v.Detail = pre + lv.Detail
			}
		}
		if !lv.IS && v.IS {
			v.IS = false
			v.Detail = pre + lv.Detail
		}
	}
	if dbg := os.Getenv("C02_DEBUG"); !v.IM && dbg != "" {
		if f, err := os.OpenFile(dbg, os.O_APPEND|os.O_CREATE|os.O_WRONLY, 0o644); err == nil {
			fmt.Fprintf(f, "IM %v | %s | case %s\n", reply["excl"], v.Detail, hx.Canon(c))
			f.Close()
		}
	}
	return v
}

// one load: implementation vs model, implementation vs specification (which looks at this load's input alone)
func c02CmpLoad(im, model, spec map[string]any) hx.Verdict {
	iout := jstr(im, "outcome")
	v := hx.Verdict{IM: true, IS: true}
	irefs, _ := im["refs"].(map[string]any)
	mout := jstr(model, "outcome")
	mrefs, _ := model["refs"].(map[string]any)
	if iout != mout {
		v.IM = false
		v.Detail = fmt.Sprintf("outcome: impl %s (%v) vs model %s", iout, im["error"], mout)
	} else if iout == "ok" {
		for rid, mv := range mrefs {
			if !sameStrs(c02Set(irefs[rid]), c02Set(mv), true) {
				v.IM = false
				v.Detail = fmt.Sprintf("ref %s: impl %v vs model %v", rid, c02Set(irefs[rid]), c02Set(mv))
				break
			}
		}
		if v.IM {
			for rid := range irefs {
				if _, ok := mrefs[rid]; !ok {
					v.IM = false
					v.Detail = fmt.Sprintf("ref %s reachable in impl (%v), not in model", rid, c02Set(irefs[rid]))
					break
				}
			}
		}
	}
	srefs, _ := spec["refs"].(map[string]any)
	if jbool(spec, "ok") {
		if iout != "ok" {
			// a document with a null member where an object belongs may be rejected; a well-formed one may not
			if !jbool(spec, "malformed") {
				v.IS = false
				v.Detail = fmt.Sprintf("every reference designates an object, but load gave %s (%v)", iout, im["error"])
			}
		} else {
			for _, rid := range c02Sorted(srefs) {
				if _, seen := irefs[rid]; !seen {
					continue // written in a loaded document but not reachable from the returned root object
				}
				want := []string{c02Canon(srefs[rid])}
				if got := c02Set(irefs[rid]); !sameStrs(got, want, true) {
					v.IS = false
					v.Detail = fmt.Sprintf("ref %s: resolved to %v, designates %v", rid, got, want)
					break
				}
			}
		}
	} else if iout != "err" {
		bad := []string{}
		for _, rid := range c02Sorted(srefs) {
			if srefs[rid] == nil {
				bad = append(bad, rid)
			}
		}
		v.IS = false
		v.Detail = fmt.Sprintf("references %v designate nothing (dangling / wrong kind / cycle) but load gave %s", bad, iout)
	}
	return v
}

// ---------------------------------------------------------------- building documents

type jm = map[string]any

var c02Coll = map[string]string{"header": "headers", "parameter": "parameters", "requestBody": "requestBodies", "response": "responses",
	"schema": "schemas", "securityScheme": "securitySchemes", "example": "examples", "callback": "callbacks", "link": "links"}

var c02Kinds = []string{"header", "parameter", "requestBody", "response", "schema", "securityScheme", "example", "callback", "link", "pathItem"}

// value object of a kind in the marshaller's normal form, identified by id
func c02Val(kind, id string) jm {
	switch kind {
	case "schema":
		return jm{"type": "object", "description": id}
	case "header":
		return jm{"description": id, "schema": jm{"type": "string"}}
	case "parameter":
		return jm{"name": "p" + id, "in": "query", "description": id, "schema": jm{"type": "string"}}
	case "requestBody":
		return jm{"description": id, "content": jm{"application/json": jm{"schema": jm{"type": "string"}}}}
	case "response":
		return jm{"description": id}
	case "securityScheme":
		return jm{"type": "http", "scheme": "basic", "description": id}
	case "example":
		return jm{"summary": id, "value": 1}
	case "link":
		return jm{"operationId": "op", "description": id}
	case "callback":
		return jm{"{$request.body#/u}": c02Val("pathItem", id)}
	case "pathItem":
		return jm{"description": id, "get": jm{"responses": jm{"200": jm{"description": "ok"}}}}
	}
	return jm{}
}

type c02Slot struct {
	parent string
	name   string
	path   []string // "[]" wraps the child in a one-element array
	child  string
}

// every reference-capable child position of every kind (all of them are walked since cbb0d05; the last nine
// are the positions that were not: DESIGN §7 #13)
var c02Slots = []c02Slot{
	{"schema", "properties", []string{"properties", "p"}, "schema"},
	{"schema", "items", []string{"items"}, "schema"},
	{"schema", "additionalProperties", []string{"additionalProperties"}, "schema"},
	{"schema", "not", []string{"not"}, "schema"},
	{"schema", "allOf", []string{"allOf", "[]"}, "schema"},
	{"schema", "anyOf", []string{"anyOf", "[]"}, "schema"},
	{"schema", "oneOf", []string{"oneOf", "[]"}, "schema"},
	{"header", "schema", []string{"schema"}, "schema"},
	{"parameter", "schema", []string{"schema"}, "schema"},
	{"parameter", "content", []string{"content", "application/json", "schema"}, "schema"},
	{"requestBody", "schema", []string{"content", "application/json", "schema"}, "schema"},
	{"requestBody", "example", []string{"content", "application/json", "examples", "e"}, "example"},
	{"response", "header", []string{"headers", "h"}, "header"},
	{"response", "schema", []string{"content", "application/json", "schema"}, "schema"},
	{"response", "example", []string{"content", "application/json", "examples", "e"}, "example"},
	{"response", "link", []string{"links", "l"}, "link"},
	{"callback", "pathItem", []string{"{$request.body#/v}"}, "pathItem"},
	{"pathItem", "parameter", []string{"parameters", "[]"}, "parameter"},
	{"pathItem", "opParameter", []string{"get", "parameters", "[]"}, "parameter"},
	{"pathItem", "requestBody", []string{"post", "requestBody"}, "requestBody"},
	{"pathItem", "response", []string{"get", "responses", "201"}, "response"},
	{"pathItem", "callback", []string{"get", "callbacks", "cb"}, "callback"},
	// formerly unwalked
	{"header", "example", []string{"examples", "e"}, "example"},
	{"header", "contentSchema", []string{"content", "application/json", "schema"}, "schema"},
	{"header", "contentExample", []string{"content", "application/json", "examples", "e"}, "example"},
	{"header", "encodingHeader", []string{"content", "application/json", "encoding", "f", "headers", "h"}, "header"},
	{"parameter", "example", []string{"examples", "e"}, "example"},
	{"parameter", "contentExample", []string{"content", "application/json", "examples", "e"}, "example"},
	{"parameter", "encodingHeader", []string{"content", "application/json", "encoding", "f", "headers", "h"}, "header"},
	{"requestBody", "encodingHeader", []string{"content", "application/json", "encoding", "f", "headers", "h"}, "header"},
	{"response", "encodingHeader", []string{"content", "application/json", "encoding", "f", "headers", "h"}, "header"},
}

func c02Set2(obj jm, slot c02Slot, child any) jm {
	cur := obj
	if (slot.parent == "parameter" || slot.parent == "header") && slot.path[0] == "content" {
		// the loader rejects a parameter that has both `schema` and `content`
		delete(obj, "schema")
	}
	if slot.parent == "pathItem" && slot.path[0] == "post" {
		obj["post"] = jm{"responses": jm{"200": jm{"description": "ok"}}}
	}
	for i, p := range slot.path {
		if slot.parent == "callback" {
			// path-item references are identified by their map key: make it unique
			if cm, ok := child.(jm); ok {
				if rid, ok := cm["x-rid"].(string); ok {
					p = "{$request.body#/" + rid + "}"
				}
			}
		}
		last := i == len(slot.path)-1
		if last {
			cur[p] = child
			break
		}
		if slot.path[i+1] == "[]" {
			cur[p] = []any{child}
			break
		}
		nx, ok := cur[p].(jm)
		if !ok {
			nx = jm{}
			cur[p] = nx
		}
		cur = nx
	}
	return obj
}

func c02Ref(text, rid string) jm { return jm{"$ref": text, "x-rid": rid} }

func c02Doc() jm {
	return jm{"openapi": "3.0.0", "info": jm{"title": "t", "version": "1"}, "paths": jm{}}
}

// put places obj of a kind at the top level of doc under name (components/<coll>/<name> or paths/<name>)
func c02Put(doc jm, kind, name string, obj any) {
	if kind == "pathItem" {
		doc["paths"].(jm)[name] = obj
		return
	}
	comps, ok := doc["components"].(jm)
	if !ok {
		comps = jm{}
		doc["components"] = comps
	}
	coll, ok := comps[c02Coll[kind]].(jm)
	if !ok {
		coll = jm{}
		comps[c02Coll[kind]] = coll
	}
	coll[name] = obj
}

func c02Esc(tok string) string {
	return strings.ReplaceAll(strings.ReplaceAll(tok, "~", "~0"), "/", "~1")
}

// pointer of a top-level object
func c02Ptr(kind, name string) string {
	if kind == "pathItem" {
		return "#/paths/" + c02Esc(name)
	}
	return "#/components/" + c02Coll[kind] + "/" + c02Esc(name)
}

func c02TopName(kind, name string) string {
	if kind == "pathItem" {
		return "/" + name
	}
	return name
}

type c02Layout struct {
	entry   string
	root    string
	order   []string
	files   map[string]jm
	loads   [][2]string     // a history on one Loader (empty: the single load entry/root)
	virtual map[string]bool // root documents handed over as data: not part of the store
}

func newLayout(entry, root string) *c02Layout {
	l := &c02Layout{entry: entry, root: root, files: map[string]jm{}}
	l.file(root)
	return l
}

func (l *c02Layout) file(p string) jm {
	if d, ok := l.files[p]; ok {
		return d
	}
	d := c02Doc()
	l.files[p] = d
	l.order = append(l.order, p)
	return d
}

func (l *c02Layout) raw(p string, obj jm) {
	if _, ok := l.files[p]; !ok {
		l.order = append(l.order, p)
	}
	l.files[p] = obj
}

func (l *c02Layout) toCase() hx.Case {
	fs := []any{}
	for _, p := range l.order {
		f := map[string]any{"path": p, "json": l.files[p]}
		if l.virtual[p] {
			f["virtual"] = true
		}
		fs = append(fs, f)
	}
	if len(l.loads) > 0 {
		ls := []any{}
		for _, ld := range l.loads {
			ls = append(ls, map[string]any{"entry": ld[0], "root": ld[1]})
		}
		return hx.Case{"loads": ls, "files": fs}
	}
	return hx.Case{"entry": l.entry, "root": l.root, "files": fs}
}

// relative spellings of the path from file `from` to file `to` (both absolute, clean)
func c02Spell(from, to string, style int) string {
	fd, td := path.Dir(from), path.Dir(to)
	fs, ts := strings.Split(strings.Trim(fd, "/"), "/"), strings.Split(strings.Trim(td, "/"), "/")
	i := 0
	for i < len(fs) && i < len(ts) && fs[i] == ts[i] {
		i++
	}
	rel := strings.Repeat("../", len(fs)-i) + strings.Join(append(append([]string{}, ts[i:]...), path.Base(to)), "/")
	switch style {
	case 1:
		return "./" + rel
	case 2:
		return to // absolute
	case 3:
		return "zz/../" + rel
	case 4:
		if strings.HasPrefix(rel, "../") {
			return rel
		}
		return ".//" + rel
	case 5: // through the parent directory and back
		return "../" + path.Base(fd) + "/" + rel
	}
	return rel
}

// ---------------------------------------------------------------- generator

func genC02(ctx *hx.Ctx, emit func(hx.Case)) {
	c02Exhaustive(ctx, emit)
	n := 3000
	if ctx.Thorough() {
		n = 24000
	}
	for i := 0; i < n; i++ {
		emit(c02Random(ctx.Rng))
	}
	// random histories over a changing store: 2..3 independent random layouts (they share directory and file names and
	// most reference texts) loaded one after the other on ONE Loader, the store replaced wholesale in between
	for i := 0; i < n/15; i++ {
		eps := []any{}
		for k := 2 + ctx.Rng.Intn(2); k > 0; k-- {
			eps = append(eps, c02AsEpoch(c02Random(ctx.Rng)))
		}
		emit(hx.Case{"epochs": eps})
	}
}

// c02AsEpoch: a case (short form or history form, root not given as data) as one epoch of a changing-store history
func c02AsEpoch(c hx.Case) map[string]any {
	if ls := jlist(c["loads"]); len(ls) > 0 {
		return map[string]any{"files": c["files"], "loads": c["loads"]}
	}
	return map[string]any{"files": c["files"], "loads": []any{map[string]any{"entry": c["entry"], "root": c["root"]}}}
}

// where a referring object can be put: at the top level, or in a child slot of a parent at the top level
type c02Place struct {
	slot *c02Slot // nil: top level
}

func c02Places(kind string) []c02Place {
	out := []c02Place{{nil}}
	for i := range c02Slots {
		if c02Slots[i].child == kind {
			out = append(out, c02Place{&c02Slots[i]})
		}
	}
	return out
}

// place puts obj (of kind) into doc at the place; names derive from tag
func c02PlaceIn(doc jm, kind string, pl c02Place, tag string, obj any) {
	if pl.slot == nil {
		c02Put(doc, kind, c02TopName(kind, "R"+tag), obj)
		return
	}
	parent := c02Val(pl.slot.parent, "par"+tag)
	c02Set2(parent, *pl.slot, obj)
	c02Put(doc, pl.slot.parent, c02TopName(pl.slot.parent, "P"+tag), parent)
}

func c02Exhaustive(ctx *hx.Ctx, emit func(hx.Case)) {
	type loc struct {
		name   string
		root   string
		target string
		style  int
	}
	locs := []loc{
		{"same-doc", "/r/a/root.json", "", 0},
		{"same-dir", "/r/a/root.json", "/r/a/x.json", 0},
		{"same-dir-dot", "/r/a/root.json", "/r/a/x.json", 1},
		{"sibling-dir", "/r/a/root.json", "/r/b/x.json", 0},
		{"parent-dir", "/r/a/b/root.json", "/r/a/x.json", 0},
		{"child-dir", "/r/root.json", "/r/a/b/x.json", 0},
		{"absolute", "/r/a/root.json", "/r/b/x.json", 2},
		{"dotdot-inside", "/r/a/root.json", "/r/b/x.json", 3},
		{"double-slash", "/r/a/root.json", "/r/a/c/x.json", 4},
		{"up-and-back", "/r/a/root.json", "/r/a/x.json", 5},
	}
	entries := []string{"file", "path"}
	for ki, kind := range c02Kinds {
		for pi, pl := range c02Places(kind) {
			for li, lc := range locs {
				if !ctx.Thorough() && pl.slot != nil && li >= 4 && (ki+pi+li)%3 != 0 {
					continue // quick tier thins nested placement × exotic spelling
				}
				entry := entries[(ki+pi+li)%2]
				tag := strconv.Itoa(ki) + "_" + strconv.Itoa(pi)
				// (1) fragment reference, chain length 1 and 2
				for chain := 1; chain <= 2; chain++ {
					l := newLayout(entry, lc.root)
					tf := lc.root
					if lc.target != "" {
						tf = lc.target
					}
					tdoc := l.file(tf)
					c02Put(tdoc, kind, c02TopName(kind, "T"), c02Val(kind, "T@"+tf))
					text := c02Ptr(kind, c02TopName(kind, "T"))
					if chain == 2 {
						// the target is itself a reference to a value in a third file next to the target
						third := path.Dir(tf) + "/y.json"
						c02Put(l.file(third), kind, c02TopName(kind, "U"), c02Val(kind, "U@"+third))
						c02Put(tdoc, kind, c02TopName(kind, "T"), c02Ref("y.json"+c02Ptr(kind, c02TopName(kind, "U")), "mid"))
					}
					if lc.target != "" {
						text = c02Spell(lc.root, lc.target, lc.style) + text
					}
					c02PlaceIn(l.file(lc.root), kind, pl, tag, c02Ref(text, "r1"))
					emit(l.toCase())
				}
				// (2) whole-file reference; the object in the file holds a child given by a relative reference
				if lc.target != "" {
					l := newLayout(entry, lc.root)
					obj := c02Val(kind, "W@"+lc.target)
					for si := range c02Slots {
						s := c02Slots[si]
						if s.parent == kind {
							side := path.Dir(lc.target) + "/side.json"
							c02Put(l.file(side), s.child, c02TopName(s.child, "N"), c02Val(s.child, "N@"+side))
							// decoy with the same name next to the referring document
							decoy := path.Dir(lc.root) + "/side.json"
							if decoy != side {
								c02Put(l.file(decoy), s.child, c02TopName(s.child, "N"), c02Val(s.child, "decoy@"+decoy))
							}
							c02Set2(obj, s, c02Ref("side.json"+c02Ptr(s.child, c02TopName(s.child, "N")), "r2"))
							break
						}
					}
					l.raw(lc.target, obj)
					c02PlaceIn(l.file(lc.root), kind, pl, tag, c02Ref(c02Spell(lc.root, lc.target, lc.style), "r1"))
					emit(l.toCase())
				}
				// (3) untyped target under an x- extension / unknown top-level key
				if li < 4 {
					for _, top := range []string{"x-defs", "definitions"} {
						l := newLayout(entry, lc.root)
						tf := lc.root
						if lc.target != "" {
							tf = lc.target
						}
						l.file(tf)[top] = jm{"T": c02Val(kind, "X@"+tf)}
						text := "#/" + top + "/T"
						if lc.target != "" {
							text = c02Spell(lc.root, lc.target, lc.style) + text
						}
						c02PlaceIn(l.file(lc.root), kind, pl, tag, c02Ref(text, "r1"))
						emit(l.toCase())
					}
				}
			}
		}
	}
	c02Shapes(emit)
}

func c02Shapes(emit func(hx.Case)) {
	root := "/r/a/root.json"
	// entry points: data without location (internal refs only), http URI
	for _, kind := range c02Kinds {
		l := newLayout("data", "/mem/root.json")
		c02Put(l.file(l.root), kind, c02TopName(kind, "T"), c02Val(kind, "T"))
		c02Put(l.file(l.root), kind, c02TopName(kind, "R"), c02Ref(c02Ptr(kind, c02TopName(kind, "T")), "r1"))
		emit(l.toCase())
		l = newLayout("uri", "http://h.example/api/root.json")
		c02Put(l.file("http://h.example/api/defs/x.json"), kind, c02TopName(kind, "T"), c02Val(kind, "T"))
		c02Put(l.file(l.root), kind, c02TopName(kind, "R"), c02Ref("defs/x.json"+c02Ptr(kind, c02TopName(kind, "T")), "r1"))
		emit(l.toCase())
	}
	// diamond
	for _, kind := range c02Kinds {
		l := newLayout("file", root)
		c02Put(l.file("/r/b/x.json"), kind, c02TopName(kind, "C"), c02Val(kind, "C"))
		c02Put(l.file("/r/b/x.json"), kind, c02TopName(kind, "A"), c02Ref(c02Ptr(kind, c02TopName(kind, "C")), "a"))
		c02Put(l.file("/r/c/y.json"), kind, c02TopName(kind, "B"), c02Ref("../b/x.json"+c02Ptr(kind, c02TopName(kind, "C")), "b"))
		c02Put(l.file(root), kind, c02TopName(kind, "R1"), c02Ref("../b/x.json"+c02Ptr(kind, c02TopName(kind, "A")), "r1"))
		c02Put(l.file(root), kind, c02TopName(kind, "R2"), c02Ref("../c/y.json"+c02Ptr(kind, c02TopName(kind, "B")), "r2"))
		emit(l.toCase())
	}
	// cycles through every slot whose child kind can reach the parent kind again
	for si := range c02Slots {
		s := c02Slots[si]
		for _, ext := range []bool{false, true} {
			// parent P holds (in slot s) a reference to child C; C (if it can) holds a reference back to P
			back := c02BackSlot(s.child, s.parent)
			l := newLayout("file", root)
			pf := root
			if ext {
				pf = "/r/b/x.json"
			}
			pre := ""
			if ext {
				pre = "../b/x.json"
			}
			selfPre := ""
			if ext {
				selfPre = "x.json"
			}
			p := c02Val(s.parent, "P")
			pname, cname := c02TopName(s.parent, "P"), c02TopName(s.child, "C")
			if s.parent == s.child {
				// self cycle
				c02Set2(p, s, c02Ref(selfPre+c02Ptr(s.parent, pname), "self"))
				c02Put(l.file(pf), s.parent, pname, p)
			} else if back != nil {
				cobj := c02Val(s.child, "C")
				c02Set2(cobj, *back, c02Ref(selfPre+c02Ptr(s.parent, pname), "back"))
				c02Set2(p, s, c02Ref(selfPre+c02Ptr(s.child, cname), "fwd"))
				c02Put(l.file(pf), s.parent, pname, p)
				c02Put(l.file(pf), s.child, cname, cobj)
			} else {
				continue
			}
			c02Put(l.file(root), s.parent, c02TopName(s.parent, "R"), c02Ref(pre+c02Ptr(s.parent, pname), "r1"))
			emit(l.toCase())
		}
	}
	// mutual cycle across two files and directories (schemas)
	{
		l := newLayout("file", root)
		a := c02Val("schema", "A")
		c02Set2(a, c02Slots[0], c02Ref("../c/y.json#/components/schemas/B", "ab"))
		b := c02Val("schema", "B")
		c02Set2(b, c02Slots[1], c02Ref("../b/x.json#/components/schemas/A", "ba"))
		c02Put(l.file("/r/b/x.json"), "schema", "A", a)
		c02Put(l.file("/r/c/y.json"), "schema", "B", b)
		c02Put(l.file(root), "schema", "R", c02Ref("../b/x.json#/components/schemas/A", "r1"))
		emit(l.toCase())
	}
	// pointer escapes with decoy siblings
	for _, kind := range []string{"schema", "response", "parameter", "pathItem"} {
		for _, nm := range []string{"a/b", "a~b", "a~1b", "a~0b", "~01", "x~/y", "/~", "a~01b~10c"} {
			for _, ext := range []bool{false, true} {
				l := newLayout("file", root)
				tf := root
				pre := ""
				if ext {
					tf, pre = "/r/b/x.json", "../b/x.json"
				}
				name := c02TopName(kind, nm)
				c02Put(l.file(tf), kind, name, c02Val(kind, "right:"+nm))
				for _, decoy := range []string{strings.ReplaceAll(nm, "~1", "/"), strings.ReplaceAll(nm, "~0", "~"), strings.ReplaceAll(strings.ReplaceAll(nm, "~0", "~"), "~1", "/")} {
					if decoy != nm {
						c02Put(l.file(tf), kind, c02TopName(kind, decoy), c02Val(kind, "decoy:"+decoy))
					}
				}
				c02Put(l.file(root), kind, c02TopName(kind, "R"), c02Ref(pre+c02Ptr(kind, name), "r1"))
				emit(l.toCase())
			}
		}
	}
	// deeper pointers: into a value's child, into an array element, through a path item
	{
		l := newLayout("file", root)
		s := jm{"type": "object", "description": "S", "properties": jm{"p": jm{"type": "string", "description": "S.p"}},
			"allOf": []any{jm{"type": "object", "description": "S.allOf0"}}}
		c02Put(l.file("/r/b/x.json"), "schema", "S", s)
		pi := c02Val("pathItem", "PI")
		c02Set2(pi, c02Slots[20], c02Val("response", "PI.get.201"))
		c02Put(l.file("/r/b/x.json"), "pathItem", "/x/{id}", pi)
		c02Put(l.file(root), "schema", "R1", c02Ref("../b/x.json#/components/schemas/S/properties/p", "r1"))
		c02Put(l.file(root), "schema", "R2", c02Ref("../b/x.json#/components/schemas/S/allOf/0", "r2"))
		c02Put(l.file(root), "response", "R3", c02Ref("../b/x.json#/paths/~1x~1{id}/get/responses/201", "r3"))
		c02Put(l.file(root), "pathItem", "/y", c02Ref("../b/x.json#/paths/~1x~1{id}", "r4"))
		emit(l.toCase())
	}
	// dangling, wrong kind, scalar, slash-less, missing file, nil field, pure cycles, '#'
	for _, kind := range c02Kinds {
		other := "schema"
		if kind == "schema" {
			other = "response"
		}
		bad := []string{
			c02Ptr(kind, c02TopName(kind, "Missing")),
			"../b/x.json" + c02Ptr(kind, c02TopName(kind, "Missing")),
			"../b/missing.json" + c02Ptr(kind, c02TopName(kind, "T")),
			"../b/missing.json",
			c02Ptr(other, c02TopName(other, "O")),
			"../b/x.json" + c02Ptr(other, c02TopName(other, "O")),
			"#/info/title",
			"#/components",
			"#T",
			"../b/x.json#T",
			c02Ptr(kind, c02TopName(kind, "Self")),
			"#",
			"../b/x.json#",
			"../b/x.json" + c02Ptr(kind, c02TopName(kind, "Loop1")),
		}
		for bi, text := range bad {
			for _, pl := range c02Places(kind)[:1] {
				l := newLayout("file", root)
				c02Put(l.file(root), other, c02TopName(other, "O"), c02Val(other, "O"))
				c02Put(l.file("/r/b/x.json"), other, c02TopName(other, "O"), c02Val(other, "Ox"))
				c02Put(l.file("/r/b/x.json"), kind, c02TopName(kind, "T"), c02Val(kind, "Tx"))
				c02Put(l.file("/r/b/x.json"), kind, c02TopName(kind, "Loop1"), c02Ref(c02Ptr(kind, c02TopName(kind, "Loop2")), "l1"))
				c02Put(l.file("/r/b/x.json"), kind, c02TopName(kind, "Loop2"), c02Ref(c02Ptr(kind, c02TopName(kind, "Loop1")), "l2"))
				if bi == 10 {
					c02Put(l.file(root), kind, c02TopName(kind, "Self"), c02Ref(text, "r1"))
				} else {
					c02PlaceIn(l.file(root), kind, pl, "b"+strconv.Itoa(bi), c02Ref(text, "r1"))
				}
				emit(l.toCase())
			}
		}
	}
	// dangling reference that names the referring document's own object (fallback re-read), and nil fields
	for _, kind := range []string{"schema", "response", "parameter", "header"} {
		l := newLayout("file", root)
		c02Put(l.file(root), kind, "X", c02Val(kind, "root's X"))
		c02Put(l.file(root), kind, "B", c02Ref("../b/x.json"+c02Ptr(kind, "X"), "r1"))
		c02Put(l.file("/r/b/x.json"), kind, "Y", c02Val(kind, "Y"))
		emit(l.toCase())
	}
	for _, text := range []string{"#/components/schemas/S/items", "#/components/schemas/S/not", "../b/x.json#/components/schemas/S/items",
		"#/components/headers/H/schema", "#/components/schemas/S/properties/q", "#/components/schemas/S/allOf/3"} {
		l := newLayout("file", root)
		for _, f := range []string{root, "/r/b/x.json"} {
			c02Put(l.file(f), "schema", "S", jm{"type": "object", "description": "S", "allOf": []any{jm{"type": "string"}}})
			c02Put(l.file(f), "header", "H", jm{"description": "H"})
		}
		c02Put(l.file(root), "schema", "A", c02Ref(text, "r1"))
		emit(l.toCase())
	}
	// #29: the same relative text in two directories
	{
		l := newLayout("file", root)
		c02Put(l.file(root), "schema", "X", c02Ref("x.json#/components/schemas/S", "r1"))
		c02Put(l.file("/r/a/x.json"), "schema", "S", jm{"type": "object", "description": "a/S", "properties": jm{"p": c02Ref("../b/b.json#/components/schemas/T", "r2")}})
		c02Put(l.file("/r/b/b.json"), "schema", "T", jm{"type": "object", "description": "b/T", "properties": jm{"q": c02Ref("x.json#/components/schemas/S", "r3")}})
		c02Put(l.file("/r/b/x.json"), "schema", "S", jm{"type": "string", "description": "b/S"})
		emit(l.toCase())
	}
	// #12: a text in progress as a response reference met again as a header reference
	{
		l := newLayout("file", root)
		c02Put(l.file(root), "response", "A", c02Ref("#/components/responses/B", "r1"))
		c02Put(l.file(root), "response", "B", jm{"description": "B", "headers": jm{"h": c02Ref("#/components/responses/B", "r2")}})
		emit(l.toCase())
	}
	// path item whose target is itself a reference
	{
		l := newLayout("file", root)
		c02Put(l.file(root), "pathItem", "/a", c02Ref("#/paths/~1b", "r1"))
		c02Put(l.file(root), "pathItem", "/b", c02Ref("../b/x.json#/paths/~1c", "r2"))
		c02Put(l.file("/r/b/x.json"), "pathItem", "/c", c02Val("pathItem", "c"))
		emit(l.toCase())
	}
	// '#'-reference inside a whole-file element: RFC says the element's own file
	{
		l := newLayout("file", root)
		l.file(root)["definitions"] = jm{"S": jm{"type": "string", "description": "root's S"}}
		l.raw("/r/b/h.json", jm{"description": "H", "schema": c02Ref("#/definitions/S", "r2"), "definitions": jm{"S": jm{"type": "integer", "description": "h's S"}}})
		c02Put(l.file(root), "header", "H", c02Ref("../b/h.json", "r1"))
		emit(l.toCase())
	}
	c02ShapesRound3(emit)
	c02ShapesRound4(emit)
	c02ShapesRound5(emit)
}

// round 4: histories on one Loader, null members, documents that share a path on two hosts
func c02ShapesRound4(emit func(hx.Case)) {
	dir := "/r/a"
	// the revisions of one document: `broken` has a reference that dangles BELOW a referenced component (so references
	// are in progress when the load fails), `fixed` adds the missing component, `other` uses the same reference texts
	rev := func(kind string, fixed bool, id string) jm {
		d := c02Doc()
		var back *c02Slot
		for si := range c02Slots {
			if c02Slots[si].parent == kind {
				back = &c02Slots[si]
				break
			}
		}
		pet := c02Val(kind, "Pet"+id)
		if back != nil {
			c02Set2(pet, *back, c02Ref(c02Ptr(back.child, c02TopName(back.child, "Owner")), "owner"))
			if fixed {
				c02Put(d, back.child, c02TopName(back.child, "Owner"), c02Val(back.child, "Owner"+id))
			}
		}
		c02Put(d, kind, c02TopName(kind, "Pet"), pet)
		c02Put(d, kind, c02TopName(kind, "Cat"), c02Ref(c02Ptr(kind, c02TopName(kind, "Pet")), "cat"))
		return d
	}
	entries := []string{"data", "file", "path", "uri"}
	loc := func(entry, name string) string {
		if entry == "uri" {
			return "http://h.example/api/" + name
		}
		return dir + "/" + name
	}
	hist := func(kind string, steps [][2]string) { // step: entry, revision ("broken" / "fixed" / "fixed2")
		l := newLayout("file", dir+"/unused.json")
		delete(l.files, dir+"/unused.json")
		l.order = nil
		l.virtual = map[string]bool{}
		nData := 0
		for i, st := range steps {
			name := st[1] + strconv.Itoa(i) + ".json"
			p := loc(st[0], name)
			l.raw(p, rev(kind, st[1] != "broken", st[1]))
			if st[0] == "data" {
				nData++
				l.virtual[p] = true
			}
			l.loads = append(l.loads, [2]string{st[0], p})
		}
		if nData <= 1 {
			emit(l.toCase())
		}
	}
	for ki, kind := range []string{"schema", "response", "parameter", "requestBody", "pathItem", "callback", "header"} {
		for i, e1 := range entries {
			for j, e2 := range entries {
				if ki > 0 && (i+j+ki)%3 != 0 {
					continue // every pair of entry points for schemas, a third of them for the other kinds
				}
				hist(kind, [][2]string{{e1, "broken"}, {e2, "fixed"}})
				hist(kind, [][2]string{{e1, "fixed"}, {e2, "fixed2"}})
			}
		}
		hist(kind, [][2]string{{"file", "broken"}, {"path", "fixed"}, {"file", "fixed2"}})
		hist(kind, [][2]string{{"data", "broken"}, {"path", "broken"}, {"uri", "fixed"}})
		hist(kind, [][2]string{{"path", "fixed"}, {"file", "broken"}, {"path", "fixed2"}})
	}
	// the same root location again: after a success, after a failure
	for _, broken := range []bool{false, true} {
		for _, e := range []string{"file", "path"} {
			l := newLayout("file", dir+"/root.json")
			l.raw(dir+"/root.json", rev("schema", !broken, "r"))
			l.loads = [][2]string{{e, dir + "/root.json"}, {e, dir + "/root.json"}}
			emit(l.toCase())
		}
	}
	// two roots that share an external document: loaded cleanly by the first load / left half-walked by a failed one
	for _, xBroken := range []bool{false, true} {
		for _, second := range []string{"B", "A"} {
			l := newLayout("file", dir+"/root1.json")
			x := l.file(dir + "/x.json")
			a := c02Val("schema", "A")
			if xBroken {
				c02Set2(a, c02Slots[0], c02Ref("#/components/schemas/Missing", "dangling"))
			} else {
				c02Set2(a, c02Slots[0], c02Ref("#/components/schemas/B", "ab"))
			}
			c02Put(x, "schema", "A", a)
			c02Put(x, "schema", "B", c02Val("schema", "B"))
			c02Put(l.file(dir+"/root1.json"), "schema", "R", c02Ref("x.json#/components/schemas/A", "r1"))
			c02Put(l.file(dir+"/root2.json"), "schema", "R", c02Ref("x.json#/components/schemas/"+second, "r2"))
			l.loads = [][2]string{{"file", dir + "/root1.json"}, {"path", dir + "/root2.json"}}
			emit(l.toCase())
		}
	}
	// null members where a reference-capable object belongs: in the root document (rejected), below a typed
	// component that a reference points at, and below an untyped (x-) target of a reference
	nullAt := []struct {
		kind string
		path []string
		arr  bool
	}{
		{"schema", []string{"properties", "p"}, false}, {"schema", []string{"allOf"}, true}, {"response", []string{"headers", "h"}, false},
		{"response", []string{"links", "l"}, false}, {"requestBody", []string{"content", "application/json", "examples", "e"}, false},
		{"pathItem", []string{"parameters"}, true}, {"pathItem", []string{"get", "responses", "201"}, false},
		{"parameter", []string{"examples", "e"}, false}, {"header", []string{"content", "application/json", "encoding", "f", "headers", "h"}, false},
	}
	for _, na := range nullAt {
		for _, where := range []string{"root", "typedTarget", "untypedTarget", "externalUntyped"} {
			l := newLayout("file", dir+"/root.json")
			v := c02Val(na.kind, "withNull")
			if na.kind == "header" || na.kind == "parameter" {
				if na.path[0] == "content" {
					delete(v, "schema")
				}
			}
			cur := v
			for i, p := range na.path {
				if i == len(na.path)-1 {
					if na.arr {
						cur[p] = []any{nil}
					} else {
						cur[p] = nil
					}
					break
				}
				nx, ok := cur[p].(jm)
				if !ok {
					nx = jm{}
					cur[p] = nx
				}
				cur = nx
			}
			r := l.file(dir + "/root.json")
			switch where {
			case "root":
				c02Put(r, na.kind, c02TopName(na.kind, "N"), v)
			case "typedTarget":
				c02Put(r, na.kind, c02TopName(na.kind, "N"), v)
				c02Put(r, na.kind, c02TopName(na.kind, "A"), c02Ref(c02Ptr(na.kind, c02TopName(na.kind, "N")), "r1"))
			case "untypedTarget":
				r["x-defs"] = jm{"N": v}
				c02Put(r, na.kind, c02TopName(na.kind, "A"), c02Ref("#/x-defs/N", "r1"))
				c02Put(r, na.kind, c02TopName(na.kind, "B"), c02Ref("#/x-defs/N", "r2"))
			case "externalUntyped":
				l.file(dir + "/x.json")["x-defs"] = jm{"N": v}
				c02Put(r, na.kind, c02TopName(na.kind, "A"), c02Ref("x.json#/x-defs/N", "r1"))
			}
			emit(l.toCase())
		}
	}
	// 376b90f: a path item file that is itself a reference (to a file in a sub-directory whose parameter is relative
	// to THAT directory), reached directly and through a fragment hop; and such a file referring to itself
	for _, hop := range []bool{false, true} {
		l := newLayout("file", dir+"/root.json")
		pi := c02Val("pathItem", "p2")
		c02Set2(pi, c02Slots[17], c02Ref("side.json#/components/parameters/N", "leaf"))
		l.raw("/r/b/sub/p2.json", pi)
		l.raw("/r/b/p1.json", jm{"$ref": "sub/p2.json"})
		c02Put(l.file("/r/b/sub/side.json"), "parameter", "N", c02Val("parameter", "N@sub"))
		c02Put(l.file("/r/b/side.json"), "parameter", "N", c02Val("parameter", "decoy@b"))
		c02Put(l.file(dir+"/side.json"), "parameter", "N", c02Val("parameter", "decoy@a"))
		c02Put(l.file(dir+"/root.json"), "pathItem", "/x", c02Ref("../b/p1.json", "r1"))
		if hop {
			c02Put(l.file(dir+"/root.json"), "pathItem", "/y", c02Ref("#/paths/~1x", "r0"))
		}
		emit(l.toCase())
	}
	{
		l := newLayout("file", dir+"/root.json")
		l.raw("/r/b/p1.json", jm{"$ref": "p1.json"})
		c02Put(l.file(dir+"/root.json"), "pathItem", "/x", c02Ref("../b/p1.json", "r1"))
		emit(l.toCase())
	}
	// documents that share a path on two hosts (the documents cache is keyed by the whole URI)
	for _, kind := range []string{"schema", "response", "pathItem"} {
		for _, same := range []bool{false, true} {
			l := newLayout("uri", "http://a.example/api/root.json")
			ua, ub := "http://a.example/common/t.json", "http://b.example/common/t.json"
			c02Put(l.file(ua), kind, c02TopName(kind, "T"), c02Val(kind, "T@a"))
			if same {
				c02Put(l.file(ub), kind, c02TopName(kind, "T"), c02Val(kind, "T@b"))
			} else {
				c02Put(l.file(ub), kind, c02TopName(kind, "U"), c02Val(kind, "U@b")) // no T on host b: the second reference dangles
			}
			c02Put(l.file(l.root), kind, c02TopName(kind, "R1"), c02Ref(ua+c02Ptr(kind, c02TopName(kind, "T")), "r1"))
			c02Put(l.file(l.root), kind, c02TopName(kind, "R2"), c02Ref(ub+c02Ptr(kind, c02TopName(kind, "T")), "r2"))
			emit(l.toCase())
		}
	}
}

// shapes added when the model followed the repaired loader (a04fe6c, 9b25d89, f972c33, cbb0d05)
// ---------------------------------------------------------------- round 5: a store that changes between the loads

// c02EpochCase: the layouts are the epochs of one history on ONE Loader (each layout carries its own loads)
func c02EpochCase(ls ...*c02Layout) hx.Case {
	eps := []any{}
	for _, l := range ls {
		c := l.toCase()
		eps = append(eps, map[string]any{"files": c["files"], "loads": c["loads"]})
	}
	return hx.Case{"epochs": eps}
}

// c02Rev: a revision of one document. Pet refers (in the first child slot of its kind) to the component Owner, Cat
// refers to Pet; Owner exists only in a fixed revision, so in a broken one the reference dangles BELOW a referenced
// component. `id` tags the values: two fixed revisions with different ids resolve to different objects.
func c02Rev(kind string, fixed bool, id string) jm {
	d := c02Doc()
	var back *c02Slot
	for si := range c02Slots {
		if c02Slots[si].parent == kind {
			back = &c02Slots[si]
			break
		}
	}
	pet := c02Val(kind, "Pet"+id)
	if back != nil {
		c02Set2(pet, *back, c02Ref(c02Ptr(back.child, c02TopName(back.child, "Owner")), "owner"))
		if fixed {
			c02Put(d, back.child, c02TopName(back.child, "Owner"), c02Val(back.child, "Owner"+id))
		}
	}
	c02Put(d, kind, c02TopName(kind, "Pet"), pet)
	c02Put(d, kind, c02TopName(kind, "Cat"), c02Ref(c02Ptr(kind, c02TopName(kind, "Pet")), "cat"))
	return d
}

func c02ShapesRound5(emit func(hx.Case)) {
	base := func(entry string) string {
		if entry == "uri" {
			return "http://h.example/api"
		}
		return "/r/a"
	}
	empty := func() *c02Layout {
		l := newLayout("file", "/r/a/unused.json")
		delete(l.files, "/r/a/unused.json")
		l.order = nil
		return l
	}
	entries := []string{"file", "path", "uri"}
	// the revisions an edit goes through: (fixed?, id) per epoch
	type revn struct {
		fixed bool
		id    string
	}
	edits := [][]revn{
		{{false, "1"}, {true, "1"}},              // repaired: must load now
		{{true, "1"}, {false, "1"}},              // broken by the edit: must FAIL now (nothing of the first load may survive)
		{{true, "1"}, {true, "2"}},               // changed: must resolve to the NEW objects
		{{false, "1"}, {true, "2"}, {true, "3"}}, // three epochs
	}
	kinds := []string{"schema", "response", "parameter", "requestBody", "pathItem", "callback", "header"}
	for ki, kind := range kinds {
		// with LoadFromData too: one data load per epoch, so a history may now hold several of them
		entriesA := []string{"data", "file", "path", "uri"}
		for i, e1 := range entriesA {
			for j, e2 := range entriesA {
				if ki > 0 && (i+j+ki)%3 != 0 {
					continue // every pair of entry points for schemas, a third of them for the other kinds
				}
				for _, ed := range edits {
					// (A) the root document itself is edited in place between the loads
					var eps []*c02Layout
					for n, r := range ed {
						e := e1
						if n%2 == 1 {
							e = e2
						}
						l := empty()
						p := base(e) + "/root.json"
						l.raw(p, c02Rev(kind, r.fixed, r.id))
						if e == "data" {
							l.virtual = map[string]bool{p: true}
						}
						l.loads = [][2]string{{e, p}}
						eps = append(eps, l)
					}
					c := c02EpochCase(eps...)
					if (ki+i+j)%2 == 0 {
						// the rarely used entry point: data loads go through LoadFromIoReader
						for _, ep := range c["epochs"].([]any) {
							for _, ld := range ep.(map[string]any)["loads"].([]any) {
								if lm := ld.(map[string]any); lm["entry"] == "data" {
									lm["via"] = "reader"
								}
							}
						}
					}
					emit(c)
				}
			}
		}
		// (B) the root stays, an external document it refers to (by fragment) is edited
		for _, e := range entries {
			for ei, ed := range edits {
				var eps []*c02Layout
				for n, r := range ed {
					l := empty()
					p := base(e) + "/root.json"
					root := c02Doc()
					c02Put(root, kind, c02TopName(kind, "R"), c02Ref("x.json"+c02Ptr(kind, c02TopName(kind, "Cat")), "r"))
					l.raw(p, root)
					l.raw(base(e)+"/x.json", c02Rev(kind, r.fixed, r.id))
					l.loads = [][2]string{{e, p}}
					if ei == 2 && n == 0 {
						l.loads = append(l.loads, [2]string{"path", p}) // two loads in the first epoch, then the edit
					}
					eps = append(eps, l)
				}
				emit(c02EpochCase(eps...))
			}
		}
		// (C) the root stays, a whole-file element it refers to is replaced by another value / is removed
		// (a bare element file has no kind of its own: a value of another kind is not a wrong-kind target there)
		if kind != "pathItem" && kind != "callback" {
			for _, e := range []string{"file", "uri"} {
				for _, second := range []jm{c02Val(kind, "E2"), nil} {
					var eps []*c02Layout
					for n := 0; n < 2; n++ {
						l := empty()
						p := base(e) + "/root.json"
						root := c02Doc()
						c02Put(root, kind, c02TopName(kind, "R"), c02Ref("elem.json", "r"))
						l.raw(p, root)
						if n == 0 {
							l.raw(base(e)+"/elem.json", c02Val(kind, "E1"))
						} else if second != nil {
							l.raw(base(e)+"/elem.json", second)
						}
						l.loads = [][2]string{{e, p}}
						eps = append(eps, l)
					}
					emit(c02EpochCase(eps...))
				}
			}
		}
		// (D) the external document disappears / appears
		for _, appears := range []bool{true, false} {
			var eps []*c02Layout
			for n := 0; n < 2; n++ {
				l := empty()
				p := "/r/a/root.json"
				root := c02Doc()
				c02Put(root, kind, c02TopName(kind, "R"), c02Ref("../b/x.json"+c02Ptr(kind, c02TopName(kind, "Pet")), "r"))
				l.raw(p, root)
				if (n == 1) == appears {
					l.raw("/r/b/x.json", c02Rev(kind, true, "1"))
				}
				l.loads = [][2]string{{"file", p}}
				eps = append(eps, l)
			}
			emit(c02EpochCase(eps...))
		}
	}
}

func c02ShapesRound3(emit func(hx.Case)) {
	root := "/r/a/root.json"
	// (a) kind clash: a text in progress as kind P met again as kind C in a child slot of the target — in the same
	//     document (the position is walked again: load error) and in a document loaded through that reference
	//     (never walked again: F-C02-48), for every slot whose child kind differs from the parent kind
	for si := range c02Slots {
		s := c02Slots[si]
		if s.parent == s.child {
			continue
		}
		for _, ext := range []bool{false, true} {
			l := newLayout("file", root)
			tf, text := root, c02Ptr(s.parent, c02TopName(s.parent, "B"))
			if ext {
				tf = "/r/a/x.json"
				text = "x.json" + text
			}
			b := c02Val(s.parent, "B")
			c02Set2(b, s, c02Ref(text, "clash"))
			c02Put(l.file(tf), s.parent, c02TopName(s.parent, "B"), b)
			c02Put(l.file(root), s.parent, c02TopName(s.parent, "A"), c02Ref(text, "r1"))
			emit(l.toCase())
		}
	}
	// (b) path-item chains: lengths 2 and 3, hops inside one document and across directories, the last path item
	//     holding a parameter given relative to ITS directory (with a decoy next to the first hop), chains that
	//     close into a cycle, a chain that ends in a whole-file path item, a chain reached through a callback
	for _, n := range []int{2, 3} {
		for _, spread := range []bool{false, true} {
			l := newLayout("file", root)
			files := []string{root, root, root, root}
			if spread {
				files = []string{root, "/r/b/x.json", "/r/c/y.json", "/r/d/z.json"}
			}
			last := files[n]
			pi := c02Val("pathItem", "end@"+last)
			if spread {
				side := path.Dir(last) + "/side.json"
				c02Put(l.file(side), "parameter", "N", c02Val("parameter", "N@"+side))
				c02Put(l.file(path.Dir(files[1])+"/side.json"), "parameter", "N", c02Val("parameter", "decoy"))
				c02Set2(pi, c02Slots[17], c02Ref("side.json#/components/parameters/N", "leaf"))
			}
			c02Put(l.file(last), "pathItem", "/p"+strconv.Itoa(n), pi)
			for i := n - 1; i >= 0; i-- {
				text := c02Ptr("pathItem", "/p"+strconv.Itoa(i+1))
				if files[i+1] != files[i] {
					text = c02Spell(files[i], files[i+1], 0) + text
				}
				c02Put(l.file(files[i]), "pathItem", "/p"+strconv.Itoa(i), c02Ref(text, "h"+strconv.Itoa(i)))
			}
			emit(l.toCase())
		}
	}
	{
		l := newLayout("file", root) // a → b → a
		c02Put(l.file(root), "pathItem", "/a", c02Ref("#/paths/~1b", "r1"))
		c02Put(l.file(root), "pathItem", "/b", c02Ref("#/paths/~1a", "r2"))
		emit(l.toCase())
		l = newLayout("file", root) // a → b → b.json (whole file) whose parameter is relative to b.json
		c02Put(l.file(root), "pathItem", "/a", c02Ref("#/paths/~1b", "r1"))
		c02Put(l.file(root), "pathItem", "/b", c02Ref("../b/pi.json", "r2"))
		pi := c02Val("pathItem", "whole")
		c02Set2(pi, c02Slots[17], c02Ref("side.json#/components/parameters/N", "leaf"))
		l.raw("/r/b/pi.json", pi)
		c02Put(l.file("/r/b/side.json"), "parameter", "N", c02Val("parameter", "N@b"))
		c02Put(l.file("/r/a/side.json"), "parameter", "N", c02Val("parameter", "decoy"))
		emit(l.toCase())
		l = newLayout("file", root) // a callback whose path item is a chain
		cb := c02Val("callback", "cb")
		c02Set2(cb, c02Slots[16], c02Ref("#/paths/~1b", "r1"))
		c02Put(l.file(root), "callback", "CB", cb)
		c02Put(l.file(root), "pathItem", "/b", c02Ref("../b/x.json#/paths/~1c", "r2"))
		c02Put(l.file("/r/b/x.json"), "pathItem", "/c", c02Val("pathItem", "c"))
		emit(l.toCase())
	}
	// (c) '#/…' inside a whole-file element, per kind with a schema slot: the referrer has / has not an object at
	//     that pointer (F-C02-45: drilled into the referrer first; the raw re-read of the element file since f972c33)
	for _, kind := range []string{"header", "parameter", "requestBody", "response", "schema"} {
		for _, rootHas := range []bool{true, false} {
			l := newLayout("file", root)
			if rootHas {
				l.file(root)["definitions"] = jm{"S": jm{"type": "string", "description": "root's S"}}
			}
			obj := c02Val(kind, "elem")
			for si := range c02Slots {
				if c02Slots[si].parent == kind && c02Slots[si].child == "schema" {
					c02Set2(obj, c02Slots[si], c02Ref("#/definitions/S", "r2"))
					break
				}
			}
			obj["definitions"] = jm{"S": jm{"type": "integer", "description": "element's S"}}
			l.raw("/r/b/e.json", obj)
			c02Put(l.file(root), kind, "E", c02Ref("../b/e.json", "r1"))
			emit(l.toCase())
		}
	}
	// (d) pointers through a header (no typed drill-down: the raw re-read of the REFERENCED document), present and absent
	for _, ext := range []bool{false, true} {
		for _, present := range []bool{true, false} {
			l := newLayout("file", root)
			tf, pre := root, ""
			if ext {
				tf, pre = "/r/b/x.json", "../b/x.json"
			}
			h := jm{"description": "H"}
			if present {
				h["schema"] = jm{"type": "integer", "description": "H.schema@" + tf}
			}
			c02Put(l.file(tf), "header", "H", h)
			if ext {
				// the referring document has a header of the same name WITH a schema
				c02Put(l.file(root), "header", "H", jm{"description": "root's H", "schema": jm{"type": "string", "description": "root's H.schema"}})
			}
			c02Put(l.file(root), "schema", "A", c02Ref(pre+"#/components/headers/H/schema", "r1"))
			emit(l.toCase())
		}
	}
	// (g) chains of length 3 for every kind, alternating internal and external hops
	for _, kind := range c02Kinds {
		l := newLayout("file", root)
		c02Put(l.file("/r/c/y.json"), kind, c02TopName(kind, "V"), c02Val(kind, "V@y"))
		c02Put(l.file("/r/b/x.json"), kind, c02TopName(kind, "M2"), c02Ref("../c/y.json"+c02Ptr(kind, c02TopName(kind, "V")), "m2"))
		c02Put(l.file("/r/b/x.json"), kind, c02TopName(kind, "M1"), c02Ref(c02Ptr(kind, c02TopName(kind, "M2")), "m1"))
		c02Put(l.file(root), kind, c02TopName(kind, "R"), c02Ref("../b/x.json"+c02Ptr(kind, c02TopName(kind, "M1")), "r1"))
		emit(l.toCase())
	}
}

// a slot of kind `from` whose child kind is `to`
func c02BackSlot(from, to string) *c02Slot {
	for i := range c02Slots {
		if c02Slots[i].parent == from && c02Slots[i].child == to {
			return &c02Slots[i]
		}
	}
	return nil
}

// random layouts
func c02Random(r *hx.Rng) hx.Case {
	// Three regimes.
	// (A) cyclic: all files in ONE directory, arbitrary reference graphs between VALUE components (cycles,
	//     diamonds, self references), component names unique per file.
	// (B) chains: one directory, top-level components may themselves be references (reference to reference),
	//     references only point to components declared LATER (acyclic).
	// (C) several directories, names shared between files (the same text in several files), acyclic, top-level
	//     components are values.
	// Dangling and wrong-kind references are injected in (B) and (C) only.
	// Cycles that pass through a reference to a reference or that span directories are covered by the
	// enumerated shapes; at random they mostly land in the known classes (#29, second walk).
	cyclic := r.Chance(40)
	multi := !cyclic && r.Chance(55)
	dirs := []string{hx.Pick(r, []string{"/r", "/r/a", "/r/a/c"})}
	if multi {
		dirs = []string{"/r", "/r/a", "/r/b", "/r/a/c"}
	}
	names := []string{"x.json", "y.json", "root.json", "z.json"}
	nf := 2 + r.Intn(3)
	paths := []string{}
	seen := map[string]bool{}
	for len(paths) < nf {
		p := hx.Pick(r, dirs) + "/" + hx.Pick(r, names)
		if !seen[p] {
			seen[p] = true
			paths = append(paths, p)
		}
	}
	entry := hx.Pick(r, []string{"file", "path", "file"})
	l := newLayout(entry, paths[0])
	type comp struct{ file, kind, name string }
	comps := []comp{}
	cnames := []string{"A", "B", "C", "a/b", "a~1b"}
	// declare the components first so that references can point anywhere (forward, backward, cyclic)
	for fi, p := range paths {
		k := 2 + r.Intn(4)
		used := map[string]bool{}
		for i := 0; i < k; i++ {
			kind := hx.Pick(r, c02Kinds)
			if r.Chance(40) {
				kind = "schema"
			}
			nm := c02TopName(kind, hx.Pick(r, cnames))
			if kind == "pathItem" || !multi {
				// path-item references are identified by their key; in the one-directory regime every name is
				// unique so that '#/…' texts are not shared between files (shared texts are regime 2 and #29)
				nm += strconv.Itoa(fi)
			}
			if used[kind+nm] {
				continue
			}
			used[kind+nm] = true
			comps = append(comps, comp{p, kind, nm})
		}
	}
	rid := 0
	cur := -1 // index of the component being built
	mkRef := func(from string, kind string) any {
		// a reference to a random component of that kind (any file), or rarely a dangling / wrong-kind one
		cands := []comp{}
		for ci, c := range comps {
			if c.kind == kind && (cyclic || ci > cur) {
				cands = append(cands, c)
			}
		}
		rid++
		id := "r" + strconv.Itoa(rid)
		if len(cands) == 0 && (cyclic || !r.Chance(10)) {
			return c02Val(kind, "inline-"+id) // nothing to point at: an inline value
		}
		if len(cands) == 0 || (!cyclic && r.Chance(3)) {
			if len(comps) > 0 && r.Bool() {
				c := hx.Pick(r, comps)
				return c02Ref(c02Spell(from, c.file, 0)+c02Ptr(c.kind, c.name), id) // most likely wrong kind
			}
			return c02Ref(c02Ptr(kind, c02TopName(kind, "Nope")), id)
		}
		c := hx.Pick(r, cands)
		text := c02Ptr(c.kind, c.name)
		if c.file != from || r.Chance(15) {
			text = c02Spell(from, c.file, r.Intn(6)) + text
		}
		return c02Ref(text, id)
	}
	var mkVal func(file, kind, id string, depth int) any
	mkVal = func(file, kind, id string, depth int) any {
		v := c02Val(kind, id)
		for si := range c02Slots {
			s := c02Slots[si]
			if s.parent != kind {
				continue
			}
			p := 35
			if s.path[0] == "content" && (kind == "parameter" || kind == "header") {
				p = 10 // removes the inline schema
			}
			if !r.Chance(p) {
				continue
			}
			var child any
			if depth >= 2 || r.Chance(60) {
				child = mkRef(file, s.child)
			} else {
				child = mkVal(file, s.child, id+"."+s.name, depth+1)
			}
			c02Set2(v, s, child)
		}
		return v
	}
	for ci, c := range comps {
		cur = ci
		var obj any
		if !cyclic && !multi && r.Chance(25) {
			obj = mkRef(c.file, c.kind)
		} else {
			obj = mkVal(c.file, c.kind, c.name+"@"+c.file, 0)
		}
		c02Put(l.file(c.file), c.kind, c.name, obj)
	}
	// whole-file elements
	cur = -1
	if r.Chance(25) {
		kind := hx.Pick(r, c02Kinds)
		ef := hx.Pick(r, dirs) + "/elem.json"
		obj := mkVal(ef, kind, "elem@"+ef, 1).(jm)
		l.raw(ef, obj)
		rid++
		c02Put(l.file(paths[0]), kind, c02TopName(kind, "E"), c02Ref(c02Spell(paths[0], ef, r.Intn(6)), "e"+strconv.Itoa(rid)))
	}
	// a history: several documents of the layout loaded one after the other on one Loader
	if r.Chance(20) {
		n := 2 + r.Intn(2)
		for i := 0; i < n; i++ {
			l.loads = append(l.loads, [2]string{hx.Pick(r, []string{"file", "path"}), hx.Pick(r, paths)})
		}
	}
	return l.toCase()
}

// ---------------------------------------------------------------- shrinking

func c02Clone(v any) any {
	switch x := v.(type) {
	case map[string]any:
		o := map[string]any{}
		for k, e := range x {
			o[k] = c02Clone(e)
		}
		return o
	case []any:
		o := make([]any, len(x))
		for i, e := range x {
			o[i] = c02Clone(e)
		}
		return o
	}
	return v
}

func shrinkC02(c hx.Case) []hx.Case {
	var out []hx.Case
	if eps := jlist(c["epochs"]); len(eps) > 0 {
		// a changing-store history: a shorter one (the documents of an epoch are not edited)
		if len(eps) > 1 {
			for i := range eps {
				x := cloneCase(c)
				x["epochs"] = append(append([]any{}, eps[:i]...), eps[i+1:]...)
				out = append(out, x)
			}
		}
		return out
	}
	files := jlist(c["files"])
	isRoot := map[string]bool{}
	for _, ld := range c02Loads(c) {
		isRoot[ld[1]] = true
	}
	// a shorter history
	if ls := jlist(c["loads"]); len(ls) > 1 {
		for i := range ls {
			x := cloneCase(c)
			x["loads"] = append(append([]any{}, ls[:i]...), ls[i+1:]...)
			out = append(out, x)
		}
	}
	for i, f := range files {
		fm := f.(map[string]any)
		if isRoot[jstr(fm, "path")] || jbool(fm, "virtual") || (jstr(c, "entry") == "data" && i == 0) {
			continue
		}
		x := cloneCase(c)
		x["files"] = append(append([]any{}, files[:i]...), files[i+1:]...)
		out = append(out, x)
	}
	// remove one top-level object (components/<coll>/<name>, paths/<name>, <unknown top key>/<name>) or a whole
	// collection; values themselves are never edited, so that they stay in the marshaller's normal form
	for fi, f := range files {
		doc, _ := f.(map[string]any)["json"].(map[string]any)
		if _, isDoc := doc["openapi"]; !isDoc {
			continue // a bare element file: its value is not edited
		}
		var cands [][]string
		for _, top := range c02Sorted(doc) {
			switch top {
			case "openapi", "info":
				continue
			case "components":
				comps, _ := doc[top].(map[string]any)
				for _, coll := range c02Sorted(comps) {
					cands = append(cands, []string{top, coll})
					if m, ok := comps[coll].(map[string]any); ok {
						for _, n := range c02Sorted(m) {
							cands = append(cands, []string{top, coll, n})
						}
					}
				}
			default:
				if m, ok := doc[top].(map[string]any); ok {
					for _, n := range c02Sorted(m) {
						cands = append(cands, []string{top, n})
					}
				}
			}
		}
		for _, p := range cands {
			x := cloneCase(c)
			nf := c02Clone(files).([]any)
			cur := nf[fi].(map[string]any)["json"].(map[string]any)
			for _, step := range p[:len(p)-1] {
				cur = cur[step].(map[string]any)
			}
			delete(cur, p[len(p)-1])
			x["files"] = nf
			out = append(out, x)
		}
	}
	return out
}
