package main

// C12 — validation modes change the report, never the verdict; errors point at data.
// Real code exercised: (*Schema).VisitJSON with no option, FailFast(), MultiErrors(), a message customizer, and
// IsMatching; every returned *SchemaError is inspected (SchemaField, JSONPointer(), Value, Reason).
// The same observation (with reason texts) serves C19.

import (
	"encoding/json"
	"fmt"
	"math/big"
	"strconv"

	"github.com/getkin/kin-openapi/openapi3"

	"kinverif/internal/hx"
)

func init() {
	hx.Register(&hx.Prop{
		ID: "C12",
		Rule: "the schema × value space of C01 (exhaustive over keyword atoms and compositions, plus the seeded random stream), each case validated in five ways " +
			"(default, FailFast, MultiErrors, message customizer, IsMatching); every *SchemaError returned directly or inside the MultiError is compared with the model's " +
			"(SchemaField, JSON pointer, quoted value, order) and its pointer is resolved in the input value. Non-trivial = the schema has at least one keyword.",
		Exhaustive: true,
		Gen:        genC01,
		Run:        runC12,
		Compare:    cmpC12,
		Shrink:     shrinkSchemaCase,
		Assumptions: []string{
			"as C01 (exact-range numbers, regex/format oracle bits, resolved schema trees)",
			"errors kept only as Origin of a composition error are not compared (they are not returned directly nor as members of the multi-error)",
		},
	})
}

func canonValue(v any) any {
	switch x := v.(type) {
	case nil:
		return nil
	case float64:
		r := new(big.Rat)
		if r.SetFloat64(x) == nil {
			return map[string]any{"$num": "nan"}
		}
		return map[string]any{"$num": r.Num().String() + "/" + r.Denom().String()}
	case json.Number:
		f, _ := x.Float64()
		return canonValue(f)
	case int:
		return canonValue(float64(x))
	case int64:
		return canonValue(float64(x))
	case []any:
		out := make([]any, len(x))
		for i, e := range x {
			out[i] = canonValue(e)
		}
		return out
	case map[string]any:
		out := make(map[string]any, len(x))
		for k, e := range x {
			out[k] = canonValue(e)
		}
		return out
	}
	return v
}

func resolvePointer(v any, ptr []string) (any, bool) {
	cur := v
	for _, tok := range ptr {
		switch x := cur.(type) {
		case map[string]any:
			nxt, ok := x[tok]
			if !ok {
				return nil, false
			}
			cur = nxt
		case []any:
			i, err := strconv.Atoi(tok)
			if err != nil || i < 0 || i >= len(x) {
				return nil, false
			}
			cur = x[i]
		default:
			return nil, false
		}
	}
	return cur, true
}

func flattenErrs(err error, out *[]error) {
	if me, ok := err.(openapi3.MultiError); ok {
		for _, e := range me {
			flattenErrs(e, out)
		}
		return
	}
	*out = append(*out, err)
}

// describeErr renders one returned error; `located` is the property's second sentence evaluated on this error.
func describeErr(err error, input any) map[string]any {
	se, ok := err.(*openapi3.SchemaError)
	if !ok {
		return map[string]any{"field": "<not a SchemaError>", "text": err.Error(), "located": true, "pointer": []string{}}
	}
	ptr := se.JSONPointer()
	if ptr == nil {
		ptr = []string{}
	}
	d := map[string]any{"field": se.SchemaField, "pointer": ptr, "reason": se.Reason}
	hasValue := se.Value != nil
	if hasValue {
		d["value"] = canonValue(se.Value)
	}
	located := false
	if found, ok := resolvePointer(input, ptr); ok {
		located = !hasValue || hx.Canon(canonValue(found)) == hx.Canon(canonValue(se.Value))
	} else if se.SchemaField == "required" && len(ptr) > 0 {
		if found, ok := resolvePointer(input, ptr[:len(ptr)-1]); ok {
			located = hasValue && hx.Canon(canonValue(found)) == hx.Canon(canonValue(se.Value))
		}
	}
	d["located"] = located
	return d
}

func modeObs(err error, input any) map[string]any {
	errs := []any{}
	if err != nil {
		var flat []error
		flattenErrs(err, &flat)
		for _, e := range flat {
			errs = append(errs, describeErr(e, input))
		}
	}
	return map[string]any{"ok": err == nil, "errs": errs}
}

func runC12(c hx.Case) any {
	s, err := caseSchema(c)
	if err != nil {
		return map[string]any{"kind": "schema-unmarshal-error", "err": err.Error()}
	}
	v := plainValue(c["value"])
	co := ctxOpts(c)
	with := func(o ...openapi3.SchemaValidationOption) []openapi3.SchemaValidationOption {
		return append(append([]openapi3.SchemaValidationOption{}, co...), o...)
	}
	custom := s.VisitJSON(v, with(openapi3.SetSchemaErrorMessageCustomizer(func(e *openapi3.SchemaError) string { return "custom" }))...)
	out := map[string]any{
		"dflt":     modeObs(s.VisitJSON(v, co...), v),
		"multi":    modeObs(s.VisitJSON(v, with(openapi3.MultiErrors())...), v),
		"failfast": s.VisitJSON(v, with(openapi3.FailFast())...) == nil,
		"custom":   custom == nil,
	}
	if len(co) == 0 {
		out["matching"] = s.IsMatching(v) // the helpers have no request/response reading
	} else {
		out["matching"] = out["failfast"]
	}
	return out
}

func errKey(e map[string]any) string {
	val := e["value"] // Go cannot tell "no Value" from "Value: nil": a quoted null counts as no quote on both sides
	has := val != nil
	return fmt.Sprintf("%v|%v|%v|%s", e["field"], hx.Canon(e["pointer"]), has, hx.Canon(val))
}

// errKeys: the errors of one mode. The plain (non-schema) errors "readOnly property … in request" are collapsed into one
// key, as the model reports them as one event.
func errKeys(v any) []string {
	out := []string{}
	m, _ := v.(map[string]any)
	ro := false
	for _, e := range jlist(m["errs"]) {
		if em, ok := e.(map[string]any); ok {
			f, _ := em["field"].(string)
			if f == "<not a SchemaError>" || f == "<readOnly/writeOnly property present>" {
				if !ro {
					out = append(out, "readWriteOnly")
				}
				ro = true
				continue
			}
			out = append(out, errKey(em))
		}
	}
	return out
}

func cmpC12(c hx.Case, impl any, reply map[string]any) hx.Verdict {
	im, _ := impl.(map[string]any)
	model, _ := reply["model"].(map[string]any)
	spec, _ := reply["spec"].(map[string]any)
	if im == nil || model == nil || spec == nil {
		return hx.Verdict{IM: false, IS: true, Detail: "missing observation"}
	}
	if _, p := im["panic"]; p {
		return hx.Verdict{IM: false, IS: false, Detail: "implementation panicked: " + fmt.Sprint(im["panic"]) + " at " + fmt.Sprint(im["site"])}
	}
	if _, bad := im["kind"]; bad {
		return hx.Verdict{IM: false, IS: true, Detail: "generator produced a schema the library does not unmarshal"}
	}
	v := hx.Verdict{IM: true, IS: true}
	sat := jbool(spec, "sat")
	id, imu := im["dflt"].(map[string]any), im["multi"].(map[string]any)
	verdicts := map[string]bool{"default": jbool(id, "ok"), "multi": jbool(imu, "ok"), "failfast": jbool(im, "failfast"),
		"IsMatching": jbool(im, "matching"), "customizer": jbool(im, "custom")}
	for name, ok := range verdicts {
		if ok != sat {
			v.IS = false
			v.Detail = fmt.Sprintf("verdict in mode %s is %v, spec says %v (all modes: %v)", name, ok, sat, verdicts)
		}
	}
	for _, mode := range []string{"dflt", "multi"} {
		mm, _ := im[mode].(map[string]any)
		for _, e := range jlist(mm["errs"]) {
			em, _ := e.(map[string]any)
			if !jbool(em, "located") {
				v.IS = false
				v.Detail = fmt.Sprintf("mode %s: error %v does not point at the value it quotes", mode, hx.Canon(em))
			}
		}
	}
	md, mmu := model["dflt"].(map[string]any), model["multi"].(map[string]any)
	if jbool(id, "ok") != jbool(md, "ok") || jbool(imu, "ok") != jbool(mmu, "ok") || jbool(im, "failfast") != jbool(model, "failfast") {
		v.IM = false
		v.Detail += " | verdicts differ from the model"
	}
	ordered := jstr(c, "ctx") == "" // under a request/response reading the read-only errors come first in the code, last in the model
	if !sameStrs(errKeys(id), errKeys(md), ordered) {
		v.IM = false
		v.Detail += fmt.Sprintf(" | default-mode error: impl %v model %v", errKeys(id), errKeys(md))
	}
	if !sameStrs(errKeys(imu), errKeys(mmu), ordered) {
		v.IM = false
		v.Detail += fmt.Sprintf(" | multi-mode errors: impl %v model %v", errKeys(imu), errKeys(mmu))
	}
	return v
}
