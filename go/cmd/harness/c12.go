package main

// C12 — validation modes change the report, never the verdict; errors point at data.
// Real code exercised: (*Schema).VisitJSON with no option, FailFast(), MultiErrors(), FailFast()+MultiErrors(), a message
// customizer (+EnableFormatValidation, an option that has no effect on value validation), IsMatching and the typed
// IsMatchingJSON* helpers; under the request/response readings and with DefaultsSet (default injection: the value is
// mutated, each mode runs on its own deep copy and the value AFTER validation is observed). Every returned *SchemaError
// is inspected (SchemaField, JSONPointer(), Value, Reason) and located in the value as the caller finds it afterwards;
// it is then observed again (JSONPointer, Error, Unwrap, JSONPointer): the error is an object the caller keeps, every
// observation must show the same pointer (model: KinModel/C12/ErrObject.lean).
// The same observation (with reason texts) serves C19.

import (
	"encoding/json"
	"fmt"
	"math"
	"math/big"
	"reflect"
	"strconv"
	"strings"

	"github.com/getkin/kin-openapi/openapi3"
	"github.com/getkin/kin-openapi/openapi3filter"

	"kinverif/internal/hx"
)

func init() {
	hx.Register(&hx.Prop{
		ID: "C12",
		Rule: "the schema × value space of C01 (exhaustive over keyword atoms and compositions, string-length and discriminator families, plus the seeded random stream) and the default-injection family " +
			"(12 object schemas with property defaults — valid, schema-violating, container, nested, read/write-only — alone, under not/items/additionalProperties/properties and in pairs under allOf/anyOf/oneOf, × 19 values); each case validated in seven ways " +
			"(default, FailFast, MultiErrors, FailFast+MultiErrors, message customizer, IsMatching, typed IsMatchingJSON*); a schema with `default` also with DefaultsSet as request / response / plain (value after validation compared per mode); " +
			"every *SchemaError returned directly or inside the MultiError is compared with the model's (SchemaField, JSON pointer, quoted value, order) and its pointer is resolved in the value after validation; " +
			"each is then observed five more times (JSONPointer, the path printed by Error, JSONPointer, Source.Pointer of openapi3filter.ConvertErrors, JSONPointer) and every observation must show the same, located pointer. " +
			"A family of Go values outside JSON (NaN, ±Inf at depth 0–2) is compared mode against mode only. Non-trivial = the schema has at least one keyword.",
		Exhaustive: true,
		Gen:        genC12,
		Run:        runC12,
		Compare:    cmpC12,
		Shrink:     shrinkSchemaCase,
		Assumptions: []string{
			"as C01 (exact-range numbers, regex/format oracle bits, resolved schema trees)",
			"errors kept only as Origin of a composition error are not compared (they are not returned directly nor as members of the multi-error)",
			"FailFast+MultiErrors: only the verdict and the value afterwards are modelled (the MultiError mixes errSchema sentinels with soft errors); its SchemaError members are still located",
			"NaN / ±Inf are not JSON values: no model, the five verdicts are compared with each other (the property's first sentence needs no oracle)",
		},
	})
}

func genC12(ctx *hx.Ctx, emit0 func(hx.Case)) {
	emit := func(c hx.Case) { delete(c, "pre"); emit0(c) } // the regex-compiler history is observed by C01
	// Go values outside the JSON range that real callers produce (a query parameter `NaN` parses to float64 NaN)
	nan := map[string]any{"$float": "NaN"}
	for _, f := range []any{nan, map[string]any{"$float": "+Inf"}, map[string]any{"$float": "-Inf"}} {
		vals := []any{f, []any{f}, []any{1, f}, map[string]any{"a": f}, []any{[]any{f}}, map[string]any{"a": []any{f, "x"}}}
		schemas := []map[string]any{
			{}, {"type": "number"}, {"items": map[string]any{}}, {"items": map[string]any{"type": "number"}}, {"type": "array", "items": map[string]any{"minimum": 0}},
			{"properties": map[string]any{"a": map[string]any{}}}, {"additionalProperties": map[string]any{"type": "number"}}, {"not": map[string]any{"type": "string"}},
			{"not": map[string]any{"items": map[string]any{}}}, {"anyOf": []any{map[string]any{"items": map[string]any{}}, map[string]any{"type": "array"}}},
			{"oneOf": []any{map[string]any{"items": map[string]any{}}, map[string]any{"type": "object"}}}, {"allOf": []any{map[string]any{"items": map[string]any{"type": "number"}}}},
			{"items": map[string]any{"items": map[string]any{}}}, {"type": "array", "uniqueItems": true, "items": map[string]any{}}, {"enum": []any{1}}, {"minItems": 3, "items": map[string]any{}},
			{"properties": map[string]any{"a": map[string]any{"items": map[string]any{"type": "string"}}}},
		}
		for _, s := range schemas {
			for _, v := range vals {
				emit(hx.Case{"schema": s, "value": v, "nonjson": true})
			}
		}
	}
	genSchemaCases(ctx, emit, true, 2)
}

func canonValue(v any) any {
	switch x := v.(type) {
	case nil:
		return nil
	case float64:
		r := new(big.Rat)
		if math.IsNaN(x) || math.IsInf(x, 0) || r.SetFloat64(x) == nil {
			return map[string]any{"$num": "nan"}
		}
		return map[string]any{"$num": r.Num().String() + "/" + r.Denom().String()}
	case json.Number:
		f, _ := x.Float64()
		return canonValue(f)
	case int:
		return canonValue(float64(x))
	case int64:
		return canonValue(float64(x))
	case []any:
		out := make([]any, len(x))
		for i, e := range x {
			out[i] = canonValue(e)
		}
		return out
	case map[string]any:
		out := make(map[string]any, len(x))
		for k, e := range x {
			out[k] = canonValue(e)
		}
		return out
	}
	return v
}

// goValue: plainValue plus the non-JSON floats of the `nonjson` family ({"$float": "NaN" | "+Inf" | "-Inf"})
func goValue(v any) any {
	switch x := v.(type) {
	case map[string]any:
		if f, ok := x["$float"].(string); ok && len(x) == 1 {
			switch f {
			case "NaN":
				return math.NaN()
			case "+Inf":
				return math.Inf(1)
			default:
				return math.Inf(-1)
			}
		}
		out := make(map[string]any, len(x))
		for k, e := range x {
			out[k] = goValue(e)
		}
		return out
	case []any:
		out := make([]any, len(x))
		for i, e := range x {
			out[i] = goValue(e)
		}
		return out
	}
	return plainValue(v)
}

func resolvePointer(v any, ptr []string) (any, bool) {
	cur := v
	for _, tok := range ptr {
		switch x := cur.(type) {
		case map[string]any:
			nxt, ok := x[tok]
			if !ok {
				return nil, false
			}
			cur = nxt
		case []any:
			i, err := strconv.Atoi(tok)
			if err != nil || i < 0 || i >= len(x) {
				return nil, false
			}
			cur = x[i]
		default:
			return nil, false
		}
	}
	return cur, true
}

func flattenErrs(err error, out *[]error) {
	if me, ok := err.(openapi3.MultiError); ok {
		for _, e := range me {
			flattenErrs(e, out)
		}
		return
	}
	*out = append(*out, err)
}

// describeErr renders one returned error; `located` is the property's second sentence evaluated on this error, in the
// value as the caller finds it after validation.
func describeErr(err error, input any) map[string]any { return c12DescribeErr(err, input, "") }

// c12DescribeErr: `customText` non-empty = a message customizer returning that text is installed: where Error() returns it
// the printed path is not observable (the property does not ask that every error honours the customizer).
func c12DescribeErr(err error, input any, customText string) map[string]any {
	se, ok := err.(*openapi3.SchemaError)
	if !ok {
		return map[string]any{"field": "<not a SchemaError>", "located": true}
	}
	// every observed pointer is snapshotted at once: a later observation must not be able to change what was seen before
	ptr := append([]string{}, se.JSONPointer()...)
	d := map[string]any{"field": se.SchemaField, "pointer": ptr}
	hasValue := se.Value != nil
	if hasValue {
		d["value"] = canonValue(se.Value)
	}
	locatedAt := func(ptr []string) bool {
		if found, ok := resolvePointer(input, ptr); ok {
			return !hasValue || hx.Canon(canonValue(found)) == hx.Canon(canonValue(se.Value))
		} else if se.SchemaField == "required" && len(ptr) > 0 {
			if found, ok := resolvePointer(input, ptr[:len(ptr)-1]); ok {
				return hasValue && hx.Canon(canonValue(found)) == hx.Canon(canonValue(se.Value))
			}
		}
		return false
	}
	located := locatedAt(ptr)
	// the error is an object the caller keeps: observe it again (the model's `reobsSeq`: JSONPointer, Error, Unwrap,
	// JSONPointer, openapi3filter.ConvertErrors, JSONPointer) — every observation must show the same pointer, and the property's second sentence must hold for each
	reobs := []any{}
	if len(ptr) > 0 {
		p2 := append([]string{}, se.JSONPointer()...)
		txt := se.Error()
		_ = se.Unwrap()
		p3 := append([]string{}, se.JSONPointer()...)
		pe := c12ErrorTextPath(txt, ptr)
		if customText != "" && txt == customText {
			pe = ptr // the customised text shows no path; an error built without the customizer (the uncompilable-pattern error of schema_pattern.go) prints the usual text, whose path is checked as usual
		}
		// a rarely used reader of the same object: openapi3filter.ConvertErrors (Source.Pointer of the ValidationError)
		p4 := []string{"<ConvertErrors gave no Source.Pointer>"}
		conv := openapi3filter.ConvertErrors(&openapi3filter.RequestError{RequestBody: &openapi3.RequestBody{}, Err: se})
		if ve, ok := conv.(*openapi3filter.ValidationError); ok && ve.Source != nil {
			if ve.Source.Pointer == "/"+strings.Join(ptr, "/") {
				p4 = ptr
			} else {
				p4 = []string{"<ConvertErrors Source.Pointer: " + c12Clip(ve.Source.Pointer) + ">"}
			}
		}
		p5 := append([]string{}, se.JSONPointer()...)
		for _, p := range [][]string{p2, pe, p3, p4, p5} {
			if p == nil {
				p = []string{}
			}
			reobs = append(reobs, p)
			located = located && locatedAt(p)
		}
	} else {
		reobs = append(reobs, []string{}, []string{}, []string{}, []string{}, []string{})
	}
	d["reobs"] = reobs
	d["located"] = located
	return d
}

// c12ErrorTextPath: the path printed by (*SchemaError).Error() — `Error at "/a/b": …`. Tokens are printed verbatim (a key
// may contain '/' or '"'), so the text is matched against the rendering of the first pointer seen; where it differs the
// printed prefix itself is returned as a one-token path (it will not resolve).
func c12ErrorTextPath(txt string, first []string) []string {
	want := `Error at "`
	for _, t := range first {
		want += "/" + t
	}
	want += `": `
	if len(txt) >= len(want) && txt[:len(want)] == want {
		return first
	}
	return []string{"<Error() text: " + c12Clip(txt) + ">"}
}

func c12Clip(s string) string {
	if len(s) > 80 {
		return s[:80]
	}
	return s
}

// c12ReobsKeys: per error "pointer => pointers of the further observations"
func c12ReobsKeys(v any) map[string]bool {
	out := map[string]bool{}
	m, _ := v.(map[string]any)
	for _, e := range jlist(m["errs"]) {
		if em, ok := e.(map[string]any); ok {
			if _, has := em["reobs"]; has {
				out[hx.Canon(em["pointer"])+" => "+hx.Canon(em["reobs"])] = true
			}
		}
	}
	return out
}

func modeObs(err error, after any, withAfter bool) map[string]any { return c12ModeObs(err, after, withAfter, "") }

func c12ModeObs(err error, after any, withAfter bool, customText string) map[string]any {
	errs := []any{}
	if err != nil {
		var flat []error
		flattenErrs(err, &flat)
		for _, e := range flat {
			errs = append(errs, c12DescribeErr(e, after, customText))
		}
	}
	out := map[string]any{"ok": err == nil, "errs": errs}
	if withAfter {
		out["after"] = canonValue(after)
	}
	return out
}

func runC12(c hx.Case) any {
	s, err := caseSchema(c)
	if err != nil {
		return map[string]any{"kind": "schema-unmarshal-error", "err": err.Error()}
	}
	co := ctxOpts(c)
	with := func(o ...openapi3.SchemaValidationOption) []openapi3.SchemaValidationOption {
		return append(append([]openapi3.SchemaValidationOption{}, co...), o...)
	}
	pristine := goValue(c["value"])
	unchanged := true
	// every mode validates its own fresh copy of the value; with DefaultsSet under a request/response reading the copy is
	// mutated and handed back, otherwise it must come back as it went in
	inj := jbool(c, "dfl") && jstr(c, "ctx") != ""
	customText := ""
	run := func(o ...openapi3.SchemaValidationOption) map[string]any {
		v := goValue(c["value"])
		fired := false
		if jbool(c, "dfl") { // the callback of DefaultsSet: must run iff a default reached the value itself
			o = append(o, openapi3.DefaultsSet(func() { fired = true }))
		}
		e := s.VisitJSON(v, with(o...)...)
		if !inj && !jbool(c, "nonjson") && (!reflect.DeepEqual(v, pristine) || fired) {
			unchanged = false
		}
		out := c12ModeObs(e, v, inj, customText)
		if inj {
			out["fired"] = fired
		}
		return out
	}
	out := map[string]any{
		"dflt":     run(),
		"multi":    run(openapi3.MultiErrors()),
		"failfast": run(openapi3.FailFast()),
		"ffmulti":  run(openapi3.FailFast(), openapi3.MultiErrors()),
	}
	// options that only customise messages, or that do not concern value validation: same verdict, and the same errors
	// (field, pointer, quoted value) as in default mode
	customText = "custom"
	cu := run(openapi3.SetSchemaErrorMessageCustomizer(func(e *openapi3.SchemaError) string { return "custom" }), openapi3.EnableFormatValidation())
	customText = ""
	out["custom"] = cu["ok"]
	out["customObs"] = cu
	if len(co) == 0 { // the helpers have no request/response reading and take no option
		out["matching"] = s.IsMatching(goValue(c["value"]))
		if t := typedMatching(s, goValue(c["value"])); t != nil {
			out["typed"] = t
		}
	}
	out["unchanged"] = unchanged
	return out
}

func errKey(e map[string]any) string {
	val := e["value"] // Go cannot tell "no Value" from "Value: nil": a quoted null counts as no quote on both sides
	has := val != nil
	return fmt.Sprintf("%v|%v|%v|%s", e["field"], hx.Canon(e["pointer"]), has, hx.Canon(val))
}

// errKeys: the errors of one mode. The plain (non-schema) errors "readOnly property … in request" are collapsed into one
// key, as the model reports them as one event.
func errKeys(v any) []string {
	out := []string{}
	m, _ := v.(map[string]any)
	ro := false
	for _, e := range jlist(m["errs"]) {
		if em, ok := e.(map[string]any); ok {
			f, _ := em["field"].(string)
			if f == "<not a SchemaError>" || f == "<readOnly/writeOnly property present>" {
				if !ro {
					out = append(out, "readWriteOnly")
				}
				ro = true
				continue
			}
			out = append(out, errKey(em))
		}
	}
	return out
}

func cmpC12(c hx.Case, impl any, reply map[string]any) hx.Verdict {
	im, _ := impl.(map[string]any)
	model, _ := reply["model"].(map[string]any)
	spec, _ := reply["spec"].(map[string]any)
	if im == nil || model == nil || spec == nil {
		return hx.Verdict{IM: false, IS: true, Detail: "missing observation"}
	}
	if _, p := im["panic"]; p {
		return hx.Verdict{IM: false, IS: false, Detail: "implementation panicked: " + fmt.Sprint(im["panic"]) + " at " + fmt.Sprint(im["site"])}
	}
	if _, bad := im["kind"]; bad {
		return hx.Verdict{IM: false, IS: true, Detail: "generator produced a schema the library does not unmarshal"}
	}
	v := hx.Verdict{IM: true, IS: true}
	modes := []string{"dflt", "multi", "failfast", "ffmulti"}
	obs := map[string]map[string]any{}
	for _, m := range modes {
		obs[m], _ = im[m].(map[string]any)
	}
	verdicts := map[string]bool{"default": jbool(obs["dflt"], "ok"), "multi": jbool(obs["multi"], "ok"), "failfast": jbool(obs["failfast"], "ok"),
		"failfast+multi": jbool(obs["ffmulti"], "ok"), "customizer": jbool(im, "custom")}
	for _, k := range []string{"matching", "typed"} {
		if b, ok := im[k].(bool); ok {
			verdicts["IsMatching/"+k] = b
		}
	}
	// first sentence: with a reference verdict (spec.sat) every path must give it; where the value is mutated by default
	// injection, or is not a JSON value, the paths must agree with each other
	if _, hasSat := spec["sat"]; hasSat && !jbool(c, "nonjson") {
		sat := jbool(spec, "sat")
		for name, ok := range verdicts {
			if ok != sat {
				v.IS = false
				v.Detail = fmt.Sprintf("verdict in mode %s is %v, spec says %v (all modes: %v)", name, ok, sat, verdicts)
			}
		}
	} else {
		first := verdicts["default"]
		for name, ok := range verdicts {
			if ok != first {
				v.IS = false
				v.Detail = fmt.Sprintf("verdict in mode %s is %v, in default mode %v (all modes: %v)", name, ok, first, verdicts)
			}
		}
	}
	// second sentence, in every mode that returns schema errors
	for _, mode := range modes {
		for _, e := range jlist(obs[mode]["errs"]) {
			em, _ := e.(map[string]any)
			if !jbool(em, "located") {
				v.IS = false
				v.Detail = fmt.Sprintf("mode %s: error %v does not point at the value it quotes (value after validation: %v)", mode, hx.Canon(em), hx.Canon(obs[mode]["after"]))
			}
		}
	}
	if cu, ok := im["customObs"].(map[string]any); ok {
		for _, e := range jlist(cu["errs"]) {
			em, _ := e.(map[string]any)
			if !jbool(em, "located") {
				v.IS = false
				v.Detail = fmt.Sprintf("with a message customizer: error %v does not point at the value it quotes", hx.Canon(em))
			}
		}
		if !sameStrs(errKeys(cu), errKeys(obs["dflt"]), true) {
			v.IS = false
			v.Detail += fmt.Sprintf(" | a message customizer changes the errors: %v, default mode %v", errKeys(cu), errKeys(obs["dflt"]))
		}
	}
	if !jbool(im, "unchanged") {
		v.IS = false
		v.Detail += " | the validated value was modified although no default injection was asked for"
	}
	if jbool(c, "nonjson") {
		return v // outside the model
	}
	if jbool(model, "xbad") {
		v.IM = false
		v.Detail += " | the two models (validate / validateD) disagree on this case"
	}
	ordered := jstr(c, "ctx") == "" // under a request/response reading the read-only errors come first in the code, last in the model
	for _, mode := range modes {
		mm, _ := model[mode].(map[string]any)
		if jbool(obs[mode], "ok") != jbool(mm, "ok") {
			v.IM = false
			v.Detail += fmt.Sprintf(" | mode %s: verdict %v, model %v", mode, jbool(obs[mode], "ok"), jbool(mm, "ok"))
		}
		if after, has := mm["after"]; has && hx.Canon(after) != hx.Canon(obs[mode]["after"]) {
			v.IM = false
			v.Detail += fmt.Sprintf(" | mode %s: value after validation %v, model %v", mode, hx.Canon(obs[mode]["after"]), hx.Canon(after))
		}
		if f, has := mm["fired"]; has && f != obs[mode]["fired"] {
			v.IM = false
			v.Detail += fmt.Sprintf(" | mode %s: DefaultsSet callback fired=%v, model %v", mode, obs[mode]["fired"], f)
		}
		if mode == "dflt" || mode == "multi" {
			if !sameStrs(errKeys(obs[mode]), errKeys(mm), ordered) {
				v.IM = false
				v.Detail += fmt.Sprintf(" | mode %s errors: impl %v model %v", mode, errKeys(obs[mode]), errKeys(mm))
			}
			mk := c12ReobsKeys(mm)
			for k := range c12ReobsKeys(obs[mode]) {
				if !mk[k] {
					v.IM = false
					v.Detail += fmt.Sprintf(" | mode %s: re-observing the same error (JSONPointer, Error, JSONPointer, ConvertErrors, JSONPointer) shows %s, the model's errors never change", mode, k)
				}
			}
		}
	}
	return v
}
