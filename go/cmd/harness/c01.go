package main

// C01 — schema validation accepts exactly the values the schema allows.
// Real code exercised: every entry point that "validates a value against a schema" at verdict level:
// (*openapi3.Schema).VisitJSON with default settings and with FailFast(), IsMatching and the typed
// IsMatchingJSONBoolean/Number/String/Array/Object helpers, on schemas unmarshalled from JSON; under the request /
// response readings and with DisablePatternValidation where the schema calls for them; and, for schemas with a
// pattern, AFTER an earlier validation of the same pattern text in the same process under another regex compiler
// (SetSchemaRegexCompiler) — the process-wide compiled-pattern cache must not carry one call's engine into the next.
// The schema/value generators and the regex/format oracle tables are shared with C12 and C19.

import (
	"encoding/json"
	"fmt"
	"reflect"
	"regexp"
	"runtime/debug"
	"sort"
	"strings"
	"sync"

	"github.com/getkin/kin-openapi/openapi3"

	"kinverif/internal/hx"
)

func init() {
	hx.Register(&hx.Prop{
		ID: "C01",
		Rule: "exhaustive: every schema made of one or two keyword atoms (boundary-valued atoms over all supported keywords, incl. non-ASCII patterns / enums / property names) and every composition " +
			"(allOf/anyOf/oneOf/not/items/properties/additionalProperties) over leaf sub-schemas, alone and combined with top-level atoms, crossed with a value alphabet " +
			"(all six JSON types, nested, boundary values of every bound ±1, strings of 1-, 2-, 3- and 4-byte runes and combining marks); the complete string-length family (minLength × maxLength over {absent,0..5,10} × 24 strings mixing rune widths); " +
			"the discriminator family; the complete defaults-below-`not` family under VisitAsRequest/VisitAsResponse + DefaultsSet (7 paths from the value to the object a default lands in × matching/failing `not` children × 7 own keyword sets × 16 values of all JSON types); plus a seeded random stream of schemas of depth ≤ 3 with up to 4 keywords per level. Each case is observed through VisitJSON, VisitJSON(FailFast()), IsMatching and the typed IsMatchingJSON* helper; " +
			"a schema with readOnly/writeOnly also under the request/response readings, a schema with a `default` and a `not` also with DefaultsSet under the readings, a schema with a pattern also with DisablePatternValidation and after a history step under another regex compiler (negating / case-insensitive / literal). " +
			"A case is non-trivial when the schema has at least one keyword (the driver reports the keyword set, nesting, value type and verdict).",
		Exhaustive: true,
		Gen:        genC01,
		Run:        runC01,
		Compare:    cmpC01,
		Shrink:     shrinkSchemaCase,
		Assumptions: []string{
			"numbers are exact rationals in the model; generated numbers are dyadic rationals / small integers on which the float64 comparisons and the division of multipleOf are exact",
			"regular-expression and string-format verdicts are oracle bits computed by Go (regexp, the registered validators) and passed to the model",
			"values are fed as decoded by encoding/json (float64, valid UTF-8 strings); Go strings that are not valid UTF-8 are not JSON values and are not generated",
			"string length is counted in Unicode code points on both sides (draft-4: characters as defined by RFC 4627 = what Lean's String.length counts); the code's loop also counts code points (its utf16.IsSurrogate branch is dead for valid UTF-8)",
		},
	})
}

var schemaCache sync.Map // JSON text -> *openapi3.Schema

func parseSchema(v any) (*openapi3.Schema, error) {
	b, err := json.Marshal(v)
	if err != nil {
		return nil, err
	}
	if s, ok := schemaCache.Load(string(b)); ok {
		return s.(*openapi3.Schema), nil
	}
	var s openapi3.Schema
	if err := json.Unmarshal(b, &s); err != nil {
		return nil, err
	}
	schemaCache.Store(string(b), &s)
	return &s, nil
}

// plainValue converts the harness' normalised value (json.Number leaves) into what json.Unmarshal yields (float64 leaves).
func plainValue(v any) any {
	switch x := v.(type) {
	case json.Number:
		f, _ := x.Float64()
		return f
	case []any:
		out := make([]any, len(x))
		for i, e := range x {
			out[i] = plainValue(e)
		}
		return out
	case map[string]any:
		out := make(map[string]any, len(x))
		for k, e := range x {
			out[k] = plainValue(e)
		}
		return out
	case int:
		return float64(x)
	case int64:
		return float64(x)
	}
	return v
}

// caseSchema builds the schema of a case. With "components" the schema and its components go through the real
// Loader (so that `$ref`s are resolved and SchemaRef.Ref is set, which the discriminator logic reads).
func caseSchema(c hx.Case) (*openapi3.Schema, error) {
	comps, ok := c["components"].(map[string]any)
	if !ok || len(comps) == 0 {
		return parseSchema(c["schema"])
	}
	schemas := map[string]any{"VerifRoot": c["schema"]}
	for k, v := range comps {
		schemas[k] = v
	}
	doc := map[string]any{"openapi": "3.0.0", "info": map[string]any{"title": "t", "version": "1"}, "paths": map[string]any{},
		"components": map[string]any{"schemas": schemas}}
	b, err := json.Marshal(doc)
	if err != nil {
		return nil, err
	}
	if s, ok := schemaCache.Load("doc:" + string(b)); ok {
		return s.(*openapi3.Schema), nil
	}
	d, err := openapi3.NewLoader().LoadFromData(b)
	if err != nil {
		return nil, err
	}
	ref := d.Components.Schemas["VerifRoot"]
	if ref == nil || ref.Value == nil {
		return nil, fmt.Errorf("root schema not resolved")
	}
	schemaCache.Store("doc:"+string(b), ref.Value)
	return ref.Value, nil
}

// ctxOpts: the request/response reading of a case ("ctx": "asreq" | "asrep", "roOff", "woOff")
func ctxOpts(c hx.Case) []openapi3.SchemaValidationOption {
	var o []openapi3.SchemaValidationOption
	switch jstr(c, "ctx") {
	case "asreq":
		o = append(o, openapi3.VisitAsRequest())
	case "asrep":
		o = append(o, openapi3.VisitAsResponse())
	}
	if jbool(c, "roOff") {
		o = append(o, openapi3.DisableReadOnlyValidation())
	}
	if jbool(c, "woOff") {
		o = append(o, openapi3.DisableWriteOnlyValidation())
	}
	if jbool(c, "patOff") {
		o = append(o, openapi3.DisablePatternValidation())
	}
	if jbool(c, "dfl") {
		o = append(o, openapi3.DefaultsSet(func() {}))
	}
	return o
}

// ---------------------------------------------------------------- regex compilers other than the default one

type negMatcher struct{ re *regexp.Regexp }

func (m negMatcher) MatchString(s string) bool { return !m.re.MatchString(s) }

type litMatcher struct{ p string }

func (m litMatcher) MatchString(s string) bool { return strings.Contains(s, m.p) }

// c01Compilers: engines whose semantics differ from the default translation on almost every input.
var c01Compilers = map[string]openapi3.RegexCompilerFunc{
	"negate": func(p string) (openapi3.RegexMatcher, error) { // the complement language
		re, err := regexp.Compile(p)
		if err != nil {
			return nil, err
		}
		return negMatcher{re}, nil
	},
	"icase": func(p string) (openapi3.RegexMatcher, error) {
		re, err := regexp.Compile("(?i)" + p)
		if err != nil {
			return nil, err
		}
		return re, nil
	},
	"lit":   func(p string) (openapi3.RegexMatcher, error) { return litMatcher{p}, nil }, // every text "compiles"
}
var c01CompilerNames = []string{"negate", "icase", "lit"}

// typedMatching calls the IsMatchingJSON* helper for the value's JSON type (nil: there is none for null).
func typedMatching(s *openapi3.Schema, v any) any {
	switch x := v.(type) {
	case bool:
		return s.IsMatchingJSONBoolean(x)
	case float64:
		return s.IsMatchingJSONNumber(x)
	case string:
		return s.IsMatchingJSONString(x)
	case []any:
		return s.IsMatchingJSONArray(x)
	case map[string]any:
		return s.IsMatchingJSONObject(x)
	}
	return nil
}

func runC01(c hx.Case) any {
	s, err := caseSchema(c)
	if err != nil {
		return map[string]any{"kind": "schema-unmarshal-error", "err": err.Error()}
	}
	co := ctxOpts(c)
	// the history of the process before the observed calls: the same validation under other regex compilers
	pre := []any{}
	for _, st := range jlist(c["pre"]) {
		sm, _ := st.(map[string]any)
		comp := c01Compilers[jstr(sm, "compiler")]
		e := s.VisitJSON(plainValue(c["value"]), append(append([]openapi3.SchemaValidationOption{}, co...), openapi3.SetSchemaRegexCompiler(comp))...)
		pre = append(pre, e == nil)
	}
	v := plainValue(c["value"])
	out := map[string]any{"pre": pre, "ok": s.VisitJSON(v, co...) == nil,
		"ff": s.VisitJSON(plainValue(c["value"]), append(append([]openapi3.SchemaValidationOption{}, co...), openapi3.FailFast())...) == nil}
	if len(co) == 0 { // the boolean helpers take no option
		out["matching"] = s.IsMatching(plainValue(c["value"]))
		if t := typedMatching(s, plainValue(c["value"])); t != nil {
			out["typed"] = t
		}
	}
	return out
}

func cmpC01(c hx.Case, impl any, reply map[string]any) hx.Verdict {
	im, _ := impl.(map[string]any)
	model, _ := reply["model"].(map[string]any)
	spec, _ := reply["spec"].(map[string]any)
	if im == nil || model == nil || spec == nil {
		return hx.Verdict{IM: false, IS: true, Detail: "missing observation"}
	}
	if _, p := im["panic"]; p {
		return hx.Verdict{IM: false, IS: false, Detail: "implementation panicked: " + fmt.Sprint(im["panic"]) + " at " + fmt.Sprint(im["site"])}
	}
	if _, bad := im["kind"]; bad {
		return hx.Verdict{IM: false, IS: true, Detail: "generator produced a schema the library does not unmarshal: " + fmt.Sprint(im["err"])}
	}
	v := hx.Verdict{IM: jbool(im, "ok") == jbool(model, "ok"), IS: jbool(im, "ok") == jbool(spec, "sat")}
	if !v.IM || !v.IS {
		v.Detail = fmt.Sprintf("VisitJSON ok=%v, model ok=%v, spec sat=%v", jbool(im, "ok"), jbool(model, "ok"), jbool(spec, "sat"))
	}
	// the fail-fast entry points: VisitJSON(FailFast()), IsMatching, IsMatchingJSON<Type>
	for _, k := range []string{"ff", "matching", "typed"} {
		b, has := im[k].(bool)
		if !has {
			continue
		}
		if b != jbool(model, "ff") {
			v.IM = false
		}
		if b != jbool(spec, "sat") {
			v.IS = false
			v.Detail += fmt.Sprintf(" | fail-fast entry point %q says %v, spec sat=%v", k, b, jbool(spec, "sat"))
		}
	}
	// history steps: each call's verdict is that of its own regex compiler
	ip, mp, sp := jlist(im["pre"]), jlist(model["pre"]), jlist(spec["pre"])
	for i := range ip {
		b, _ := ip[i].(bool)
		if i >= len(mp) || i >= len(sp) {
			v.IM = false
			continue
		}
		if mb, _ := mp[i].(bool); mb != b {
			v.IM = false
		}
		if sb, _ := sp[i].(bool); sb != b {
			v.IS = false
			v.Detail += fmt.Sprintf(" | history step %d (regex compiler %v): VisitJSON ok=%v, spec for that compiler %v", i, jlist(c["pre"])[i].(map[string]any)["compiler"], b, sb)
		}
	}
	return v
}

// ---------------------------------------------------------------- oracle tables

func collectStrings(v any, out map[string]bool) {
	switch x := v.(type) {
	case string:
		out[x] = true
	case []any:
		for _, e := range x {
			collectStrings(e, out)
		}
	case map[string]any:
		for _, e := range x {
			collectStrings(e, out)
		}
	}
}

func collectKw(schema any, key string, out map[string]bool) {
	m, ok := schema.(map[string]any)
	if !ok {
		return
	}
	if s, ok := m[key].(string); ok && s != "" {
		out[s] = true
	}
	for _, k := range []string{"allOf", "anyOf", "oneOf"} {
		for _, e := range jlist(m[k]) {
			collectKw(e, key, out)
		}
	}
	for _, k := range []string{"not", "items", "additionalProperties"} {
		collectKw(m[k], key, out)
	}
	if p, ok := m["properties"].(map[string]any); ok {
		for _, e := range p {
			collectKw(e, key, out)
		}
	}
}

// schemaText: the JSON text of a schema, remembered for the schema last asked about (the generators emit a schema with
// all its values in a row)
var lastSchema map[string]any // kept referenced, so that its address cannot be reused by another schema
var lastSchemaText string

func schemaText(s any) string {
	m, ok := s.(map[string]any)
	if !ok {
		b, _ := json.Marshal(s)
		return string(b)
	}
	if lastSchema == nil || reflect.ValueOf(m).Pointer() != reflect.ValueOf(lastSchema).Pointer() {
		b, _ := json.Marshal(m)
		lastSchema, lastSchemaText = m, string(b)
	}
	return lastSchemaText
}

func hasObject(v any) bool {
	switch x := v.(type) {
	case map[string]any:
		return true
	case []any:
		for _, e := range x {
			if hasObject(e) {
				return true
			}
		}
	}
	return false
}

// hxLibTranslate: what the library's single rewriting rule does (`\u` + four UPPER-case hex digits → `\x{…}`, anywhere)
var hxLibRule = regexp.MustCompile(`\\u([0-9A-F]{4})`)

func hxLibTranslate(p string) string { return hxLibRule.ReplaceAllString(p, `\x{$1}`) }

// hxEcmaTranslate: the ECMA-262 reading, token by token: a backslash escapes the next character (`\\` is one token),
// `\uXXXX` with hex digits of either case is the code unit XXXX
func hxEcmaTranslate(p string) string {
	r := []rune(p)
	var b strings.Builder
	isHex := func(c rune) bool { return c >= '0' && c <= '9' || c >= 'a' && c <= 'f' || c >= 'A' && c <= 'F' }
	for i := 0; i < len(r); {
		if r[i] != '\\' {
			b.WriteRune(r[i])
			i++
			continue
		}
		if i+5 < len(r) && r[i+1] == 'u' && isHex(r[i+2]) && isHex(r[i+3]) && isHex(r[i+4]) && isHex(r[i+5]) {
			b.WriteString(`\x{` + string(r[i+2:i+6]) + `}`)
			i += 6
			continue
		}
		b.WriteRune(r[i])
		if i+1 < len(r) {
			b.WriteRune(r[i+1])
		}
		i += 2
	}
	return b.String()
}

var regexCache sync.Map

// collectDefaultStrings: the strings inside every `default` of the schema tree
func collectDefaultStrings(schema any, out map[string]bool) {
	switch m := schema.(type) {
	case map[string]any:
		for k, v := range m {
			if k == "default" {
				collectStrings(v, out)
			} else {
				collectDefaultStrings(v, out)
			}
		}
	case []any:
		for _, e := range m {
			collectDefaultStrings(e, out)
		}
	}
}

// compilerTable: the verdicts of a non-default regex compiler, computed by calling it directly
func compilerTable(name string, ps, ss []string) []any {
	rx := []any{}
	for _, p := range ps {
		var m openapi3.RegexMatcher
		key := name + "\x00" + p
		if r, ok := regexCache.Load(key); ok {
			m, _ = r.(openapi3.RegexMatcher)
		} else {
			m, _ = c01Compilers[name](p)
			regexCache.Store(key, m)
		}
		for _, s := range ss {
			if m == nil {
				rx = append(rx, []any{p, s, nil})
			} else {
				rx = append(rx, []any{p, s, m.MatchString(s)})
			}
		}
	}
	return rx
}

func caseHash(c hx.Case) int {
	h := 0
	for _, b := range []byte(hx.Canon(c["schema"]) + hx.Canon(c["value"])) {
		h = (h*31 + int(b)) & 0xffffff
	}
	return h
}

// withOracle adds the regex/format verdict tables the model needs for this schema and value, and — for a schema with a
// pattern, unless the case already has one — the history step under another regex compiler.
func withOracle(c hx.Case) hx.Case {
	strs := map[string]bool{}
	collectStrings(c["value"], strs)
	collectDefaultStrings(c["schema"], strs) // an injected default is visited like any member
	pats, fmts := map[string]bool{}, map[string]bool{}
	collectKw(c["schema"], "pattern", pats)
	collectKw(c["schema"], "format", fmts)
	var rx, fm []any
	ss := make([]string, 0, len(strs))
	for s := range strs {
		ss = append(ss, s)
	}
	sort.Strings(ss)
	ps := make([]string, 0, len(pats))
	for p := range pats {
		ps = append(ps, p)
	}
	sort.Strings(ps)
	// the default engine: Go's regexp, asked about Go pattern TEXT. The translation of the schema's pattern into that
	// text is part of the model (intoGo) and of the spec (ecmaToGo); the table has both candidate texts, computed here by
	// two independent re-implementations — a text the Lean side derives and this table lacks reads as "does not compile"
	goTexts := map[string]bool{}
	for _, p := range ps {
		goTexts[hxLibTranslate(p)] = true
		goTexts[hxEcmaTranslate(p)] = true
	}
	gts := make([]string, 0, len(goTexts))
	for g := range goTexts {
		gts = append(gts, g)
	}
	sort.Strings(gts)
	for _, g := range gts {
		var re *regexp.Regexp
		if r, ok := regexCache.Load(g); ok {
			re, _ = r.(*regexp.Regexp)
		} else {
			re, _ = regexp.Compile(g)
			regexCache.Store(g, re)
		}
		for _, s := range ss {
			if re == nil {
				rx = append(rx, []any{g, s, nil})
			} else {
				rx = append(rx, []any{g, s, re.MatchString(s)})
			}
		}
	}
	if len(ps) > 0 && !jbool(c, "nohist") {
		var pre []any
		if old := jlist(c["pre"]); len(old) > 0 { // a replayed / shrunk case keeps its compilers, tables are recomputed
			for _, st := range old {
				sm, _ := st.(map[string]any)
				pre = append(pre, map[string]any{"compiler": jstr(sm, "compiler"), "regex": compilerTable(jstr(sm, "compiler"), ps, ss)})
			}
		} else {
			// first the negating compiler (its verdict differs from the default one on every visited string, so the case shows a
			// cache that carries engines over even when replayed alone in a fresh process), then one of the two others
			name := []string{"icase", "lit"}[caseHash(c)%2]
			pre = []any{map[string]any{"compiler": "negate", "regex": compilerTable("negate", ps, ss)},
				map[string]any{"compiler": name, "regex": compilerTable(name, ps, ss)}}
		}
		c["pre"] = pre
	} else {
		delete(c, "pre")
	}
	fs := make([]string, 0, len(fmts))
	for f := range fmts {
		fs = append(fs, f)
	}
	sort.Strings(fs)
	for _, f := range fs {
		val, ok := openapi3.SchemaStringFormats[f]
		for _, s := range ss {
			if !ok {
				fm = append(fm, []any{f, s, nil})
			} else {
				fm = append(fm, []any{f, s, val.Validate(s) == nil})
			}
		}
	}
	delete(c, "regex")
	if len(ps) > 0 {
		if rx == nil {
			rx = []any{}
		}
		c["gorx"] = rx
	}
	if fm != nil {
		c["formats"] = fm
	}
	return c
}

// ---------------------------------------------------------------- generators

type kwAtom struct {
	k string
	v any
}

var c01Atoms = []kwAtom{
	{"type", "string"}, {"type", "number"}, {"type", "integer"}, {"type", "boolean"}, {"type", "array"}, {"type", "object"},
	{"type", []any{"string", "null"}}, {"type", []any{"integer", "number"}},
	{"nullable", true},
	{"enum", []any{1, "a"}}, {"enum", []any{nil}}, {"enum", []any{[]any{1}, map[string]any{"a": 1}}},
	{"minimum", 1}, {"maximum", 2}, {"exclusiveMinimum", true}, {"exclusiveMaximum", true},
	{"multipleOf", 0.5}, {"multipleOf", 2}, {"multipleOf", 0},
	{"minLength", 2}, {"maxLength", 2}, {"pattern", "^a"}, {"pattern", "(("}, {"format", "date"}, {"format", "int32"}, {"format", "nosuchformat"}, {"format", "ipv4"}, {"format", "ipv6"}, {"format", "x-wrapped-ip"},
	{"minItems", 1}, {"maxItems", 1}, {"uniqueItems", true},
	{"required", []any{"a"}}, {"minProperties", 1}, {"maxProperties", 1}, {"additionalProperties", false}, {"additionalProperties", true},
	{"minimum", 2147483647}, {"maximum", -1}, {"minLength", 0}, {"maxLength", 0}, {"maxItems", 0}, {"required", []any{"a", "b"}}, {"maxProperties", 0},
	{"readOnly", true}, {"writeOnly", true},
	// non-ASCII text in every place a string of the schema meets a string of the value; `default` as an own keyword (no effect on validation)
	{"pattern", "^é"}, {"pattern", "^.{2}$"},
	// escapes: the intended use of the translation, its two blind spots (lower-case hex, an escaped backslash before u), and escapes it leaves alone
	{"pattern", `^\u00E9`}, {"pattern", `^\u00e9`}, {"pattern", `^\\u00E9`}, {"pattern", `^\x41\u0062`}, {"enum", []any{"é", "😀"}}, {"required", []any{"é"}}, {"minLength", 3}, {"maxLength", 4}, {"default", "d"},
}

var c01TopAtoms = []kwAtom{
	{"type", "object"}, {"type", "array"}, {"type", "string"}, {"nullable", true}, {"enum", []any{1, "a"}}, {"minimum", 1}, {"maxLength", 2}, {"required", []any{"a"}}, {"additionalProperties", false},
}

func c01Leafs() []map[string]any {
	return []map[string]any{
		{}, {"type": "string"}, {"type": "integer"}, {"type": "number", "minimum": 1}, {"nullable": true}, {"type": "string", "nullable": true},
		{"enum": []any{1, "a"}}, {"maxLength": 1}, {"type": "object", "required": []any{"a"}}, {"type": "array", "maxItems": 1},
		{"not": map[string]any{}}, {"multipleOf": 2}, {"type": "boolean"}, {"minimum": 1, "maximum": 2},
		{"readOnly": true}, {"writeOnly": true, "type": "integer"},
		{"type": "string", "minLength": 2, "maxLength": 3},
	}
}

var c01Scalars = []any{
	nil, true, false, 0, 1, 2, 3, 1.5, 0.5, -1, 2147483647, 2147483648, "", "a", "ab", "abc", "b", "2020-01-01", "1", "true", "1.5", "null",
	// 2-, 3- and 4-byte runes, a combining sequence, a mix: byte length ≠ UTF-16 length ≠ number of code points
	"é", "éé", "日本語", "😀", "e\u0301", "aé😀",
}

var c01Values = append(append([]any{}, c01Scalars...), []any{
	[]any{}, []any{1}, []any{1, 1}, []any{1, "a"}, []any{nil}, []any{"ab", "abc"}, []any{[]any{1}},
	// arrays whose items differ only in type / are equal as JSON values (uniqueItems)
	[]any{1, "1"}, []any{true, "true"}, []any{1.5, "1.5"}, []any{nil, "null"}, []any{"a", "a"}, []any{nil, nil},
	[]any{[]any{1}, []any{1}}, []any{map[string]any{"a": 1}, map[string]any{"a": 1}}, []any{map[string]any{"a": 1}, map[string]any{"a": 2}},
	map[string]any{}, map[string]any{"a": 1}, map[string]any{"a": nil}, map[string]any{"a": 1, "b": "x"}, map[string]any{"b": 2}, map[string]any{"a": map[string]any{"a": "abc"}},
	map[string]any{"a": "", "b": nil}, map[string]any{"c": nil},
	map[string]any{"p": map[string]any{"a": 1}}, map[string]any{"p": map[string]any{}}, []any{map[string]any{"a": 1}}, []any{map[string]any{}},
	map[string]any{"a": map[string]any{"a": 1}, "b": 1}, map[string]any{"a": map[string]any{}},
	map[string]any{"é": 1}, []any{"é", "e\u0301"}, map[string]any{"a": "éé"},
}...)

// ---------------------------------------------------------------- the string-length family (complete)

var c01LenBounds = []any{nil, 0, 1, 2, 3, 4, 5, 10}

// strings mixing 1-, 2-, 3- and 4-byte runes (a non-BMP rune is 4 bytes, 2 UTF-16 units, 1 code point), combining marks, the empty string
var c01LenStrings = []string{
	"", "a", "ab", "abc", "abcd", "abcde", "abcdef", "abcdefghij", "abcdefghijk",
	"é", "éé", "ééé", "ééééé", "éééééé", "日", "日本", "日本語", "日本語テキ", "😀", "😀😀", "😀😀😀", "😀😀😀😀😀", "a😀", "e\u0301", "e\u0301e\u0301", "aé日😀", "a\u0300\u0301\u0302", "👨\u200d👩\u200d👧",
}

func c01LenCases() []hx.Case {
	var out []hx.Case
	for _, lo := range c01LenBounds {
		for _, hi := range c01LenBounds {
			sch := map[string]any{}
			if lo != nil {
				sch["minLength"] = lo
			}
			if hi != nil {
				sch["maxLength"] = hi
			}
			for _, str := range c01LenStrings {
				out = append(out, hx.Case{"schema": sch, "value": str})
				out = append(out, hx.Case{"schema": map[string]any{"not": sch}, "value": str})
				out = append(out, hx.Case{"schema": map[string]any{"type": "object", "additionalProperties": mergeAtoms(sch, kwAtom{"type", "string"})}, "value": map[string]any{str: str}})
			}
		}
	}
	return out
}

func mergeAtoms(base map[string]any, atoms ...kwAtom) map[string]any {
	out := map[string]any{}
	for k, v := range base {
		out[k] = v
	}
	for _, a := range atoms {
		out[a.k] = a.v
	}
	return out
}

// c01Schemas enumerates the exhaustive schema set (quick: thinned deterministically; thorough: complete).
func c01Schemas(ctx *hx.Ctx) []map[string]any {
	var out []map[string]any
	out = append(out, map[string]any{})
	for i, a := range c01Atoms {
		out = append(out, mergeAtoms(nil, a))
		for j := i + 1; j < len(c01Atoms); j++ {
			b := c01Atoms[j]
			if a.k == b.k {
				continue
			}
			out = append(out, mergeAtoms(nil, a, b))
		}
	}
	leafs := c01Leafs()
	var comps []map[string]any
	for _, k := range []string{"allOf", "anyOf", "oneOf"} {
		for _, l := range leafs {
			comps = append(comps, map[string]any{k: []any{l}})
			for _, m := range leafs {
				comps = append(comps, map[string]any{k: []any{l, m}})
			}
		}
	}
	for _, l := range leafs {
		comps = append(comps, map[string]any{"not": l}, map[string]any{"items": l}, map[string]any{"additionalProperties": l},
			map[string]any{"properties": map[string]any{"a": l}})
		for _, m := range leafs {
			comps = append(comps, map[string]any{"properties": map[string]any{"a": l, "b": m}})
			comps = append(comps, map[string]any{"properties": map[string]any{"a": l}, "additionalProperties": m})
		}
	}
	// object sub-schemas with read-only / write-only / required members under every composition keyword (depth 2)
	objLeafs := []map[string]any{
		{"properties": map[string]any{"a": map[string]any{"readOnly": true}}, "required": []any{"a"}},
		{"properties": map[string]any{"a": map[string]any{"writeOnly": true}}, "required": []any{"a"}},
		{"type": "object", "properties": map[string]any{"a": map[string]any{"readOnly": true, "type": "integer"}, "b": map[string]any{"writeOnly": true}}},
		{"type": "object", "required": []any{"a", "b"}, "properties": map[string]any{"a": map[string]any{"readOnly": true}}},
		{"properties": map[string]any{"a": map[string]any{"type": "string", "maxLength": 1}}, "additionalProperties": false},
	}
	for _, l := range objLeafs {
		for _, k := range []string{"allOf", "anyOf", "oneOf"} {
			comps = append(comps, map[string]any{k: []any{l}})
			for _, m := range objLeafs {
				comps = append(comps, map[string]any{k: []any{l, m}})
			}
			comps = append(comps, map[string]any{k: []any{l, map[string]any{"type": "string"}}})
		}
		comps = append(comps, map[string]any{"not": l}, map[string]any{"items": l}, map[string]any{"additionalProperties": l},
			map[string]any{"properties": map[string]any{"a": l}}, map[string]any{"properties": map[string]any{"p": l}, "required": []any{"p"}})
	}
	out = append(out, comps...)
	for i, cmp := range comps {
		for j, a := range c01TopAtoms {
			if !ctx.Thorough() && (i+j)%4 != 0 {
				continue
			}
			if _, clash := cmp[a.k]; clash {
				continue
			}
			out = append(out, mergeAtoms(cmp, a))
		}
	}
	return out
}

func randSchema(r *hx.Rng, depth int) map[string]any {
	s := map[string]any{}
	n := r.Intn(4)
	for i := 0; i < n; i++ {
		a := hx.Pick(r, c01Atoms)
		s[a.k] = a.v
	}
	if depth > 0 {
		for i, k := 0, r.Intn(3); i < k; i++ {
			switch r.Intn(8) {
			case 0, 1, 2:
				key := []string{"allOf", "anyOf", "oneOf"}[r.Intn(3)]
				var l []any
				for j, m := 0, 1+r.Intn(3); j < m; j++ {
					l = append(l, randSchema(r, depth-1))
				}
				s[key] = l
			case 3:
				s["not"] = randSchema(r, depth-1)
			case 4:
				s["items"] = randSchema(r, depth-1)
			case 5, 6:
				p := map[string]any{}
				for _, k := range []string{"a", "b", "c"} {
					if r.Chance(50) {
						ps := randSchema(r, depth-1)
						if r.Chance(35) { // a default: any scalar, or a small container (valid or not for the property's own schema)
							ps["default"] = randValue(r, r.Intn(2))
						}
						p[k] = ps
					}
				}
				s["properties"] = p
			case 7:
				if _, has := s["additionalProperties"]; !has {
					s["additionalProperties"] = randSchema(r, depth-1)
				}
			}
		}
	}
	return s
}

func randValue(r *hx.Rng, depth int) any {
	if depth > 0 && r.Chance(45) {
		if r.Bool() {
			var l []any
			for i, n := 0, r.Intn(4); i < n; i++ {
				l = append(l, randValue(r, depth-1))
			}
			if l == nil {
				l = []any{}
			}
			return l
		}
		m := map[string]any{}
		for _, k := range []string{"a", "b", "c", "d"} {
			if r.Chance(45) {
				m[k] = randValue(r, depth-1)
			}
		}
		return m
	}
	return hx.Pick(r, c01Scalars)
}

// discriminator family: components A, B (objects told apart by property "t") and oneOf schemas over them
func c01DiscCases() []hx.Case {
	refA, refB := "#/components/schemas/A", "#/components/schemas/B"
	comps := map[string]any{
		"A": map[string]any{"type": "object", "required": []any{"a"}, "properties": map[string]any{"t": map[string]any{"type": "string"}, "a": map[string]any{"type": "integer"}}},
		"B": map[string]any{"type": "object", "properties": map[string]any{"t": map[string]any{"type": "string"}, "b": map[string]any{"type": "string", "maxLength": 2}}},
	}
	ra, rb := map[string]any{"$ref": refA}, map[string]any{"$ref": refB}
	inlineC := map[string]any{"type": "object", "required": []any{"c"}}
	mappings := []any{nil, map[string]any{}, map[string]any{"a": refA, "b": refB}, map[string]any{"a": refA}, map[string]any{"a": refB, "b": refA},
		map[string]any{"a": refA, "x": "#/components/schemas/Nowhere"}, map[string]any{"a": ""}}
	oneOfs := [][]any{{ra, rb}, {ra}, {rb, ra, inlineC}, {inlineC, ra}}
	values := []any{
		map[string]any{"t": "a", "a": 1}, map[string]any{"t": "a", "a": "x"}, map[string]any{"t": "b"}, map[string]any{"t": "b", "b": "toolong"},
		map[string]any{"t": "b", "a": 1}, map[string]any{"t": 5, "a": 1}, map[string]any{"t": nil}, map[string]any{"a": 1}, map[string]any{},
		map[string]any{"t": "zzz", "a": 1}, map[string]any{"t": "x", "c": 1}, map[string]any{"t": "a", "a": 1, "c": 1}, "str", nil, []any{map[string]any{"t": "a"}}, 7,
	}
	var out []hx.Case
	for _, oo := range oneOfs {
		for _, m := range mappings {
			for _, prop := range []string{"t", "a"} {
				for _, extra := range []map[string]any{nil, {"type": "object"}, {"nullable": true}, {"required": []any{"t"}}} {
					disc := map[string]any{"propertyName": prop}
					if m != nil {
						disc["mapping"] = m
					}
					sch := map[string]any{"oneOf": oo, "discriminator": disc}
					for k, v := range extra {
						sch[k] = v
					}
					for _, v := range values {
						out = append(out, hx.Case{"schema": sch, "components": comps, "value": v})
						// the discriminated schema one level down
						out = append(out, hx.Case{"schema": map[string]any{"properties": map[string]any{"p": sch}}, "components": comps, "value": map[string]any{"p": v}})
					}
				}
			}
		}
	}
	return out
}

// emitCtx emits a case as it is and, when the schema says readOnly/writeOnly somewhere, also under the request and the
// response reading, with and without the switch-off options; when it has a pattern, also with DisablePatternValidation;
// and (withDfl: C12) when it has a `default`, also with DefaultsSet under both readings and alone.
func emitCtx(emit func(hx.Case), c hx.Case, withDfl bool, thorough bool) {
	emit(withOracle(c))
	js := schemaText(c["schema"])
	var variants []map[string]any
	if strings.Contains(js, "Only\"") {
		// the readings are only looked at when an OBJECT is visited: for a value without one the quick tier keeps one variant in four
		if thorough || hasObject(c["value"]) {
			variants = append(variants, map[string]any{"ctx": "asreq"}, map[string]any{"ctx": "asrep"},
				map[string]any{"ctx": "asreq", "roOff": true}, map[string]any{"ctx": "asrep", "woOff": true})
		} else if caseHash(c)%4 == 0 {
			variants = append(variants, map[string]any{"ctx": "asreq"})
		}
	}
	if strings.Contains(js, "\"pattern\"") {
		variants = append(variants, map[string]any{"patOff": true})
	}
	if withDfl && strings.Contains(js, "\"default\"") {
		variants = append(variants, map[string]any{"ctx": "asreq", "dfl": true}, map[string]any{"ctx": "asrep", "dfl": true}, map[string]any{"dfl": true})
		if strings.Contains(js, "Only\"") {
			variants = append(variants, map[string]any{"ctx": "asreq", "dfl": true, "roOff": true}, map[string]any{"ctx": "asrep", "dfl": true, "woOff": true})
		} else {
			variants = append(variants, map[string]any{"ctx": "asreq"})
		}
	}
	if !withDfl && strings.Contains(js, "\"default\"") && strings.Contains(js, "\"not\"") {
		// C01: DefaultsSet under a reading lets the validator WRITE while it validates; what a `not` child writes must never
		// reach the verdict (the pair VisitAsRequest + DefaultsSet is what openapi3filter uses for request bodies)
		variants = append(variants, map[string]any{"ctx": "asreq", "dfl": true})
		if thorough || caseHash(c)%2 == 0 {
			variants = append(variants, map[string]any{"ctx": "asrep", "dfl": true})
		}
	}
	for _, v := range variants {
		x := cloneCase(c)
		for k, val := range v {
			x[k] = val
		}
		emit(withOracle(x))
	}
}

func genC01(ctx *hx.Ctx, emit func(hx.Case)) {
	for _, c := range c01NotDfltCases() {
		emit(withOracle(c))
	}
	genSchemaCases(ctx, emit, false, 1)
}

// ---------------------------------------------------------------- defaults below `not` under injection (complete family)
//
// Under VisitAsRequest()/VisitAsResponse() + DefaultsSet the validator writes property defaults into the value while it
// validates. A `not` child is tried on a private copy: whatever it writes — into an object, into the objects inside an array,
// inside an array of arrays, into a member — must not be seen by the schema's own keywords. The family crosses `not` children
// that reach a default through items / items.items / properties / additionalProperties / allOf (matching and failing, the
// failure placed after the point where the default is written) with own keywords that would notice the written member
// (required, maxProperties, additionalProperties:false, minProperties — at the level the default lands on), on values of
// every JSON type that contains an object somewhere, under both readings with DefaultsSet, and plain.

func c01NotDfltCases() []hx.Case {
	d0 := map[string]any{"properties": map[string]any{"a": map[string]any{"default": "d"}}}
	d0z := map[string]any{"properties": map[string]any{"a": map[string]any{"default": "d"}}, "required": []any{"zz"}} // writes, then fails
	// a child whose OWN verdict depends on the written default (outside the neutral class: the model is the reference there)
	d0r := map[string]any{"properties": map[string]any{"a": map[string]any{"default": "d"}}, "required": []any{"a"}}
	// a path from the visited value down to the object the default lands in
	type path struct {
		wrap func(leaf map[string]any) map[string]any
	}
	paths := []path{
		{func(l map[string]any) map[string]any { return l }},
		{func(l map[string]any) map[string]any { return map[string]any{"items": l} }},
		{func(l map[string]any) map[string]any { return map[string]any{"items": map[string]any{"items": l}} }},
		{func(l map[string]any) map[string]any { return map[string]any{"additionalProperties": l} }},
		{func(l map[string]any) map[string]any { return map[string]any{"properties": map[string]any{"p": l}} }},
		{func(l map[string]any) map[string]any {
			return map[string]any{"properties": map[string]any{"p": map[string]any{"items": l}}}
		}},
		{func(l map[string]any) map[string]any {
			return map[string]any{"items": map[string]any{"properties": map[string]any{"p": l}}}
		}},
	}
	// own keywords of the level the default lands in: each notices a member "a" that was not there
	owns := []map[string]any{
		{"required": []any{"a"}}, {"maxProperties": 0}, {"maxProperties": 1}, {"additionalProperties": false}, {"minProperties": 1},
		{"properties": map[string]any{"a": map[string]any{"type": "integer"}}}, {},
	}
	values := []any{
		map[string]any{}, map[string]any{"a": 1}, map[string]any{"b": 2}, map[string]any{"p": map[string]any{}}, map[string]any{"p": []any{map[string]any{}}},
		map[string]any{"x": map[string]any{}}, []any{}, []any{map[string]any{}}, []any{map[string]any{"a": 1}}, []any{map[string]any{"b": 2}, map[string]any{}},
		[]any{[]any{map[string]any{}}}, []any{map[string]any{"p": map[string]any{}}}, []any{1, map[string]any{}}, "s", 1, nil,
	}
	var out []hx.Case
	for pi, pa := range paths {
		var nots []map[string]any
		nots = append(nots, pa.wrap(d0), pa.wrap(d0z), pa.wrap(d0r),
			map[string]any{"allOf": []any{pa.wrap(d0), map[string]any{"enum": []any{"never"}}}}) // writes in the first member, fails in the second
		for _, n := range nots {
			for _, own := range owns {
				s := map[string]any{"not": n}
				for k, v := range pa.wrap(own) {
					s[k] = v
				}
				for vi, v := range values {
					for _, ctx := range []map[string]any{{"ctx": "asreq", "dfl": true}, {"ctx": "asrep", "dfl": true}, {}} {
						if len(ctx) == 0 && (pi+vi)%3 != 0 {
							continue
						}
						c := hx.Case{"schema": s, "value": v}
						for k, x := range ctx {
							c[k] = x
						}
						out = append(out, c)
					}
				}
			}
		}
	}
	return out
}

// genSchemaCases is the generator shared by C01 and C12 (C12: withDfl, which adds the default-injection family and the
// DefaultsSet variants of every schema with a `default`). `stride` thins the big schema × value product in the quick
// tier deterministically (schema i meets value j iff (i+j) % stride == 0); the thorough tier is always complete.
func genSchemaCases(ctx *hx.Ctx, emit func(hx.Case), withDfl bool, stride int) {
	if ctx.Thorough() {
		stride = 1
	}
	debug.SetGCPercent(400) // the run allocates short-lived JSON trees only; the collector otherwise takes a fifth of the CPU
	for i, c := range c01DiscCases() {
		if !ctx.Thorough() && i%2 == 1 && i%7 != 0 {
			continue
		}
		emit(withOracle(c))
	}
	for _, c := range c01LenCases() {
		emit(withOracle(c))
	}
	if withDfl {
		for i, s := range c12DfltSchemas() {
			for j, v := range c12DfltValues {
				if !ctx.Thorough() && i >= 40 && (i+j)%3 != 0 {
					continue
				}
				emitCtx(emit, hx.Case{"schema": s, "value": v}, true, ctx.Thorough())
			}
		}
	}
	for i, s := range c01Schemas(ctx) {
		for j, v := range c01Values {
			if (i+j)%stride != 0 {
				continue
			}
			emitCtx(emit, hx.Case{"schema": s, "value": v}, withDfl, ctx.Thorough())
		}
	}
	n := 6000
	if ctx.Thorough() {
		n = 150000
		if withDfl { // C12 observes seven paths per case and the DefaultsSet variants: a shorter stream keeps it inside the budget
			n = 80000
		}
	}
	for i := 0; i < n; i++ {
		s := randSchema(ctx.Rng, 1+ctx.Rng.Intn(3))
		for j := 0; j < 3; j++ {
			emitCtx(emit, hx.Case{"schema": s, "value": randValue(ctx.Rng, 1+ctx.Rng.Intn(3))}, withDfl, ctx.Thorough())
		}
	}
}

// ---------------------------------------------------------------- the default-injection family (C12)

func c12DfltSchemas() []map[string]any {
	props := func(p map[string]any, extra ...kwAtom) map[string]any { return mergeAtoms(map[string]any{"properties": p}, extra...) }
	D := []map[string]any{
		props(map[string]any{"a": map[string]any{"default": "d"}}),
		props(map[string]any{"a": map[string]any{"type": "integer", "default": 5}}, kwAtom{"type", "object"}, kwAtom{"required", []any{"a"}}),
		props(map[string]any{"a": map[string]any{"type": "string", "default": 7}}), // the default violates its own schema
		props(map[string]any{"b": map[string]any{"default": map[string]any{"c": 1}, "properties": map[string]any{"c": map[string]any{"type": "string"}}}}),
		props(map[string]any{"b": map[string]any{"type": "object", "properties": map[string]any{"c": map[string]any{"default": "x"}}}}, kwAtom{"maxProperties", 1}),
		props(map[string]any{"a": map[string]any{"default": 1, "readOnly": true}, "b": map[string]any{"default": 2, "writeOnly": true}}),
		props(map[string]any{"a": map[string]any{"default": "d"}}, kwAtom{"additionalProperties", false}, kwAtom{"minProperties", 2}),
		props(map[string]any{"a": map[string]any{"default": []any{1, 1}, "uniqueItems": true}}),
		props(map[string]any{"a": map[string]any{"default": nil}}, kwAtom{"required", []any{"a"}}),
		props(map[string]any{"a": map[string]any{"default": "d", "enum": []any{"d", "e"}}, "k": map[string]any{"enum": []any{"x"}}}, kwAtom{"required", []any{"k"}}),
		props(map[string]any{"b": map[string]any{"properties": map[string]any{"c": map[string]any{"default": "x"}}}, "a": map[string]any{"type": "string"}}),
		props(map[string]any{"a": map[string]any{"default": "d", "nullable": true, "type": "string"}}, kwAtom{"enum", []any{map[string]any{}, map[string]any{"a": "d"}}}),
	}
	others := []map[string]any{
		{"type": "object", "required": []any{"a"}, "properties": map[string]any{"a": map[string]any{"type": "integer"}}},
		{"type": "string"},
		{"properties": map[string]any{"k": map[string]any{"enum": []any{"x"}}}, "required": []any{"k"}},
		{},
		{"properties": map[string]any{"b": map[string]any{"maxProperties": 0}}},
	}
	var out []map[string]any
	out = append(out, D...)
	for _, d := range D {
		out = append(out, map[string]any{"not": d}, map[string]any{"items": d}, map[string]any{"additionalProperties": d},
			map[string]any{"properties": map[string]any{"p": d}}, map[string]any{"properties": map[string]any{"p": d}, "required": []any{"p"}},
			// what a `not` child leaves behind meets the schema's own keywords
			mergeAtoms(map[string]any{"not": d}, kwAtom{"properties", map[string]any{"b": map[string]any{"maxProperties": 0}, "a": map[string]any{"type": "integer"}}}),
			mergeAtoms(map[string]any{"not": mergeAtoms(d, kwAtom{"required", []any{"zz"}})}, kwAtom{"maxProperties", 1}),
			map[string]any{"properties": map[string]any{"p": map[string]any{"oneOf": []any{d, map[string]any{"type": "string"}}}}})
	}
	all := append(append([]map[string]any{}, D...), others...)
	for _, k := range []string{"allOf", "anyOf", "oneOf"} {
		for _, d := range D {
			out = append(out, map[string]any{k: []any{d}})
			for _, e := range all {
				out = append(out, map[string]any{k: []any{d, e}}, map[string]any{k: []any{e, d}})
				out = append(out, map[string]any{k: []any{d, e}, "properties": map[string]any{"b": map[string]any{"default": map[string]any{}}}})
			}
		}
	}
	return out
}

var c12DfltValues = []any{
	map[string]any{}, map[string]any{"a": 1}, map[string]any{"a": "s"}, map[string]any{"a": nil}, map[string]any{"b": map[string]any{}},
	map[string]any{"b": map[string]any{"c": 1}}, map[string]any{"b": map[string]any{"c": "s"}}, map[string]any{"k": "x"}, map[string]any{"a": "d", "k": "x"},
	map[string]any{"a": 1, "b": map[string]any{}}, map[string]any{"a": true, "b": map[string]any{}}, map[string]any{"p": map[string]any{}}, map[string]any{"p": map[string]any{"a": 1}},
	[]any{map[string]any{}}, []any{map[string]any{"a": "s"}, map[string]any{}}, map[string]any{"x": map[string]any{}, "y": map[string]any{"a": 2}}, "str", nil, 1,
}

// ---------------------------------------------------------------- shrinking (shared)

func shrinkSchemaCase(c hx.Case) []hx.Case {
	var out []hx.Case
	mk := func(s, v any) {
		x := cloneCase(c)
		delete(x, "regex")
		delete(x, "formats")
		x["schema"], x["value"] = s, v
		out = append(out, withOracle(x))
	}
	for _, s := range shrinkSchema(c["schema"]) {
		mk(s, c["value"])
	}
	for _, v := range shrinkValue(c["value"]) {
		mk(c["schema"], v)
	}
	return out
}

func shrinkSchema(s any) []any {
	m, ok := s.(map[string]any)
	if !ok {
		return nil
	}
	var out []any
	keys := make([]string, 0, len(m))
	for k := range m {
		keys = append(keys, k)
	}
	sort.Strings(keys)
	for _, k := range keys {
		n := map[string]any{}
		for k2, v := range m {
			if k2 != k {
				n[k2] = v
			}
		}
		out = append(out, n)
	}
	repl := func(k string, v any) {
		n := map[string]any{}
		for k2, v2 := range m {
			n[k2] = v2
		}
		n[k] = v
		out = append(out, n)
	}
	for _, k := range keys {
		switch k {
		case "allOf", "anyOf", "oneOf":
			l := jlist(m[k])
			for _, e := range l {
				out = append(out, e) // hoist a member
			}
			if len(l) > 1 {
				for _, d := range dropEach(l) {
					repl(k, d)
				}
			}
			for i, e := range l {
				for _, se := range shrinkSchema(e) {
					nl := append([]any{}, l...)
					nl[i] = se
					repl(k, nl)
				}
			}
		case "not", "items", "additionalProperties":
			if sub, ok := m[k].(map[string]any); ok {
				out = append(out, sub)
				for _, se := range shrinkSchema(sub) {
					repl(k, se)
				}
			}
		case "properties":
			if p, ok := m[k].(map[string]any); ok {
				pk := make([]string, 0, len(p))
				for x := range p {
					pk = append(pk, x)
				}
				sort.Strings(pk)
				for _, x := range pk {
					np := map[string]any{}
					for y, v := range p {
						if y != x {
							np[y] = v
						}
					}
					repl(k, np)
					for _, se := range shrinkSchema(p[x]) {
						np2 := map[string]any{}
						for y, v := range p {
							np2[y] = v
						}
						np2[x] = se
						repl(k, np2)
					}
				}
			}
		}
	}
	return out
}

func shrinkValue(v any) []any {
	var out []any
	switch x := v.(type) {
	case []any:
		for _, e := range x {
			out = append(out, e)
		}
		for _, d := range dropEach(x) {
			if d == nil {
				d = []any{}
			}
			out = append(out, d)
		}
		for i, e := range x {
			for _, se := range shrinkValue(e) {
				nl := append([]any{}, x...)
				nl[i] = se
				out = append(out, nl)
			}
		}
	case map[string]any:
		keys := make([]string, 0, len(x))
		for k := range x {
			keys = append(keys, k)
		}
		sort.Strings(keys)
		for _, k := range keys {
			out = append(out, x[k])
			n := map[string]any{}
			for k2, v2 := range x {
				if k2 != k {
					n[k2] = v2
				}
			}
			out = append(out, n)
			for _, se := range shrinkValue(x[k]) {
				n2 := map[string]any{}
				for k2, v2 := range x {
					n2[k2] = v2
				}
				n2[k] = se
				out = append(out, n2)
			}
		}
	case string:
		if len(x) > 1 && !strings.ContainsAny(x, "-") {
			out = append(out, x[:len(x)-1])
		}
	}
	return out
}
