package main

// C10 — no request or response can make validation of a valid document panic.
//
// Three kinds of cases (field "op"):
//   server  : {pattern, input}            Server.MatchRawURL against its Lean model (exhaustive small space)
//   schema  : {defs, root, value}         stage-2 recursion fragment against the real validator through
//                                         ValidateRequest; reference cycles are evaluated in a child process
//   traffic : {doc, router, req, resp, opts}  byte-level traffic against a generated legal-but-unusual
//                                         document: NewRouter, FindRoute, ValidateRequest, ConvertErrors /
//                                         ValidationErrorEncoder, ValidateResponse, Validator.Middleware

import (
	"archive/zip"
	"bytes"
	"context"
	"encoding/base64"
	"encoding/json"
	"fmt"
	"io"
	"log"
	"math"
	"net/http"
	"net/http/httptest"
	"net/url"
	"os"
	"runtime"
	"runtime/debug"
	"sort"
	"strconv"
	"strings"
	"sync"
	"time"

	"github.com/getkin/kin-openapi/openapi3"
	"github.com/getkin/kin-openapi/openapi3filter"
	"github.com/getkin/kin-openapi/routers"
	"github.com/getkin/kin-openapi/routers/gorillamux"
	"github.com/getkin/kin-openapi/routers/legacy"

	"kinverif/internal/hx"
)

func init() {
	hx.Register(&hx.Prop{
		ID: "C10",
		Rule: "server: exhaustive patterns (≤4 over {a,/,{,}}) × inputs (≤3 over {a,/,b}) plus URL-shaped pairs; " +
			"schema: all one-definition environments over the fragment leaf/allOf/items/$ref (depth ≤2), a second exhaustive family with not/anyOf against allOf/items and a third with properties/additionalProperties (object values), × 2–3 values (4–5 in thorough), plus random environments of ≤3 definitions; " +
			"traffic: seeded documents assembled from pools of legal-but-unusual features (content-defined parameters and headers, bounds flags without bounds, multipleOf 0, " +
			"uncompilable-looking patterns, discriminators, deepObject, recursive components, path items without operations, trailing-slash and templated servers) × " +
			"byte-level requests/responses (any method, verbatim-template and mutated paths, hostile queries, content types and bodies) through both routers, " +
			"ValidateRequest (every registered body decoder incl. YAML with non-string keys / non-finite floats, zip, csv, multipart with YAML parts; NaN/Inf parameter texts; deepObject array indexes), " +
			"error text / ConvertErrors / ValidationErrorEncoder+DefaultErrorEncoder, ValidateResponse, Validator.Middleware, ValidationHandler (file-loaded); " +
			"typed Go values: bodies through a user-registered decoder that hands the validator map[any]any (non-string keys), int / int32 / int64 / float64 / json.Number, nested; " +
			"histories: the same exchange 2–4 times in one fresh child process (field repeat; with reuse on one loaded document and one router, else on fresh ones; or after another exchange against another document with patterns of the same pool, field before) over documents with patterns in every position document validation does not compile (texts Go's regexp accepts and rejects) and over exchanges of the general stream; non-trivial = the model reports ≥1 feature/branch",
		Exhaustive: true,
		Gen:        genC10,
		Run:        runC10,
		RunChild:   runC10InProcess,
		Compare:    cmpC10,
		Shrink:     shrinkC10,
		Workers:    8,
		TimeoutMs:  120000, // a hang is an observation ({"hang":true}), not the end of the run
		Assumptions: []string{
			"inputs are well-formed Go values of the API's types (http.NewRequest succeeds); only document content and traffic are hostile",
			"documents that fail to load or validate are outside the property (observed as invalid-doc, counted, never compared)",
			"authentication callbacks are user code: only nil, NoopAuthenticationFunc and a function that returns AuthenticationInput.NewError are used",
			"strings are ASCII",
			"a user-registered body decoder returns values of the shapes the JSON / YAML decoders can return: nil, bool, string, int, int32, int64, float64, json.Number, []any, map[string]any, map[any]any with string / integer / bool / finite float keys",
		},
	})
}

// ------------------------------------------------------------------ run

func runC10(c hx.Case) any {
	if os.Getenv("C10_DEBUG") != "" {
		t0 := time.Now()
		defer func() {
			if d := time.Since(t0); d > 500*time.Millisecond || os.Getenv("C10_DEBUG") == "time" {
				b, _ := json.Marshal(c)
				fmt.Fprintf(os.Stderr, "C10SLOW %v %s\n", d, b)
			}
		}()
	}
	switch jstr(c, "op") {
	case "schema":
		if c10DefsCyclic(jlist(c["defs"])) {
			return hx.RunIsolated("C10", c, 30000)
		}
	case "traffic":
		if doc, ok := c["doc"].(map[string]any); ok && c10DocHasRefCycle(doc) {
			return hx.RunIsolated("C10", c, 30000)
		}
		// a huge bracketed index can make the decoder allocate without bound (F-C10-8): never in this process
		if rq, ok := c["req"].(map[string]any); ok && c10HugeIndex(jstr(rq, "query")) {
			return hx.RunIsolated("C10", c, 60000)
		}
		// a history (the same exchange several times in one process) is about state the library keeps between calls
		// in process-wide variables: it starts from a fresh process, so that a replay file is self-contained
		if c10Repeat(c) >= 2 || len(jlist(c["before"])) > 0 {
			return hx.RunIsolated("C10", c, 60000)
		}
	}
	return runC10InProcess(c)
}

// c10HugeIndex: a '[' (or %5B) followed, after an optional '+', by five or more digits — the same predicate as the
// driver's hugeIndexQuery
func c10HugeIndex(q string) bool {
	q = strings.NewReplacer("%5B", "[", "%5b", "[", "%2B", "+").Replace(q)
	for i := 0; i < len(q); i++ {
		if q[i] != '[' {
			continue
		}
		j := i + 1
		if j < len(q) && q[j] == '+' {
			j++
		}
		n := 0
		for j < len(q) && q[j] >= '0' && q[j] <= '9' {
			j++
			n++
		}
		if n >= 5 {
			return true
		}
	}
	return false
}

var c10WatchdogOnce sync.Once

// in a child process only: end the process as soon as the heap passes 384 MB, with a first stderr line the parent
// reports as the crash — so that an unbounded allocation is observed without exhausting the machine
func c10MemoryWatchdog() {
	isChild := false
	for _, a := range os.Args[1:] {
		if a == "-child" || a == "--child" {
			isChild = true
		}
	}
	if !isChild {
		return
	}
	c10WatchdogOnce.Do(func() {
		// with a soft limit the collector keeps the heap near the live data, so that garbage of earlier exchanges
		// is not mistaken for an unbounded allocation
		debug.SetMemoryLimit(128 << 20)
		go func() {
			var m runtime.MemStats
			for {
				time.Sleep(20 * time.Millisecond)
				runtime.ReadMemStats(&m)
				if m.HeapAlloc > 384<<20 {
					fmt.Fprintf(os.Stderr, "fatal error: C10 memory watchdog: heap exceeds 384 MB (%d MB) while one exchange is validated\n", m.HeapAlloc>>20)
					os.Exit(3)
				}
			}
		}()
	})
}

var c10QuietOnce sync.Once

func runC10InProcess(c hx.Case) any {
	// the middlewares log every rejected request through the standard logger: in a child process those lines would
	// be taken for the reason of a crash (first line of its stderr)
	c10QuietOnce.Do(func() { log.SetOutput(io.Discard) })
	switch jstr(c, "op") {
	case "server":
		return c10RunServer(c)
	case "schema":
		debug.SetMaxStack(16 << 20) // a cycle overflows quickly instead of eating 1 GB first
		return c10RunSchema(c)
	case "traffic":
		debug.SetMaxStack(32 << 20)
		c10MemoryWatchdog()
		return c10RunTraffic(c)
	}
	return map[string]any{"kind": "bad-case"}
}

func c10RunServer(c hx.Case) any {
	s := openapi3.Server{URL: jstr(c, "pattern")}
	params, rest, ok := s.MatchRawURL(jstr(c, "input"))
	if !ok {
		return map[string]any{"kind": "nomatch"}
	}
	if params == nil {
		params = []string{}
	}
	return map[string]any{"kind": "match", "params": params, "rest": rest}
}

// ---- schema fragment

func c10SchemaJSON(s map[string]any) map[string]any {
	if r, ok := s["ref"]; ok {
		return map[string]any{"$ref": fmt.Sprintf("#/components/schemas/N%v", r)}
	}
	if l, ok := s["leaf"].(bool); ok {
		if l {
			return map[string]any{"description": "any"}
		}
		return map[string]any{"not": map[string]any{"type": "number"}}
	}
	out := map[string]any{}
	if jbool(s, "own") {
		out["nullable"] = true
	}
	if all := jlist(s["allOf"]); len(all) > 0 {
		var l []any
		for _, x := range all {
			l = append(l, c10SchemaJSON(x.(map[string]any)))
		}
		out["allOf"] = l
	}
	if it, ok := s["items"].(map[string]any); ok {
		out["items"] = c10SchemaJSON(it)
	}
	if alts := jlist(s["anyOf"]); len(alts) > 0 {
		var l []any
		for _, x := range alts {
			l = append(l, c10SchemaJSON(x.(map[string]any)))
		}
		out["anyOf"] = l
	}
	if nt, ok := s["not"].(map[string]any); ok {
		out["not"] = c10SchemaJSON(nt)
	}
	if ps := jlist(s["props"]); len(ps) > 0 {
		m := map[string]any{}
		for _, kv := range ps {
			if p, ok := kv.([]any); ok && len(p) == 2 {
				m[fmt.Sprintf("k%d", c10Int(p[0]))] = c10SchemaJSON(p[1].(map[string]any))
			}
		}
		out["properties"] = m
	}
	if ad, ok := s["addl"].(map[string]any); ok {
		out["additionalProperties"] = c10SchemaJSON(ad)
	}
	return out
}

// c10ValueJSON: a value of the fragment — number, array, or {"o": [[key, value]…]} = object with members k<key>
func c10ValueJSON(v any) any {
	switch x := v.(type) {
	case []any:
		out := []any{}
		for _, y := range x {
			out = append(out, c10ValueJSON(y))
		}
		return out
	case map[string]any:
		m := map[string]any{}
		for _, kv := range jlist(x["o"]) {
			if p, ok := kv.([]any); ok && len(p) == 2 {
				m[fmt.Sprintf("k%d", c10Int(p[0]))] = c10ValueJSON(p[1])
			}
		}
		return m
	}
	return v
}

func c10Refs(s map[string]any, acc *[]int) {
	if r, ok := s["ref"]; ok {
		var n int
		fmt.Sscan(fmt.Sprint(r), &n)
		*acc = append(*acc, n)
		return
	}
	for _, k := range []string{"allOf", "anyOf"} {
		for _, x := range jlist(s[k]) {
			c10Refs(x.(map[string]any), acc)
		}
	}
	for _, k := range []string{"items", "not", "addl"} {
		if it, ok := s[k].(map[string]any); ok {
			c10Refs(it, acc)
		}
	}
	for _, kv := range jlist(s["props"]) {
		if p, ok := kv.([]any); ok && len(p) == 2 {
			if m, ok := p[1].(map[string]any); ok {
				c10Refs(m, acc)
			}
		}
	}
}

// any reference cycle at all (guarded or not): such cases are run in a child process
func c10DefsCyclic(defs []any) bool {
	n := len(defs)
	adj := make([][]int, n)
	for i, d := range defs {
		c10Refs(d.(map[string]any), &adj[i])
	}
	state := make([]int, n)
	var dfs func(i int) bool
	dfs = func(i int) bool {
		if i < 0 || i >= n {
			return false
		}
		if state[i] == 1 {
			return true
		}
		if state[i] == 2 {
			return false
		}
		state[i] = 1
		for _, j := range adj[i] {
			if dfs(j) {
				return true
			}
		}
		state[i] = 2
		return false
	}
	for i := range defs {
		if dfs(i) {
			return true
		}
	}
	return false
}

func c10RunSchema(c hx.Case) any {
	comps := map[string]any{}
	for i, d := range jlist(c["defs"]) {
		comps[fmt.Sprintf("N%d", i)] = c10SchemaJSON(d.(map[string]any))
	}
	root, _ := c["root"].(map[string]any)
	doc := map[string]any{
		"openapi": "3.0.0", "info": map[string]any{"title": "t", "version": "1"},
		"components": map[string]any{"schemas": comps},
		"paths": map[string]any{"/v": map[string]any{"post": map[string]any{
			"requestBody": map[string]any{"content": map[string]any{"application/json": map[string]any{"schema": c10SchemaJSON(root)}}},
			"responses":   map[string]any{"200": map[string]any{"description": "ok"}}}}},
	}
	b, _ := json.Marshal(doc)
	d, err := openapi3.NewLoader().LoadFromData(b)
	if err != nil {
		return map[string]any{"kind": "invalid-doc", "err": "load"}
	}
	if err := d.Validate(context.Background()); err != nil {
		return map[string]any{"kind": "invalid-doc", "err": "validate"}
	}
	r, err := legacy.NewRouter(d)
	if err != nil {
		return map[string]any{"kind": "router-err"}
	}
	body, _ := json.Marshal(c10ValueJSON(c["value"]))
	req, _ := http.NewRequest("POST", "http://h/v", bytes.NewReader(body))
	req.Header.Set("Content-Type", "application/json")
	route, pp, err := r.FindRoute(req)
	if err != nil {
		return map[string]any{"kind": "route-err"}
	}
	err = openapi3filter.ValidateRequest(context.Background(), &openapi3filter.RequestValidationInput{Request: req, PathParams: pp, Route: route})
	if err != nil {
		return map[string]any{"kind": "reject"}
	}
	return map[string]any{"kind": "accept"}
}

// ---- traffic

func c10DocHasRefCycle(doc map[string]any) bool {
	comps, _ := doc["components"].(map[string]any)
	all, _ := comps["schemas"].(map[string]any)
	if len(all) == 0 {
		return false
	}
	// only the components an operation can reach matter (every generated document carries the whole component pool)
	schemas := map[string]any{}
	var mark func(v any)
	mark = func(v any) {
		switch x := v.(type) {
		case map[string]any:
			if r, ok := x["$ref"].(string); ok && strings.HasPrefix(r, "#/components/schemas/") {
				n := strings.TrimPrefix(r, "#/components/schemas/")
				if _, seen := schemas[n]; !seen {
					if s, ok := all[n]; ok {
						schemas[n] = s
						mark(s)
					}
				}
			}
			for _, y := range x {
				mark(y)
			}
		case []any:
			for _, y := range x {
				mark(y)
			}
		}
	}
	mark(doc["paths"])
	if len(schemas) == 0 {
		return false
	}
	adj := map[string][]string{}
	var walk func(v any, acc *[]string)
	walk = func(v any, acc *[]string) {
		switch x := v.(type) {
		case map[string]any:
			if r, ok := x["$ref"].(string); ok && strings.HasPrefix(r, "#/components/schemas/") {
				*acc = append(*acc, strings.TrimPrefix(r, "#/components/schemas/"))
			}
			for _, y := range x {
				walk(y, acc)
			}
		case []any:
			for _, y := range x {
				walk(y, acc)
			}
		}
	}
	// a component with a "type" of its own and no composition keyword anywhere inside only has guarded
	// edges and stops IsEmpty: a cycle through it cannot recurse without consuming the value.
	var composed func(v any) bool
	composed = func(v any) bool {
		switch x := v.(type) {
		case map[string]any:
			for k, y := range x {
				if k == "allOf" || k == "anyOf" || k == "oneOf" || k == "not" || composed(y) {
					return true
				}
			}
		case []any:
			for _, y := range x {
				if composed(y) {
					return true
				}
			}
		}
		return false
	}
	for k, s := range schemas {
		if m, ok := s.(map[string]any); ok {
			if _, typed := m["type"]; typed && !composed(m) {
				continue // safe node: no outgoing edges in the risk graph
			}
		}
		var l []string
		walk(s, &l)
		adj[k] = l
	}
	state := map[string]int{}
	var dfs func(k string) bool
	dfs = func(k string) bool {
		if state[k] == 1 {
			return true
		}
		if state[k] == 2 {
			return false
		}
		state[k] = 1
		for _, j := range adj[k] {
			if dfs(j) {
				return true
			}
		}
		state[k] = 2
		return false
	}
	for k := range schemas {
		if dfs(k) {
			return true
		}
	}
	return false
}

type c10Stage struct {
	out map[string]any
}

// guard runs one stage; a panic is recorded with its stage and first kin-openapi frame
func (s *c10Stage) guard(stage string, f func()) (ok bool) {
	defer func() {
		if r := recover(); r != nil {
			st := string(debug.Stack())
			site := ""
			lines := strings.Split(st, "\n")
			for i, l := range lines {
				if (strings.Contains(l, "kin-openapi") || strings.Contains(l, "/repo/") || strings.Contains(l, "/openapi3/") || strings.Contains(l, "/openapi3filter/") || strings.Contains(l, "/routers/")) && !strings.Contains(l, "kinverif") && strings.HasPrefix(l, "\t") {
					site = strings.TrimSpace(l)
					if i > 0 {
						site = strings.TrimSpace(lines[i-1]) + " @ " + site
					}
					break
				}
			}
			if i := strings.Index(site, " +0x"); i > 0 {
				site = site[:i]
			}
			// every panic of the exchange is kept (a later stage may fail in another way than an earlier one);
			// "panic"/"stage"/"site" describe the first
			l, _ := s.out["panics"].([]any)
			s.out["panics"] = append(l, map[string]any{"stage": stage, "msg": fmt.Sprint(r), "site": site})
			if _, dup := s.out["panic"]; !dup {
				s.out["panic"] = fmt.Sprint(r)
				s.out["stage"] = stage
				s.out["site"] = site
			}
			ok = false
		}
	}()
	f()
	return true
}

func c10Request(rq map[string]any) (*http.Request, error) {
	rawq := jstr(rq, "query")
	u := &url.URL{Scheme: jstr(rq, "scheme"), Host: jstr(rq, "host"), Path: jstr(rq, "path"), RawQuery: rawq}
	req, err := http.NewRequest(jstr(rq, "method"), u.String(), bytes.NewReader(c10Body(rq)))
	if err != nil {
		return nil, err
	}
	// keep exactly the generated path (NewRequest re-parses the string form)
	for _, h := range jlist(rq["headers"]) {
		if kv, ok := h.([]any); ok && len(kv) == 2 {
			req.Header.Add(fmt.Sprint(kv[0]), fmt.Sprint(kv[1]))
		}
	}
	if ct := jstr(rq, "ct"); ct != "" {
		req.Header.Set("Content-Type", ct)
	}
	return req, nil
}

// A body decoder as a user of the library writes one (RegisterBodyDecoder): the body is the JSON text of a value tree
// (the nodes of c10Yaml) and the decoder hands the validator the Go value it describes WITH THE DYNAMIC TYPES decoders
// outside encoding/json produce: map[any]any for a mapping with a non-string key (yaml.v2 style), int / int64 / int32
// / float64 for numbers, json.Number, bool, nil, []any. Mapping keys are strings, ints, bools and finite floats
// (nil and NaN keys are what the library's own YAML decoder rejects since ca97fab: not produced here either).
const c10TypedCT = "application/x-c10-typed"

func c10TypedDecoder(body io.Reader, _ http.Header, _ *openapi3.SchemaRef, _ openapi3filter.EncodingFn) (any, error) {
	var tree any
	dec := json.NewDecoder(body)
	dec.UseNumber()
	if err := dec.Decode(&tree); err != nil {
		return nil, &openapi3filter.ParseError{Kind: openapi3filter.KindInvalidFormat, Cause: err}
	}
	return c10TypedValue(tree), nil
}

func c10TypedValue(n any) any {
	m, ok := n.(map[string]any)
	if !ok {
		return nil
	}
	if v, ok := m["s"]; ok {
		return fmt.Sprint(v)
	}
	if v, ok := m["i"]; ok {
		i := c10Int(v)
		switch jstr(m, "t") {
		case "int64":
			return int64(i)
		case "int32":
			return int32(i)
		case "float64":
			return float64(i)
		case "number":
			return json.Number(fmt.Sprint(i))
		}
		return i
	}
	if v, ok := m["f"]; ok {
		f, err := strconv.ParseFloat(fmt.Sprint(v), 64)
		if err != nil || math.IsNaN(f) || math.IsInf(f, 0) {
			return 1.5
		}
		return f
	}
	if v, ok := m["b"].(bool); ok {
		return v
	}
	if l, ok := m["l"].([]any); ok {
		out := make([]any, 0, len(l))
		for _, x := range l {
			out = append(out, c10TypedValue(x))
		}
		return out
	}
	if kvs, ok := m["m"].([]any); ok {
		allStr := true
		out := map[any]any{}
		for _, kv := range kvs {
			p, ok := kv.([]any)
			if !ok || len(p) != 2 {
				continue
			}
			k := c10TypedValue(p[0])
			switch k.(type) {
			case string:
			case int, int32, int64, float64, bool:
				allStr = false
			default: // nil, json.Number, composite keys: not a key a decoder produces
				continue
			}
			out[k] = c10TypedValue(p[1])
		}
		if allStr {
			sm := make(map[string]any, len(out))
			for k, v := range out {
				sm[k.(string)] = v
			}
			return sm
		}
		return out
	}
	return nil // {"n":true} and shrunk nodes
}

// c10Body: the bytes of a message body — rendered from the structured YAML tree "ybody" when there is one,
// decoded from "body_b64" (binary bodies: zip archives), else the text "body"
func c10Body(m map[string]any) []byte {
	if y, ok := m["ybody"]; ok {
		return []byte(c10Yaml(y))
	}
	if b, ok := m["body_b64"].(string); ok {
		if d, err := base64.StdEncoding.DecodeString(b); err == nil {
			return d
		}
	}
	return []byte(jstr(m, "body"))
}

// c10Yaml renders a YAML tree in flow style. Nodes: {"s":text} {"i":int} {"f":"nan"|"inf"|"-inf"|"1.5"} {"b":bool}
// {"n":true} {"l":[node…]} {"m":[[key,value]…]} (scalar keys). Shrunk (malformed) trees render as null.
func c10Yaml(n any) string {
	m, _ := n.(map[string]any)
	if v, ok := m["s"].(string); ok {
		b, _ := json.Marshal(v)
		return string(b)
	}
	if v, ok := m["i"]; ok {
		return fmt.Sprint(c10Int(v))
	}
	if v, ok := m["f"].(string); ok {
		switch strings.ToLower(v) {
		case "nan":
			return ".nan"
		case "inf":
			return ".inf"
		case "-inf":
			return "-.inf"
		}
		var f float64
		if _, err := fmt.Sscan(v, &f); err == nil {
			return v
		}
		return "0.5"
	}
	if v, ok := m["b"].(bool); ok {
		return fmt.Sprint(v)
	}
	if l, ok := m["l"].([]any); ok {
		var parts []string
		for _, x := range l {
			parts = append(parts, c10Yaml(x))
		}
		return "[" + strings.Join(parts, ", ") + "]"
	}
	if l, ok := m["m"].([]any); ok {
		var parts []string
		for _, kv := range l {
			if p, ok := kv.([]any); ok && len(p) == 2 {
				parts = append(parts, c10Yaml(p[0])+": "+c10Yaml(p[1]))
			}
		}
		return "{" + strings.Join(parts, ", ") + "}"
	}
	return "null"
}

var c10ZipOnce sync.Once

func c10Auth(o map[string]any) openapi3filter.AuthenticationFunc {
	switch jstr(o, "auth") {
	case "noop":
		return openapi3filter.NoopAuthenticationFunc
	case "deny":
		return func(_ context.Context, in *openapi3filter.AuthenticationInput) error {
			return in.NewError(fmt.Errorf("denied"))
		}
	}
	return nil
}

func c10Options(o map[string]any) *openapi3filter.Options {
	return &openapi3filter.Options{
		AuthenticationFunc:          c10Auth(o),
		MultiError:                  jbool(o, "multi"),
		ExcludeRequestBody:          jbool(o, "exReqBody"),
		ExcludeRequestQueryParams:   jbool(o, "exQuery"),
		ExcludeResponseBody:         jbool(o, "exRespBody"),
		IncludeResponseStatus:       jbool(o, "inclStatus"),
		SkipSettingDefaults:         jbool(o, "skipDefaults"),
		ExcludeReadOnlyValidations:  jbool(o, "exRO"),
		ExcludeWriteOnlyValidations: jbool(o, "exWO"),
	}
}

func c10RouteKind(err error) string {
	if err == nil {
		return "found"
	}
	msg := err.Error()
	switch {
	case msg == routers.ErrMethodNotAllowed.Error():
		return "nomethod"
	case msg == routers.ErrPathNotFound.Error():
		return "nopath"
	}
	return "err"
}

// c10Repeat: how many times the exchange of a traffic case is run in one process (field "repeat", 1..4)
func c10Repeat(c hx.Case) int {
	n := c10Int(c["repeat"])
	if n < 1 {
		return 1
	}
	if n > 4 {
		return 4
	}
	return n
}

// c10RunTraffic runs the exchange "repeat" times in this process: document loaded and validated, router built, route
// found, request and response validated, errors rendered — every round on fresh objects, so that whatever differs in a
// later round comes from state the library keeps between calls (process-wide caches). The first round that does not
// return normally is the observation (with its number).
func c10RunTraffic(c hx.Case) any {
	// "before": other exchanges (own documents) validated earlier in the same process; what they leave behind in
	// process-wide state is what the main exchange starts from
	for i, b := range jlist(c["before"]) {
		bc, ok := b.(map[string]any)
		if !ok {
			continue
		}
		if m, ok := c10RunTrafficOnce(hx.Case(bc), nil).(map[string]any); ok {
			if bad, _ := c10Bad(m); bad {
				m["round"] = -(i + 1)
				return m
			}
		}
	}
	n := c10Repeat(c)
	var out any
	// "reuse": every round goes through ONE loaded document and ONE router (state kept on the objects: defaults,
	// compiled routes, whatever a validation writes back into the document) instead of fresh ones
	var sh *c10Shared
	if jbool(c, "reuse") {
		sh = &c10Shared{}
	}
	for i := 1; i <= n; i++ {
		out = c10RunTrafficOnce(c, sh)
		if m, ok := out.(map[string]any); ok {
			if bad, _ := c10Bad(m); bad {
				if n > 1 {
					m["round"] = i
				}
				return m
			}
		}
	}
	return out
}

type c10Shared struct {
	doc    *openapi3.T
	router routers.Router
}

func c10RunTrafficOnce(c hx.Case, sh *c10Shared) any {
	// the zip decoder is exported but not registered by the library: a user registers it like this
	c10ZipOnce.Do(func() {
		openapi3filter.RegisterBodyDecoder("application/zip", openapi3filter.ZipFileBodyDecoder)
		openapi3filter.RegisterBodyDecoder(c10TypedCT, c10TypedDecoder)
	})
	out := map[string]any{"kind": "ok"}
	st := &c10Stage{out: out}
	docv, _ := c["doc"].(map[string]any)
	rq, _ := c["req"].(map[string]any)
	rs, _ := c["resp"].(map[string]any)
	om, _ := c["opts"].(map[string]any)
	b, _ := json.Marshal(docv)
	var doc *openapi3.T
	if sh != nil && sh.doc != nil {
		doc = sh.doc
	}
	// loading and validating is the gate, not the property (C20 owns panics there)
	if doc == nil && !st.guard("gate", func() {
		d, err := openapi3.NewLoader().LoadFromData(b)
		if err != nil {
			out["kind"] = "invalid-doc"
			c10Debug("load: " + err.Error())
			return
		}
		if err := d.Validate(context.Background()); err != nil {
			out["kind"] = "invalid-doc"
			c10Debug("validate: " + err.Error())
			return
		}
		doc = d
	}) {
		delete(out, "panic")
		delete(out, "panics")
		out["kind"] = "invalid-doc"
		out["gate_panic"] = true
		return out
	}
	if doc == nil {
		return out
	}
	var router routers.Router
	if sh != nil {
		sh.doc = doc
		router = sh.router
	}
	if router != nil {
		// the router of the earlier rounds
	} else if !st.guard("newrouter", func() {
		var err error
		if jstr(c, "router") == "gorilla" {
			router, err = gorillamux.NewRouter(doc)
		} else {
			router, err = legacy.NewRouter(doc)
		}
		if err != nil {
			out["route"] = "router-err"
			router = nil
		}
	}) || router == nil {
		return out
	}
	if sh != nil {
		sh.router = router
	}
	req, err := c10Request(rq)
	if err != nil {
		out["kind"] = "bad-request-value"
		return out
	}
	var route *routers.Route
	var pp map[string]string
	if !st.guard("findroute", func() {
		var err error
		route, pp, err = router.FindRoute(req)
		out["route"] = c10RouteKind(err)
		if err != nil {
			// routing errors go through the encoder too
			w := httptest.NewRecorder()
			(&openapi3filter.ValidationErrorEncoder{Encoder: openapi3filter.DefaultErrorEncoder}).Encode(context.Background(), err, w)
			route = nil
		}
	}) {
		return out
	}
	opts := c10Options(om)
	if route != nil || out["route"] == "found" {
		in := &openapi3filter.RequestValidationInput{Request: req, PathParams: pp, Route: route, Options: opts}
		var rerr error
		if !st.guard("request", func() {
			rerr = openapi3filter.ValidateRequest(context.Background(), in)
			if rerr != nil {
				out["req"] = "err"
			} else {
				out["req"] = "ok"
			}
		}) {
			return out
		}
		if rerr != nil {
			var flat []error
			var each func(e error)
			each = func(e error) {
				if me, ok := e.(openapi3.MultiError); ok {
					for _, x := range me {
						each(x)
					}
					return
				}
				flat = append(flat, e)
			}
			each(rerr)
			out["conv"] = len(flat)
			// the error's own text, the converted error and its text, the encoder: one guard each, and the exchange
			// goes on after a failure here (the validation itself returned normally)
			st.guard("errtext", func() { _ = rerr.Error() })
			for _, e := range flat {
				e := e
				var ce error
				if st.guard("convert", func() { ce = openapi3filter.ConvertErrors(e) }) && ce != nil {
					st.guard("errtext", func() { _ = ce.Error() })
				}
				st.guard("encode", func() {
					w := httptest.NewRecorder()
					(&openapi3filter.ValidationErrorEncoder{Encoder: openapi3filter.DefaultErrorEncoder}).Encode(context.Background(), e, w)
				})
			}
		}
		h := http.Header{}
		for _, x := range jlist(rs["headers"]) {
			if kv, ok := x.([]any); ok && len(kv) == 2 {
				h.Add(fmt.Sprint(kv[0]), fmt.Sprint(kv[1]))
			}
		}
		if ct := jstr(rs, "ct"); ct != "" {
			h.Set("Content-Type", ct)
		}
		status := c10Int(rs["status"])
		var perr error
		if !st.guard("response", func() {
			rin := &openapi3filter.ResponseValidationInput{RequestValidationInput: in, Status: status, Header: h,
				Body: io.NopCloser(bytes.NewReader(c10Body(rs))), Options: opts}
			if perr = openapi3filter.ValidateResponse(context.Background(), rin); perr != nil {
				out["resp"] = "err"
			} else {
				out["resp"] = "ok"
			}
		}) {
			return out
		}
		if perr != nil {
			st.guard("resp-errtext", func() { _ = perr.Error() })
			st.guard("resp-convert", func() { _ = openapi3filter.ConvertErrors(perr).Error() })
		}
	}
	// the same exchange through the middleware (fresh request: ValidateRequest may have rewritten the first)
	if jbool(om, "middleware") {
		req2, err := c10Request(rq)
		if err == nil {
			st.guard("middleware", func() {
				vopts := []openapi3filter.ValidatorOption{}
				if jbool(om, "strict") {
					vopts = append(vopts, openapi3filter.Strict(true))
				}
				v := openapi3filter.NewValidator(router, vopts...)
				status := c10Int(rs["status"])
				hnd := v.Middleware(http.HandlerFunc(func(w http.ResponseWriter, r *http.Request) {
					for _, x := range jlist(rs["headers"]) {
						if kv, ok := x.([]any); ok && len(kv) == 2 {
							w.Header().Add(fmt.Sprint(kv[0]), fmt.Sprint(kv[1]))
						}
					}
					if ct := jstr(rs, "ct"); ct != "" {
						w.Header().Set("Content-Type", ct)
					}
					if status >= 100 && status <= 999 {
						w.WriteHeader(status)
					}
					w.Write(c10Body(rs))
				}))
				w := httptest.NewRecorder()
				hnd.ServeHTTP(w, req2)
				out["mw"] = "done"
			})
		}
	}
	// the library's other middleware: ValidationHandler (loads the document from a file, legacy router, default
	// error encoder = DefaultErrorEncoder, which writes err.Error())
	if jbool(om, "vhandler") {
		if req3, err := c10Request(rq); err == nil {
			st.guard("vhandler", func() {
				dir, err := os.MkdirTemp("", "c10vh")
				if err != nil {
					return
				}
				defer os.RemoveAll(dir)
				file := dir + "/doc.json"
				if os.WriteFile(file, b, 0o600) != nil {
					return
				}
				vh := &openapi3filter.ValidationHandler{File: file, AuthenticationFunc: c10Auth(om),
					Handler: http.HandlerFunc(func(w http.ResponseWriter, r *http.Request) { w.WriteHeader(204) })}
				if vh.Load() != nil {
					out["vh"] = "load-err"
					return
				}
				w := httptest.NewRecorder()
				if jbool(om, "strict") {
					vh.Middleware(http.HandlerFunc(func(w http.ResponseWriter, r *http.Request) {})).ServeHTTP(w, req3)
				} else {
					vh.ServeHTTP(w, req3)
				}
				out["vh"] = "done"
			})
		}
	}
	return out
}

func c10Debug(msg string) {
	if os.Getenv("C10_DEBUG") != "" {
		if len(msg) > 160 {
			msg = msg[:160]
		}
		fmt.Fprintln(os.Stderr, "C10DEBUG "+strings.ReplaceAll(msg, "\n", " "))
	}
}

func c10Int(v any) int {
	var n int
	fmt.Sscan(fmt.Sprint(v), &n)
	return n
}

// ------------------------------------------------------------------ compare

func c10Bad(m map[string]any) (bool, string) {
	for _, k := range []string{"panic", "crash", "hang"} {
		if v, ok := m[k]; ok {
			return true, fmt.Sprintf("%s: %v (stage %v, site %v)", k, v, m["stage"], m["site"])
		}
	}
	return false, ""
}

func cmpC10(c hx.Case, impl any, reply map[string]any) hx.Verdict {
	v := cmpC10x(c, impl, reply)
	if d := os.Getenv("C10_DEBUG"); d == "all" || (d != "" && !v.IM) {
		b, _ := json.Marshal(map[string]any{"case": c, "impl": impl, "model": reply["model"], "excl": reply["excl"], "im": v.IM, "is": v.IS})
		fmt.Fprintln(os.Stderr, "C10CASE "+string(b))
	}
	return v
}

func cmpC10x(c hx.Case, impl any, reply map[string]any) hx.Verdict {
	im, _ := impl.(map[string]any)
	model, _ := reply["model"].(map[string]any)
	bad, why := c10Bad(im)
	v := hx.Verdict{IS: !bad, IM: true}
	if bad {
		v.Detail = "implementation " + why
	}
	switch jstr(c, "op") {
	case "server":
		if bad {
			v.IM = jstr(model, "kind") == "panic"
			return v
		}
		if jstr(im, "kind") != jstr(model, "kind") {
			v.IM = false
		} else if jstr(im, "kind") == "match" {
			v.IM = jstr(im, "rest") == jstr(model, "rest") && sameStrs(toStrs(im["params"]), toStrs(model["params"]), true)
		}
		if !v.IM {
			v.Detail += fmt.Sprintf(" MatchRawURL: impl %v, model %v", hx.Canon(im), hx.Canon(model))
		}
	case "schema":
		k := jstr(im, "kind")
		if k == "invalid-doc" || k == "router-err" || k == "route-err" {
			v.IM = false
			v.Detail = "schema case did not reach the validator: " + k
			return v
		}
		if agree, ok := model["cyc_agree"].(bool); ok && !agree {
			v.IM = false
			v.Detail += " rank certificate and cycle search disagree on this environment"
			return v
		}
		switch jstr(model, "res") {
		case "diverge":
			v.IM = bad
		case "accept":
			v.IM = !bad && k == "accept"
		case "reject":
			v.IM = !bad && k == "reject"
		}
		if !v.IM {
			v.Detail += fmt.Sprintf(" validator: impl %v, model %v", hx.Canon(im), jstr(model, "res"))
		}
	case "traffic":
		k := jstr(im, "kind")
		if k == "invalid-doc" || k == "bad-request-value" {
			return hx.Verdict{IM: true, IS: true}
		}
		// the model's statement about one concrete exchange is a set of allowed outcomes (the decoders' answers are
		// open in it): normal return always; a fatal stack overflow (unbounded recursion) only with may_crash. A
		// recovered panic, a memory-watchdog crash or anything else the implementation does disagrees.
		v.IM = true
		if bad {
			_, isPanic := im["panic"]
			crash := jstr(im, "crash")
			switch {
			case isPanic || strings.Contains(crash, "memory watchdog"):
				v.IM = false
			default: // stack overflow, or no return within the time limit
				v.IM = jbool(model, "may_crash")
			}
			if !v.IM {
				v.Detail += " (not an outcome the model allows for this input)"
				if rd := c10Int(im["round"]); rd < 0 {
					v.Detail += fmt.Sprintf(" in exchange %d of the list \"before\" (run first in the same process)", -rd)
				} else if rd > 0 {
					v.Detail += fmt.Sprintf(" in round %d of %d of the same exchange in one process", rd, c10Repeat(c))
				}
			}
		}
		if mr, ok := model["route"].(string); ok && !bad {
			ir := jstr(im, "route")
			if ir != "err" && ir != "" && ir != mr {
				v.IM = false
				v.Detail += fmt.Sprintf(" legacy FindRoute: impl %q, model %q", ir, mr)
			}
		}
	}
	return v
}

// ------------------------------------------------------------------ generate

func c10Strings(alpha string, maxLen int) []string {
	out := []string{""}
	prev := []string{""}
	for l := 1; l <= maxLen; l++ {
		var cur []string
		for _, p := range prev {
			for _, ch := range alpha {
				cur = append(cur, p+string(ch))
			}
		}
		out = append(out, cur...)
		prev = cur
	}
	return out
}

func genC10(ctx *hx.Ctx, emit func(hx.Case)) {
	r := ctx.Rng
	// ---- server: exhaustive small space
	pats := c10Strings("a/{}", 4)
	ins := c10Strings("a/b", 3)
	for _, p := range pats {
		for _, i := range ins {
			emit(hx.Case{"op": "server", "pattern": p, "input": i})
		}
	}
	// URL-shaped pairs: every server of the pool against every mutation of itself
	for _, s := range c10ServerPool {
		for _, in := range c10URLMutations(s) {
			emit(hx.Case{"op": "server", "pattern": s, "input": in})
		}
	}
	// ---- schema fragment: exhaustive small environments
	shapes := c10SchemaShapes(2, ctx.Thorough())
	obj := func(kvs ...any) any { return map[string]any{"o": kvs} }
	vals := []any{1, []any{[]any{2}, 3}}
	objVals := []any{obj([]any{0, 1}, []any{1, obj([]any{2, []any{}})}), obj()}
	if ctx.Thorough() {
		vals = []any{1, []any{}, []any{1}, []any{[]any{2}, 3}}
		objVals = append(objVals, obj([]any{1, obj([]any{1, obj([]any{1, 5})})}), obj([]any{2, 7}))
	}
	for _, d0 := range shapes {
		vs := vals
		if m, _ := d0.(map[string]any); m["props"] != nil || m["addl"] != nil {
			vs = append(append([]any{}, objVals...), 1)
		}
		for _, v := range vs {
			emit(hx.Case{"op": "schema", "defs": []any{d0}, "root": map[string]any{"ref": 0}, "value": v})
		}
	}
	nRand := 150
	if ctx.Thorough() {
		nRand = 1500
	}
	for i := 0; i < nRand; i++ {
		n := 1 + r.Intn(3)
		var defs []any
		for j := 0; j < n; j++ {
			defs = append(defs, c10RandSchema(r, n, 3, true))
		}
		emit(hx.Case{"op": "schema", "defs": defs, "root": c10RandSchema(r, n, 2, false), "value": c10RandValue(r, 3)})
	}
	// ---- traffic
	n := 4000
	if ctx.Thorough() {
		n = 60000
	}
	for i := 0; i < n; i++ {
		emit(c10RandTraffic(r))
	}
	// ---- typed Go values from a user-registered body decoder
	nt := 250
	if ctx.Thorough() {
		nt = 4000
	}
	for i := 0; i < nt; i++ {
		emit(c10TypedTraffic(r))
	}
	// ---- histories: the same exchange several times in one (fresh) process
	nh := 160
	if ctx.Thorough() {
		nh = 1500
	}
	for i := 0; i < nh; i++ {
		if i%4 == 3 {
			// any exchange of the general stream, twice
			c := c10RandTraffic(r)
			c["repeat"] = 2
			c["reuse"] = r.Bool()
			emit(c)
			continue
		}
		c := c10HistoryTraffic(r)
		c["reuse"] = r.Bool()
		if i%4 == 1 {
			// another document with patterns of the same pool first (typed string there → compiled by ITS gate, or
			// untyped → compiled by its first validation), then this exchange once
			b := c10HistoryTraffic(r)
			delete(b, "repeat")
			if r.Bool() {
				// … as `type: string` schemas: the other document's GATE compiles them (and rejects the document when
				// one does not compile — a rejected document has been through the cache all the same)
				c10TypePatterns(b["doc"])
			}
			c["before"] = []any{map[string]any(b)}
			c["repeat"] = 1
		}
		emit(c)
	}
}

// c10TypedTree: a value tree for the typed decoder: numbers carry the dynamic type they arrive with
func c10TypedTree(r *hx.Rng, depth int) map[string]any {
	scalar := func() map[string]any {
		switch r.Intn(7) {
		case 0, 1:
			return map[string]any{"i": r.Intn(5), "t": hx.Pick(r, []string{"int", "int64", "int32", "float64", "number"})}
		case 2:
			return map[string]any{"b": r.Bool()}
		case 3:
			return map[string]any{"f": hx.Pick(r, []string{"1.5", "0.0", "2.5"})}
		case 4:
			return map[string]any{"n": true}
		}
		return map[string]any{"s": hx.Pick(r, []string{"a", "b", "k", "v", "x", "", "1", "true", "kids", "c"})}
	}
	if depth <= 0 || r.Chance(25) {
		return scalar()
	}
	if r.Chance(30) {
		l := []any{}
		for i := r.Intn(3); i > 0; i-- {
			l = append(l, c10TypedTree(r, depth-1))
		}
		return map[string]any{"l": l}
	}
	m := []any{}
	for i := 1 + r.Intn(3); i > 0; i-- {
		var k map[string]any
		if r.Chance(65) {
			k = map[string]any{"s": hx.Pick(r, []string{"a", "b", "k", "v", "kids", "n"})}
		} else {
			k = hx.Pick(r, []map[string]any{{"i": 1, "t": "int"}, {"i": 2, "t": "int64"}, {"b": true}, {"f": "2.5"}, {"i": 0, "t": "float64"}, {"s": "1"}})
		}
		m = append(m, []any{k, c10TypedTree(r, depth-1)})
	}
	return map[string]any{"m": m}
}

// c10TypedTraffic: request and response bodies of the content type of the user-registered typed decoder, described by
// the schemas under which the validator walks into nested mappings and sequences
func c10TypedTraffic(r *hx.Rng) hx.Case {
	c10AllowAPCycle = false
	noCycle := func() any {
		for {
			s := c10WalkSchema(r)
			if b, _ := json.Marshal(s); !strings.Contains(string(b), "$ref") {
				return s
			}
		}
	}
	method := hx.Pick(r, []string{"post", "put", "patch"})
	op := map[string]any{
		"requestBody": map[string]any{"content": map[string]any{c10TypedCT: map[string]any{"schema": noCycle()}}},
		"responses":   map[string]any{"200": map[string]any{"description": "d", "content": map[string]any{c10TypedCT: map[string]any{"schema": noCycle()}}}},
	}
	doc := map[string]any{"openapi": "3.0.0", "info": map[string]any{"title": "t", "version": "1"},
		"paths": map[string]any{"/a": map[string]any{method: op}}}
	body := func() string {
		b, _ := json.Marshal(c10TypedTree(r, 3))
		return string(b)
	}
	req := map[string]any{"method": strings.ToUpper(method), "scheme": "http", "host": "h", "path": "/a", "rawURL": "http://h/a",
		"query": "", "headers": []any{}, "ct": c10TypedCT, "body": body()}
	resp := map[string]any{"status": 200, "ct": c10TypedCT, "body": body(), "headers": []any{}}
	opts := map[string]any{"multi": r.Chance(50), "skipDefaults": r.Chance(30), "middleware": r.Chance(15), "exRO": r.Chance(20), "exWO": r.Chance(20)}
	return hx.Case{"op": "traffic", "doc": doc, "router": hx.Pick(r, []string{"legacy", "gorilla"}), "req": req, "resp": resp, "opts": opts}
}

// schemas whose validation goes through state kept between calls: patterns (the process-wide cache of compiled
// patterns), in every position where document validation does not compile them first (no `type`, or a type other than
// string next to them), with texts Go's regexp accepts and texts it rejects (ECMA look-around, back-references,
// possessive quantifiers, repeat counts above 1000, unknown classes, unbalanced brackets); plus typed, compilable ones
var c10StatePool = []string{
	`{"pattern":"^(?!tmp-)[a-z-]+$"}`, `{"pattern":"(?<=a)b"}`, `{"pattern":"(a)\\1"}`, `{"pattern":"a++"}`, `{"pattern":"a{2000}"}`,
	`{"pattern":"\\p{Foo}"}`, `{"pattern":"[a-"}`, `{"pattern":"("}`, `{"pattern":"^[a-z]+$"}`, `{"pattern":"\\u00E9"}`,
	`{"type":"string","pattern":"^[a-z]+$"}`, `{"type":"string","pattern":"^(a|b)*$","minLength":1}`,
	`{"pattern":"(?=x)","minLength":1}`, `{"pattern":"(?!x)","nullable":true}`, `{"pattern":"a**","enum":["abc","x"]}`,
	`{"properties":{"n":{"pattern":"(?!x)"}}}`, `{"type":"object","properties":{"n":{"pattern":"[z-a]"}}}`,
	`{"type":"array","items":{"pattern":"(?<!x)y"}}`, `{"items":{"pattern":"x{1001}"}}`,
	`{"additionalProperties":{"pattern":"(?P<n>a)(?P<n>b)"}}`,
	`{"oneOf":[{"pattern":"(?!a)"},{"type":"integer"}]}`, `{"anyOf":[{"pattern":"\\Q"},{"pattern":"(?!b)"}]}`,
	`{"allOf":[{"pattern":"(?!c)"},{"minLength":1}]}`, `{"not":{"pattern":"(?!d)"}}`,
	`{"type":"integer","pattern":"(?!e)"}`, `{"type":"object","pattern":"(?!f)"}`,
}

var c10StateBodies = []string{`"abc"`, `"tmp-x"`, `{"n":"abc"}`, `["abc","y"]`, `{"k":"abc"}`, `""`, `1`, `null`, `{"n":1}`}

// c10TypePatterns: every schema with a pattern and no type becomes a string schema
func c10TypePatterns(v any) {
	switch x := v.(type) {
	case map[string]any:
		if _, ok := x["pattern"].(string); ok && x["type"] == nil {
			x["type"] = "string"
		}
		for _, e := range x { // no random choice, no output order: the order of the walk does not matter
			c10TypePatterns(e)
		}
	case []any:
		for _, e := range x {
			c10TypePatterns(e)
		}
	}
}

// c10HistoryTraffic: a small document whose request body, query parameter, header parameter, response body and
// response header are described by schemas of c10StatePool, string-valued traffic for each of them, and the exchange
// repeated 2–3 times in one process
func c10HistoryTraffic(r *hx.Rng) hx.Case {
	st := func() any { return c10J(hx.Pick(r, c10StatePool)) }
	plain := func() any {
		return c10J(hx.Pick(r, []string{`{"type":"string"}`, `{}`, `{"type":"string","pattern":"^[a-z]+$"}`}))
	}
	pick := func() any {
		if r.Chance(55) {
			return st()
		}
		return plain()
	}
	method := hx.Pick(r, []string{"post", "put", "get"})
	op := map[string]any{
		"parameters": []any{
			map[string]any{"name": "q", "in": "query", "schema": pick()},
			map[string]any{"name": "X-H", "in": "header", "schema": pick()},
		},
		"responses": map[string]any{"200": map[string]any{"description": "d",
			"headers": map[string]any{"X-A": map[string]any{"schema": pick()}},
			"content": map[string]any{"application/json": map[string]any{"schema": pick()}}}},
	}
	if method != "get" {
		op["requestBody"] = map[string]any{"content": map[string]any{"application/json": map[string]any{"schema": st()}}}
	}
	if r.Chance(30) {
		op["parameters"] = append(op["parameters"].([]any), map[string]any{"name": "x", "in": "path", "required": true, "schema": st()})
	}
	tpl := "/a"
	path := "/a"
	if len(op["parameters"].([]any)) == 3 {
		tpl, path = "/a/{x}", "/a/"+hx.Pick(r, []string{"abc", "tmp-x", "5"})
	}
	doc := map[string]any{"openapi": "3.0.0", "info": map[string]any{"title": "t", "version": "1"},
		"paths": map[string]any{tpl: map[string]any{method: op}}}
	u := &url.URL{Scheme: "http", Host: "h", Path: path}
	req := map[string]any{"method": strings.ToUpper(method), "scheme": "http", "host": "h", "path": path, "rawURL": u.String(),
		"query": hx.Pick(r, []string{"q=abc", "q=tmp-x", "q=abc&q=x", "", "q="}), "headers": []any{[]any{"X-H", hx.Pick(r, []string{"abc", "tmp-x", ""})}},
		"ct": "application/json", "body": hx.Pick(r, c10StateBodies)}
	resp := map[string]any{"status": 200, "ct": "application/json", "body": hx.Pick(r, c10StateBodies),
		"headers": []any{[]any{"X-A", hx.Pick(r, []string{"abc", "tmp-x"})}}}
	opts := map[string]any{"multi": r.Chance(50), "skipDefaults": r.Chance(20), "middleware": r.Chance(25), "vhandler": r.Chance(10), "strict": r.Chance(30)}
	return hx.Case{"op": "traffic", "doc": doc, "router": hx.Pick(r, []string{"legacy", "gorilla"}), "req": req, "resp": resp, "opts": opts,
		"repeat": 2 + r.Intn(2)}
}

var c10ServerPool = []string{
	"http://h", "http://h/", "http://h/v1", "http://h/v1/", "/", "/v1", "/v1/", "http://{e}.h/v1", "http://{e}.h/",
	"http://h:{port}/v1", "https://h/{base}/", "{server}", "{server}/v1/", "http://h/{a}{b}", "http://h//",
}

func c10URLMutations(s string) []string {
	base := strings.NewReplacer("{e}", "qa", "{port}", "80", "{base}", "b", "{server}", "http://h", "{a}", "x", "{b}", "y").Replace(s)
	out := []string{base, base + "/", base + "/a", base + "a", strings.TrimSuffix(base, "/"), strings.TrimSuffix(base, "/") + "/a/",
		base + "//", "", "/", "http://h", "http://other/v1", base + "?"}
	if len(base) > 1 {
		out = append(out, base[:len(base)-1], base[1:], base[:len(base)/2])
	}
	return out
}

func c10SchemaShapes(nDefs int, thorough bool) []any {
	leafs := []any{map[string]any{"leaf": true}, map[string]any{"leaf": false}, map[string]any{"ref": 0}}
	var out []any
	// node(allOf ⊆ leafs (≤2), items ∈ none ∪ leafs)
	var allOfs [][]any
	allOfs = append(allOfs, nil)
	for _, a := range leafs {
		allOfs = append(allOfs, []any{a})
		for _, b := range leafs {
			allOfs = append(allOfs, []any{a, b})
		}
	}
	items := append([]any{nil}, leafs...)
	items = append(items, map[string]any{"own": true, "allOf": []any{map[string]any{"ref": 0}}, "items": nil},
		map[string]any{"own": true, "allOf": []any{}, "items": map[string]any{"ref": 0}},
		map[string]any{"own": false, "allOf": []any{}, "items": map[string]any{"ref": 0}})
	for _, a := range allOfs {
		for _, it := range items {
			al := a
			if al == nil {
				al = []any{}
			}
			out = append(out, map[string]any{"own": false, "allOf": al, "items": it}, map[string]any{"own": true, "allOf": al, "items": it})
		}
	}
	// second family: the other unguarded positions (not, anyOf with its first-success break) against allOf / items
	ref0 := map[string]any{"ref": 0}
	lt, lf := map[string]any{"leaf": true}, map[string]any{"leaf": false}
	nots := []any{nil, lt, lf, ref0}
	anys := [][]any{{}, {ref0}, {lt, ref0}, {lf, ref0}, {ref0, lt}}
	for _, nt := range nots {
		for _, ay := range anys {
			if nt == nil && len(ay) == 0 {
				continue // first family
			}
			for _, al := range [][]any{{}, {ref0}} {
				for _, it := range []any{nil, ref0} {
					for _, own := range []bool{false, true} {
						if own && !thorough {
							continue // `own` only matters to IsEmpty, which is not evaluated on schemas with sub-schemas
						}
						out = append(out, map[string]any{"own": own, "not": nt, "anyOf": ay, "allOf": al, "items": it})
					}
				}
			}
		}
	}
	// third family: the guarded object positions (properties, additionalProperties as a schema) alone and against
	// the unguarded ones; keys 0..2 are the members k0..k2
	for _, ps := range [][]any{{}, {[]any{1, ref0}}, {[]any{0, lf}, []any{1, ref0}}} {
		for _, ad := range []any{nil, ref0, lf} {
			if len(ps) == 0 && ad == nil {
				continue
			}
			for _, al := range [][]any{{}, {ref0}} {
				for _, nt := range []any{nil, lf} {
					out = append(out, map[string]any{"own": false, "not": nt, "anyOf": []any{}, "allOf": al, "items": nil, "props": ps, "addl": ad})
				}
			}
			if thorough {
				out = append(out, map[string]any{"own": true, "not": nil, "anyOf": []any{ref0, lt}, "allOf": []any{}, "items": ref0, "props": ps, "addl": ad})
			}
		}
	}
	return out
}

func c10RandSchema(r *hx.Rng, nDefs, depth int, top bool) map[string]any {
	k := r.Intn(10)
	if depth <= 0 || (!top && k < 3) {
		switch r.Intn(3) {
		case 0:
			return map[string]any{"leaf": true}
		case 1:
			return map[string]any{"leaf": false}
		}
		return map[string]any{"ref": r.Intn(nDefs)}
	}
	var all []any
	for i := r.Intn(3); i > 0; i-- {
		all = append(all, c10RandSchema(r, nDefs, depth-1, false))
	}
	if all == nil {
		all = []any{}
	}
	var items any
	if r.Chance(60) {
		items = c10RandSchema(r, nDefs, depth-1, false)
	}
	out := map[string]any{"own": r.Chance(60), "allOf": all, "items": items}
	if r.Chance(30) {
		alts := []any{}
		for i := 1 + r.Intn(2); i > 0; i-- {
			alts = append(alts, c10RandSchema(r, nDefs, depth-1, false))
		}
		out["anyOf"] = alts
	}
	if r.Chance(20) {
		out["not"] = c10RandSchema(r, nDefs, depth-1, false)
	}
	if r.Chance(30) {
		ps := []any{}
		for k := 0; k < 3; k++ {
			if r.Chance(40) {
				ps = append(ps, []any{k, c10RandSchema(r, nDefs, depth-1, false)})
			}
		}
		out["props"] = ps
	}
	if r.Chance(25) {
		out["addl"] = c10RandSchema(r, nDefs, depth-1, false)
	}
	return out
}

func c10RandValue(r *hx.Rng, depth int) any {
	if depth <= 0 || r.Chance(40) {
		return r.Intn(5)
	}
	if r.Chance(40) {
		o := []any{}
		for k := 0; k < 4; k++ { // keys in ascending (= sorted) order
			if r.Chance(45) {
				o = append(o, []any{k, c10RandValue(r, depth-1)})
			}
		}
		return map[string]any{"o": o}
	}
	l := []any{}
	for i := r.Intn(3); i > 0; i-- {
		l = append(l, c10RandValue(r, depth-1))
	}
	return l
}

// ---- traffic documents

var c10SchemaPool = []string{
	`{"type":"integer"}`, `{"type":"string"}`, `{"type":"boolean"}`, `{"type":"number"}`, `{}`,
	`{"type":"number","exclusiveMinimum":true}`, `{"type":"integer","exclusiveMaximum":true}`,
	`{"type":"number","exclusiveMinimum":true,"minimum":1}`,
	`{"type":"number","multipleOf":0}`, `{"type":"integer","multipleOf":0,"minimum":0}`,
	`{"type":"string","pattern":"^[a-z]+$"}`, `{"type":"string","pattern":"^(a|b)*$"}`,
	`{"type":"string","minLength":2,"maxLength":1}`, `{"type":"string","format":"date"}`, `{"type":"string","format":"byte"}`,
	`{"type":"string","enum":["a","b,c"]}`, `{"type":"integer","enum":[1,2]}`, `{"enum":[null]}`,
	`{"type":"integer","nullable":true,"default":3}`, `{"type":"string","default":"d"}`,
	`{"type":"array","items":{"type":"integer"}}`, `{"type":"array","items":{"type":"string"},"uniqueItems":true,"minItems":1}`,
	`{"type":"array","items":{"type":"array","items":{"type":"integer"}}}`, `{"type":"array","items":{}}`,
	`{"type":"array","items":{"type":"integer"},"default":[1,2]}`,
	`{"type":"object","properties":{"a":{"type":"integer"},"b":{"type":"string","default":"x"}},"required":["a"]}`,
	`{"type":"object","properties":{"a":{"type":"object","properties":{"c":{"type":"integer"}}},"b":{"type":"array","items":{"type":"integer"}}}}`,
	`{"type":"object","additionalProperties":{"type":"integer"}}`, `{"type":"object","additionalProperties":false}`, `{"type":"object","additionalProperties":true}`,
	`{"type":"object","properties":{"f":{"type":"string","format":"binary"},"j":{"type":"object","properties":{"k":{"type":"integer"}}}}}`,
	`{"type":"object","properties":{"r":{"type":"integer","readOnly":true},"w":{"type":"string","writeOnly":true}},"required":["r","w"]}`,
	`{"oneOf":[{"type":"integer"},{"type":"string"}]}`, `{"anyOf":[{"type":"integer","default":1},{"type":"object","properties":{"z":{"default":2}}}]}`,
	`{"allOf":[{"type":"integer","default":7},{"minimum":0,"exclusiveMinimum":true}]}`, `{"not":{"type":"string"}}`, `{"allOf":[]}`, `{"oneOf":[{}]}`,
	`{"type":"object","discriminator":{"propertyName":"k"},"oneOf":[{"$ref":"#/components/schemas/Cat"},{"$ref":"#/components/schemas/Dog"}]}`,
	`{"type":"object","discriminator":{"propertyName":"k","mapping":{"c":"#/components/schemas/Cat","x":"#/components/schemas/Nope"}},"oneOf":[{"$ref":"#/components/schemas/Cat"}]}`,
	`{"$ref":"#/components/schemas/Tree"}`, `{"$ref":"#/components/schemas/List"}`, `{"$ref":"#/components/schemas/Cat"}`, `{"$ref":"#/components/schemas/Loop"}`,
	`{"$ref":"#/components/schemas/Labels"}`, `{"$ref":"#/components/schemas/Bag"}`, `{"type":"array","items":{"$ref":"#/components/schemas/Maybe"}}`,
	`{"additionalProperties":{"type":"integer"}}`, `{"additionalProperties":{}}`, `{"properties":{"a":{}}}`,
	`{"type":"array","items":{"$ref":"#/components/schemas/Tree"}}`, `{"allOf":[{"$ref":"#/components/schemas/Tree"},{"$ref":"#/components/schemas/Cat"}]}`,
	`{"type":"string","maxLength":9223372036854775808}`, `{"type":"array","maxItems":0,"items":{"type":"integer"}}`, `{"type":"object","minProperties":1,"maxProperties":0}`,
}

const c10Components = `{
 "Cat":{"type":"object","properties":{"k":{"type":"string"},"n":{"type":"integer"}},"required":["k"]},
 "Dog":{"type":"object","properties":{"k":{"type":"string"},"b":{"type":"boolean"}},"required":["k"]},
 "Tree":{"type":"object","properties":{"v":{"type":"integer"},"kids":{"type":"array","items":{"$ref":"#/components/schemas/Tree"}}}},
 "List":{"type":"array","items":{"$ref":"#/components/schemas/List"}},
 "Loop":{"type":"object","properties":{"next":{"$ref":"#/components/schemas/Loop"}}},
 "Labels":{"additionalProperties":{"$ref":"#/components/schemas/Labels"}},
 "Bag":{"additionalProperties":{"additionalProperties":{"$ref":"#/components/schemas/Bag"}}},
 "Maybe":{"nullable":true,"additionalProperties":{"$ref":"#/components/schemas/Labels"}}
}`

func c10J(s string) any {
	var v any
	dec := json.NewDecoder(strings.NewReader(s))
	dec.UseNumber()
	if err := dec.Decode(&v); err != nil {
		panic("c10 pool entry: " + s + ": " + err.Error())
	}
	return v
}

// references into the additionalProperties cycles (Labels, Bag, Maybe) are allowed in three documents out of ten: every
// exchange of such a document runs in a child process, and a defect on that path costs a process per case
var c10AllowAPCycle bool

func c10Schema(r *hx.Rng) any {
	for {
		s := hx.Pick(r, c10SchemaPool)
		if !c10AllowAPCycle && (strings.Contains(s, "schemas/Labels") || strings.Contains(s, "schemas/Bag") || strings.Contains(s, "schemas/Maybe")) {
			continue
		}
		return c10J(s)
	}
}

// the loader does not resolve references inside a header's content: keep those schemas reference-free
func c10SchemaNoRef(r *hx.Rng) any {
	for {
		s := hx.Pick(r, c10SchemaPool)
		if !strings.Contains(s, "$ref") {
			return c10J(s)
		}
	}
}

var c10PathPool = []string{"/a", "/a/", "/a/b", "/a/{x}", "/a/{x}/b", "/{x}.json", "/a/{x}b", "/a/{x}/{y}", "/", "/a//b", "/a.b/c-d", "/{x}", "/a/{x}.{y}"}
var c10OpMethods = []string{"get", "post", "put", "delete", "head", "options", "patch", "trace"}

func c10TemplateVars(t string) []string {
	var out []string
	for {
		i := strings.IndexByte(t, '{')
		if i < 0 {
			return out
		}
		j := strings.IndexByte(t[i:], '}')
		if j < 0 {
			return out
		}
		out = append(out, t[i+1:i+j])
		t = t[i+j+1:]
	}
}

func c10Param(r *hx.Rng, name, in string) map[string]any {
	p := map[string]any{"name": name, "in": in}
	if in == "path" {
		p["required"] = true
	} else if r.Chance(35) {
		p["required"] = true
	}
	switch k := r.Intn(40); {
	case k < 28:
		p["schema"] = c10Schema(r)
		if r.Chance(30) {
			styles := map[string][]string{"query": {"form", "spaceDelimited", "pipeDelimited", "deepObject"}, "path": {"simple", "label", "matrix"}, "header": {"simple"}, "cookie": {"form"}}
			p["style"] = hx.Pick(r, styles[in])
		}
		if r.Chance(30) {
			p["explode"] = r.Bool()
		}
		if in == "query" && r.Chance(15) {
			p["allowEmptyValue"] = true
		}
	case k < 36:
		p["content"] = map[string]any{"application/json": map[string]any{"schema": c10Schema(r)}}
	case k == 36:
		p["content"] = map[string]any{hx.Pick(r, []string{"application/json", "text/plain", "*/*", "application/*"}): map[string]any{}}
	case k == 37:
		p["content"] = map[string]any{"application/json": map[string]any{"schema": c10Schema(r)}, "text/plain": map[string]any{"schema": c10Schema(r)}}
	default:
		p["content"] = map[string]any{"text/plain": map[string]any{"schema": c10Schema(r)}}
	}
	return p
}

func c10Content(r *hx.Rng) map[string]any {
	cts := []string{"application/json", "application/x-www-form-urlencoded", "multipart/form-data", "text/plain", "application/octet-stream",
		"*/*", "application/*", "application/problem+json", "text/csv", "application/yaml", "application/zip", "application/json; charset=utf-8",
		"application/x-yaml", "application/yaml", "application/vnd.api+json"}
	out := map[string]any{}
	for i := 1 + r.Intn(2); i > 0; i-- {
		mt := map[string]any{}
		if r.Chance(85) {
			mt["schema"] = c10Schema(r)
		}
		ct := hx.Pick(r, cts)
		if (ct == "multipart/form-data" || ct == "application/x-www-form-urlencoded") && r.Chance(40) {
			mt["encoding"] = map[string]any{"a": map[string]any{"contentType": hx.Pick(r, []string{"application/json", "application/json", "application/yaml", "text/csv"}), "style": "form", "explode": r.Bool()},
				"j": map[string]any{"contentType": hx.Pick(r, []string{"application/json", "application/json", "application/x-yaml"})}}
		}
		out[ct] = mt
	}
	return out
}

func c10Header(r *hx.Rng) map[string]any {
	h := map[string]any{}
	if r.Chance(40) {
		h["required"] = true
	}
	switch r.Intn(4) {
	case 0:
		h["content"] = map[string]any{"application/json": map[string]any{"schema": c10SchemaNoRef(r)}}
	case 1:
		h["content"] = map[string]any{"text/plain": map[string]any{}}
	default:
		h["schema"] = c10Schema(r)
		if r.Chance(20) {
			h["explode"] = r.Bool()
		}
	}
	return h
}

func c10Operation(r *hx.Rng, tpl string) map[string]any {
	op := map[string]any{}
	var params []any
	for _, v := range c10TemplateVars(tpl) {
		params = append(params, c10Param(r, v, "path"))
	}
	seen := map[string]bool{}
	for i := r.Intn(3); i > 0; i-- {
		in := hx.Pick(r, []string{"query", "query", "header", "cookie"})
		name := map[string][]string{"query": {"q", "p"}, "header": {"X-H", "X-G"}, "cookie": {"c", "d"}}[in][r.Intn(2)]
		if seen[in+name] {
			continue
		}
		seen[in+name] = true
		params = append(params, c10Param(r, name, in))
	}
	if len(params) > 0 {
		op["parameters"] = params
	}
	if r.Chance(55) {
		rb := map[string]any{"content": c10Content(r)}
		if r.Chance(40) {
			rb["required"] = true
		}
		if r.Chance(5) {
			rb["content"] = map[string]any{}
		}
		op["requestBody"] = rb
	}
	resps := map[string]any{}
	for _, code := range []string{"200", "default", "2XX", "404", "4XX"} {
		if r.Chance(35) {
			rp := map[string]any{"description": "d"}
			if r.Chance(50) {
				hs := map[string]any{}
				for i := 1 + r.Intn(2); i > 0; i-- {
					hs[hx.Pick(r, []string{"X-A", "X-B", "Content-Type", "x-lower"})] = c10Header(r)
				}
				rp["headers"] = hs
			}
			if r.Chance(60) {
				rp["content"] = c10Content(r)
			}
			resps[code] = rp
		}
	}
	if len(resps) == 0 {
		resps["200"] = map[string]any{"description": "d"}
	}
	op["responses"] = resps
	return op
}

func c10Doc(r *hx.Rng) (map[string]any, []string) {
	c10AllowAPCycle = r.Chance(30)
	doc := map[string]any{"openapi": "3.0.0", "info": map[string]any{"title": "t", "version": "1"}}
	comps := c10J(c10Components).(map[string]any)
	if r.Chance(3) {
		comps["Loop"] = c10J(hx.Pick(r, []string{`{"allOf":[{"$ref":"#/components/schemas/Loop"}]}`, `{"anyOf":[{"type":"integer"},{"$ref":"#/components/schemas/Loop"}]}`,
			`{"oneOf":[{"$ref":"#/components/schemas/Loop"}]}`, `{"not":{"$ref":"#/components/schemas/Loop"}}`,
			`{"properties":{"next":{"$ref":"#/components/schemas/Loop"}}}`, `{"items":{"$ref":"#/components/schemas/Loop"}}`,
			`{"type":"object","properties":{"next":{"nullable":true,"allOf":[{"$ref":"#/components/schemas/Loop"}]}}}`}))
	}
	doc["components"] = map[string]any{"schemas": comps}
	if r.Chance(12) {
		// security requirements: declared or not, global (operation-level ones are added in c10Operation's caller)
		if r.Chance(75) {
			doc["components"].(map[string]any)["securitySchemes"] = map[string]any{
				"k": map[string]any{"type": "apiKey", "in": "header", "name": "X-K"},
				"b": map[string]any{"type": "http", "scheme": "bearer"}}
		}
		doc["security"] = c10J(hx.Pick(r, []string{`[{"k":[]}]`, `[{"k":[],"b":["s"]}]`, `[{}]`, `[{"k":[]},{"b":[]}]`, `[]`}))
	}
	if r.Chance(55) {
		var servers []any
		for i := 1 + r.Intn(2); i > 0; i-- {
			u := hx.Pick(r, c10ServerPool)
			s := map[string]any{"url": u}
			vars := map[string]any{}
			for _, v := range c10TemplateVars(u) {
				def := map[string]string{"e": "a", "port": "80", "base": "b", "server": "http://h", "a": "x", "b": "y"}[v]
				sv := map[string]any{"default": def}
				if r.Chance(30) {
					sv["enum"] = []any{def, "qa"}
				}
				vars[v] = sv
			}
			if len(vars) > 0 {
				s["variables"] = vars
			}
			servers = append(servers, s)
		}
		doc["servers"] = servers
	}
	paths := map[string]any{}
	var tpls []string
	for i := 1 + r.Intn(3); i > 0; i-- {
		tpl := hx.Pick(r, c10PathPool)
		if _, dup := paths[tpl]; dup {
			continue
		}
		item := map[string]any{}
		if r.Chance(12) {
			item["description"] = "no operations here"
		} else {
			for j := 1 + r.Intn(2); j > 0; j-- {
				item[hx.Pick(r, c10OpMethods)] = c10Operation(r, tpl)
			}
		}
		if r.Chance(25) {
			var ps []any
			for _, v := range c10TemplateVars(tpl) {
				ps = append(ps, c10Param(r, v, "path"))
			}
			if r.Chance(50) {
				ps = append(ps, c10Param(r, "q", "query"))
			}
			if len(ps) > 0 {
				item["parameters"] = ps
			}
		}
		paths[tpl] = item
		tpls = append(tpls, tpl)
	}
	doc["paths"] = paths
	return doc, tpls
}

var c10Methods = []string{"GET", "POST", "PUT", "DELETE", "HEAD", "OPTIONS", "PATCH", "TRACE", "CONNECT", "PROPFIND", "get", "M-SEARCH", "QUERY", "X"}
var c10Bodies = []string{"", "{", "{}", "1", "0", "null", "[1,2]", `{"a":1}`, `{"a":"x","b":[1,"y"]}`, `{"k":"c","n":1}`, `{"k":5}`, `{"v":1,"kids":[{"v":2,"kids":[]}]}`,
	`[[[]]]`, "a=1&b=2", "a=1&a=2&b[c]=3", "%zz=1", "a", `"s"`, "1e400", `{"a":1} trailing`, `{"r":1,"w":"x"}`, "\xff\xfe\x00", "0.0", "-0", `{"a":null}`, `[null]`,
	"--b\r\nContent-Disposition: form-data; name=\"a\"\r\n\r\n1\r\n--b--\r\n",
	"--b\r\nContent-Disposition: form-data; name=\"j\"\r\nContent-Type: application/json\r\n\r\n{bad\r\n--b--\r\n",
	"--b\r\nContent-Disposition: form-data; name=\"a\"\r\nContent-Type: application/json\r\n\r\n{bad\r\n--b--\r\n",
	"--b\r\nContent-Disposition: form-data; name=\"f\"; filename=\"x\"\r\nContent-Type: text/plain\r\n\r\nxx\r\n--b\r\nContent-Disposition: form-data; name=\"zz\"\r\n\r\n1\r\n--b--\r\n",
	"--b\r\nContent-Disposition: form-data\r\n\r\n1\r\n--b--\r\n", "--b\r\n\r\n", "--b--", "a: 1\nb: [1, 2]\n", "a,b\n1,2\n", "PK\x03\x04",
	"--b\r\nContent-Disposition: form-data; name=\"a\"\r\nContent-Type: application/yaml\r\n\r\n{1: x}\r\n--b--\r\n",
	"--b\r\nContent-Disposition: form-data; name=\"j\"\r\nContent-Type: application/x-yaml\r\n\r\nk: [.nan]\r\n--b--\r\n",
	"--b\r\nContent-Disposition: form-data; name=\"a\"\r\n\r\nNaN\r\n--b\r\nContent-Disposition: form-data; name=\"a\"\r\n\r\n2\r\n--b--\r\n",
	"a=NaN&b=Inf", "a=1&a=NaN", "a,\"b\n1,2\n", "a,b\r\n\"1\"\"\",2\r\n", "\"", "a: &x [*x]\n", "? [1]\n: 2\n", "a: !!binary AAA=\n", "- 2001-12-14\n- !!float 1\n", "<<: {a: 1}\nb: 2\n",
	"a: &a [1,2]\nb: [*a,*a,*a,*a,*a,*a,*a,*a,*a]\n"}
var c10CTs = []string{"", "application/json", "application/json; charset=utf-8", "APPLICATION/JSON", "application/x-www-form-urlencoded", "multipart/form-data; boundary=b",
	"multipart/form-data", "text/plain", "application/octet-stream", "a/b/c", ";;;", "application/problem+json", "text/csv", "application/yaml", "application/zip",
	"application/json;", "*/*", "application/*", "multipart/form-data; boundary=", "x", "application/x-yaml", "application/yaml; charset=utf-8", "text/csv; header=present"}
var c10Queries = []string{"", "q=1", "q=x", "q=1&q=2", "q", "q=", "q=1,2", "q[a]=1", "q[a]=1&q[a][b]=2", "q[b]=1&q[b][c]=2", "p[b]=1&p[b][c]=2", "q=%zz", "q=a|b", "q=a%20b",
	"q=[1,2]", "q={\"a\":1}", "q={", "p=1&q=2", "q=1&q=x", "&&&", "q=null", "q=true", "q[]=1", "q[a][b][c]=1", "q.a=1", "q=9223372036854775808", "q=1e400", "q=b,c",
	"q=NaN", "q=NaN&q=1", "q=1,Inf", "q[a]=nan", "p=-Infinity&q=2", "q=inf|1", "q=1%20NaN", "q[b]=NaN&q[c]=1",
	"q[b][0]=1&q[b][1]=2", "q[b][3]=1", "q[b][300]=1", "q[b][-1]=1", "q[b][x]=1", "q[b][0][0]=1", "p[b][2]=7&p[b][0]=1", "q[0]=1&q[1]=2", "q[b][999]=x"}
var c10Values = []string{"5", "x", "", "a/b", "%2F", ".5", "1,2", ".1.2", ";x=1", "a=1,b=2", "true", "{x}",
	"NaN", "1,NaN", "Inf,2", "-inf", "+Infinity", "nan,nan", "1e999", "0x1p-2", "1_0"}

func c10RandTraffic(r *hx.Rng) hx.Case {
	doc, tpls := c10Doc(r)
	tpl := hx.Pick(r, tpls)
	// request path: the template with values, verbatim, or mutated
	path := tpl
	switch k := r.Intn(10); {
	case k < 6:
		for _, v := range c10TemplateVars(tpl) {
			path = strings.Replace(path, "{"+v+"}", hx.Pick(r, c10Values), 1)
		}
	case k < 8:
		// verbatim template text
	case k == 8:
		path = hx.Pick(r, []string{"/", "", "/zzz", "//", "/a/b/c/d", "/a%", "/%7Bx%7D", "/a/../a"})
	default:
		path = strings.TrimSuffix(path, "/")
	}
	if r.Chance(10) {
		path += "/"
	}
	scheme, host, prefix := "http", "h", ""
	if servers, ok := doc["servers"].([]any); ok && len(servers) > 0 && r.Chance(85) {
		u := jstr(servers[r.Intn(len(servers))].(map[string]any), "url")
		u = strings.NewReplacer("{e}", hx.Pick(r, []string{"a", "qa", ""}), "{port}", hx.Pick(r, []string{"80", "81"}), "{base}", "b", "{server}", "http://h", "{a}", "x", "{b}", "y").Replace(u)
		if i := strings.Index(u, "://"); i >= 0 {
			scheme = u[:i]
			u = u[i+3:]
			if j := strings.IndexByte(u, '/'); j >= 0 {
				host, prefix = u[:j], u[j:]
			} else {
				host, prefix = u, ""
			}
		} else {
			prefix = u
		}
		// the junction between server and path is where slashes go wrong
		switch r.Intn(6) {
		case 0:
			prefix = strings.TrimSuffix(prefix, "/")
		case 1:
			prefix += "/"
		case 2:
			if r.Chance(50) {
				path = ""
			}
		}
		if strings.HasSuffix(prefix, "/") && strings.HasPrefix(path, "/") && r.Chance(70) {
			path = path[1:]
		}
	}
	full := prefix + path
	if r.Chance(3) {
		host = "other"
	}
	method := hx.Pick(r, c10Methods)
	if r.Chance(60) {
		// a method the chosen path declares, when it declares any
		if item, ok := doc["paths"].(map[string]any)[tpl].(map[string]any); ok {
			var ms []string
			for _, m := range c10OpMethods {
				if _, ok := item[m]; ok {
					ms = append(ms, strings.ToUpper(m))
				}
			}
			sort.Strings(ms)
			if len(ms) > 0 {
				method = hx.Pick(r, ms)
			}
		}
	}
	u := &url.URL{Scheme: scheme, Host: host, Path: full}
	var headers []any
	if r.Chance(40) {
		headers = append(headers, []any{"X-H", hx.Pick(r, c10Values)})
	}
	if r.Chance(15) {
		headers = append(headers, []any{"X-H", "second"})
	}
	if r.Chance(30) {
		headers = append(headers, []any{"Cookie", hx.Pick(r, []string{"c=1", "c=x; q=2", "c", "=", "c=\"a b\"", "c=1; c=2", ";;", "c={\"a\":1}", "c=NaN", "c=1,Inf"})})
	}
	req := map[string]any{"method": method, "scheme": scheme, "host": host, "path": full, "rawURL": u.String(), "query": hx.Pick(r, c10Queries),
		"headers": headers, "ct": hx.Pick(r, c10CTs), "body": hx.Pick(r, c10Bodies)}
	if headers == nil {
		req["headers"] = []any{}
	}
	var rh []any
	for _, n := range []string{"X-A", "X-B", "x-lower"} {
		if r.Chance(50) {
			rh = append(rh, []any{n, hx.Pick(r, c10Values)})
		}
	}
	if rh == nil {
		rh = []any{}
	}
	resp := map[string]any{"status": hx.Pick(r, []int{200, 200, 201, 404, 500, 0, 99, 600, -1, 304, 1000}), "headers": rh, "ct": hx.Pick(r, c10CTs), "body": hx.Pick(r, c10Bodies)}
	opts := map[string]any{"multi": r.Bool(), "exReqBody": r.Chance(10), "exQuery": r.Chance(10), "exRespBody": r.Chance(10), "inclStatus": r.Chance(30),
		"skipDefaults": r.Chance(20), "exRO": r.Chance(10), "exWO": r.Chance(10), "middleware": r.Chance(30), "strict": r.Bool(),
		"vhandler": r.Chance(15), "auth": hx.Pick(r, []string{"", "noop", "noop", "deny"})}
	// focused exchanges: a body decoder other than JSON gets a body it can decode, under a schema that walks it
	if ops := c10DeclaredOps(doc, tpl); len(ops) > 0 {
		switch k := r.Intn(100); {
		case k < 14: // YAML: mappings with non-string keys, non-finite floats, at depth
			m := hx.Pick(r, ops)
			op := doc["paths"].(map[string]any)[tpl].(map[string]any)[m].(map[string]any)
			yct := hx.Pick(r, []string{"application/yaml", "application/x-yaml"})
			op["requestBody"] = map[string]any{"content": map[string]any{yct: map[string]any{"schema": c10WalkSchema(r)}}}
			req["method"] = strings.ToUpper(m)
			req["ct"] = yct
			req["body"] = ""
			req["ybody"] = c10YamlTree(r, 3)
			if r.Chance(60) {
				rps := op["responses"].(map[string]any)
				codes := make([]string, 0, len(rps))
				for code := range rps {
					codes = append(codes, code)
				}
				sort.Strings(codes) // every random choice in a fixed order
				for _, code := range codes {
					rps[code].(map[string]any)["content"] = map[string]any{yct: map[string]any{"schema": c10WalkSchema(r)}}
				}
				resp["ct"] = yct
				resp["body"] = ""
				resp["ybody"] = c10YamlTree(r, 3)
				resp["status"] = 200
			}
		case k < 18: // zip archive through the (user-registered) ZipFileBodyDecoder
			m := hx.Pick(r, ops)
			op := doc["paths"].(map[string]any)[tpl].(map[string]any)[m].(map[string]any)
			op["requestBody"] = map[string]any{"content": map[string]any{"application/zip": map[string]any{"schema": c10J(hx.Pick(r, []string{
				`{"type":"string"}`, `{"type":"string","maxLength":3}`, `{"type":"string","format":"binary"}`, `{"type":"string","pattern":"^a"}`, `{}`}))}}}
			req["method"] = strings.ToUpper(m)
			req["ct"] = "application/zip"
			req["body"] = ""
			req["body_b64"] = base64.StdEncoding.EncodeToString(c10ZipBytes(r))
		case k < 25: // deepObject query parameter with array / nested properties, addressed by bracketed indexes
			m := hx.Pick(r, ops)
			op := doc["paths"].(map[string]any)[tpl].(map[string]any)[m].(map[string]any)
			// the name is data too: the decoder builds a regular expression around it
			name := hx.Pick(r, []string{"p", "q", "p", "q", "ids[]", "a(b", "*x", "a.b", "$f", "p+", "x)", "[", "a|b", "p\\"})
			prm := map[string]any{"name": name, "in": "query", "style": "deepObject", "explode": true, "schema": c10J(hx.Pick(r, []string{
				`{"type":"object","properties":{"b":{"type":"array","items":{"type":"integer"}}}}`,
				`{"type":"object","properties":{"b":{"type":"array","items":{"type":"integer","nullable":true}},"a":{"type":"integer"}}}`,
				`{"type":"object","properties":{"b":{"type":"array","items":{"type":"array","items":{"type":"string"}}}}}`,
				`{"type":"object","additionalProperties":{"type":"array","items":{"type":"number"}}}`,
				`{"type":"object","properties":{"b":{"type":"array","items":{"type":"object","properties":{"c":{"type":"integer"}}}}}}`,
				`{"type":"object","properties":{"b":{"oneOf":[{"type":"array","items":{"type":"integer"}},{"type":"string"}]}}}`}))}
			var ps []any
			for _, x := range jlist(op["parameters"]) {
				if pm, ok := x.(map[string]any); ok && pm["in"] == "query" && pm["name"] == name {
					continue
				}
				ps = append(ps, x)
			}
			op["parameters"] = append(ps, prm)
			req["method"] = strings.ToUpper(m)
			idx := hx.Pick(r, []string{"0", "1", "2", "7", "00", "+1", "-1", "x", "", "300", "64", "1e3", "0x10", " 1"})
			if r.Chance(2) {
				idx = hx.Pick(r, []string{"2000000000", "9223372036854775807", "+4000000000", "100000000000"}) // F-C10-8 (runs in a child)
			}
			qn := name
			if r.Chance(70) {
				qn = url.QueryEscape(name) // the key as a client that knows the name would send it
			}
			q := qn + "[b][" + idx + "]=" + hx.Pick(r, []string{"1", "x", "", "NaN"})
			switch r.Intn(4) {
			case 0:
				q += "&" + qn + "[b][0]=2"
			case 1:
				q += "&" + qn + "[b][" + idx + "][0]=3"
			case 2:
				q += "&" + qn + "[a]=1&" + qn + "[b][1][c]=4"
			}
			req["query"] = q
		}
	}
	return hx.Case{"op": "traffic", "doc": doc, "router": hx.Pick(r, []string{"legacy", "gorilla"}), "req": req, "resp": resp, "opts": opts}
}

func c10DeclaredOps(doc map[string]any, tpl string) []string {
	item, _ := doc["paths"].(map[string]any)[tpl].(map[string]any)
	var ms []string
	for _, m := range c10OpMethods {
		if _, ok := item[m].(map[string]any); ok {
			ms = append(ms, m)
		}
	}
	return ms
}

// schemas under which the validator walks into nested mappings and sequences
var c10WalkPool = []string{
	`{}`, `{"type":"object"}`, `{"type":"string"}`, `{"type":"object","additionalProperties":{"type":"object"}}`,
	`{"type":"object","additionalProperties":{}}`, `{"type":"object","additionalProperties":{"type":"integer"}}`,
	`{"type":"array","items":{"type":"object"}}`, `{"type":"array","items":{}}`, `{"type":"array","items":{"type":"number"},"maxItems":1}`,
	`{"type":"object","properties":{"a":{"type":"object"},"b":{"type":"array","items":{"type":"object","additionalProperties":{"type":"object"}}}}}`,
	`{"type":"object","properties":{"a":{"type":"object","properties":{"k":{"type":"object"}}}},"additionalProperties":false}`,
	`{"oneOf":[{"type":"object"},{"type":"array","items":{"type":"object"}}]}`, `{"anyOf":[{"type":"string"},{"type":"object","additionalProperties":{"type":"object"}}]}`,
	`{"allOf":[{"type":"object"},{"additionalProperties":{"type":"object"}}]}`, `{"not":{"type":"object"}}`, `{"enum":[{"a":1},[1]]}`,
	`{"type":"object","additionalProperties":{"type":"number"},"minProperties":3}`, `{"type":"array","uniqueItems":true,"items":{}}`,
	`{"$ref":"#/components/schemas/Tree"}`, `{"$ref":"#/components/schemas/Cat"}`, `{"$ref":"#/components/schemas/Labels"}`,
}

func c10WalkSchema(r *hx.Rng) any {
	if r.Chance(25) {
		return c10Schema(r)
	}
	for {
		s := hx.Pick(r, c10WalkPool)
		if !c10AllowAPCycle && strings.Contains(s, "schemas/Labels") {
			continue
		}
		return c10J(s)
	}
}

func c10YamlScalar(r *hx.Rng) map[string]any {
	switch r.Intn(8) {
	case 0:
		return map[string]any{"i": r.Intn(5)}
	case 1:
		return map[string]any{"b": r.Bool()}
	case 2:
		return map[string]any{"f": hx.Pick(r, []string{"nan", "inf", "-inf", "1.5", "0.0"})}
	case 3:
		return map[string]any{"n": true}
	}
	return map[string]any{"s": hx.Pick(r, []string{"a", "b", "k", "v", "x", "", "1", "true", "null", "a b", "kids"})}
}

func c10YamlTree(r *hx.Rng, depth int) map[string]any {
	if depth <= 0 || r.Chance(25) {
		return c10YamlScalar(r)
	}
	if r.Chance(30) {
		l := []any{}
		for i := r.Intn(3); i > 0; i-- {
			l = append(l, c10YamlTree(r, depth-1))
		}
		return map[string]any{"l": l}
	}
	m := []any{}
	seen := map[string]bool{}
	for i := 1 + r.Intn(3); i > 0; i-- {
		var k map[string]any
		if r.Chance(70) {
			k = map[string]any{"s": hx.Pick(r, []string{"a", "b", "k", "v", "kids", "n"})}
		} else {
			k = c10YamlScalar(r)
		}
		ks := c10Yaml(k)
		if seen[ks] {
			continue // duplicate keys are a YAML syntax error
		}
		seen[ks] = true
		m = append(m, []any{k, c10YamlTree(r, depth-1)})
	}
	return map[string]any{"m": m}
}

func c10ZipBytes(r *hx.Rng) []byte {
	var buf bytes.Buffer
	zw := zip.NewWriter(&buf)
	for i := r.Intn(3); i > 0; i-- {
		method := zip.Store
		if r.Bool() {
			method = zip.Deflate
		}
		w, err := zw.CreateHeader(&zip.FileHeader{Name: hx.Pick(r, []string{"a.txt", "d/", "../x", ""}), Method: method})
		if err == nil {
			w.Write([]byte(strings.Repeat(hx.Pick(r, []string{"a", "xyz", "", "NaN"}), r.Intn(300))))
		}
	}
	zw.Close()
	b := buf.Bytes()
	switch r.Intn(6) {
	case 0:
		return b[:len(b)/2] // truncated
	case 1:
		if len(b) > 30 {
			b[len(b)-12] ^= 0xff // corrupt the end-of-central-directory record
		}
	case 2:
		if len(b) > 40 {
			b[20] ^= 0x5a // corrupt the first local header / data
		}
	}
	return b
}

// ------------------------------------------------------------------ shrink

// generic structural shrinker: remove one object key / array element anywhere, or empty one string
func c10Deep(c hx.Case) hx.Case {
	b, _ := json.Marshal(c)
	var out map[string]any
	dec := json.NewDecoder(bytes.NewReader(b))
	dec.UseNumber()
	dec.Decode(&out)
	return out
}

// every candidate of a case that runs in a child process costs a process when the defect is a fatal crash: such cases
// get a small number of candidates per round and a budget of rounds for the whole run
var c10CostlyShrinkRounds = 0

func shrinkC10(c hx.Case) []hx.Case {
	out := shrinkC10All(c)
	costly := false
	switch jstr(c, "op") {
	case "schema":
		costly = c10DefsCyclic(jlist(c["defs"]))
	case "traffic":
		doc, _ := c["doc"].(map[string]any)
		rq, _ := c["req"].(map[string]any)
		costly = c10DocHasRefCycle(doc) || c10HugeIndex(jstr(rq, "query")) || c10Repeat(c) >= 2 || len(jlist(c["before"])) > 0
	}
	if costly {
		c10CostlyShrinkRounds++
		if c10CostlyShrinkRounds > 40 {
			return nil
		}
		if len(out) > 8 {
			out = out[:8]
		}
	}
	return out
}

func shrinkC10All(c hx.Case) []hx.Case {
	var out []hx.Case
	switch jstr(c, "op") {
	case "server":
		for _, k := range []string{"pattern", "input"} {
			s := jstr(c, k)
			for i := range s {
				d := c10Deep(c)
				d[k] = s[:i] + s[i+1:]
				out = append(out, d)
			}
		}
		return out
	}
	var paths [][]any
	var walk func(v any, p []any)
	walk = func(v any, p []any) {
		switch x := v.(type) {
		case map[string]any:
			keys := make([]string, 0, len(x))
			for k := range x {
				keys = append(keys, k)
			}
			sort.Strings(keys)
			for _, k := range keys {
				q := append(append([]any{}, p...), k)
				paths = append(paths, q)
				walk(x[k], q)
			}
		case []any:
			for i := range x {
				q := append(append([]any{}, p...), i)
				paths = append(paths, q)
				walk(x[i], q)
			}
		}
	}
	walk(map[string]any(c), nil)
	protected := map[string]bool{"op": true, "p": true, "router": true, "doc": true, "req": true, "resp": true, "opts": true, "defs": true, "root": true, "value": true}
	for _, p := range paths {
		if len(p) == 1 {
			if k, ok := p[0].(string); ok && protected[k] {
				continue
			}
		}
		if len(p) == 2 && (p[0] == "req" || p[0] == "resp") {
			// request fields are emptied, not removed
			d := c10Deep(c)
			m := d[p[0].(string)].(map[string]any)
			switch v := m[p[1].(string)].(type) {
			case string:
				if v != "" && p[1] != "method" && p[1] != "scheme" && p[1] != "host" {
					m[p[1].(string)] = ""
					out = append(out, d)
				}
			case []any:
				if len(v) > 0 {
					m[p[1].(string)] = []any{}
					out = append(out, d)
				}
			}
			continue
		}
		d := c10Deep(c)
		if c10Remove(d, p) {
			out = append(out, d)
		}
		if len(out) > 400 {
			break
		}
	}
	// keep the model's view of the URL (rawURL) in step with the fields the request is built from
	for _, d := range out {
		if rq, ok := d["req"].(map[string]any); ok {
			rq["rawURL"] = (&url.URL{Scheme: jstr(rq, "scheme"), Host: jstr(rq, "host"), Path: jstr(rq, "path")}).String()
		}
	}
	return out
}

func c10Remove(root map[string]any, p []any) bool {
	var cur any = root
	for i := 0; i < len(p)-1; i++ {
		switch k := p[i].(type) {
		case string:
			cur = cur.(map[string]any)[k]
		case int:
			cur = cur.([]any)[k]
		}
	}
	// find the parent again to write back slices
	switch k := p[len(p)-1].(type) {
	case string:
		m, ok := cur.(map[string]any)
		if !ok {
			return false
		}
		delete(m, k)
		return true
	case int:
		l, ok := cur.([]any)
		if !ok || k >= len(l) {
			return false
		}
		nl := append(append([]any{}, l[:k]...), l[k+1:]...)
		// write back into the grandparent
		var gp any = root
		for i := 0; i < len(p)-2; i++ {
			switch kk := p[i].(type) {
			case string:
				gp = gp.(map[string]any)[kk]
			case int:
				gp = gp.([]any)[kk]
			}
		}
		if len(p) < 2 {
			return false
		}
		switch kk := p[len(p)-2].(type) {
		case string:
			gp.(map[string]any)[kk] = nl
		case int:
			gp.([]any)[kk] = nl
		}
		return true
	}
	return false
}
