package main

// C06 — request construction variants. ValidateRequestBody receives a *http.Request; how that object was made decides
// what its fields Body / ContentLength / GetBody hold, and the code must read the body exactly when there is one:
// ContentLength 0 on a client request means "unknown" as soon as the reader is not one of the three in-memory
// kinds http.NewRequest knows. A case carries "reqKind" (how runC06 builds the request) and "shape" (what net/http
// made of it: kind of Body, ContentLength, GetBody present) — the latter is the input of the Lean model
// (KinModel/BodyReq.lean), computed here by the same constructor calls (net/http is trusted).

import (
	"bytes"
	"fmt"
	"io"
	"net/http"
	"net/http/httptest"
	"strings"

	"context"

	"github.com/getkin/kin-openapi/openapi3"
	"github.com/getkin/kin-openapi/openapi3filter"
	"github.com/getkin/kin-openapi/routers"

	"kinverif/internal/hx"
)

// c06Entry: the public entry point through which the body is validated. "" = ValidateRequestBody;
// "request" = ValidateRequest on a route whose operation declares this request body and nothing else (no
// parameters, no security): the verdict on the body must be the same.
func c06Entry(entry string, in *openapi3filter.RequestValidationInput, rb *openapi3.RequestBody) func() error {
	if entry == "request" {
		in.Route = &routers.Route{Spec: &openapi3.T{}, Path: "/x", Method: "POST", PathItem: &openapi3.PathItem{},
			Operation: &openapi3.Operation{RequestBody: &openapi3.RequestBodyRef{Value: rb}}}
		return func() error { return openapi3filter.ValidateRequest(context.Background(), in) }
	}
	return func() error { return openapi3filter.ValidateRequestBody(context.Background(), in, rb) }
}

// every way a request is built in this check; "" = http.NewRequest from a *strings.Reader (nil when the text is empty)
var c06ReqKinds = []string{"", "nopcloser", "multireader", "assigned", "chunked", "server", "bytesbuf", "bytesreader",
	"lenLarger", "lenSmaller", "lenZeroed", "lenNegative", "nobody", "nilbody", "bufio"}

type c06OneByte struct{ r io.Reader }

func (o c06OneByte) Read(p []byte) (int, error) { // a reader that hands out one byte per call
	if len(p) == 0 {
		return 0, nil
	}
	return o.r.Read(p[:1])
}

func c06BuildRequest(kind, text string, emptyReader bool) (*http.Request, error) {
	const u = "http://example.com/x"
	switch kind {
	case "nopcloser":
		return http.NewRequest("POST", u, io.NopCloser(strings.NewReader(text)))
	case "multireader":
		k := len(text) / 2
		return http.NewRequest("POST", u, io.MultiReader(strings.NewReader(text[:k]), strings.NewReader(text[k:])))
	case "bufio":
		return http.NewRequest("POST", u, c06OneByte{strings.NewReader(text)})
	case "assigned":
		req, err := http.NewRequest("POST", u, nil)
		if err == nil {
			req.Body = io.NopCloser(strings.NewReader(text))
		}
		return req, err
	case "chunked":
		req, err := http.NewRequest("POST", u, io.NopCloser(strings.NewReader(text)))
		if err == nil {
			req.ContentLength = -1
			req.TransferEncoding = []string{"chunked"}
		}
		return req, err
	case "server":
		return httptest.NewRequest("POST", u, strings.NewReader(text)), nil
	case "bytesbuf":
		return http.NewRequest("POST", u, bytes.NewBufferString(text))
	case "bytesreader":
		return http.NewRequest("POST", u, bytes.NewReader([]byte(text)))
	case "lenLarger", "lenSmaller", "lenZeroed", "lenNegative":
		req, err := http.NewRequest("POST", u, strings.NewReader(text))
		if err == nil {
			switch kind {
			case "lenLarger":
				req.ContentLength = int64(len(text)) + 7
			case "lenSmaller":
				req.ContentLength = 1
			case "lenZeroed":
				req.ContentLength = 0
			case "lenNegative":
				req.ContentLength = -1
			}
		}
		return req, err
	case "nobody":
		req, err := http.NewRequest("POST", u, nil)
		if err == nil {
			req.Body = http.NoBody
			req.ContentLength = int64(len(text)) // announces bytes it does not carry
		}
		return req, err
	case "nilbody":
		req, err := http.NewRequest("POST", u, nil)
		if err == nil {
			req.ContentLength = int64(len(text))
		}
		return req, err
	}
	var rd io.Reader
	switch {
	case text != "":
		rd = strings.NewReader(text)
	case emptyReader:
		rd = strings.NewReader("")
	}
	return http.NewRequest("POST", u, rd)
}

// c06WithShape sets "reqKind" and the "shape" net/http gives such a request
func c06WithShape(c hx.Case, kind string) hx.Case {
	body, _ := c["body"].(map[string]any)
	req, err := c06BuildRequest(kind, jstr(body, "text"), jbool(c, "emptyReader"))
	if err != nil {
		return c
	}
	bk := "stream"
	switch {
	case req.Body == nil:
		bk = "nil"
	case req.Body == http.NoBody:
		bk = "nobody"
	}
	c["reqKind"] = kind
	c["shape"] = map[string]any{"body": bk, "clen": req.ContentLength, "getBody": req.GetBody != nil}
	return c
}

func c06ShrinkR(c hx.Case) []hx.Case {
	out := shrinkC06(c)
	if _, has := c["reqKind"]; !has {
		return out
	}
	for i := range out {
		out[i] = c06WithShape(out[i], jstr(c, "reqKind")) // the text may have changed: the shape is recomputed
	}
	if _, rep := c["repeat"]; rep {
		x := cloneCase(c)
		delete(x, "repeat")
		out = append(out, x)
	}
	return out
}

// (G) request shapes: every construction kind × required × body situations × options (× repeated validation)
func genReqShapes(ctx *hx.Ctx, emit func(hx.Case)) {
	obj := sch("ty", "object", "props", []any{[]any{"a", sch("ty", "integer")}, []any{"r", sch("ty", "string", "readOnly", true)}}, "required", []any{"a"})
	form := sch("ty", "object", "props", []any{[]any{"a", sch("ty", "integer")}}, "required", []any{"a"})
	type sit struct {
		content []any
		ct      string
		text    string
	}
	jsonC := []any{mtEntry("application/json", obj)}
	sits := []sit{
		{jsonC, "application/json", `{"a":1}`},               // valid
		{jsonC, "application/json", `{"a":"x"}`},             // violates the schema
		{jsonC, "application/json", `{"a":1,"r":"x"}`},       // read-only property sent
		{jsonC, "application/json", `{"a":1`},                // malformed
		{jsonC, "application/json", ``},                      // no bytes
		{jsonC, "application/json", ` `},                     // blank
		{jsonC, "text/plain", `{"a":1}`},                     // undeclared content type
		{jsonC, "", `{"a":1}`},                               // no header
		{[]any{}, "application/json", `{"a":"x"}`},           // nothing declared
		{[]any{mtEntry("*/*", nil)}, "image/png", "\x89PNG"}, // no schema
		{[]any{mtEntry("application/x-www-form-urlencoded", form)}, "application/x-www-form-urlencoded", `a=1`},
		{[]any{mtEntry("application/x-www-form-urlencoded", form)}, "application/x-www-form-urlencoded", `b=1`},
		{[]any{mtEntry("text/plain", sch("ty", "string", "minLen", 4))}, "text/plain", `abc`},
		{[]any{mtEntry("text/plain", sch("ty", "string", "minLen", 4))}, "text/plain", `abcde`},
	}
	for _, kind := range c06ReqKinds {
		for _, s := range sits {
			for _, required := range []bool{true, false} {
				for _, exro := range []bool{false, true} {
					for _, skip := range []bool{false, true} {
						c := mkCase(required, s.content, s.ct, s.text, exro)
						if skip {
							c["skipDefaults"] = true
						}
						emit(c06WithShape(c, kind))
						if !exro {
							c3 := cloneCase(c)
							c3["entry"] = "request"
							emit(c06WithShape(c3, kind))
						}
						if skip && !exro {
							c2 := cloneCase(c)
							c2["repeat"] = 3
							emit(c06WithShape(c2, kind))
						}
					}
				}
			}
		}
		for _, required := range []bool{true, false} { // an empty in-memory reader: http.NewRequest turns it into http.NoBody
			c := mkCase(required, jsonC, "application/json", "", false)
			c["emptyReader"] = true
			emit(c06WithShape(c, kind))
		}
	}
}

// ---------------------------------------------------------------- the decoder registry as state

var c06DecoderByKind = map[string]openapi3filter.BodyDecoder{
	"json": openapi3filter.JSONBodyDecoder, "plain": openapi3filter.PlainBodyDecoder,
	"file": openapi3filter.FileBodyDecoder, "urlencoded": openapi3filter.UrlencodedBodyDecoder,
}

// c06ApplyRegOps performs the history of Register/Unregister calls and returns the function that puts every touched
// key back to what it was
func c06ApplyRegOps(ops []any) func() {
	type saved struct {
		key string
		dec openapi3filter.BodyDecoder
	}
	var undo []saved
	seen := map[string]bool{}
	for _, o := range ops {
		l := jlist(o)
		if len(l) < 2 {
			continue
		}
		op, key := fmt.Sprint(l[0]), fmt.Sprint(l[1])
		if !seen[key] {
			seen[key] = true
			undo = append(undo, saved{key, openapi3filter.RegisteredBodyDecoder(key)})
		}
		switch op {
		case "unregister":
			openapi3filter.UnregisterBodyDecoder(key)
		case "register":
			if len(l) == 3 {
				if d := c06DecoderByKind[fmt.Sprint(l[2])]; d != nil {
					openapi3filter.RegisterBodyDecoder(key, d)
				}
			}
		}
	}
	return func() {
		for _, u := range undo {
			if u.dec != nil {
				openapi3filter.RegisterBodyDecoder(u.key, u.dec)
			} else {
				openapi3filter.UnregisterBodyDecoder(u.key)
			}
		}
	}
}

// (H) registry histories × bodies: every history of ≤ 2 operations over 3 keys and 3 decoder kinds, then the body is
// validated under the JSON and the text/plain header (and one undeclared custom type)
func genRegistry(ctx *hx.Ctx, emit func(hx.Case)) {
	keys := []string{"application/json", "text/plain", "application/x-custom"}
	kinds := []string{"json", "plain", "urlencoded"}
	var single [][]any
	for _, k := range keys {
		single = append(single, []any{"unregister", k})
		for _, d := range kinds {
			single = append(single, []any{"register", k, d})
		}
	}
	var hist [][]any
	for _, a := range single {
		hist = append(hist, []any{a})
	}
	n := 40
	if ctx.Thorough() {
		n = 144
	}
	for i := 0; i < n; i++ { // two-step histories: a seeded sample in quick, all 144 in thorough
		var a, b []any
		if ctx.Thorough() {
			a, b = single[i/len(single)], single[i%len(single)]
		} else {
			a, b = hx.Pick(ctx.Rng, single), hx.Pick(ctx.Rng, single)
		}
		hist = append(hist, []any{a, b})
	}
	obj := sch("ty", "object", "props", []any{[]any{"a", sch("ty", "integer")}}, "required", []any{"a"})
	str := sch("ty", "string", "minLen", 4)
	content := []any{mtEntry("application/json", obj), mtEntry("text/plain", str), mtEntry("application/x-custom", obj)}
	type sit struct{ ct, text string }
	sits := []sit{{"application/json", `{"a":1}`}, {"application/json", `{"a":"x"}`}, {"text/plain", `{"a":1}`}, {"text/plain", `a=1`},
		{"application/x-custom; v=1", `{"a":1}`}, {"application/x-custom", `a=1`}}
	for hi, h := range hist {
		for si, s := range sits {
			if len(h) == 2 && (hi+si)%2 == 1 { // half of the situations for the two-step histories
				continue
			}
			c := mkCase(true, content, s.ct, s.text, false)
			ops := make([]any, len(h))
			copy(ops, h)
			c["regOps"] = ops
			emit(c)
		}
	}
}
