package main

// C20 — loading and validating arbitrary bytes never panics or hangs.
//
// Real code exercised (in a child process, see hx.RunIsolated): the cmd/validate version sniff
// (yaml.Unmarshal), Loader.LoadFromData / LoadFromDataWithPath / LoadFromFile with an in-memory
// ReadFromURIFunc and both settings of IsExternalRefsAllowed, then on a returned document
// (*T).Validate (default options, everything switched off, everything switched on), json.Marshal,
// MarshalYAML + yaml.Marshal, InternalizeRefs, json.Marshal again. Every stage has its own recover; a fatal crash (stack overflow) or a timeout
// is observed by the parent.

import (
	"bytes"
	"context"
	"encoding/base64"
	"encoding/json"
	"flag"
	"fmt"
	"io"
	"net/url"
	"os"
	"os/exec"
	"runtime/debug"
	"sort"
	"strconv"
	"strings"
	"sync"
	"sync/atomic"
	"time"

	"github.com/getkin/kin-openapi/openapi3"
	"github.com/oasdiff/yaml"

	"kinverif/internal/hx"
)

func init() {
	hx.Register(&hx.Prop{
		ID: "C20",
		Rule: "exhaustive: every object position of a base document that uses every reference kind × every reference target " +
			"(each JSON pointer of the document, each pointer extended by a numeric token below/at/beyond the array length, by an absent pointer-typed field, " +
			"by additionalProperties/items/not/schema, the degenerate texts \"\", #, #/, #x, external files with and without fragment) × entry point × switch; " +
			"adversarial reference graphs (cycles through every schema keyword, same text met as two kinds, encoding headers by $ref, pure $ref cycles); " +
			"directed blocks: path-item reference graphs (21 item shapes pairwise × 7 callback shapes: chains, cycles a→b→a, self-references, with and without '#', across three files, next to own content, below inline and referenced callbacks), " +
			"references into extension members for every component kind (valid / nested reference of another kind back to the same text / null child / degenerate, at the component and at a use site), " +
			"a path item with $ref and content with every position below it as null or a reference; " +
			"external references (fragment into another document in three spellings, whole file) of every component kind at its use sites and as a component × six shapes of the root's components section; " +
			"typed values below a schema (9 spellings of type × 5 formats × example / default / enum / parameter example / media-type example × 10 JSON values, JSON and YAML); " +
			"histories of loads through the library's own cached reader on real files (same file twice then another, one loader or a fresh one per load, LoadFromFile / LoadFromURI, whole-file references read twice in one load); " +
			"seeded random stream: 1–4 structure-aware mutations of valid documents (replace a subtree by null/number/string/array/object/$ref/a subtree of another kind, " +
			"insert any OpenAPI keyword, delete, swap kinds), the same written as YAML with anchors/aliases for repeated sub-trees, merge keys, non-string keys and YAML spellings of booleans and null, " +
			"huge scalars (1 MiB string, 64 Ki key, 400-digit numbers, 64 Ki-token fragment, 64 Ki enum), token-level mutations of the serialised text (delete/duplicate/replace/swap tokens, truncate), YAML forms " +
			"(non-string keys, anchors, merge keys, deep nesting). Non-trivial = the model reports at least one non-default branch (a reference drill-down, a cycle, a typed-nil target, " +
			"a backtrack registration, an external read, a recursive schema reaching the value validator, …).",
		Exhaustive: true,
		Gen:        genC20,
		Run:        runC20Isolated,
		RunChild:   runC20,
		Compare:    cmpC20,
		Shrink:     shrinkC20,
		Workers:    12,
		Assumptions: []string{
			"JSON/YAML parsers and marshmallow are not modelled: the parse of the bytes (encoding/json, else oasdiff/yaml YAMLToJSON) is computed by the harness and handed to the model as the document tree",
			"every case runs in a child process with a 16 MiB stack limit and a timeout of 20 s (a case that exceeds it is run once more, alone, with 60 s: only then it counts as a hang); a fatal crash or timeout is an observation; after 3000 crashed or 12 hung children, or 300 s (thorough: 1500 s) of wall time, the remaining cases of a run are skipped (counted as impl_outcome_kinds.skipped) — the run cannot stall as a whole",
			"external files are served from memory through ReadFromURIFunc (no disk or network access), except in the history block: real files below a scratch directory (os.MkdirTemp, removed after the case) read by DefaultReadFromURI, each case bounded by a 12 s watchdog inside the child (its exit is the observation hang)",
		},
	})
}

// Per-case limits. A case that does not answer within c20TimeoutMs is run once more in a fresh child with
// c20RetryTimeoutMs, so that a slow machine does not turn a slow case into a "hang"; only a case that
// exceeds both is observed as a hang. The slowest case of the unchanged tree (1000 nested `items`, the
// typed decoding is quadratic in the nesting depth) takes 0.5 s.
const (
	c20TimeoutMs      = 20000
	c20RetryTimeoutMs = 60000
)

// wall-clock budget of the whole run (generation + shrinking): after it the remaining cases are not executed
// (observation {"skipped": true}, counted in the evidence under impl_outcome_kinds), so that the run can
// never stall as a whole whatever the code under test does.
var (
	c20StartOnce sync.Once
	c20Start     time.Time
	c20BudgetDur time.Duration
	c20Skipped   int64
)

func c20OverBudget() bool {
	c20StartOnce.Do(func() {
		c20Start = time.Now()
		c20BudgetDur = 300 * time.Second
		if f := flag.Lookup("tier"); f != nil && f.Value.String() == "thorough" {
			c20BudgetDur = 1500 * time.Second
		}
		if v, err := strconv.Atoi(os.Getenv("C20_BUDGET_S")); err == nil && v > 0 {
			c20BudgetDur = time.Duration(v) * time.Second
		}
	})
	return time.Since(c20Start) > c20BudgetDur
}

// runC20Isolated evaluates the case in a pooled child process; when the child dies the case is run
// once more in a fresh child whose stderr is kept, to name the function that overflowed the stack.
const c20StackMB = 16

// circuit breaker: a change that makes most documents crash or hang would otherwise keep the run busy for
// hours (every crash costs a process start, every hang the full timeout). After this many crashed /
// hung children the remaining cases are not executed (observation {"skipped": true}, counted in the
// evidence under impl_outcome_kinds); the unchanged tree stays far below both limits.
const (
	c20MaxCrashes = 3000
	c20MaxHangs   = 12
)

var c20Crashes, c20Hangs int64

func runC20Isolated(c hx.Case) any {
	if c20OverBudget() || atomic.LoadInt64(&c20Crashes) > c20MaxCrashes || atomic.LoadInt64(&c20Hangs) > c20MaxHangs {
		atomic.AddInt64(&c20Skipped, 1)
		return map[string]any{"skipped": true, "kind": "skipped"}
	}
	if f := os.Getenv("C20_DUMP"); f != "" {
		b, _ := json.Marshal(c)
		c20Trace(f, string(b))
		return map[string]any{"skipped": true, "kind": "skipped"}
	}
	if f := os.Getenv("C20_TRACE"); f != "" {
		b, _ := json.Marshal(c)
		if len(b) > 300 {
			b = b[:300]
		}
		id := atomic.AddInt64(&c20TraceN, 1)
		c20Trace(f, fmt.Sprintf("%s start %d %s", time.Now().Format("15:04:05.000"), id, b))
		defer func() { c20Trace(f, fmt.Sprintf("%s done %d", time.Now().Format("15:04:05.000"), id)) }()
	}
	obs := hx.RunIsolated("C20", c, c20TimeoutMs)
	if m, ok := obs.(map[string]any); ok {
		if _, hung := m["hang"]; hung {
			// slow or hanging? once more, alone in a fresh child, with three times the limit
			obs = hx.RunIsolated("C20", c, c20RetryTimeoutMs)
			if m2, ok := obs.(map[string]any); ok {
				if _, hung2 := m2["hang"]; !hung2 {
					m2["slow"] = true
				}
			}
		}
	}
	if m, ok := obs.(map[string]any); ok && c20IsWatchdog(m) {
		// the child's own watchdog ended it (history cases): the observation is "no return"
		obs = map[string]any{"hang": true, "watchdog_ms": c20WatchdogMs}
	}
	if m, ok := obs.(map[string]any); ok {
		if _, crashed := m["crash"]; crashed {
			atomic.AddInt64(&c20Crashes, 1)
			m["site"] = c20CrashSite(c)
		}
		if _, hung := m["hang"]; hung {
			atomic.AddInt64(&c20Hangs, 1)
		}
	}
	return obs
}

var c20TraceN int64

func c20Trace(f, line string) {
	c20CensusMu.Lock()
	defer c20CensusMu.Unlock()
	fh, err := os.OpenFile(f, os.O_APPEND|os.O_CREATE|os.O_WRONLY, 0o644)
	if err != nil {
		return
	}
	defer fh.Close()
	fh.WriteString(line + "\n")
}

func c20CrashSite(c hx.Case) string {
	exe, err := os.Executable()
	if err != nil {
		return ""
	}
	b, _ := json.Marshal(c)
	cctx, cancel := context.WithTimeout(context.Background(), c20TimeoutMs*time.Millisecond)
	defer cancel()
	cmd := exec.CommandContext(cctx, exe, "-prop", "C20", "-child")
	cmd.Env = append(os.Environ(), "GOMEMLIMIT=2GiB", "GOTRACEBACK=single")
	cmd.Stdin = bytes.NewReader(append(b, '\n'))
	var errb bytes.Buffer
	cmd.Stderr = &c20Capped{b: &errb, max: 1 << 16}
	cmd.Run()
	// the innermost library frames of the crashing goroutine
	var frames []string
	for _, l := range strings.Split(errb.String(), "\n") {
		if i := strings.Index(l, "kin-openapi/openapi3."); i >= 0 && !strings.HasPrefix(l, "\t") {
			f := l[i+len("kin-openapi/openapi3."):]
			if j := strings.LastIndex(f, "("); j > 0 {
				f = f[:j]
			}
			if len(frames) == 0 || frames[len(frames)-1] != f {
				frames = append(frames, f)
			}
			if len(frames) >= 3 {
				break
			}
		}
	}
	return strings.Join(frames, " < ")
}

type c20Capped struct {
	b   *bytes.Buffer
	max int
}

func (w *c20Capped) Write(p []byte) (int, error) {
	if w.b.Len() < w.max {
		n := w.max - w.b.Len()
		if n > len(p) {
			n = len(p)
		}
		w.b.Write(p[:n])
	}
	return len(p), nil
}

// ---------------------------------------------------------------- runner (child process)

func c20Bytes(c hx.Case) []byte {
	if s, ok := c["raw64"].(string); ok {
		b, _ := base64.StdEncoding.DecodeString(s)
		return b
	}
	return c20Encode(c["doc"], jstr(c, "enc"))
}

func c20Encode(doc any, enc string) []byte {
	b, err := json.Marshal(doc)
	if err != nil {
		return []byte("null")
	}
	if enc == "yaml" {
		if y, err := yaml.JSONToYAML(b); err == nil {
			return y
		}
	}
	return b
}

func c20Site(st string) string {
	ls := strings.Split(st, "\n")
	for i, l := range ls {
		if strings.Contains(l, "kin-openapi/openapi3") && i+1 < len(ls) {
			s := strings.TrimSpace(ls[i+1])
			if j := strings.Index(s, " +0x"); j > 0 {
				s = s[:j]
			}
			if j := strings.LastIndex(s, "/openapi3/"); j >= 0 {
				s = s[j+len("/openapi3/"):]
			}
			if j := strings.LastIndex(s, "/"); j >= 0 && !strings.Contains(s, ".go:") {
				s = s[j+1:]
			}
			return s
		}
	}
	// panic outside the library (parser, reflect): report the first non-runtime frame
	for i, l := range ls {
		if strings.HasPrefix(l, "\t") || strings.HasPrefix(l, "goroutine") || strings.HasPrefix(l, "runtime") || strings.HasPrefix(l, "panic(") || l == "" {
			continue
		}
		if strings.Contains(l, "debug.Stack") || strings.Contains(l, "c20Stage") {
			continue
		}
		if i+1 < len(ls) {
			return strings.TrimSpace(l)
		}
	}
	return ""
}

type c20Obs struct {
	stages map[string]string
	panics []string
	sites  []string
	errs   map[string]string // only with C20_ERRS=1 (debugging aid): the error text per stage
}

func (o *c20Obs) stage(name string, f func() error) (ok bool) {
	defer func() {
		if r := recover(); r != nil {
			o.stages[name] = "panic"
			msg := fmt.Sprint(r)
			if len(msg) > 200 {
				msg = msg[:200]
			}
			o.panics = append(o.panics, name+": "+msg)
			o.sites = append(o.sites, name+"@"+c20Site(string(debug.Stack())))
			ok = false
		}
	}()
	if err := f(); err != nil {
		o.stages[name] = "err"
		if o.errs != nil {
			msg := err.Error()
			if len(msg) > 240 {
				msg = msg[:240]
			}
			o.errs[name] = msg
		}
		return false
	}
	o.stages[name] = "ok"
	return true
}

func runC20(c hx.Case) any {
	debug.SetMaxStack(c20StackMB << 20)
	data := c20Bytes(c)
	files := map[string][]byte{}
	if fm, ok := c["files"].(map[string]any); ok {
		for k, v := range fm {
			files["/r/"+k] = c20Encode(v, "json")
		}
	}
	files["/r/root.json"] = data
	reads := 0
	o := &c20Obs{stages: map[string]string{}}
	if os.Getenv("C20_ERRS") != "" {
		o.errs = map[string]string{}
	}
	o.stage("sniff", func() error {
		var vd struct {
			OpenAPI string `json:"openapi" yaml:"openapi"`
			Swagger string `json:"swagger" yaml:"swagger"`
		}
		return yaml.Unmarshal(data, &vd)
	})
	loader := openapi3.NewLoader()
	loader.IsExternalRefsAllowed = jbool(c, "ext")
	loader.ReadFromURIFunc = func(l *openapi3.Loader, u *url.URL) ([]byte, error) {
		reads++
		if reads > 200 {
			return nil, fmt.Errorf("read budget exceeded")
		}
		if b, ok := files[u.Path]; ok && u.Host == "" {
			return b, nil
		}
		return nil, fmt.Errorf("no such file %q", u.String())
	}
	var doc *openapi3.T
	var ok bool
	if jstr(c, "reader") == "default" {
		// history cases (c20_r5.go): the library's own reader on real files, a sequence of loads, bounded by a watchdog
		stop := c20Watchdog()
		defer stop()
		var cleanup func()
		doc, ok, cleanup = c20RunHistory(c, o, data, files)
		defer cleanup()
	} else {
		ok = o.stage("load", func() (err error) {
			switch jstr(c, "entry") {
			case "path":
				doc, err = loader.LoadFromDataWithPath(data, &url.URL{Path: "/r/root.json"})
			case "file":
				doc, err = loader.LoadFromFile("/r/root.json")
			default:
				doc, err = loader.LoadFromData(data)
			}
			return
		})
	}
	if ok && doc != nil {
		ctx := context.Background()
		o.stage("validate", func() error { return doc.Validate(ctx) })
		o.stage("validate_opts", func() error {
			return doc.Validate(ctx, openapi3.DisableSchemaDefaultsValidation(), openapi3.DisableExamplesValidation(), openapi3.DisableSchemaPatternValidation())
		})
		o.stage("validate_more", func() error {
			return doc.Validate(ctx, openapi3.EnableSchemaFormatValidation(), openapi3.EnableSchemaPatternValidation(), openapi3.EnableSchemaDefaultsValidation(),
				openapi3.EnableExamplesValidation(), openapi3.ProhibitExtensionsWithRef(), openapi3.AllowExtraSiblingFields("description", "summary"))
		})
		o.stage("marshal", func() error { _, err := json.Marshal(doc); return err })
		o.stage("marshal_yaml", func() error {
			v, err := doc.MarshalYAML()
			if err != nil {
				return err
			}
			_, err = yaml.Marshal(v)
			return err
		})
		// the document is serialised again only when InternalizeRefs returned (after a panic its state is undefined)
		if o.stage("internalize", func() error { doc.InternalizeRefs(ctx, nil); return nil }) {
			o.stage("marshal2", func() error { _, err := json.Marshal(doc); return err })
		}
	}
	sort.Strings(o.sites)
	res := map[string]any{"stages": o.stages, "panics": o.panics, "sites": o.sites, "kind": c20Kind(o)}
	if o.errs != nil {
		res["errs"] = o.errs
	}
	return res
}

func c20Kind(o *c20Obs) string {
	if len(o.panics) > 0 {
		return "panic"
	}
	if o.stages["load"] == "ok" {
		if o.stages["validate"] == "ok" {
			return "loaded+valid"
		}
		return "loaded+invalid"
	}
	return "load-error"
}

// ---------------------------------------------------------------- comparison

// The property's observable: every operation returns normally. The spec outcome is the constant
// "normal"; the model outcome is the list of stages in which the model panics / crashes.
func cmpC20(c hx.Case, impl any, reply map[string]any) hx.Verdict {
	im, _ := impl.(map[string]any)
	if im == nil {
		return hx.Verdict{IM: false, IS: false, Detail: "no observation"}
	}
	if jbool(im, "skipped") {
		return hx.Verdict{IM: true, IS: true, Detail: "not executed: crash/hang limit of the run reached"}
	}
	model, _ := reply["model"].(map[string]any)
	mAb := toStrs(model["abnormal"])
	var iAb []string
	detail := ""
	if _, ok := im["crash"]; ok {
		iAb = []string{"crash"}
		detail = "process crashed: " + fmt.Sprint(im["crash"]) + " in " + fmt.Sprint(im["site"])
	} else if _, ok := im["hang"]; ok {
		iAb = []string{"hang"}
		detail = "no return within the timeout"
	} else if _, ok := im["panic"]; ok {
		iAb = []string{"panic"}
		detail = "harness-level panic: " + fmt.Sprint(im["panic"])
	} else {
		st, _ := im["stages"].(map[string]any)
		for k, v := range st {
			if v == "panic" {
				iAb = append(iAb, k)
			}
		}
		sort.Strings(iAb)
		if len(iAb) > 0 {
			detail = fmt.Sprintf("panic in %v: %v at %v", iAb, im["panics"], im["sites"])
		}
	}
	v := hx.Verdict{IS: len(iAb) == 0, Detail: detail}
	if f := os.Getenv("C20_CENSUS"); f != "" && len(iAb) > 0 {
		c20Census(f, c, im, reply)
	}
	if f := os.Getenv("C20_LOADCENSUS"); f != "" {
		// debugging aid: model's load outcome against the implementation's load stage
		st, _ := im["stages"].(map[string]any)
		il, ml := fmt.Sprint(st["load"]), fmt.Sprint(model["load"])
		mok := ml == "ok"
		if st != nil && ml != "unparsed" && ml != "not-an-object" && (il == "ok") != mok {
			c20Census(f, c, map[string]any{"load": il, "errs": im["errs"]}, reply)
		}
	}
	// implementation vs model: the model lists the stage groups in which it can end abnormally
	// ("load", "validate", "post" = marshal/internalize/marshal, "crash:<function family>"); the
	// implementation agrees when it returns normally and the model lists nothing, or when the group of
	// its first abnormal stage is listed.
	switch {
	case len(iAb) == 0 && len(mAb) == 0:
		v.IM = true
	case len(iAb) == 0:
		v.IM = false
		v.Detail = fmt.Sprintf("model predicts an abnormal end in %v, implementation returned normally", mAb)
	default:
		g := c20Group(iAb, im)
		for _, m := range mAb {
			if m == g {
				v.IM = true
			}
		}
		if !v.IM {
			v.Detail += fmt.Sprintf(" (group %s; model: %v)", g, mAb)
		}
	}
	// the load outcome, one direction: the typed decoding (not modelled) and the order of resolution can only
	// make the real load fail where the model's succeeds — a load that succeeds where the model reports an
	// error means the model of the reference resolution (drill-down, walk, kinds) no longer describes the code
	if st, _ := im["stages"].(map[string]any); st != nil && v.IM {
		if ml := fmt.Sprint(model["load"]); fmt.Sprint(st["load"]) == "ok" && (ml == "err" || ml == "errMust" || ml == "fuel") {
			v.IM = false
			v.Detail = "implementation loads the document, the model's load ends with " + ml
		}
	}
	if f := os.Getenv("C20_MISMATCH"); f != "" && !v.IM {
		c20Census(f, c, im, reply)
	}
	return v
}

func c20Group(iAb []string, im map[string]any) string {
	switch iAb[0] {
	case "crash":
		site := fmt.Sprint(im["site"])
		switch {
		case strings.Contains(site, "IsEmpty"):
			return "crash:IsEmpty"
		case strings.Contains(site, "isitJSON") || strings.Contains(site, "visitXOF"):
			return "crash:visit"
		case strings.Contains(site, "deref"):
			return "crash:deref"
		case strings.Contains(site, "MarshalJSON") || strings.Contains(site, "MarshalYAML"):
			return "crash:marshal"
		case strings.Contains(site, "alidate"):
			return "crash:validate"
		}
		return "crash:" + site
	case "hang", "panic":
		return iAb[0]
	}
	// first abnormal stage in pipeline order
	for _, st := range []string{"sniff", "load", "validate", "validate_opts", "validate_more", "marshal", "marshal_yaml", "internalize", "marshal2"} {
		for _, a := range iAb {
			if a == st {
				switch st {
				case "sniff", "load":
					return "load"
				case "validate", "validate_opts", "validate_more":
					return "validate"
				}
				return "post"
			}
		}
	}
	return iAb[0]
}

var c20CensusMu sync.Mutex

// c20Census (debugging aid, only with C20_CENSUS=<file>): one line per abnormal observation.
func c20Census(f string, c hx.Case, im map[string]any, reply map[string]any) {
	c20CensusMu.Lock()
	defer c20CensusMu.Unlock()
	fh, err := os.OpenFile(f, os.O_APPEND|os.O_CREATE|os.O_WRONLY, 0o644)
	if err != nil {
		return
	}
	defer fh.Close()
	b, _ := json.Marshal(map[string]any{"impl": im, "case": c, "excl": reply["excl"], "model": reply["model"]})
	fh.Write(append(b, '\n'))
}

// ---------------------------------------------------------------- JSON tree helpers

type c20Path []any // string keys / int indices

func c20Clone(v any) any {
	switch x := v.(type) {
	case map[string]any:
		m := make(map[string]any, len(x))
		for k, e := range x {
			m[k] = c20Clone(e)
		}
		return m
	case []any:
		l := make([]any, len(x))
		for i, e := range x {
			l[i] = c20Clone(e)
		}
		return l
	}
	return v
}

func c20Keys(m map[string]any) []string {
	ks := make([]string, 0, len(m))
	for k := range m {
		ks = append(ks, k)
	}
	sort.Strings(ks)
	return ks
}

// c20Walk lists every path of the tree (deterministic order).
func c20Walk(v any, p c20Path, out *[]c20Path) {
	*out = append(*out, append(c20Path{}, p...))
	switch x := v.(type) {
	case map[string]any:
		for _, k := range c20Keys(x) {
			c20Walk(x[k], append(p, k), out)
		}
	case []any:
		for i, e := range x {
			c20Walk(e, append(p, i), out)
		}
	}
}

func c20Get(v any, p c20Path) (any, bool) {
	for _, t := range p {
		switch x := v.(type) {
		case map[string]any:
			k, ok := t.(string)
			if !ok {
				return nil, false
			}
			if v, ok = x[k]; !ok {
				return nil, false
			}
		case []any:
			i, ok := t.(int)
			if !ok || i < 0 || i >= len(x) {
				return nil, false
			}
			v = x[i]
		default:
			return nil, false
		}
	}
	return v, true
}

// c20Set returns a copy of root with the value at p replaced (del: removed).
func c20Set(root any, p c20Path, nv any, del bool) any {
	if len(p) == 0 {
		return nv
	}
	switch x := root.(type) {
	case map[string]any:
		k, _ := p[0].(string)
		m := make(map[string]any, len(x)+1)
		for kk, e := range x {
			m[kk] = e
		}
		if len(p) == 1 {
			if del {
				delete(m, k)
			} else {
				m[k] = nv
			}
			return m
		}
		if sub, ok := m[k]; ok {
			m[k] = c20Set(sub, p[1:], nv, del)
		}
		return m
	case []any:
		i, _ := p[0].(int)
		l := append([]any{}, x...)
		if i < 0 || i >= len(l) {
			return l
		}
		if len(p) == 1 {
			if del {
				return append(l[:i], l[i+1:]...)
			}
			l[i] = nv
			return l
		}
		l[i] = c20Set(l[i], p[1:], nv, del)
		return l
	}
	return root
}

func c20Pointer(p c20Path) string {
	var sb strings.Builder
	sb.WriteString("#")
	for _, t := range p {
		sb.WriteString("/")
		switch x := t.(type) {
		case string:
			sb.WriteString(strings.ReplaceAll(strings.ReplaceAll(x, "~", "~0"), "/", "~1"))
		case int:
			sb.WriteString(strconv.Itoa(x))
		}
	}
	return sb.String()
}

func c20Parse(s string) any {
	dec := json.NewDecoder(strings.NewReader(s))
	dec.UseNumber()
	var v any
	if err := dec.Decode(&v); err != nil {
		panic("bad seed: " + err.Error() + ": " + s)
	}
	return v
}

// ---------------------------------------------------------------- seeds

const c20Base = `{
 "openapi":"3.0.3",
 "info":{"title":"t","version":"1","license":{"name":"MIT"},"contact":{"name":"c"}},
 "servers":[{"url":"https://{env}.example.com/{base}","variables":{"env":{"default":"prod","enum":["prod","dev"]},"base":{"default":"v1"}}}],
 "tags":[{"name":"a","externalDocs":{"url":"https://e.example"}}],
 "externalDocs":{"url":"https://e.example"},
 "security":[{"key":[]}],
 "x-root":{"type":"string"},
 "paths":{
  "/pets/{id}":{
   "parameters":[{"$ref":"#/components/parameters/Id"}],
   "get":{
    "operationId":"getPet","tags":["a"],
    "parameters":[{"name":"q","in":"query","schema":{"type":"array","items":{"type":"string"}},"examples":{"e":{"value":["a"]}}}],
    "responses":{
     "200":{"description":"ok","headers":{"X-Rate":{"$ref":"#/components/headers/Rate"}},
            "content":{"application/json":{"schema":{"$ref":"#/components/schemas/Pet"},"examples":{"e":{"$ref":"#/components/examples/Ex"}}}},
            "links":{"self":{"$ref":"#/components/links/Self"}}},
     "default":{"$ref":"#/components/responses/Err"}},
    "callbacks":{"cb":{"$ref":"#/components/callbacks/Cb"}},
    "security":[{}]
   },
   "post":{
    "requestBody":{"$ref":"#/components/requestBodies/PetBody"},
    "responses":{"201":{"description":"c"}},
    "servers":[{"url":"/x"}]
   }
  }
 },
 "components":{
  "schemas":{
   "Pet":{"type":"object","required":["id"],"properties":{"id":{"type":"integer","format":"int64"},"name":{"type":"string","minLength":1,"pattern":"^a"},"tags":{"type":"array","items":{"$ref":"#/components/schemas/Tag"}},"parent":{"$ref":"#/components/schemas/Pet"}},"additionalProperties":{"type":"string"},"discriminator":{"propertyName":"kind","mapping":{"a":"#/components/schemas/Tag"}},"example":{"id":1}},
   "Tag":{"type":"string","enum":["a","b"],"default":"a","nullable":true},
   "Comp":{"allOf":[{"$ref":"#/components/schemas/Pet"}],"anyOf":[{"type":"object"}],"oneOf":[{"type":"object","additionalProperties":false}],"not":{"type":"integer","minimum":1,"exclusiveMinimum":true}},
   "Num":{"type":"number","minimum":0,"maximum":10,"multipleOf":2,"xml":{"name":"n"},"externalDocs":{"url":"https://e.example"}}
  },
  "parameters":{"Id":{"name":"id","in":"path","required":true,"schema":{"type":"string"}},"Ct":{"name":"c","in":"query","content":{"application/json":{"schema":{"type":"object"}}}}},
  "headers":{"Rate":{"schema":{"type":"integer"},"description":"r"}},
  "requestBodies":{"PetBody":{"required":true,"content":{"application/json":{"schema":{"$ref":"#/components/schemas/Pet"}},"multipart/form-data":{"schema":{"type":"object","properties":{"f":{"type":"string","format":"binary"}}},"encoding":{"f":{"contentType":"image/png","headers":{"X-H":{"schema":{"type":"string"}}},"style":"form","explode":true}}}}}},
  "responses":{"Err":{"description":"e","content":{"application/json":{"schema":{"type":"object","properties":{"msg":{"type":"string"}}}}}}},
  "securitySchemes":{"key":{"type":"apiKey","name":"k","in":"header"},"oa":{"type":"oauth2","flows":{"implicit":{"authorizationUrl":"https://a.example","scopes":{"r":"read"}}}}},
  "examples":{"Ex":{"summary":"s","value":{"id":1}}},
  "links":{"Self":{"operationId":"getPet","parameters":{"id":"$response.body#/id"}}},
  "callbacks":{"Cb":{"{$request.body#/url}":{"post":{"responses":{"200":{"description":"ok"}}}}}}
 }
}`

// a small document: every reference kind once, short names — the base of the exhaustive block
const c20Small = `{
 "openapi":"3.0.0","info":{"title":"t","version":"1"},
 "paths":{"/a":{"get":{"parameters":[{"$ref":"#/components/parameters/P"}],"requestBody":{"$ref":"#/components/requestBodies/B"},
   "responses":{"200":{"$ref":"#/components/responses/R"}},"callbacks":{"c":{"$ref":"#/components/callbacks/C"}}}}},
 "components":{
  "schemas":{"S":{"type":"object","properties":{"p":{"$ref":"#/components/schemas/T"}},"allOf":[{"type":"object"}]},"T":{"type":"string"}},
  "parameters":{"P":{"name":"p","in":"query","schema":{"$ref":"#/components/schemas/T"}}},
  "headers":{"H":{"schema":{"type":"string"}}},
  "requestBodies":{"B":{"content":{"application/json":{"schema":{"$ref":"#/components/schemas/S"},"examples":{"e":{"$ref":"#/components/examples/E"}}}}}},
  "responses":{"R":{"description":"r","headers":{"h":{"$ref":"#/components/headers/H"}},"links":{"l":{"$ref":"#/components/links/L"}},
     "content":{"application/json":{"schema":{"$ref":"#/components/schemas/S"}}}}},
  "securitySchemes":{"K":{"type":"http","scheme":"basic"}},
  "examples":{"E":{"value":{"p":"x"}}},
  "links":{"L":{"operationId":"x"}},
  "callbacks":{"C":{"/cb":{"post":{"responses":{"200":{"description":"ok"}}}}}}
 }
}`

const c20Minimal = `{"openapi":"3.0.0","info":{"title":"t","version":"1"},"paths":{}}`

var c20OtherFiles = map[string]any{
	"other.json": c20Parse(`{"openapi":"3.0.0","info":{"title":"o","version":"1"},"paths":{"/o":{"get":{"responses":{"200":{"description":"ok"}}}}},
	  "components":{"schemas":{"S":{"type":"object","properties":{"back":{"$ref":"root.json#/components/schemas/S"},"t":{"$ref":"#/components/schemas/T"}}},"T":{"type":"integer"},
	  "U":{"$ref":"other.json#/components/schemas/U"}},
	  "parameters":{"P":{"name":"o","in":"query","schema":{"type":"string"}}},"responses":{"R":{"description":"o"}},"headers":{"H":{"schema":{"type":"string"}}}}}`),
	"schema.json": c20Parse(`{"type":"object","properties":{"r":{"$ref":"root.json#/components/schemas/S"},"self":{"$ref":"schema.json"}}}`),
	"resp.json":   c20Parse(`{"description":"single","headers":{"h":{"$ref":"other.json#/components/headers/H"}}}`),
	"scalar.json": c20Parse(`5`),
	"list.json":   c20Parse(`[{"type":"string"}]`),
}

// adversarial reference graphs (hand-built documents; each is also mutated by the random stream)
var c20Graphs = []string{
	// #12: the same text in progress as a response and met again as a header
	`{"openapi":"3.0.0","info":{"title":"t","version":"1"},"paths":{},"components":{"responses":{"R":{"description":"r","headers":{"h":{"$ref":"#/components/responses/R2"}}},"R2":{"$ref":"#/components/responses/R"}}}}`,
	`{"openapi":"3.0.0","info":{"title":"t","version":"1"},"paths":{"/a":{"get":{"responses":{"200":{"$ref":"#/components/responses/R"}}}}},"components":{"responses":{"R":{"description":"r","headers":{"h":{"$ref":"#/components/responses/R"}}}}}}`,
	// #41: encoding header by $ref
	`{"openapi":"3.0.0","info":{"title":"t","version":"1"},"paths":{"/a":{"post":{"requestBody":{"content":{"multipart/form-data":{"schema":{"type":"object","properties":{"f":{"type":"string"}}},"encoding":{"f":{"headers":{"X":{"$ref":"#/components/headers/H"}}}}}}},"responses":{"200":{"description":"ok"}}}}},"components":{"headers":{"H":{"schema":{"type":"string"}}}}}`,
	// #34: pure $ref cycles and '#'
	`{"openapi":"3.0.0","info":{"title":"t","version":"1"},"paths":{},"components":{"schemas":{"T":{"$ref":"#/components/schemas/T"},"U":{"$ref":"#/components/schemas/V"},"V":{"$ref":"#/components/schemas/U"}}}}`,
	`{"openapi":"3.0.0","info":{"title":"t","version":"1"},"paths":{},"components":{"schemas":{"T":{"$ref":"#"}}}}`,
	// cycles through every schema keyword
	`{"openapi":"3.0.0","info":{"title":"t","version":"1"},"paths":{},"components":{"schemas":{"A":{"type":"object","properties":{"n":{"$ref":"#/components/schemas/A"}}},"B":{"type":"array","items":{"$ref":"#/components/schemas/B"}},"C":{"type":"object","additionalProperties":{"$ref":"#/components/schemas/C"}},"D":{"not":{"$ref":"#/components/schemas/D"}},"E":{"allOf":[{"$ref":"#/components/schemas/E"}]},"F":{"anyOf":[{"$ref":"#/components/schemas/F"}]},"G":{"oneOf":[{"$ref":"#/components/schemas/G"}]}}}}`,
	`{"openapi":"3.0.0","info":{"title":"t","version":"1"},"paths":{},"components":{"schemas":{"N":{"type":"object","properties":{"child":{"not":{"$ref":"#/components/schemas/N"}}}},"M":{"type":"object","properties":{"a":{"oneOf":[{"$ref":"#/components/schemas/M"},{"type":"string"}]}},"default":{"a":"x"}}}}}`,
	// recursive schemas without own keywords reaching the value validator through default / example
	`{"openapi":"3.0.0","info":{"title":"t","version":"1"},"paths":{},"components":{"schemas":{"A":{"allOf":[{"$ref":"#/components/schemas/A"}],"default":1}}}}`,
	`{"openapi":"3.0.0","info":{"title":"t","version":"1"},"paths":{},"components":{"schemas":{"A":{"properties":{"n":{"$ref":"#/components/schemas/A"}},"example":{}}}}}`,
	// typed-nil targets and drill-down through an unresolved reference
	`{"openapi":"3.0.0","info":{"title":"t","version":"1"},"paths":{},"components":{"schemas":{"A":{"type":"object"},"B":{"$ref":"#/components/schemas/A/items"}}}}`,
	`{"openapi":"3.0.0","info":{"title":"t","version":"1"},"paths":{},"components":{"schemas":{"A":{"$ref":"#/components/schemas/B/additionalProperties"},"B":{"$ref":"#/components/schemas/C"},"C":{"type":"object"}}}}`,
	// path item references, callbacks that refer to paths
	`{"openapi":"3.0.0","info":{"title":"t","version":"1"},"paths":{"/a":{"$ref":"#/paths/~1b"},"/b":{"get":{"responses":{"200":{"description":"ok"}}}},"/c":{"$ref":"#/paths/~1c"},"/d":{"$ref":"#/paths/~1e"},"/e":{"$ref":"#/paths/~1d"}}}`,
	// a header among the headers of an encoding of its own content (Validate has no visited set for headers)
	`{"openapi":"3.0.0","info":{"title":"t","version":"1"},"paths":{"/a":{"get":{"responses":{"200":{"description":"ok","headers":{"h":{"$ref":"#/components/headers/H"}}}}}}},"components":{"headers":{"H":{"content":{"multipart/form-data":{"encoding":{"f":{"headers":{"X":{"$ref":"#/components/headers/H"}}}}}}},"I":{"schema":{"type":"string"}}}}}`,
	// an inline callback whose path item refers back to the path item of its operation
	`{"openapi":"3.0.0","info":{"title":"t","version":"1"},"paths":{"/a":{"get":{"callbacks":{"c":{"/cb":{"$ref":"#/paths/~1a"}}},"responses":{"200":{"description":"ok"}}}}}}`,
	// a path item with $ref and content; a reference into an extension member
	`{"openapi":"3.0.0","info":{"title":"t","version":"1"},"paths":{"/a":{"$ref":"#/paths/~1b","get":{"parameters":[{"$ref":"#/components/parameters/P"}],"responses":{"200":{"description":"ok"}}}},"/b":{"get":{"responses":{"200":{"$ref":"#/x-r"}}}}},"components":{"parameters":{"P":{"name":"p","in":"query","schema":{"type":"string"}}}},"x-r":{"description":"d","headers":{"h":{"$ref":"#/x-r"}}}}`,
	// servers of path items and operations (validated since 1f4197d): null members, null variables
	`{"openapi":"3.0.0","info":{"title":"t","version":"1"},"paths":{"/a":{"servers":[null,{"url":"https://{a}.x","variables":{"a":null}}],"get":{"servers":[null],"responses":{"200":{"description":"ok"}}},"post":{"servers":[{"url":"/x","variables":{"b":null}}],"responses":{"200":{"description":"ok"}}}}}}`,
	// degenerate keyword values next to a validated value
	`{"openapi":"3.0.0","info":{"title":"t","version":"1"},"paths":{},"components":{"schemas":{"A":{"type":[],"default":1},"B":{"type":[],"example":"x"},"C":{"enum":[],"default":1},"D":{"required":[],"properties":{},"default":{}},"E":{"allOf":[],"oneOf":[],"anyOf":[],"default":1}}}}`,
	// null server variables, null members everywhere
	`{"openapi":"3.0.0","info":{"title":"t","version":"1"},"servers":[{"url":"https://{a}.x","variables":{"a":null}},null],"paths":{"/a":null,"/b":{"get":null,"parameters":[null],"servers":[null]}},"components":{"schemas":{"A":null},"responses":{"R":null},"parameters":{"P":null},"headers":{"H":null},"requestBodies":{"B":null},"securitySchemes":{"K":null},"examples":{"E":null},"links":{"L":null},"callbacks":{"C":null}},"tags":[null],"security":[null]}`,
}

// OpenAPI keyword vocabulary for "insert a key" mutations
var c20Vocab = []string{"$ref", "openapi", "info", "servers", "paths", "components", "security", "tags", "externalDocs", "title", "version", "license", "contact",
	"url", "variables", "default", "enum", "description", "schemas", "parameters", "headers", "requestBodies", "responses", "securitySchemes", "examples", "links", "callbacks",
	"get", "put", "post", "delete", "options", "head", "patch", "trace", "summary", "operationId", "requestBody", "deprecated", "name", "in", "required", "schema", "content",
	"style", "explode", "allowReserved", "allowEmptyValue", "example", "encoding", "contentType", "type", "format", "items", "properties", "additionalProperties", "not",
	"allOf", "anyOf", "oneOf", "discriminator", "propertyName", "mapping", "nullable", "readOnly", "writeOnly", "xml", "minimum", "maximum", "exclusiveMinimum",
	"exclusiveMaximum", "multipleOf", "minLength", "maxLength", "pattern", "minItems", "maxItems", "uniqueItems", "minProperties", "maxProperties", "value", "externalValue",
	"operationRef", "server", "scheme", "bearerFormat", "flows", "implicit", "password", "clientCredentials", "authorizationCode", "authorizationUrl", "tokenUrl", "refreshUrl",
	"scopes", "openIdConnectUrl", "x-ext", "200", "default", "/p", "origin", "__origin__"}

// pointer-typed or otherwise interesting field names appended to a pointer to hit absent fields
var c20Suffixes = []string{"items", "not", "additionalProperties", "schema", "requestBody", "externalDocs", "discriminator", "xml", "example", "value", "content",
	"properties", "allOf", "headers", "responses", "get", "post", "parameters", "x-ext", "Value", "Ref", "", "0", "1", "2", "-1", "4294967296", "99999999999999999999", "~", "~2", "%"}

var c20DegenerateRefs = []string{"", "#", "#/", "#x", "#/x-root", "#//", "#/components", "#/components/schemas", "#/paths", "#/info", "#/openapi", "#/servers/0", "#/servers/1",
	"#/tags/0", "#/tags/1", "#/security/0", "#/security/1", "other.json", "other.json#/components/schemas/S", "other.json#/components/schemas/U", "other.json#/components/parameters/P",
	"other.json#/components/responses/R", "other.json#", "other.json#/", "schema.json", "resp.json", "scalar.json", "list.json", "list.json#/0", "missing.json", "missing.json#/a",
	"root.json", "root.json#/components/schemas/S", "./root.json#/components/schemas/T", "/r/other.json#/components/schemas/T", "../r/other.json#/components/schemas/T",
	"http://example.com/x.json#/a", "//host/x.json", "%zz", "#/%zz", ":", "a b", "other.json#x", "file:///r/other.json#/components/schemas/T", "#/components/schemas/S/properties/p",
	"#/components/schemas/S/allOf/0", "#/components/schemas/S/allOf/1", "#/components/schemas/S/allOf/2", "#/paths/~1a", "#/paths/~1a/get", "#/paths/~1a/get/parameters/0",
	"#/paths/~1a/get/parameters/1", "#/paths/~1a/get/responses/200", "#/paths/~1a/get/responses", "#/components/callbacks/C/~1cb"}

func c20Case(doc any, enc, entry string, ext bool, files bool) hx.Case {
	c := hx.Case{"doc": doc, "enc": enc, "entry": entry, "ext": ext}
	if files {
		c["files"] = c20OtherFiles
	}
	return c
}

// c20RawCase: raw bytes; the tree the parsers produce for them (when they parse) is attached for the model.
func c20RawCase(raw []byte, entry string, ext bool) hx.Case {
	c := hx.Case{"raw64": base64.StdEncoding.EncodeToString(raw), "entry": entry, "ext": ext}
	if v, ok := c20ParseOracle(raw); ok {
		c["doc"] = v
		c["parsed"] = true
	} else {
		c["parsed"] = false
	}
	return c
}

// c20ParseOracle mirrors openapi3.unmarshal's order: encoding/json, else YAML (converted to JSON).
func c20ParseOracle(raw []byte) (v any, ok bool) {
	dec := json.NewDecoder(bytes.NewReader(raw))
	dec.UseNumber()
	if err := dec.Decode(&v); err == nil {
		if _, err := dec.Token(); err == io.EOF { // exactly one value and nothing after it (json.Unmarshal's rule)
			return v, true
		}
	}
	type res struct {
		v  any
		ok bool
	}
	ch := make(chan res, 1)
	go func() {
		defer func() {
			if recover() != nil {
				ch <- res{nil, false}
			}
		}()
		j, err := yaml.YAMLToJSON(raw)
		if err != nil {
			ch <- res{nil, false}
			return
		}
		d := json.NewDecoder(bytes.NewReader(j))
		d.UseNumber()
		var x any
		if d.Decode(&x) != nil {
			ch <- res{nil, false}
			return
		}
		ch <- res{x, true}
	}()
	select {
	case r := <-ch:
		return r.v, r.ok
	case <-time.After(2 * time.Second):
		return nil, false
	}
}

// ---------------------------------------------------------------- generator

func c20Targets(doc any) []string {
	var paths []c20Path
	c20Walk(doc, nil, &paths)
	seen := map[string]bool{}
	var out []string
	add := func(s string) {
		if !seen[s] {
			seen[s] = true
			out = append(out, s)
		}
	}
	for _, p := range paths {
		add(c20Pointer(p))
	}
	for _, p := range paths {
		v, _ := c20Get(doc, p)
		base := c20Pointer(p)
		switch x := v.(type) {
		case []any:
			add(base + "/" + strconv.Itoa(len(x)))
			add(base + "/" + strconv.Itoa(len(x)+1))
			add(base + "/-1")
			add(base + "/x")
		case map[string]any:
			for _, s := range c20Suffixes {
				add(base + "/" + s)
			}
		default:
			add(base + "/0")
			add(base + "/x")
		}
	}
	for _, s := range c20DegenerateRefs {
		add(s)
	}
	return out
}

func c20ObjectPositions(doc any) []c20Path {
	var paths, out []c20Path
	c20Walk(doc, nil, &paths)
	for _, p := range paths {
		if v, _ := c20Get(doc, p); v != nil {
			if _, ok := v.(map[string]any); ok && len(p) > 0 {
				out = append(out, p)
			}
		}
	}
	return out
}

func c20RandValue(r *hx.Rng, doc any, targets []string, depth int) any {
	switch r.Intn(16) {
	case 0:
		return nil
	case 1:
		return r.Bool()
	case 2:
		return hx.Pick(r, []any{json.Number("0"), json.Number("1"), json.Number("-1"), json.Number("2"), json.Number("1.5"), json.Number("1e400"), json.Number("9223372036854775808"), json.Number("4294967296")})
	case 3:
		return hx.Pick(r, []string{"", "x", "object", "string", "array", "#/components/schemas/S", "query", "path", "header", "3.0.0", "^(", "$ref"})
	case 4:
		return []any{}
	case 5:
		return map[string]any{}
	case 6:
		return []any{nil}
	case 7:
		return []any{map[string]any{}}
	case 8, 9, 10, 11:
		return map[string]any{"$ref": hx.Pick(r, targets)}
	case 12:
		return map[string]any{"$ref": hx.Pick(r, []any{nil, json.Number("5"), true, []any{}, map[string]any{}, ""})}
	case 13:
		if depth < 2 {
			return []any{c20RandValue(r, doc, targets, depth+1), c20RandValue(r, doc, targets, depth+1)}
		}
		return "x"
	case 14:
		if depth < 2 {
			return map[string]any{hx.Pick(r, c20Vocab): c20RandValue(r, doc, targets, depth+1)}
		}
		return map[string]any{}
	default:
		// a subtree of (probably) another kind
		var paths []c20Path
		c20Walk(doc, nil, &paths)
		v, _ := c20Get(doc, hx.Pick(r, paths))
		return c20Clone(v)
	}
}

func c20Mutate(r *hx.Rng, doc any, targets []string) any {
	var paths []c20Path
	c20Walk(doc, nil, &paths)
	p := hx.Pick(r, paths)
	switch r.Intn(10) {
	case 0, 1, 2, 3: // replace
		return c20Set(doc, p, c20RandValue(r, doc, targets, 0), false)
	case 4: // delete
		if len(p) == 0 {
			return doc
		}
		return c20Set(doc, p, nil, true)
	case 5, 6: // insert a keyword into an object (or push into an array)
		v, _ := c20Get(doc, p)
		switch x := v.(type) {
		case map[string]any:
			return c20Set(doc, append(append(c20Path{}, p...), hx.Pick(r, c20Vocab)), c20RandValue(r, doc, targets, 0), false)
		case []any:
			return c20Set(doc, p, append(append([]any{}, x...), c20RandValue(r, doc, targets, 0)), false)
		}
		return c20Set(doc, p, c20RandValue(r, doc, targets, 0), false)
	case 7: // swap kinds: copy a subtree to another position
		q := hx.Pick(r, paths)
		v, _ := c20Get(doc, q)
		return c20Set(doc, p, c20Clone(v), false)
	case 8: // rename a key
		if len(p) == 0 {
			return doc
		}
		if _, ok := p[len(p)-1].(string); ok {
			v, _ := c20Get(doc, p)
			d := c20Set(doc, p, nil, true)
			return c20Set(d, append(append(c20Path{}, p[:len(p)-1]...), hx.Pick(r, c20Vocab)), v, false)
		}
		return doc
	default: // turn the node into a reference
		return c20Set(doc, p, map[string]any{"$ref": hx.Pick(r, targets)}, false)
	}
}

func c20Tokens(b []byte) []string {
	var out []string
	i := 0
	for i < len(b) {
		ch := b[i]
		switch {
		case ch == '"':
			j := i + 1
			for j < len(b) && b[j] != '"' {
				if b[j] == '\\' {
					j++
				}
				j++
			}
			if j >= len(b) {
				j = len(b) - 1
			}
			out = append(out, string(b[i:j+1]))
			i = j + 1
		case strings.ContainsRune("{}[]:,", rune(ch)):
			out = append(out, string(ch))
			i++
		case ch == ' ' || ch == '\n' || ch == '\t' || ch == '\r':
			i++
		default:
			j := i
			for j < len(b) && !strings.ContainsRune("{}[]:,\" \n\t\r", rune(b[j])) {
				j++
			}
			out = append(out, string(b[i:j]))
			i = j
		}
	}
	return out
}

var c20TokenPool = []string{"{", "}", "[", "]", ":", ",", "null", "true", "0", "-1", "1e999", "\"\"", "\"$ref\"", "\"x\"", "{}", "[]", "\"#/components/schemas/S/items\"", "&a", "*a", "<<", "?", "|", "- ", "\n", "\t", "\x00", "\xff", "'", "#"}

func c20TokenMutate(r *hx.Rng, b []byte) []byte {
	toks := c20Tokens(b)
	if len(toks) == 0 {
		return b
	}
	for k, n := 0, 1+r.Intn(3); k < n; k++ {
		i := r.Intn(len(toks))
		switch r.Intn(6) {
		case 0:
			toks = append(toks[:i], toks[i+1:]...)
		case 1:
			toks = append(toks[:i+1], toks[i:]...)
		case 2:
			toks[i] = hx.Pick(r, c20TokenPool)
		case 3:
			j := r.Intn(len(toks))
			toks[i], toks[j] = toks[j], toks[i]
		case 4:
			toks = append(toks[:i], append([]string{hx.Pick(r, c20TokenPool)}, toks[i:]...)...)
		case 5:
			toks = toks[:i]
		}
		if len(toks) == 0 {
			break
		}
	}
	return []byte(strings.Join(toks, ""))
}

var c20YamlSpecials = []string{
	"openapi: 3.0.0\ninfo: {title: t, version: '1'}\npaths: {}\ncomponents:\n  schemas:\n    A: &a\n      type: object\n      properties:\n        x: *a\n",
	"openapi: 3.0.0\ninfo: {title: t, version: '1'}\npaths: {}\ncomponents:\n  schemas:\n    1: {type: string}\n    true: {type: string}\n    null: {type: string}\n    1.5: {type: string}\n",
	"openapi: 3.0.0\ninfo: {title: t, version: '1'}\npaths: {}\ncomponents:\n  schemas:\n    ? [a, b]\n    : {type: string}\n",
	"openapi: 3.0.0\ninfo: {title: t, version: '1'}\npaths: {}\nx-base: &b {type: object}\ncomponents:\n  schemas:\n    A:\n      <<: *b\n      properties: {p: {<<: *b}}\n",
	"openapi: 3.0.0\ninfo: {title: t, version: '1'}\npaths:\n  /a:\n    get:\n      responses:\n        200: {description: ok}\n        default: {description: d}\n",
	"openapi: 3.0\ninfo: {title: t, version: 1}\npaths: {}\n",
	"openapi: 3.0.0\ninfo: {title: t, version: '1'}\npaths: {}\ncomponents:\n  schemas:\n    A: {type: object, example: 2001-01-01, default: !!binary aGk=, enum: [.inf, .nan, 0x10, 1_000]}\n",
	"openapi: 3.0.0\ninfo: {title: t, version: '1'}\npaths: {}\ncomponents:\n  schemas:\n    A: {$ref: '#/components/schemas/A/items'}\n",
	"a: &a [x, x]\nb: &b [*a, *a]\nc: &c [*b, *b]\nd: &d [*c, *c]\ne: &e [*d, *d]\nf: &f [*e, *e]\ng: &g [*f, *f]\nh: &h [*g, *g]\ni: [*h, *h]\nopenapi: 3.0.0\n",
	"--- \n...\n---\nopenapi: 3.0.0\n",
	"%YAML 1.1\n--- !!map\n? openapi\n: 3.0.0\n",
	"\xef\xbb\xbf{\"openapi\":\"3.0.0\",\"info\":{\"title\":\"t\",\"version\":\"1\"},\"paths\":{}}",
	"",
	" ",
	"\x00",
	"null",
	"[]",
	"5",
	"\"x\"",
	"{",
	"{\"openapi\":",
	"{\"openapi\":\"3.0.0\",\"info\":{\"title\":\"t\",\"version\":\"1\"},\"paths\":{}}{}",
	"{\"openapi\":\"3.0.0\",\"openapi\":5,\"info\":{\"title\":\"t\",\"version\":\"1\"},\"paths\":{},\"paths\":null}",
}

func c20Deep(open, close string, n int) []byte {
	return []byte(strings.Repeat(open, n) + strings.Repeat(close, n))
}

func genC20(ctx *hx.Ctx, emit func(hx.Case)) {
	// hx.NewRng(seed) starts the same Weyl sequence `seed` steps further: the streams of consecutive
	// seeds are shifts of each other and re-synchronise after a few cases. Re-seeding from the first
	// output puts the streams of different seeds at unrelated offsets (still derived from ctx.Rng only).
	r := hx.NewRng(ctx.Rng.U64())
	small := c20Parse(c20Small)
	base := c20Parse(c20Base)
	minimal := c20Parse(c20Minimal)
	entries := []string{"data", "path", "file"}

	// 0. the seeds themselves, every entry point, both switch settings, both encodings
	var graphs []any
	for _, g := range c20Graphs {
		graphs = append(graphs, c20Parse(g))
	}
	seeds := append([]any{small, base, minimal}, graphs...)
	for _, d := range seeds {
		for _, e := range entries {
			for _, ext := range []bool{false, true} {
				emit(c20Case(d, "json", e, ext, true))
			}
		}
		emit(c20Case(d, "yaml", "data", false, false))
	}

	// 1. exhaustive block: every object position of the small document × every target
	targets := c20Targets(small)
	positions := c20ObjectPositions(small)
	for pi, p := range positions {
		for ti, t := range targets {
			if !ctx.Thorough() && (pi*7+ti)%6 != int(ctx.Seed%6) {
				continue // quick tier: a sixth of the block, chosen by the seed
			}
			d := c20Set(small, p, map[string]any{"$ref": t}, false)
			ext := !strings.HasPrefix(t, "#") && t != ""
			entry := entries[(pi+ti)%3]
			emit(c20Case(d, "json", entry, ext, ext))
			if ext && (pi+ti)%5 == 0 {
				emit(c20Case(d, "json", entry, false, true))
			}
		}
	}
	// 1b. every position of the small document replaced by each scalar / empty shape
	var allPaths []c20Path
	c20Walk(small, nil, &allPaths)
	shapes := []any{nil, true, json.Number("0"), "", "x", []any{}, map[string]any{}, []any{nil}, []any{map[string]any{}}, map[string]any{"$ref": nil}, map[string]any{"$ref": json.Number("1")}}
	for _, p := range allPaths {
		for _, s := range shapes {
			emit(c20Case(c20Set(small, p, s, false), "json", "data", false, false))
		}
	}
	// 1c. two references: a component given by reference to another component given by reference (all kinds pairwise)
	kinds := []string{"schemas", "parameters", "headers", "requestBodies", "responses", "securitySchemes", "examples", "links", "callbacks"}
	compName := map[string]string{"schemas": "S", "parameters": "P", "headers": "H", "requestBodies": "B", "responses": "R", "securitySchemes": "K", "examples": "E", "links": "L", "callbacks": "C"}
	for _, k1 := range kinds {
		for _, k2 := range kinds {
			d := c20Set(small, c20Path{"components", k1, "A0"}, map[string]any{"$ref": "#/components/" + k2 + "/Z9"}, false)
			d = c20Set(d, c20Path{"components", k2, "Z9"}, map[string]any{"$ref": "#/components/" + k2 + "/" + compName[k2]}, false)
			emit(c20Case(d, "json", "data", false, false))
			d2 := c20Set(small, c20Path{"components", k1, "A0"}, map[string]any{"$ref": "#/components/" + k2 + "/" + compName[k2]}, false)
			d2 = c20Set(d2, c20Path{"components", k2, compName[k2]}, map[string]any{"$ref": "#/components/" + k1 + "/A0"}, false)
			emit(c20Case(d2, "json", "path", false, false))
		}
	}

	// 1d–1f. directed blocks: path-item reference graphs, targets in extension members, unwalked path items
	c20PathItemCases(emit)
	c20ExtensionTargetCases(emit)
	c20UnwalkedCases(small, emit)
	c20ExternalUseCases(emit)
	// 1g–1h (round 5). typed values below a schema; histories of loads through the library's own reader
	c20TypedValueCases(ctx, emit)
	c20HistoryCases(emit)

	// 2. YAML forms, degenerate byte strings, deep nesting
	for _, y := range c20YamlSpecials {
		for _, e := range []string{"data", "path"} {
			emit(c20RawCase([]byte(y), e, false))
		}
	}
	depths := []int{100, 5000, 20000}
	if ctx.Thorough() {
		depths = append(depths, 200000)
	}
	for _, n := range depths {
		for _, oc := range [][2]string{{"[", "]"}, {"{\"a\":", "}"}, {"- ", ""}, {"{a: ", "}"}, {"[", ""}} {
			raw := c20Deep(oc[0], oc[1], n)
			emit(hx.Case{"raw64": base64.StdEncoding.EncodeToString(raw), "entry": "data", "ext": false, "parsed": false, "deep": n})
		}
	}
	// deep but valid positions: schema nesting depth n. The typed decoding is quadratic in the depth
	// (1000 levels: 0.5 s, 5000 levels: 11 s of json.Unmarshal on this machine) — kept well below the
	// per-case limit so that load on the machine cannot turn the case into a timeout.
	valid := []int{100, 1000}
	if ctx.Thorough() {
		valid = append(valid, 2500)
	}
	for _, n := range valid {
		for _, kw := range []string{"items", "not", "additionalProperties"} {
			var s any = map[string]any{"type": "string"}
			for i := 0; i < n; i++ {
				s = map[string]any{kw: s}
			}
			emit(c20Case(c20Set(minimal, c20Path{"components"}, map[string]any{"schemas": map[string]any{"D": s}}, false), "json", "data", false, false))
		}
	}

	// 3. seeded random stream: tree-level mutations
	n := 4500
	if ctx.Thorough() {
		n = 120000
	}
	baseTargets := c20Targets(base)
	pool := []struct {
		doc     any
		targets []string
	}{{small, targets}, {base, baseTargets}, {small, targets}}
	for _, g := range graphs {
		pool = append(pool, struct {
			doc     any
			targets []string
		}{g, targets})
	}
	for i := 0; i < n; i++ {
		s := pool[r.Intn(len(pool))]
		d := s.doc
		for k, m := 0, 1+r.Intn(4); k < m; k++ {
			d = c20Mutate(r, d, s.targets)
		}
		ext := r.Chance(40)
		enc := "json"
		if r.Chance(10) {
			enc = "yaml"
		}
		emit(c20Case(d, enc, hx.Pick(r, entries), ext, ext || r.Chance(20)))
	}
	// 3b. the same mutated documents written as YAML with anchors / aliases / merge keys / non-string keys
	ny := 600
	if ctx.Thorough() {
		ny = 12000
	}
	for i := 0; i < ny; i++ {
		sd := pool[r.Intn(len(pool))]
		d := sd.doc
		for k, m := 0, r.Intn(3); k < m; k++ {
			d = c20Mutate(r, d, sd.targets)
		}
		emit(c20RawCase(c20YamlEmit(r, d), hx.Pick(r, entries), r.Chance(30)))
	}
	// 3c. huge scalars: a long description, a long key, numbers with hundreds of digits, a long $ref, a long enum
	bigEnum := make([]any, 1<<16)
	for i := range bigEnum {
		bigEnum[i] = json.Number(strconv.Itoa(i))
	}
	for _, big := range []struct {
		p c20Path
		v any
	}{
		{c20Path{"info", "description"}, strings.Repeat("x", 1<<20)},
		{c20Path{"components", "schemas", strings.Repeat("K", 1<<16)}, map[string]any{"type": "string"}},
		{c20Path{"components", "schemas", "T", "maximum"}, json.Number("1" + strings.Repeat("0", 400))},
		{c20Path{"components", "schemas", "T", "maxLength"}, json.Number(strings.Repeat("9", 400))},
		{c20Path{"components", "schemas", "T", "$ref"}, "#/" + strings.Repeat("a/", 1<<15)},
		{c20Path{"components", "schemas", "T", "$ref"}, strings.Repeat("../", 1<<12) + "other.json#/components/schemas/T"},
		{c20Path{"components", "schemas", "T", "pattern"}, strings.Repeat("(a", 5000)},
		{c20Path{"components", "schemas", "T", "enum"}, bigEnum},
	} {
		for _, enc := range []string{"json", "yaml"} {
			emit(c20Case(c20Set(small, big.p, big.v, false), enc, "path", true, true))
		}
	}

	// 4. token-level mutations of serialised documents
	nt := 1200
	if ctx.Thorough() {
		nt = 30000
	}
	texts := [][]byte{c20Encode(small, "json"), c20Encode(base, "json"), c20Encode(minimal, "json"), c20Encode(small, "yaml")}
	for _, g := range graphs {
		texts = append(texts, c20Encode(g, "json"))
	}
	for i := 0; i < nt; i++ {
		raw := c20TokenMutate(r, hx.Pick(r, texts))
		emit(c20RawCase(raw, hx.Pick(r, entries), r.Chance(30)))
	}
}

// ---------------------------------------------------------------- directed blocks added with the repairs

const c20Op = `{"responses":{"200":{"description":"ok"}}}`

// c20PathItemCases: every way one path item can refer to another — chains, cycles a→b→a, self-references,
// with and without '#' fragment, across files, next to content of its own, below inline and referenced
// callbacks (resolvePathItemRef calls itself on the copied target since 9b25d89).
func c20PathItemCases(emit func(hx.Case)) {
	items := []string{
		`{"$ref":"#/paths/~1b"}`, `{"$ref":"#/paths/~1c"}`, `{"$ref":"#/paths/~1a"}`, `{"$ref":"#/paths/~1zz"}`,
		`{"$ref":"o.json#/paths/~1o"}`, `{"$ref":"o.json#/paths/~1p"}`, `{"$ref":"pi.json"}`, `{"$ref":"pj.json"}`, `{"$ref":"root.json#/paths/~1a"}`, `{"$ref":"root.json#/paths/~1b"}`,
		`{"$ref":"#/paths/~1c","get":` + c20Op + `}`, `{"$ref":"#/paths/~1b","summary":"s"}`, `null`, `{}`, `{"get":` + c20Op + `}`,
		`{"$ref":"#/components/callbacks/C/~1cb"}`, `{"$ref":"#"}`, `{"$ref":"o.json"}`, `{"$ref":"o.json#"}`,
		// whole files that are themselves references: a chain pc→pi, a cycle pa→pb→pa (376b90f)
		`{"$ref":"pa.json"}`, `{"$ref":"pc.json"}`,
	}
	cbs := []string{
		``, `{"c":{"/cb":{"$ref":"#/paths/~1a"}}}`, `{"c":{"/cb":{"$ref":"#/paths/~1b"}}}`, `{"c":{"/cb":{"$ref":"#/paths/~1c"}}}`,
		`{"c":{"$ref":"#/components/callbacks/C"}}`, `{"c":{"/cb":{"$ref":"o.json#/paths/~1o"}}}`, `{"c":{"/cb":{"$ref":"pi.json"}},"d":{"$ref":"#/components/callbacks/D"}}`,
	}
	files := map[string]any{
		"o.json": c20Parse(`{"openapi":"3.0.0","info":{"title":"o","version":"1"},"paths":{"/o":{"$ref":"root.json#/paths/~1a"},"/p":{"$ref":"./o.json#/paths/~1q"},"/q":{"$ref":"o.json#/paths/~1p"},"/r":{"$ref":"#/paths/~1r"},
		   "/s":{"get":{"callbacks":{"c":{"/cb":{"$ref":"root.json#/paths/~1c"}}},"responses":{"200":{"description":"ok"}}}}}}`),
		"pi.json": c20Parse(`{"get":{"callbacks":{"c":{"/cb":{"$ref":"pi.json"}}},"responses":{"200":{"description":"ok"}}}}`),
		"pj.json": c20Parse(`{"$ref":"pj.json"}`),
		"pa.json": c20Parse(`{"$ref":"pb.json"}`),
		"pb.json": c20Parse(`{"$ref":"./pa.json"}`),
		"pc.json": c20Parse(`{"$ref":"pi.json"}`),
	}
	n := 0
	for i, a := range items {
		for j, b := range items {
			for k, cb := range cbs {
				if (i+2*j+3*k)%3 != 0 && !(i < 4 && j < 4) { // a third of the product, the local block completely
					continue
				}
				c := `{"get":{"responses":{"200":{"description":"ok"}}`
				if cb != "" {
					c += `,"callbacks":` + cb
				}
				c += `}}`
				doc := c20Parse(`{"openapi":"3.0.0","info":{"title":"t","version":"1"},"paths":{"/a":` + a + `,"/b":` + b + `,"/c":` + c + `},
				  "components":{"callbacks":{"C":{"/cb":{"$ref":"#/paths/~1a"}},"D":{"/cb":{"$ref":"#/paths/~1c"},"/cc":{"$ref":"o.json#/paths/~1s"}}}}}`)
				ext := strings.Contains(a+b+cb, ".json")
				cs := hx.Case{"doc": doc, "enc": "json", "entry": []string{"path", "file", "data"}[n%3], "ext": ext || n%5 == 0, "files": files}
				emit(cs)
				n++
			}
		}
	}
}

// c20ExtensionTargetCases: a component of every kind given by a reference into an extension member (the
// target is re-decoded from map[string]any): valid, with a child that refers back to the same text (a
// callback of another kind, ignored since a04fe6c), with a null child (the swallowed sentinel), degenerate.
func c20ExtensionTargetCases(emit func(hx.Case)) {
	kinds := map[string][]string{
		"schemas":         {`{"type":"object","properties":{"p":{"type":"string"}}}`, `{"properties":{"p":{"$ref":"#/x-t"}}}`, `{"properties":{"a":{"$ref":"#/x-t"},"p":null}}`, `{"items":null,"not":{"$ref":"#/x-u"}}`},
		"parameters":      {`{"name":"p","in":"query","schema":{"type":"string"}}`, `{"name":"p","in":"query","schema":{"$ref":"#/x-t"}}`, `{"name":"p","in":"query","examples":{"e":null}}`, `{"name":"p","in":"query","content":{"a/b":{"schema":{"$ref":"#/x-t"},"encoding":{"f":{"headers":{"h":{"$ref":"#/x-t"}}}}}}}`},
		"headers":         {`{"schema":{"type":"string"}}`, `{"schema":{"$ref":"#/x-t"}}`, `{"examples":{"e":{"$ref":"#/x-t"}}}`, `{"content":{"a/b":{"encoding":{"f":{"headers":{"h":{"$ref":"#/x-t"},"n":null}}}}}}`},
		"requestBodies":   {`{"content":{"a/b":{"schema":{"type":"string"}}}}`, `{"content":{"a/b":{"schema":{"$ref":"#/x-t"}}}}`, `{"content":{"a/b":{"examples":{"e":null}}}}`, `{"content":{"a/b":{"encoding":{"f":{"headers":{"h":{"$ref":"#/x-t"}}}}}}}`},
		"responses":       {`{"description":"d"}`, `{"description":"d","headers":{"h":{"$ref":"#/x-t"}}}`, `{"description":"d","links":{"l":null}}`, `{"description":"d","links":{"l":{"$ref":"#/x-t"}},"content":{"a/b":{"schema":{"$ref":"#/x-t"}}}}`},
		"securitySchemes": {`{"type":"http","scheme":"basic"}`, `{"$ref":"#/x-t"}`, `{"type":null}`, `{"$ref":"#/x-u"}`},
		"examples":        {`{"value":1}`, `{"$ref":"#/x-t"}`, `{"value":null}`, `{"$ref":"#/x-u"}`},
		"links":           {`{"operationId":"x"}`, `{"$ref":"#/x-t"}`, `{"server":null}`, `{"$ref":"#/x-u"}`},
		"callbacks":       {`{"/cb":{"get":` + c20Op + `}}`, `{"/cb":{"$ref":"#/x-t"}}`, `{"/cb":null}`, `{"/cb":{"get":{"callbacks":{"c":{"$ref":"#/x-t"}},"responses":{"200":{"description":"ok"}}}}}`},
	}
	degenerate := []string{`{}`, `null`, `5`, `[]`, `"x"`, `{"$ref":"#/x-t"}`, `{"$ref":"#/x-u"}`}
	use := map[string]string{"schemas": `{"get":{"parameters":[{"name":"p","in":"query","schema":{"$ref":"#/x-t"}}],"responses":{"200":{"description":"ok"}}}}`,
		"parameters": `{"parameters":[{"$ref":"#/x-t"}],"get":` + c20Op + `}`, "headers": `{"get":{"responses":{"200":{"description":"ok","headers":{"h":{"$ref":"#/x-t"}}}}}}`,
		"requestBodies": `{"post":{"requestBody":{"$ref":"#/x-t"},"responses":{"200":{"description":"ok"}}}}`, "responses": `{"get":{"responses":{"200":{"$ref":"#/x-t"}}}}`,
		"examples": `{"get":{"parameters":[{"name":"p","in":"query","examples":{"e":{"$ref":"#/x-t"}}}],"responses":{"200":{"description":"ok"}}}}`,
		"links":    `{"get":{"responses":{"200":{"description":"ok","links":{"l":{"$ref":"#/x-t"}}}}}}`, "callbacks": `{"get":{"callbacks":{"c":{"$ref":"#/x-t"}},"responses":{"200":{"description":"ok"}}}}`}
	var names []string
	for k := range kinds {
		names = append(names, k)
	}
	sort.Strings(names)
	n := 0
	for _, k := range names {
		for _, t := range append(append([]string{}, kinds[k]...), degenerate...) {
			for _, pos := range []string{"component", "use"} {
				doc := c20Parse(`{"openapi":"3.0.0","info":{"title":"t","version":"1"},"paths":{},"components":{},"x-t":` + t + `,"x-u":{"$ref":"#/x-u"}}`)
				if pos == "component" {
					doc = c20Set(doc, c20Path{"components"}, map[string]any{k: map[string]any{"A0": map[string]any{"$ref": "#/x-t"}}}, false)
				} else {
					// the same reference at a use site below a path item
					if use[k] == "" {
						continue
					}
					doc = c20Set(doc, c20Path{"paths"}, map[string]any{"/a": c20Parse(use[k])}, false)
				}
				emit(hx.Case{"doc": doc, "enc": "json", "entry": []string{"data", "path", "file"}[n%3], "ext": false})
				n++
			}
		}
	}
}

// c20UnwalkedCases: a path item that has both $ref and content of its own (the loader leaves it alone,
// InternalizeRefs and Validate descend into it): every position below it as a reference or null.
func c20UnwalkedCases(small any, emit func(hx.Case)) {
	var below, all []c20Path
	c20Walk(small, nil, &all)
	for _, p := range all {
		if len(p) >= 3 && p[0] == "paths" && p[1] == "/a" {
			below = append(below, p)
		}
	}
	refs := []string{"#/components/parameters/P", "#/components/schemas/S", "#/components/responses/R", "#/components/callbacks/C", "#/components/requestBodies/B", "#/x-root", "#/paths/~1b", "other.json#/components/schemas/S"}
	vals := []any{nil, map[string]any{}}
	for _, r := range refs {
		vals = append(vals, map[string]any{"$ref": r})
	}
	n := 0
	for _, pr := range []string{"#/paths/~1b", "#/components/x", "other.json#/paths/~1o", "#/paths/~1a"} {
		base := c20Set(small, c20Path{"paths", "/a", "$ref"}, pr, false)
		base = c20Set(base, c20Path{"paths", "/b"}, c20Parse(`{"get":`+c20Op+`}`), false)
		ext := strings.Contains(pr, ".json")
		emit(c20Case(base, "json", "path", ext, ext))
		for _, p := range below {
			for vi, v := range vals {
				n++
				if vi >= 2 && n%2 == 1 { // half of the references, every null and {}
					continue
				}
				d := c20Set(base, p, v, false)
				e := ext
				if m, ok := v.(map[string]any); ok && strings.Contains(fmt.Sprint(m["$ref"]), ".json") {
					e = true
				}
				emit(c20Case(d, "json", []string{"data", "path", "file"}[n%3], e, e))
			}
		}
	}
}

// c20ExternalUseCases: a reference of every kind that InternalizeRefs treats as external (into another
// document, or a whole file) at a use site, in a root whose components section is absent / empty / has
// only another kind / has that kind already — the add<Kind>ToSpec functions create the missing maps.
func c20ExternalUseCases(emit func(hx.Case)) {
	files := map[string]any{
		"lib.json": c20Parse(`{"openapi":"3.0.0","info":{"title":"l","version":"1"},"paths":{"/l":{"get":{"responses":{"200":{"description":"ok"}}}}},"components":{
		  "schemas":{"X":{"type":"object","properties":{"y":{"$ref":"#/components/schemas/Y"}}},"Y":{"type":"string"}},
		  "parameters":{"X":{"name":"x","in":"query","schema":{"$ref":"#/components/schemas/Y"},"examples":{"e":{"$ref":"#/components/examples/X"}}}},
		  "headers":{"X":{"schema":{"$ref":"#/components/schemas/Y"}}},
		  "requestBodies":{"X":{"content":{"application/json":{"schema":{"$ref":"#/components/schemas/X"},"examples":{"e":{"$ref":"#/components/examples/X"}}}}}},
		  "responses":{"X":{"description":"x","headers":{"h":{"$ref":"#/components/headers/X"}},"links":{"l":{"$ref":"#/components/links/X"}},"content":{"application/json":{"schema":{"$ref":"#/components/schemas/X"}}}}},
		  "securitySchemes":{"X":{"type":"http","scheme":"basic"}},
		  "examples":{"X":{"value":{"y":"v"}}},
		  "links":{"X":{"operationId":"x"}},
		  "callbacks":{"X":{"/cb":{"post":{"requestBody":{"$ref":"#/components/requestBodies/X"},"responses":{"200":{"$ref":"#/components/responses/X"}}}}}}}}`),
		"schema1.json":   c20Parse(`{"type":"object","properties":{"y":{"$ref":"lib.json#/components/schemas/Y"}}}`),
		"param1.json":    c20Parse(`{"name":"x","in":"query","schema":{"type":"string"}}`),
		"header1.json":   c20Parse(`{"schema":{"type":"string"}}`),
		"body1.json":     c20Parse(`{"content":{"application/json":{"schema":{"type":"string"}}}}`),
		"response1.json": c20Parse(`{"description":"x"}`),
		"example1.json":  c20Parse(`{"value":1}`),
		"link1.json":     c20Parse(`{"operationId":"x"}`),
		"callback1.json": c20Parse(`{"/cb":{"post":{"responses":{"200":{"description":"ok"}}}}}`),
		"scheme1.json":   c20Parse(`{"type":"http","scheme":"basic"}`),
	}
	type kind struct{ name, whole, use string }
	kinds := []kind{
		{"schemas", "schema1.json", `{"get":{"parameters":[{"name":"p","in":"query","schema":{"$ref":"@"}}],"responses":{"200":{"description":"ok","content":{"a/b":{"schema":{"$ref":"@"}}}}}}}`},
		{"parameters", "param1.json", `{"parameters":[{"$ref":"@"}],"get":{"parameters":[{"$ref":"@"}],"responses":{"200":{"description":"ok"}}}}`},
		{"headers", "header1.json", `{"post":{"requestBody":{"content":{"multipart/form-data":{"encoding":{"f":{"headers":{"h":{"$ref":"@"}}}}}}},"responses":{"200":{"description":"ok","headers":{"h":{"$ref":"@"}}}}}}`},
		{"requestBodies", "body1.json", `{"post":{"requestBody":{"$ref":"@"},"responses":{"200":{"description":"ok"}}}}`},
		{"responses", "response1.json", `{"get":{"responses":{"200":{"$ref":"@"}}}}`},
		{"examples", "example1.json", `{"post":{"parameters":[{"name":"p","in":"query","schema":{"type":"string"},"examples":{"e":{"$ref":"@"}}}],"requestBody":{"content":{"a/b":{"examples":{"e":{"$ref":"@"}}}}},"responses":{"200":{"description":"ok","content":{"a/b":{"examples":{"e":{"$ref":"@"}}}}}}}}`},
		{"links", "link1.json", `{"get":{"responses":{"200":{"description":"ok","links":{"l":{"$ref":"@"}}}}}}`},
		{"callbacks", "callback1.json", `{"get":{"callbacks":{"c":{"$ref":"@"}},"responses":{"200":{"description":"ok"}}}}`},
		{"securitySchemes", "scheme1.json", ``},
	}
	comps := func(k string) []string {
		other := "schemas"
		if k == "schemas" {
			other = "headers"
		}
		return []string{``, `{}`, `{"` + other + `":{}}`, `{"` + other + `":{"Z":` + map[string]string{"schemas": `{"type":"string"}`, "headers": `{"schema":{"type":"string"}}`}[other] + `}}`, `{"` + k + `":{}}`, `{"` + k + `":null}`}
	}
	n := 0
	for _, k := range kinds {
		for _, ref := range []string{"lib.json#/components/" + k.name + "/X", k.whole, "./lib.json#/components/" + k.name + "/X", "/r/lib.json#/components/" + k.name + "/X"} {
			for _, c := range comps(k.name) {
				var docs []string
				if k.use != "" {
					d := `{"openapi":"3.0.0","info":{"title":"t","version":"1"},"paths":{"/a":` + strings.ReplaceAll(k.use, "@", ref) + `}`
					if c != "" {
						d += `,"components":` + c
					}
					docs = append(docs, d+`}`)
				}
				if c != "" && c != `{"`+k.name+`":null}` {
					// the same reference as a component of the root
					cc := c20Parse(c).(map[string]any)
					m, _ := cc[k.name].(map[string]any)
					if m == nil {
						m = map[string]any{}
					}
					m["A0"] = map[string]any{"$ref": ref}
					cc[k.name] = m
					b, _ := json.Marshal(cc)
					docs = append(docs, `{"openapi":"3.0.0","info":{"title":"t","version":"1"},"paths":{},"components":`+string(b)+`}`)
				}
				for _, d := range docs {
					emit(hx.Case{"doc": c20Parse(d), "enc": "json", "entry": []string{"path", "file"}[n%2], "ext": true, "files": files})
					n++
				}
			}
		}
	}
}

// c20YamlEmit renders a JSON tree as block-style YAML using the features the JSON form cannot express:
// anchors and aliases for repeated sub-trees, a merge key, non-string keys, YAML spellings of booleans
// and null. The result need not be valid YAML in every case (the parsers decide; the parse is an input).
func c20YamlEmit(r *hx.Rng, doc any) []byte {
	count := map[string]int{}
	var scan func(v any)
	scan = func(v any) {
		switch x := v.(type) {
		case map[string]any:
			if len(x) > 0 {
				b, _ := json.Marshal(x)
				count[string(b)]++
			}
			for _, e := range x {
				scan(e)
			}
		case []any:
			for _, e := range x {
				scan(e)
			}
		}
	}
	scan(doc)
	anchors := map[string]string{}
	var anchorOrder []string
	scalar := func(v any) string {
		switch x := v.(type) {
		case nil:
			return hx.Pick(r, []string{"null", "~", ""})
		case bool:
			if x {
				return hx.Pick(r, []string{"true", "True", "yes", "on"})
			}
			return hx.Pick(r, []string{"false", "no", "off"})
		}
		b, _ := json.Marshal(v)
		return string(b)
	}
	key := func(k string) string {
		// an integer-looking key written bare is a non-string key for YAML
		if _, err := strconv.Atoi(k); err == nil && r.Chance(60) {
			return k
		}
		b, _ := json.Marshal(k)
		return string(b)
	}
	// emitV writes the value that follows "key:" or "-" (starting on the same line) at indentation ind
	var emitV func(sb *strings.Builder, v any, ind string)
	emitV = func(sb *strings.Builder, v any, ind string) {
		switch x := v.(type) {
		case map[string]any:
			if len(x) == 0 {
				sb.WriteString(" {}\n")
				return
			}
			b, _ := json.Marshal(x)
			id := string(b)
			if a, ok := anchors[id]; ok {
				sb.WriteString(" *" + a + "\n")
				return
			}
			if count[id] > 1 && r.Chance(70) {
				a := "a" + strconv.Itoa(len(anchors)+1)
				anchors[id] = a
				anchorOrder = append(anchorOrder, a)
				sb.WriteString(" &" + a)
			}
			sb.WriteString("\n")
			if _, isRef := x["$ref"]; !isRef && len(anchorOrder) > 0 && r.Chance(8) {
				sb.WriteString(ind + "<<: *" + anchorOrder[r.Intn(len(anchorOrder))] + "\n") // merge key
			}
			if r.Chance(3) {
				sb.WriteString(ind + hx.Pick(r, []string{"1", "true", "null", "1.5", "[a, b]"}) + ": x\n")
			}
			for _, k := range c20Keys(x) {
				sb.WriteString(ind + key(k) + ":")
				emitV(sb, x[k], ind+"  ")
			}
		case []any:
			if len(x) == 0 {
				sb.WriteString(" []\n")
				return
			}
			sb.WriteString("\n")
			for _, e := range x {
				sb.WriteString(ind + "-")
				switch ee := e.(type) {
				case map[string]any, []any:
					// a collection below a sequence entry: in flow style (JSON is YAML) — keeps the emitter small
					b, _ := json.Marshal(ee)
					sb.WriteString(" " + string(b) + "\n")
				default:
					emitV(sb, e, ind+"  ")
				}
			}
		default:
			sb.WriteString(" " + scalar(v) + "\n")
		}
	}
	var sb strings.Builder
	emitV(&sb, doc, "")
	out := strings.TrimPrefix(sb.String(), "\n")
	if r.Chance(10) {
		out = "%YAML 1.1\n---\n" + out
	}
	return []byte(out)
}

// ---------------------------------------------------------------- shrinker

// shrinkC20 proposes at most c20ShrinkCap smaller variants per round (largest deletions first): a round
// costs one child-process evaluation per candidate, a crashing candidate two process starts.
const c20ShrinkCap = 160

func shrinkC20(c hx.Case) []hx.Case {
	out := shrinkC20All(c)
	if c20OverBudget() {
		return nil
	}
	if len(out) > c20ShrinkCap {
		out = out[:c20ShrinkCap]
	}
	return out
}

func shrinkC20All(c hx.Case) []hx.Case {
	var out []hx.Case
	if _, raw := c["raw64"]; raw {
		b := c20Bytes(c)
		toks := c20Tokens(b)
		for i := range toks {
			nt := append(append([]string{}, toks[:i]...), toks[i+1:]...)
			out = append(out, c20RawCase([]byte(strings.Join(nt, "")), jstr(c, "entry"), jbool(c, "ext")))
			if len(out) > 300 {
				break
			}
		}
		// a parsed raw case can also be tried as a tree case
		if d, ok := c["doc"]; ok {
			out = append([]hx.Case{c20Case(d, "json", jstr(c, "entry"), jbool(c, "ext"), false)}, out...)
		}
		return out
	}
	if _, ok := c["seq"]; ok {
		return c20ShrinkHistory(c)
	}
	doc := c["doc"]
	mk := func(d any) hx.Case {
		x := cloneCase(c)
		x["doc"] = d
		return x
	}
	if _, ok := c["files"]; ok {
		x := cloneCase(c)
		delete(x, "files")
		out = append(out, x)
	}
	if jbool(c, "ext") {
		x := cloneCase(c)
		x["ext"] = false
		out = append(out, x)
	}
	if jstr(c, "entry") != "data" {
		x := cloneCase(c)
		x["entry"] = "data"
		out = append(out, x)
	}
	if jstr(c, "enc") != "json" {
		x := cloneCase(c)
		x["enc"] = "json"
		out = append(out, x)
	}
	var paths []c20Path
	c20Walk(doc, nil, &paths)
	// delete sub-trees, largest (shallowest) first
	sort.SliceStable(paths, func(i, j int) bool { return len(paths[i]) < len(paths[j]) })
	for _, p := range paths {
		if len(p) == 0 {
			continue
		}
		out = append(out, mk(c20Set(doc, p, nil, true)))
	}
	for _, p := range paths {
		if len(p) == 0 {
			continue
		}
		v, _ := c20Get(doc, p)
		switch x := v.(type) {
		case map[string]any:
			if len(x) > 0 {
				if _, isRef := x["$ref"]; !isRef {
					out = append(out, mk(c20Set(doc, p, map[string]any{}, false)))
				}
			}
		case []any:
			if len(x) > 0 {
				out = append(out, mk(c20Set(doc, p, []any{}, false)))
			}
		}
	}
	return out
}
