package main

// C07 — a request passes iff security, every effective parameter and the body pass.
// Real code exercised: openapi3filter.ValidateRequest (with ValidateSecurityRequirements, ValidateParameter,
// ValidateRequestBody underneath) on documents, routes and requests built from the case — the document as Go values
// or marshalled and loaded back through openapi3.Loader (which resolves the `$ref` parameters), the route by hand, by
// routers/gorillamux or by routers/legacy, the request by http.NewRequest or by httptest.NewRequest.

import (
	"bytes"
	"context"
	"errors"
	"fmt"
	"io"
	"net/http"
	"net/http/httptest"
	"net/url"
	"sort"
	"strings"
	"sync"

	"github.com/getkin/kin-openapi/openapi3"
	"github.com/getkin/kin-openapi/openapi3filter"
	"github.com/getkin/kin-openapi/routers"
	"github.com/getkin/kin-openapi/routers/gorillamux"
	"github.com/getkin/kin-openapi/routers/legacy"

	"kinverif/internal/hx"
)

func init() {
	hx.Register(&hx.Prop{
		ID: "C07",
		Rule: "exhaustive blocks: (1) 11 operation-level × 10 document-level security shapes (absent / [] / [{}] / one or several requirements, scopes, the same scheme under two requirements with different scopes, an undeclared scheme, optional authentication) × all 32 verdict vectors of the callback over the (scheme, scopes) pairs in use × fail-first/multi, and each shape pair without callback; " +
			"(2) 15 parameter layouts (nil / empty / non-empty operation list, override, same name in another location, duplicates inside a list, a parameter after an overridden one, absent required / optional, `$ref` parameters) × all 8 option sets (the six Options fields the orchestration does not read rotating through their 64 combinations) × 7 body shapes (none, valid, invalid, missing required, absent optional, undeclared media type) × passing/failing security, every other case with request parts no parameter looks up (another header, another cookie, a second cookie of a name already sent with an invalid value); " +
			"(3) every combination of request constructor (http.NewRequest, httptest.NewRequest) × route source (hand-built, gorillamux, legacy) × document source (Go values, marshalled and loaded) × callback reads the body or not × nil Options on a set of representative operations; the combinations also rotate through blocks 1 and 2; " +
			"(4) a seeded random stream over all of these dimensions with up to 4+4 parameters and 3 requirements, a quarter of the cases followed by a history of 1-3 further calls; " +
			"(5) histories of 5-6 calls for one operation and the same request facts: 15 parameter layouts × 7 body shapes and 11 × 10 security shape pairs, the later calls reusing {the same RequestValidationInput, a new input around the same *http.Request, a new request against the same document / route / router} with Options {a new struct, the old struct rewritten in place, nil}, flags flipped, the callback's verdicts changed or the callback removed: and 15 layouts × 8 option sets alternating between the operation and a sibling operation of the same path item (no parameters of its own: every path-level parameter is in effect for it); every call is compared with the model's and the specification's entry for it. " +
			"A case is non-trivial when the model reports at least one non-default branch.",
		Exhaustive: true,
		Gen:        genC07,
		Run:        runC07,
		Compare:    cmpC07,
		Shrink:     shrinkC07,
		Assumptions: []string{
			"the verdict of ValidateParameter for one parameter is controlled through (required, value sent or not, integer schema with maximum 9 or 1 against the value 5); the verdict of ValidateRequestBody through (required, body sent or not, Content-Type declared or not, object schema requiring a present or an absent property)",
			"the authentication callback's verdict is a function of (scheme name, scopes); a callback whose verdict changes from call to call is outside the model",
			"reading the request body into memory never fails (in-memory readers)",
		},
	})
}

func jlist(v any) []any {
	l, _ := v.([]any)
	return l
}
func jstr(m map[string]any, k string) string { s, _ := m[k].(string); return s }
func jbool(m map[string]any, k string) bool  { b, _ := m[k].(bool); return b }

func c07Key(scheme string, scopes []string) string {
	return scheme + "(" + strings.Join(scopes, ",") + ")"
}

func c07Reqs(v any) openapi3.SecurityRequirements {
	srs := openapi3.SecurityRequirements{}
	for _, r := range jlist(v) {
		sr := openapi3.SecurityRequirement{}
		for _, u := range jlist(r) {
			um, _ := u.(map[string]any)
			sr[jstr(um, "s")] = toStrs(um["sc"])
		}
		srs = append(srs, sr)
	}
	return srs
}

type c07built struct {
	doc        *openapi3.T
	pathItem   *openapi3.PathItem
	op         *openapi3.Operation
	path       string
	urlPath    string
	pathValues map[string]string
}

// c07Doc builds the document of the case from Go values.
func c07Doc(c hx.Case) *c07built {
	doc := &openapi3.T{OpenAPI: "3.0.0", Info: &openapi3.Info{Title: "t", Version: "1"}, Paths: openapi3.NewPaths()}
	how := jstr(c, "undeclaredHow")
	switch how {
	case "noComponents":
	case "noSchemes":
		doc.Components = &openapi3.Components{}
	default:
		doc.Components = &openapi3.Components{SecuritySchemes: openapi3.SecuritySchemes{}}
		for _, n := range jlist(c["declared"]) {
			s := openapi3.NewSecurityScheme().WithType("http").WithScheme("basic")
			s.Description = n.(string)
			doc.Components.SecuritySchemes[n.(string)] = &openapi3.SecuritySchemeRef{Value: s}
		}
		if how == "nilValue" {
			for _, k := range []string{"opSecurity", "docSecurity"} {
				for _, r := range jlist(c[k]) {
					for _, u := range jlist(r) {
						n := jstr(u.(map[string]any), "s")
						if _, ok := doc.Components.SecuritySchemes[n]; !ok {
							doc.Components.SecuritySchemes[n] = &openapi3.SecuritySchemeRef{}
						}
					}
				}
			}
		}
	}
	doc.Security = c07Reqs(c["docSecurity"])
	op := &openapi3.Operation{Responses: openapi3.NewResponses()}
	if c["opSecurity"] != nil {
		s := c07Reqs(c["opSecurity"])
		op.Security = &s
	}
	b := &c07built{doc: doc, op: op, pathValues: map[string]string{}}
	var pathNames []string
	nref := 0
	mk := func(pm map[string]any) *openapi3.ParameterRef {
		max := 9.0
		if !jbool(pm, "valid") {
			max = 1.0
		}
		sch := openapi3.NewIntegerSchema()
		sch.Max = &max
		p := &openapi3.Parameter{Name: jstr(pm, "name"), In: jstr(pm, "in"), Schema: sch.NewRef(), Required: jbool(pm, "required")}
		if p.In == "path" {
			if _, seen := b.pathValues[p.Name]; !seen {
				pathNames = append(pathNames, p.Name)
				b.pathValues[p.Name] = "5"
			}
		}
		if jbool(pm, "ref") {
			if doc.Components == nil {
				doc.Components = &openapi3.Components{}
			}
			if doc.Components.Parameters == nil {
				doc.Components.Parameters = openapi3.ParametersMap{}
			}
			nref++
			key := fmt.Sprintf("P%d", nref)
			doc.Components.Parameters[key] = &openapi3.ParameterRef{Value: p}
			return &openapi3.ParameterRef{Ref: "#/components/parameters/" + key, Value: p}
		}
		return &openapi3.ParameterRef{Value: p}
	}
	pi := &openapi3.PathItem{Post: op}
	for _, st := range jlist(c["history"]) {
		if sm, _ := st.(map[string]any); jstr(sm, "reuse") == "sibling" && pi.Get == nil {
			// the sibling operation of the same path item: same security, no parameters and no body of its own
			pi.Get = &openapi3.Operation{Responses: openapi3.NewResponses()}
			if c["opSecurity"] != nil {
				s := c07Reqs(c["opSecurity"])
				pi.Get.Security = &s
			}
		}
	}
	for _, pm := range jlist(c["pathParams"]) {
		pi.Parameters = append(pi.Parameters, mk(pm.(map[string]any)))
	}
	if c["opParams"] != nil {
		op.Parameters = openapi3.Parameters{}
		for _, pm := range jlist(c["opParams"]) {
			op.Parameters = append(op.Parameters, mk(pm.(map[string]any)))
		}
	}
	if bm, ok := c["body"].(map[string]any); ok {
		need := "a"
		if !jbool(bm, "valid") {
			need = "b"
		}
		sch := openapi3.NewObjectSchema()
		sch.Required = []string{need}
		rb := openapi3.NewRequestBody().WithJSONSchema(sch)
		rb.Required = jbool(bm, "required")
		op.RequestBody = &openapi3.RequestBodyRef{Value: rb}
	}
	b.pathItem = pi
	b.path = "/x"
	b.urlPath = "/x"
	for _, n := range pathNames {
		b.path += "/{" + n + "}"
		b.urlPath += "/5"
	}
	doc.Paths.Set(b.path, pi)
	return b
}

// c07Request builds the request of the case.
func c07Request(c hx.Case, b *c07built, ctor string) *http.Request {
	q := url.Values{}
	var headers, cookies []string
	seen := map[string]bool{}
	for _, l := range [][]any{jlist(c["pathParams"]), jlist(c["opParams"])} {
		for _, x := range l {
			pm := x.(map[string]any)
			key := jstr(pm, "in") + ":" + jstr(pm, "name")
			if !jbool(pm, "sent") || seen[key] {
				continue
			}
			seen[key] = true
			switch jstr(pm, "in") {
			case "query":
				q.Set(jstr(pm, "name"), "5")
			case "header":
				headers = append(headers, jstr(pm, "name"))
			case "cookie":
				cookies = append(cookies, jstr(pm, "name"))
			}
		}
	}
	target := "http://example.com" + b.urlPath
	if enc := q.Encode(); enc != "" {
		target += "?" + enc
	}
	var body io.Reader
	bm, _ := c["body"].(map[string]any)
	kind := jstr(c, "bodyKind")
	sent := bm != nil && jbool(bm, "sent") || bm == nil && kind == "json"
	if sent {
		body = bytes.NewReader([]byte(`{"a":1}`))
	}
	var req *http.Request
	if ctor == "httptest" {
		req = httptest.NewRequest("POST", target, body)
	} else {
		req, _ = http.NewRequest("POST", target, body)
	}
	if !sent {
		switch kind {
		case "nobody":
			req.Body = http.NoBody
		case "empty":
			req.Body = io.NopCloser(bytes.NewReader(nil))
		case "nil":
			req.Body = nil
		}
	} else {
		ct := "application/json"
		if bm != nil && !jbool(bm, "ctOK") {
			ct = "text/csv"
		}
		req.Header.Set("Content-Type", ct)
	}
	for _, h := range headers {
		req.Header.Set(h, "5")
	}
	for _, ck := range cookies {
		req.AddCookie(&http.Cookie{Name: ck, Value: "5"})
	}
	if jbool(c, "noise") {
		// parts of the request no parameter looks up: another header, another cookie, and behind every cookie sent a
		// second one of the same name with a value above both maxima (req.Cookie returns the first)
		req.Header.Set("x-other", "1")
		req.AddCookie(&http.Cookie{Name: "zz", Value: "1"})
		for _, ck := range cookies {
			req.AddCookie(&http.Cookie{Name: ck, Value: "99"})
		}
	}
	return req
}

func runC07(c hx.Case) any {
	build, _ := c["build"].(map[string]any)
	b := c07Doc(c)
	docUsed := "struct"
	if jstr(build, "doc") == "loaded" {
		// marshal the document and load it back: the loader resolves the `$ref` parameters and rebuilds every object
		if data, err := b.doc.MarshalJSON(); err == nil {
			loader := openapi3.NewLoader()
			if d2, err := loader.LoadFromData(data); err == nil {
				if pi := d2.Paths.Find(b.path); pi != nil && pi.Post != nil {
					b.doc, b.pathItem, b.op = d2, pi, pi.Post
					docUsed = "loaded"
				}
			}
		}
	}
	req := c07Request(c, b, jstr(build, "req"))
	// the routers are built once and answer every request of the history
	var gorillaR, legacyR routers.Router
	switch jstr(build, "route") {
	case "gorilla":
		r, err := gorillamux.NewRouter(b.doc)
		if err != nil {
			return map[string]any{"routeError": "gorillamux.NewRouter: " + err.Error()}
		}
		gorillaR = r
	case "legacy":
		// the legacy router validates the document first: documents it refuses (duplicate parameters, a scheme
		// reference without value) are routed by hand
		if r, err := legacy.NewRouter(b.doc); err == nil {
			legacyR = r
		}
	}
	handRoute := &routers.Route{Spec: b.doc, Path: b.path, PathItem: b.pathItem, Method: "POST", Operation: b.op}
	find := func(req *http.Request) (*routers.Route, map[string]string, string, map[string]any) {
		if req.Method == "GET" && gorillaR == nil && legacyR == nil {
			return &routers.Route{Spec: b.doc, Path: b.path, PathItem: b.pathItem, Method: "GET", Operation: b.pathItem.Get}, b.pathValues, "direct", nil
		}
		switch {
		case gorillaR != nil:
			rt, pp, err := gorillaR.FindRoute(req)
			if err != nil {
				return nil, nil, "", map[string]any{"routeError": "gorillamux FindRoute: " + err.Error()}
			}
			return rt, pp, "gorilla", nil
		case legacyR != nil:
			rt, pp, err := legacyR.FindRoute(req)
			if err != nil {
				return nil, nil, "", map[string]any{"routeError": "legacy FindRoute: " + err.Error()}
			}
			return rt, pp, "legacy", nil
		}
		return handRoute, b.pathValues, "direct", nil
	}
	route, pathParams, routeUsed, bad := find(req)
	if bad != nil {
		return bad
	}
	in := &openapi3filter.RequestValidationInput{Request: req, PathParams: pathParams, Route: route}
	obs := c07Call(c, in, b.doc, "new")
	// the history: further calls on the same input, on a new input around the same request, or with a new request
	// against the same document / route / router; every entry overrides the option fields of the case
	hist := []any{}
	for _, st := range jlist(c["history"]) {
		sm, _ := st.(map[string]any)
		sc := cloneCase(c)
		for k, v := range sm {
			if k != "reuse" && k != "optsHow" {
				sc[k] = v
			}
		}
		switch jstr(sm, "reuse") {
		case "request":
			in = &openapi3filter.RequestValidationInput{Request: in.Request, PathParams: in.PathParams, Route: in.Route,
				Options: in.Options, QueryParams: in.QueryParams}
		case "sibling":
			// a request for the other operation of the same path item: same URL, query, headers and cookies, GET, no body
			req2 := c07Request(c, b, jstr(build, "req"))
			req2.Method, req2.Body, req2.GetBody, req2.ContentLength = "GET", http.NoBody, nil, 0
			req2.Header.Del("Content-Type")
			rt, pp, _, bad := find(req2)
			if bad != nil {
				return bad
			}
			if rt.Operation == nil || rt.Operation != b.pathItem.Get {
				return map[string]any{"routeError": "the sibling operation was not routed to"}
			}
			// (the input of the case's own operation stays the one later "input" / "request" steps reuse)
			sin := &openapi3filter.RequestValidationInput{Request: req2, PathParams: pp, Route: rt, Options: in.Options}
			hist = append(hist, c07Call(sc, sin, b.doc, jstr(sm, "optsHow")))
			in.Options = sin.Options
			continue
		case "doc":
			req2 := c07Request(c, b, jstr(build, "req"))
			rt, pp, _, bad := find(req2)
			if bad != nil {
				return bad
			}
			in = &openapi3filter.RequestValidationInput{Request: req2, PathParams: pp, Route: rt, Options: in.Options}
		}
		hist = append(hist, c07Call(sc, in, b.doc, jstr(sm, "optsHow")))
	}
	obs["hist"] = hist
	obs["route"], obs["doc"] = routeUsed, docUsed
	obs["kind"] = fmt.Sprint(obs["kind"]) + "/doc:" + docUsed + "/route:" + routeUsed
	return obs
}

// c07Call sets the Options of the input as the (step) case says — nil, a new struct, or the fields of the struct
// already there — and calls the real ValidateRequest once.
func c07Call(c hx.Case, in *openapi3filter.RequestValidationInput, doc *openapi3.T, optsHow string) map[string]any {
	accepted := map[string]bool{}
	for _, n := range jlist(c["accepted"]) {
		accepted[n.(string)] = true
	}
	var mu sync.Mutex
	authLog := []string{}
	readsBody := jbool(c, "authReadsBody")
	opts := &openapi3filter.Options{}
	if optsHow == "mutate" && in.Options != nil {
		opts = in.Options
	}
	opts.ExcludeRequestBody = jbool(c, "excludeBody")
	opts.ExcludeRequestQueryParams = jbool(c, "excludeQuery")
	opts.MultiError = jbool(c, "multi")
	// the fields of Options the orchestration must not look at
	other := map[string]bool{}
	for _, n := range toStrs(c["otherOpts"]) {
		other[n] = true
	}
	opts.ExcludeResponseBody = other["ExcludeResponseBody"]
	opts.ExcludeReadOnlyValidations = other["ExcludeReadOnlyValidations"]
	opts.ExcludeWriteOnlyValidations = other["ExcludeWriteOnlyValidations"]
	opts.IncludeResponseStatus = other["IncludeResponseStatus"]
	opts.SkipSettingDefaults = other["SkipSettingDefaults"]
	if other["CustomSchemaErrorFunc"] {
		opts.WithCustomSchemaErrorFunc(func(err *openapi3.SchemaError) string { return "custom" })
	} else {
		opts.WithCustomSchemaErrorFunc(nil)
	}
	opts.AuthenticationFunc = nil
	if !jbool(c, "authNil") {
		opts.AuthenticationFunc = func(ctx context.Context, ai *openapi3filter.AuthenticationInput) error {
			key := c07Key(ai.SecuritySchemeName, ai.Scopes)
			var want *openapi3.SecurityScheme
			if cs := doc.Components; cs != nil {
				if ref := cs.SecuritySchemes[ai.SecuritySchemeName]; ref != nil {
					want = ref.Value
				}
			}
			if ai.SecurityScheme == nil || ai.SecurityScheme != want {
				key += "!scheme"
			}
			mu.Lock()
			authLog = append(authLog, key)
			mu.Unlock()
			if readsBody {
				if r := ai.RequestValidationInput.Request; r != nil && r.Body != nil {
					_, _ = io.ReadAll(r.Body)
				}
			}
			if accepted[c07Key(ai.SecuritySchemeName, ai.Scopes)] {
				return nil
			}
			return errors.New("denied")
		}
	}
	in.Options = opts
	if jbool(c, "optionsNil") {
		in.Options = nil
	}
	err := openapi3filter.ValidateRequest(context.Background(), in)
	parts := []string{}
	var classify func(e error)
	classify = func(e error) {
		if m, ok := e.(openapi3.MultiError); ok {
			for _, x := range m {
				classify(x)
			}
			return
		}
		var se *openapi3filter.SecurityRequirementsError
		var re *openapi3filter.RequestError
		switch {
		case errors.As(e, &se):
			parts = append(parts, "security")
		case errors.As(e, &re):
			if re.Parameter != nil {
				parts = append(parts, fmt.Sprintf("param:%s:%s", re.Parameter.In, re.Parameter.Name))
			} else if re.RequestBody != nil {
				parts = append(parts, "body")
			} else {
				parts = append(parts, "request-error:"+re.Error())
			}
		default:
			parts = append(parts, "other:"+e.Error())
		}
	}
	shape := "nil"
	if err != nil {
		shape = "single"
		if _, ok := err.(openapi3.MultiError); ok {
			shape = "multi"
		}
		classify(err)
	}
	kind := "reject"
	if err == nil {
		kind = "ok"
	}
	return map[string]any{"ok": err == nil, "shape": shape, "parts": parts, "authLog": authLog, "kind": kind}
}

func sameStrs(a, b []string, ordered bool) bool {
	if len(a) != len(b) {
		return false
	}
	if !ordered {
		a = append([]string{}, a...)
		b = append([]string{}, b...)
		sort.Strings(a)
		sort.Strings(b)
	}
	for i := range a {
		if a[i] != b[i] {
			return false
		}
	}
	return true
}

func toStrs(v any) []string {
	out := []string{}
	for _, x := range jlist(v) {
		if s, ok := x.(string); ok {
			out = append(out, s)
		}
	}
	return out
}

func c07Uniq(l []string) []string {
	out := []string{}
	seen := map[string]bool{}
	for _, s := range l {
		if !seen[s] {
			seen[s] = true
			out = append(out, s)
		}
	}
	sort.Strings(out)
	return out
}

func cmpC07(c hx.Case, impl any, reply map[string]any) hx.Verdict {
	im, _ := impl.(map[string]any)
	model, _ := reply["model"].(map[string]any)
	spec, _ := reply["spec"].(map[string]any)
	v := hx.Verdict{IM: true, IS: true}
	if im == nil || model == nil || spec == nil {
		return hx.Verdict{IM: false, IS: im != nil && im["panic"] == nil, Detail: "missing observation"}
	}
	if _, p := im["panic"]; p {
		return hx.Verdict{IM: false, IS: false, Detail: "implementation panicked: " + fmt.Sprint(im["panic"])}
	}
	if e, bad := im["routeError"]; bad {
		return hx.Verdict{IM: false, IS: true, Detail: "the runner could not route the request: " + fmt.Sprint(e)}
	}
	if b, ok := model["composeAgree"].(bool); ok && !b {
		v.IM = false
		v.Detail = "composition: the parameter decision of the C05 model or the body verdict of the C06 model differs from the bit the case's facts give"
	}
	c07CmpOne(&v, "", jbool(c, "multi") && !jbool(c, "optionsNil"), im, model, spec)
	// every later call of the history against the model's / the specification's entry for it
	ih, mh, sh := jlist(im["hist"]), jlist(model["hist"]), jlist(spec["hist"])
	steps := jlist(c["history"])
	if len(ih) != len(steps) || len(mh) != len(steps) || len(sh) != len(steps) {
		v.IM = false
		v.Detail = fmt.Sprintf("history: %d steps, %d observed, %d modelled, %d specified", len(steps), len(ih), len(mh), len(sh))
		return v
	}
	for i, st := range steps {
		sm, _ := st.(map[string]any)
		multi, optionsNil := jbool(c, "multi"), jbool(c, "optionsNil")
		if x, ok := sm["multi"].(bool); ok {
			multi = x
		}
		if x, ok := sm["optionsNil"].(bool); ok {
			optionsNil = x
		}
		io, _ := ih[i].(map[string]any)
		mo, _ := mh[i].(map[string]any)
		so, _ := sh[i].(map[string]any)
		if io == nil || mo == nil || so == nil {
			v.IM = false
			v.Detail = fmt.Sprintf("history call %d: missing observation", i+2)
			continue
		}
		c07CmpOne(&v, fmt.Sprintf("history call %d (%s, options %s): ", i+2, jstr(sm, "reuse"), jstr(sm, "optsHow")), multi && !optionsNil, io, mo, so)
	}
	return v
}

// c07CmpOne compares one call: result shape, failing parts in order and callback log with the model; verdict and
// failing parts with the specification.
func c07CmpOne(v *hx.Verdict, where string, multi bool, im, model, spec map[string]any) {
	iparts, mparts := toStrs(im["parts"]), toStrs(model["parts"])
	if jbool(im, "ok") != jbool(model, "ok") || jstr(im, "shape") != jstr(model, "shape") || !sameStrs(iparts, mparts, true) ||
		!sameStrs(toStrs(im["authLog"]), toStrs(model["authLog"]), true) {
		v.IM = false
		v.Detail = where + fmt.Sprintf("impl %v vs model %v", hx.Canon(im), hx.Canon(model))
	}
	sfail := toStrs(spec["failing"])
	if jbool(im, "ok") != jbool(spec, "accept") {
		v.IS = false
		v.Detail = where + fmt.Sprintf("verdict: impl ok=%v, spec accept=%v (spec failing parts %v)", jbool(im, "ok"), jbool(spec, "accept"), sfail)
	} else if !jbool(im, "ok") {
		if multi {
			// "the errors returned are exactly the failing parts": the same parts, as sets
			if !sameStrs(c07Uniq(iparts), c07Uniq(sfail), true) {
				v.IS = false
				v.Detail = where + fmt.Sprintf("multi-error parts: impl %v, spec %v", iparts, sfail)
			}
		} else {
			okp := len(iparts) == 1
			if okp {
				okp = false
				for _, s := range sfail {
					if s == iparts[0] {
						okp = true
					}
				}
			}
			if !okp {
				v.IS = false
				v.Detail = where + fmt.Sprintf("fail-first part: impl %v not a single member of spec %v", iparts, sfail)
			}
		}
	}
}

// ---------------------------------------------------------------- generator

func c07U(s string, scopes ...string) map[string]any {
	sc := []any{}
	for _, x := range scopes {
		sc = append(sc, x)
	}
	return map[string]any{"s": s, "sc": sc}
}

var c07SecShapes = []any{
	nil,
	[]any{},
	[]any{[]any{}},
	[]any{[]any{c07U("a")}},
	[]any{[]any{c07U("b"), c07U("a")}},
	[]any{[]any{c07U("a")}, []any{c07U("b")}},
	[]any{[]any{c07U("a"), c07U("b")}, []any{c07U("c")}},
	[]any{[]any{c07U("u")}, []any{c07U("c")}},                 // u is never declared
	[]any{[]any{c07U("a", "x")}, []any{c07U("a", "y")}},       // the same scheme under two requirements, other scopes
	[]any{[]any{c07U("a", "x", "y"), c07U("b")}, []any{c07U("a")}},
	[]any{[]any{c07U("a")}, []any{}},                          // optional authentication
}

// the (scheme, scopes) pairs the shapes use, for the verdict vectors
var c07Keys = []string{"a()", "b()", "c()", "a(x)", "a(y)", "a(x,y)"}

// name, in, then flags: R required, S sent, V valid, F by $ref
func c07P(name, in, flags string) map[string]any {
	return map[string]any{"name": name, "in": in, "required": strings.Contains(flags, "R") || in == "path",
		"sent": strings.Contains(flags, "S") || in == "path", "valid": strings.Contains(flags, "V"), "ref": strings.Contains(flags, "F")}
}

// operation-level list (nil = no list at all), path-level list
var c07ParamLayouts = [][2]any{
	{nil, []any{}},
	{[]any{}, []any{}},
	{[]any{c07P("q", "query", "SV")}, []any{c07P("q", "query", "S")}},                                   // failing path-level one overridden
	{[]any{c07P("q", "query", "S")}, []any{c07P("h", "header", "S"), c07P("id", "path", "V")}},          // two failing
	{nil, []any{c07P("q", "query", "S")}},                                                              // path-level query, no operation list at all
	{[]any{c07P("q", "header", "SV")}, []any{c07P("q", "query", "S")}},                                  // same name, other location: no override
	{[]any{c07P("c", "cookie", "S"), c07P("q", "query", "S")}, []any{c07P("c", "cookie", "SV")}},
	{[]any{c07P("id", "header", "SV"), c07P("id", "query", "SV")},
		[]any{c07P("id", "query", "S"), c07P("id", "cookie", "S"), c07P("z", "header", "S")}},         // the overriding entry is not the first of that name
	{[]any{c07P("q", "query", "SV")}, []any{c07P("q", "query", "S"), c07P("r", "header", "S")}},         // a failing one after an overridden one
	{[]any{c07P("p", "query", "R")}, []any{}},                                                          // required, absent
	{[]any{c07P("p", "query", ""), c07P("h", "header", "R")}, []any{c07P("c", "cookie", "")}},           // optional absent, required absent
	{[]any{c07P("q", "query", "SV"), c07P("q", "query", "S")}, []any{c07P("q", "query", "S")}},          // duplicate inside the operation list
	{[]any{}, []any{c07P("h", "header", "S"), c07P("h", "header", "SV")}},                               // duplicate inside the path-level list
	{[]any{c07P("id", "path", "VF")}, []any{c07P("q", "query", "SF")}},                                  // parameters by $ref
	{[]any{}, []any{c07P("q", "query", "S")}},                                                          // empty, non-nil operation list
}

func c07B(required, sent, ctOK, valid bool) map[string]any {
	return map[string]any{"required": required, "sent": sent, "ctOK": ctOK, "valid": valid}
}

var c07Bodies = []any{
	nil,
	c07B(true, true, true, true),
	c07B(true, true, true, false),
	c07B(true, false, true, true),
	c07B(false, false, true, true),
	c07B(false, true, false, true),
	c07B(false, true, true, false),
}

var c07Builds = func() []map[string]any {
	var out []map[string]any
	for _, r := range []string{"http", "httptest"} {
		for _, rt := range []string{"direct", "gorilla", "legacy"} {
			for _, d := range []string{"struct", "loaded"} {
				out = append(out, map[string]any{"req": r, "route": rt, "doc": d})
			}
		}
	}
	return out
}()

var c07BodyKinds = []string{"nil", "nobody", "empty"}

// fields of openapi3filter.Options that request orchestration does not read
var c07OtherOpts = []string{"ExcludeResponseBody", "ExcludeReadOnlyValidations", "ExcludeWriteOnlyValidations", "IncludeResponseStatus",
	"SkipSettingDefaults", "CustomSchemaErrorFunc"}

func c07Other(mask int) []any {
	out := []any{}
	for i, n := range c07OtherOpts {
		if mask&(1<<i) != 0 {
			out = append(out, n)
		}
	}
	return out
}

func genC07(ctx *hx.Ctx, emit func(hx.Case)) {
	declared := []any{"a", "b", "c"}
	n := 0
	out := func(c hx.Case) {
		if _, ok := c["build"]; !ok {
			c["build"] = c07Builds[n%len(c07Builds)]
		}
		if _, ok := c["bodyKind"]; !ok {
			c["bodyKind"] = c07BodyKinds[n%len(c07BodyKinds)]
		}
		if _, ok := c["declared"]; !ok {
			c["declared"] = declared
		}
		n++
		emit(c)
	}
	subset := func(m int) []any {
		s := []any{}
		for i, k := range c07Keys {
			if m&(1<<i) != 0 {
				s = append(s, k)
			}
		}
		return s
	}
	// which keys a shape pair can ask about (the verdict vectors range over these only)
	keysOf := func(shapes ...any) []int {
		var idx []int
		for i, k := range c07Keys {
			used := false
			for _, sh := range shapes {
				for _, r := range jlist(sh) {
					for _, u := range jlist(r) {
						um := u.(map[string]any)
						if c07Key(jstr(um, "s"), toStrs(um["sc"])) == k {
							used = true
						}
					}
				}
			}
			if used {
				idx = append(idx, i)
			}
		}
		return idx
	}
	// (1) security
	for oi, opSec := range c07SecShapes {
		for di, docSec := range c07SecShapes {
			if docSec == nil {
				continue
			}
			applicable := opSec
			if opSec == nil {
				applicable = docSec
			}
			ks := keysOf(applicable)
			for m := 0; m < 1<<len(ks); m++ {
				mask := 0
				for j, k := range ks {
					if m&(1<<j) != 0 {
						mask |= 1 << k
					}
				}
				for multi := 0; multi < 2; multi++ {
					lay := c07ParamLayouts[(oi+di+m)%len(c07ParamLayouts)]
					out(hx.Case{"opParams": lay[0], "pathParams": lay[1], "opSecurity": opSec, "docSecurity": docSec,
						"accepted": subset(mask), "body": c07Bodies[(oi+m+multi)%len(c07Bodies)],
						"excludeBody": false, "excludeQuery": (di+m)%3 == 0, "multi": multi == 1,
						"authReadsBody": (oi+di+m)%2 == 0})
				}
			}
			// no callback at all
			for multi := 0; multi < 2; multi++ {
				out(hx.Case{"opParams": nil, "pathParams": []any{}, "opSecurity": opSec, "docSecurity": docSec, "accepted": []any{},
					"authNil": true, "body": nil, "excludeBody": false, "excludeQuery": false, "multi": multi == 1,
					"optionsNil": multi == 0 && (oi+di)%2 == 0})
			}
			// every way a scheme can be undeclared
			for hi, how := range []string{"noComponents", "noSchemes", "nilValue"} {
				dcl := []any{}
				if how == "nilValue" {
					dcl = []any{"a"}
				}
				out(hx.Case{"opParams": nil, "pathParams": []any{}, "opSecurity": opSec, "docSecurity": docSec, "accepted": subset(63),
					"declared": dcl, "undeclaredHow": how, "body": nil, "excludeBody": false, "excludeQuery": false, "multi": (oi+di+hi)%2 == 0})
			}
		}
	}
	// (2) parameters × options × body × passing / failing security
	for li, lay := range c07ParamLayouts {
		for o := 0; o < 8; o++ {
			for bi, body := range c07Bodies {
				for sec := 0; sec < 2; sec++ {
					acc := []any{}
					if sec == 0 {
						acc = []any{"a()"}
					}
					out(hx.Case{"opParams": lay[0], "pathParams": lay[1], "opSecurity": nil, "docSecurity": c07SecShapes[3],
						"accepted": acc, "body": body, "excludeBody": o&1 != 0, "excludeQuery": o&2 != 0, "multi": o&4 != 0,
						"authReadsBody": (li+o+bi)%2 == 1, "noise": (li+o+bi+sec)%2 == 0, "otherOpts": c07Other((li*7 + o*5 + bi*3 + sec) % 64)})
				}
			}
		}
	}
	// (3) every construction of document, route and request, with and without a body-reading callback, on representative operations
	for li, lay := range c07ParamLayouts {
		for _, build := range c07Builds {
			for rb := 0; rb < 2; rb++ {
				for o := 0; o < 8; o++ {
					if !ctx.Thorough() && (li+o+rb)%2 == 1 {
						continue // the quick tier takes every other option set per layout
					}
					body := c07Bodies[(li+o)%len(c07Bodies)]
					acc := []any{"a()", "a(x)"}
					if o%3 == 0 {
						acc = []any{}
					}
					out(hx.Case{"opParams": lay[0], "pathParams": lay[1], "opSecurity": c07SecShapes[(li+o)%len(c07SecShapes)],
						"docSecurity": c07SecShapes[8], "accepted": acc, "body": body, "bodyKind": c07BodyKinds[(li+o+rb)%3],
						"excludeBody": o&1 != 0, "excludeQuery": o&2 != 0, "multi": o&4 != 0, "authReadsBody": rb == 1, "build": build})
				}
			}
		}
		// nil Options: no exclusion, fail-first, no callback
		for _, build := range c07Builds {
			for _, sec := range []any{nil, c07SecShapes[1], c07SecShapes[2], c07SecShapes[3]} {
				out(hx.Case{"opParams": lay[0], "pathParams": lay[1], "opSecurity": sec, "docSecurity": []any{}, "accepted": []any{},
					"authNil": true, "optionsNil": true, "body": c07Bodies[li%len(c07Bodies)], "excludeBody": false, "excludeQuery": false,
					"multi": false, "build": build})
			}
		}
	}
	// (5) histories: the case's own call, then further calls that reuse the same RequestValidationInput, a new input
	// around the same *http.Request, or a new request against the same document / route / router — each with its own
	// Options (a new struct, the fields of the old struct rewritten in place, or nil)
	optStep := func(reuse, how string, o int, acc []any, extra map[string]any) map[string]any {
		st := map[string]any{"reuse": reuse, "optsHow": how, "excludeBody": o&1 != 0, "excludeQuery": o&2 != 0, "multi": o&4 != 0,
			"accepted": acc, "authNil": false, "optionsNil": false}
		for k, v := range extra {
			st[k] = v
		}
		return st
	}
	reuses := []string{"input", "request", "doc"}
	hows := []string{"new", "mutate"}
	for li, lay := range c07ParamLayouts {
		for bi, body := range c07Bodies {
			for ri, reuse := range reuses {
				for hi, how := range hows {
					if !ctx.Thorough() && (li+bi+ri+hi)%2 == 1 {
						continue
					}
					o := (li + bi + ri) % 8
					yes, no := []any{"a()"}, []any{}
					hist := []any{
						optStep(reuse, how, o^7, no, nil),                                         // every flag flipped, the callback now refuses
						optStep(reuse, how, (o+3)%8, yes, map[string]any{"optionsNil": (li+bi)%2 == 0}), // nil Options in the middle of a history
						optStep(reuse, how, o, yes, map[string]any{"authNil": hi == 1 && bi%2 == 0}),  // back to the first call's options
						optStep(reuses[(ri+1)%3], hows[(hi+1)%2], o, yes, nil),                     // the first call again, reached another way
					}
					out(hx.Case{"opParams": lay[0], "pathParams": lay[1], "opSecurity": nil, "docSecurity": c07SecShapes[3],
						"accepted": yes, "body": body, "excludeBody": o&1 != 0, "excludeQuery": o&2 != 0, "multi": o&4 != 0,
						"authReadsBody": (li+bi+hi)%2 == 0, "history": hist})
				}
			}
		}
	}
	// two operations of one path item: the case's operation, then its sibling (no parameters of its own: every
	// path-level parameter is in effect), the first again, the sibling again
	for li, lay := range c07ParamLayouts {
		for o := 0; o < 8; o++ {
			yes := []any{"a()"}
			hist := []any{
				optStep("sibling", hows[o%2], o, yes, nil),
				optStep("doc", hows[(o+1)%2], o, yes, nil),
				optStep("sibling", "new", o^4, yes, nil),
				optStep("input", "mutate", o^3, yes, nil),
			}
			out(hx.Case{"opParams": lay[0], "pathParams": lay[1], "opSecurity": c07SecShapes[(li+o)%4], "docSecurity": c07SecShapes[3],
				"accepted": yes, "body": c07Bodies[(li+o)%len(c07Bodies)], "excludeBody": o&1 != 0, "excludeQuery": o&2 != 0, "multi": o&4 != 0,
				"authReadsBody": (li+o)%2 == 0, "history": hist})
		}
	}
	for oi, opSec := range c07SecShapes {
		for di, docSec := range c07SecShapes {
			if docSec == nil {
				continue
			}
			reuse, how := reuses[(oi+di)%3], hows[(oi+di/3)%2]
			lay := c07ParamLayouts[(oi+2*di)%len(c07ParamLayouts)]
			hist := []any{
				optStep(reuse, how, 4, subset(63), nil),
				optStep(reuse, how, 0, subset(0), nil),
				optStep(reuse, how, 4, subset(0), map[string]any{"optionsNil": true}),
				optStep(reuse, how, 4, subset(1|8), nil),
				optStep(reuse, how, 0, subset(63), map[string]any{"authNil": true}),
			}
			out(hx.Case{"opParams": lay[0], "pathParams": lay[1], "opSecurity": opSec, "docSecurity": docSec, "accepted": subset(2 | 4 | 16),
				"body": c07Bodies[(oi+di)%len(c07Bodies)], "excludeBody": false, "excludeQuery": false, "multi": (oi+di)%2 == 0,
				"authNil": oi%4 == 0, "authReadsBody": di%2 == 0, "history": hist})
		}
	}
	// (4) random stream
	count := 20000
	if ctx.Thorough() {
		count = 300000
	}
	r := ctx.Rng
	ins := []string{"query", "header", "cookie", "path"}
	pnames := []string{"p", "q", "r"}
	for i := 0; i < count; i++ {
		sentMap := map[string]bool{}
		sentOf := func(in, name string) bool {
			k := in + ":" + name
			if v, ok := sentMap[k]; ok {
				return v
			}
			sentMap[k] = in == "path" || r.Chance(85)
			return sentMap[k]
		}
		allowDup := r.Chance(15)
		randParams := func() []any {
			out := []any{}
			seen := map[string]bool{}
			for i, k := 0, r.Intn(5); i < k; i++ {
				name, in := hx.Pick(r, pnames), hx.Pick(r, ins)
				key := in + ":" + name
				if seen[key] && !allowDup {
					continue
				}
				seen[key] = true
				out = append(out, map[string]any{"name": name, "in": in, "required": in == "path" || r.Chance(50),
					"sent": sentOf(in, name), "valid": r.Chance(80), "ref": r.Chance(15)})
			}
			return out
		}
		schemes := []string{"a", "b", "c", "u"}
		scopeSets := [][]string{{}, {}, {"x"}, {"y"}, {"x", "y"}}
		var keys []string
		randReqs := func() any {
			rs := []any{}
			for i, k := 0, r.Intn(4); i < k; i++ {
				req := []any{}
				seen := map[string]bool{}
				for j, m := 0, r.Intn(4); j < m; j++ {
					s := hx.Pick(r, schemes)
					if !seen[s] {
						seen[s] = true
						sc := hx.Pick(r, scopeSets)
						req = append(req, c07U(s, sc...))
						keys = append(keys, c07Key(s, sc))
					}
				}
				rs = append(rs, req)
			}
			return rs
		}
		var opSec any
		if r.Chance(50) {
			opSec = randReqs()
		}
		docSec := randReqs()
		acc := []any{}
		for _, k := range c07Uniq(keys) {
			if r.Chance(70) {
				acc = append(acc, k)
			}
		}
		var opParams any
		if r.Chance(85) {
			opParams = randParams()
		}
		var body any
		if r.Chance(65) {
			body = c07B(r.Chance(50), r.Chance(80), r.Chance(90), r.Chance(80))
		}
		c := hx.Case{"opParams": opParams, "pathParams": randParams(), "opSecurity": opSec, "docSecurity": docSec,
			"accepted": acc, "body": body, "bodyKind": hx.Pick(r, []string{"nil", "nobody", "empty", "json"}),
			"excludeBody": r.Chance(30), "excludeQuery": r.Chance(30), "multi": r.Bool(),
			"authReadsBody": r.Chance(40), "build": hx.Pick(r, c07Builds)}
		if r.Chance(8) {
			c["authNil"] = true
		}
		if r.Chance(30) {
			c["noise"] = true
		}
		if r.Chance(40) {
			c["otherOpts"] = c07Other(r.Intn(64))
		}
		if r.Chance(25) {
			hist := []any{}
			for k, m := 0, 1+r.Intn(3); k < m; k++ {
				a2 := []any{}
				for _, key := range c07Uniq(keys) {
					if r.Chance(60) {
						a2 = append(a2, key)
					}
				}
				hist = append(hist, map[string]any{"reuse": hx.Pick(r, []string{"input", "request", "doc", "sibling"}), "optsHow": hx.Pick(r, []string{"new", "mutate"}),
					"excludeBody": r.Chance(40), "excludeQuery": r.Chance(40), "multi": r.Bool(), "accepted": a2,
					"authNil": r.Chance(10), "optionsNil": r.Chance(10), "authReadsBody": r.Chance(40), "otherOpts": c07Other(r.Intn(64))})
			}
			c["history"] = hist
		}
		if r.Chance(10) {
			how := hx.Pick(r, []string{"noComponents", "noSchemes", "nilValue"})
			c["undeclaredHow"] = how
			if how == "nilValue" {
				c["declared"] = []any{"a"}
			} else {
				c["declared"] = []any{}
			}
		}
		out(c)
	}
}

func cloneCase(c hx.Case) hx.Case {
	out := hx.Case{}
	for k, v := range c {
		out[k] = v
	}
	return out
}

func dropEach(l []any) [][]any {
	var out [][]any
	for i := range l {
		n := append(append([]any{}, l[:i]...), l[i+1:]...)
		out = append(out, n)
	}
	return out
}

func shrinkC07(c hx.Case) []hx.Case {
	var out []hx.Case
	for _, k := range []string{"history", "otherOpts", "opParams", "pathParams", "docSecurity", "opSecurity", "accepted"} {
		if l, ok := c[k].([]any); ok {
			for _, n := range dropEach(l) {
				x := cloneCase(c)
				x[k] = n
				out = append(out, x)
			}
		}
	}
	for _, k := range []string{"opSecurity", "docSecurity"} {
		if l, ok := c[k].([]any); ok {
			for i, r := range l {
				for _, n := range dropEach(jlist(r)) {
					x := cloneCase(c)
					nl := append([]any{}, l...)
					nl[i] = n
					x[k] = nl
					out = append(out, x)
				}
			}
		}
	}
	for _, k := range []string{"excludeBody", "excludeQuery", "multi", "authReadsBody", "optionsNil", "noise"} {
		if jbool(c, k) {
			x := cloneCase(c)
			x[k] = false
			out = append(out, x)
		}
	}
	if c["body"] != nil {
		x := cloneCase(c)
		x["body"] = nil
		out = append(out, x)
	}
	if b, ok := c["build"].(map[string]any); ok {
		for k, plain := range map[string]string{"req": "http", "route": "direct", "doc": "struct"} {
			if jstr(b, k) != plain {
				x := cloneCase(c)
				nb := map[string]any{}
				for kk, vv := range b {
					nb[kk] = vv
				}
				nb[k] = plain
				x["build"] = nb
				out = append(out, x)
			}
		}
	}
	// parameters by $ref → inline
	for _, k := range []string{"opParams", "pathParams"} {
		if l, ok := c[k].([]any); ok {
			for i, p := range l {
				if pm, ok := p.(map[string]any); ok && jbool(pm, "ref") {
					x := cloneCase(c)
					nl := append([]any{}, l...)
					np := map[string]any{}
					for kk, vv := range pm {
						np[kk] = vv
					}
					np["ref"] = false
					nl[i] = np
					x[k] = nl
					out = append(out, x)
				}
			}
		}
	}
	return out
}
