package main

// C07 — a request passes iff security, every effective parameter and the body pass.
// Real code exercised: openapi3filter.ValidateRequest (with ValidateSecurityRequirements,
// ValidateParameter, ValidateRequestBody underneath) on operations built from the case.

import (
	"bytes"
	"context"
	"errors"
	"fmt"
	"net/http"
	"net/url"
	"sort"
	"sync"

	"github.com/getkin/kin-openapi/openapi3"
	"github.com/getkin/kin-openapi/openapi3filter"
	"github.com/getkin/kin-openapi/routers"

	"kinverif/internal/hx"
)

func init() {
	hx.Register(&hx.Prop{
		ID: "C07",
		Rule: "exhaustive: 8 operation-level × 8 document-level security shapes × all 8 acceptance vectors of 3 schemes × 8 option sets × 6 parameter layouts " +
			"(overrides, path-level query, failing/passing) × body present/absent/ok; plus seeded random operations with up to 4+4 parameters and 3 requirements. " +
			"A case is non-trivial when the model reports at least one non-default branch (operation-level list, empty list/requirement, override, exclusion option in effect, multi-error, several failing parts).",
		Exhaustive: true,
		Gen:        genC07,
		Run:        runC07,
		Compare:    cmpC07,
		Shrink:     shrinkC07,
		Assumptions: []string{
			"verdicts of ValidateParameter/ValidateRequestBody are controlled through stub schemas (integer with maximum 9 or 1 against the value 5; body schema requiring a present or an absent property)",
			"authentication callback non-nil (a nil callback is outside the property's quantifier)",
		},
	})
}

func jlist(v any) []any {
	l, _ := v.([]any)
	return l
}
func jstr(m map[string]any, k string) string { s, _ := m[k].(string); return s }
func jbool(m map[string]any, k string) bool  { b, _ := m[k].(bool); return b }

func c07Param(pm map[string]any) *openapi3.ParameterRef {
	max := 9.0
	if !jbool(pm, "ok") {
		max = 1.0
	}
	sch := openapi3.NewIntegerSchema()
	sch.Max = &max
	p := &openapi3.Parameter{Name: jstr(pm, "name"), In: jstr(pm, "in"), Schema: sch.NewRef()}
	if p.In == "path" {
		p.Required = true
	}
	return &openapi3.ParameterRef{Value: p}
}

func c07Reqs(v any) openapi3.SecurityRequirements {
	srs := openapi3.SecurityRequirements{}
	for _, r := range jlist(v) {
		sr := openapi3.SecurityRequirement{}
		for _, n := range jlist(r) {
			sr[n.(string)] = []string{}
		}
		srs = append(srs, sr)
	}
	return srs
}

func runC07(c hx.Case) any {
	doc := &openapi3.T{OpenAPI: "3.0.0", Info: &openapi3.Info{Title: "t", Version: "1"}, Paths: openapi3.NewPaths()}
	doc.Components = &openapi3.Components{SecuritySchemes: openapi3.SecuritySchemes{}}
	for _, n := range jlist(c["declared"]) {
		doc.Components.SecuritySchemes[n.(string)] = &openapi3.SecuritySchemeRef{Value: openapi3.NewSecurityScheme().WithType("http").WithScheme("basic")}
	}
	doc.Security = c07Reqs(c["docSecurity"])
	op := &openapi3.Operation{Responses: openapi3.NewResponses()}
	if c["opSecurity"] != nil {
		s := c07Reqs(c["opSecurity"])
		op.Security = &s
	}
	pathParamsVals := map[string]string{}
	q := url.Values{}
	req, _ := http.NewRequest("POST", "http://example.com/x", nil)
	addReq := func(pm map[string]any) {
		name := jstr(pm, "name")
		switch jstr(pm, "in") {
		case "path":
			pathParamsVals[name] = "5"
		case "query":
			q.Set(name, "5")
		case "header":
			req.Header.Set(name, "5")
		case "cookie":
			found := false
			for _, ck := range req.Cookies() {
				if ck.Name == name {
					found = true
				}
			}
			if !found {
				req.AddCookie(&http.Cookie{Name: name, Value: "5"})
			}
		}
	}
	for _, pm := range jlist(c["opParams"]) {
		op.Parameters = append(op.Parameters, c07Param(pm.(map[string]any)))
		addReq(pm.(map[string]any))
	}
	pi := &openapi3.PathItem{Post: op}
	for _, pm := range jlist(c["pathParams"]) {
		pi.Parameters = append(pi.Parameters, c07Param(pm.(map[string]any)))
		addReq(pm.(map[string]any))
	}
	req.URL.RawQuery = q.Encode()
	if jbool(c, "hasBody") {
		need := "a"
		if !jbool(c, "bodyOK") {
			need = "b"
		}
		sch := openapi3.NewObjectSchema()
		sch.Required = []string{need}
		op.RequestBody = &openapi3.RequestBodyRef{Value: openapi3.NewRequestBody().WithJSONSchema(sch)}
		body := []byte(`{"a":1}`)
		req.Body = http.NoBody
		req, _ = http.NewRequest("POST", req.URL.String(), bytes.NewReader(body))
		req.Header.Set("Content-Type", "application/json")
		// re-add header/cookie parameters on the new request
		for _, l := range [][]any{jlist(c["opParams"]), jlist(c["pathParams"])} {
			for _, pm := range l {
				m := pm.(map[string]any)
				if in := jstr(m, "in"); in == "header" || in == "cookie" {
					func() {
						name := jstr(m, "name")
						if in == "header" {
							req.Header.Set(name, "5")
							return
						}
						for _, ck := range req.Cookies() {
							if ck.Name == name {
								return
							}
						}
						req.AddCookie(&http.Cookie{Name: name, Value: "5"})
					}()
				}
			}
		}
	}
	doc.Paths.Set("/x", pi)
	accepted := map[string]bool{}
	for _, n := range jlist(c["accepted"]) {
		accepted[n.(string)] = true
	}
	var mu sync.Mutex
	authLog := []string{}
	opts := &openapi3filter.Options{
		ExcludeRequestBody:        jbool(c, "excludeBody"),
		ExcludeRequestQueryParams: jbool(c, "excludeQuery"),
		MultiError:                jbool(c, "multi"),
		AuthenticationFunc: func(ctx context.Context, ai *openapi3filter.AuthenticationInput) error {
			mu.Lock()
			authLog = append(authLog, ai.SecuritySchemeName)
			mu.Unlock()
			if accepted[ai.SecuritySchemeName] {
				return nil
			}
			return errors.New("denied")
		},
	}
	in := &openapi3filter.RequestValidationInput{Request: req, PathParams: pathParamsVals,
		Route: &routers.Route{Spec: doc, Path: "/x", PathItem: pi, Method: "POST", Operation: op}, Options: opts}
	err := openapi3filter.ValidateRequest(context.Background(), in)
	parts := []string{}
	var classify func(e error)
	classify = func(e error) {
		var me openapi3.MultiError
		if m, ok := e.(openapi3.MultiError); ok {
			me = m
			for _, x := range me {
				classify(x)
			}
			return
		}
		var se *openapi3filter.SecurityRequirementsError
		var re *openapi3filter.RequestError
		switch {
		case errors.As(e, &se):
			parts = append(parts, "security")
		case errors.As(e, &re):
			if re.Parameter != nil {
				parts = append(parts, fmt.Sprintf("param:%s:%s", re.Parameter.In, re.Parameter.Name))
			} else if re.RequestBody != nil {
				parts = append(parts, "body")
			} else {
				parts = append(parts, "request-error:"+re.Error())
			}
		default:
			parts = append(parts, "other:"+e.Error())
		}
	}
	if err != nil {
		classify(err)
	}
	return map[string]any{"ok": err == nil, "parts": parts, "authLog": authLog}
}

func sameStrs(a, b []string, ordered bool) bool {
	if len(a) != len(b) {
		return false
	}
	if !ordered {
		a = append([]string{}, a...)
		b = append([]string{}, b...)
		sort.Strings(a)
		sort.Strings(b)
	}
	for i := range a {
		if a[i] != b[i] {
			return false
		}
	}
	return true
}

func toStrs(v any) []string {
	out := []string{}
	for _, x := range jlist(v) {
		if s, ok := x.(string); ok {
			out = append(out, s)
		}
	}
	return out
}

func cmpC07(c hx.Case, impl any, reply map[string]any) hx.Verdict {
	im, _ := impl.(map[string]any)
	model, _ := reply["model"].(map[string]any)
	spec, _ := reply["spec"].(map[string]any)
	v := hx.Verdict{IM: true, IS: true}
	if im == nil || model == nil || spec == nil {
		return hx.Verdict{IM: false, IS: im != nil && im["panic"] == nil, Detail: "missing observation"}
	}
	if _, p := im["panic"]; p {
		return hx.Verdict{IM: false, IS: false, Detail: "implementation panicked: " + fmt.Sprint(im["panic"])}
	}
	iparts, mparts := toStrs(im["parts"]), toStrs(model["parts"])
	if jbool(im, "ok") != jbool(model, "ok") || !sameStrs(iparts, mparts, true) || !sameStrs(toStrs(im["authLog"]), toStrs(model["authLog"]), true) {
		v.IM = false
		v.Detail = fmt.Sprintf("impl %v vs model %v", hx.Canon(im), hx.Canon(model))
	}
	sfail := toStrs(spec["failing"])
	if jbool(im, "ok") != jbool(spec, "accept") {
		v.IS = false
		v.Detail = fmt.Sprintf("verdict: impl ok=%v, spec accept=%v (spec failing parts %v)", jbool(im, "ok"), jbool(spec, "accept"), sfail)
	} else if !jbool(im, "ok") {
		if jbool(c, "multi") {
			if !sameStrs(iparts, sfail, false) {
				v.IS = false
				v.Detail = fmt.Sprintf("multi-error parts: impl %v, spec %v", iparts, sfail)
			}
		} else {
			okp := len(iparts) == 1
			if okp {
				okp = false
				for _, s := range sfail {
					if s == iparts[0] {
						okp = true
					}
				}
			}
			if !okp {
				v.IS = false
				v.Detail = fmt.Sprintf("fail-first part: impl %v not a single member of spec %v", iparts, sfail)
			}
		}
	}
	return v
}

var c07SecShapes = []any{
	nil,
	[]any{},
	[]any{[]any{}},
	[]any{[]any{"a"}},
	[]any{[]any{"b", "a"}},
	[]any{[]any{"a"}, []any{"b"}},
	[]any{[]any{"a", "b"}, []any{"c"}},
	[]any{[]any{"u"}, []any{"c"}}, // u is never declared
}

func c07P(name, in string, ok bool) map[string]any {
	return map[string]any{"name": name, "in": in, "ok": ok}
}

var c07ParamLayouts = [][2][]any{
	{{}, {}},
	{{c07P("q", "query", true)}, {c07P("q", "query", false)}},                              // failing path-level one overridden
	{{c07P("q", "query", false)}, {c07P("h", "header", false), c07P("id", "path", true)}}, // two failing
	{{}, {c07P("q", "query", false)}},                                                      // path-level query
	{{c07P("q", "header", true)}, {c07P("q", "query", false)}},                             // same name, other location: no override
	{{c07P("c", "cookie", false), c07P("q", "query", false)}, {c07P("c", "cookie", true)}},
}

func genC07(ctx *hx.Ctx, emit func(hx.Case)) {
	subsets := [][]any{}
	names := []string{"a", "b", "c"}
	for m := 0; m < 8; m++ {
		s := []any{}
		for i, n := range names {
			if m&(1<<i) != 0 {
				s = append(s, n)
			}
		}
		subsets = append(subsets, s)
	}
	declared := []any{"a", "b", "c"}
	bodies := [][2]bool{{false, true}, {true, true}, {true, false}}
	for _, opSec := range c07SecShapes {
		for _, docSec := range c07SecShapes {
			if docSec == nil {
				continue
			}
			for _, acc := range subsets {
				for o := 0; o < 8; o++ {
					for li, lay := range c07ParamLayouts {
						b := bodies[(li+o)%3]
						if !ctx.Thorough() && (li+o+len(acc))%2 == 1 && opSec != nil && len(jlist(opSec)) > 1 {
							continue // quick tier thins the largest block by half
						}
						emit(hx.Case{"opParams": lay[0], "pathParams": lay[1], "opSecurity": opSec, "docSecurity": docSec,
							"declared": declared, "accepted": acc, "hasBody": b[0], "bodyOK": b[1],
							"excludeBody": o&1 != 0, "excludeQuery": o&2 != 0, "multi": o&4 != 0})
					}
				}
			}
		}
	}
	// random stream
	n := 4000
	if ctx.Thorough() {
		n = 60000
	}
	r := ctx.Rng
	ins := []string{"query", "header", "cookie", "path"}
	pnames := []string{"p", "q", "r"}
	randParams := func() []any {
		out := []any{}
		seen := map[string]bool{}
		for i, k := 0, r.Intn(5); i < k; i++ {
			p := c07P(hx.Pick(r, pnames), hx.Pick(r, ins), r.Chance(60))
			key := jstr(p, "in") + ":" + jstr(p, "name")
			if seen[key] {
				continue // duplicates inside one list are rejected by document validation
			}
			seen[key] = true
			out = append(out, p)
		}
		return out
	}
	schemes := []string{"a", "b", "c", "u"}
	randReqs := func() any {
		rs := []any{}
		for i, k := 0, r.Intn(4); i < k; i++ {
			req := []any{}
			seen := map[string]bool{}
			for j, m := 0, r.Intn(4); j < m; j++ {
				s := hx.Pick(r, schemes)
				if !seen[s] {
					seen[s] = true
					req = append(req, s)
				}
			}
			rs = append(rs, req)
		}
		return rs
	}
	for i := 0; i < n; i++ {
		var opSec any
		if r.Chance(50) {
			opSec = randReqs()
		}
		emit(hx.Case{"opParams": randParams(), "pathParams": randParams(), "opSecurity": opSec, "docSecurity": randReqs(),
			"declared": declared, "accepted": hx.Pick(r, subsets), "hasBody": r.Chance(60), "bodyOK": r.Chance(60),
			"excludeBody": r.Chance(30), "excludeQuery": r.Chance(30), "multi": r.Bool()})
	}
}

func cloneCase(c hx.Case) hx.Case {
	out := hx.Case{}
	for k, v := range c {
		out[k] = v
	}
	return out
}

func dropEach(l []any) [][]any {
	var out [][]any
	for i := range l {
		n := append(append([]any{}, l[:i]...), l[i+1:]...)
		out = append(out, n)
	}
	return out
}

func shrinkC07(c hx.Case) []hx.Case {
	var out []hx.Case
	for _, k := range []string{"opParams", "pathParams", "docSecurity", "opSecurity", "accepted"} {
		if l, ok := c[k].([]any); ok {
			for _, n := range dropEach(l) {
				x := cloneCase(c)
				x[k] = n
				out = append(out, x)
			}
		}
	}
	for _, k := range []string{"opSecurity", "docSecurity"} {
		if l, ok := c[k].([]any); ok {
			for i, r := range l {
				for _, n := range dropEach(jlist(r)) {
					x := cloneCase(c)
					nl := append([]any{}, l...)
					nl[i] = n
					x[k] = nl
					out = append(out, x)
				}
			}
		}
	}
	for _, k := range []string{"excludeBody", "excludeQuery", "multi", "hasBody"} {
		if jbool(c, k) {
			x := cloneCase(c)
			x[k] = false
			out = append(out, x)
		}
	}
	return out
}
