package main

// C17 — v2 <-> v3 conversion preserves the API a document describes.
// Real code exercised: openapi2conv.ToV3, (*openapi3.T).Validate, openapi2conv.FromV3 on OpenAPI 2
// documents built from the case; the abstract API (`Api`, see lean/KinModel/Conv.lean §6) is computed here
// from the JSON the library marshals, and compared with the model (api3 (toV3 d), api2 (fromV3 (toV3 d)))
// and the spec (api2 d) the Lean driver computes from the same input document.

import (
	"context"
	"encoding/json"
	"fmt"
	"net/url"
	"runtime/debug"
	"sort"
	"strconv"
	"strings"

	"github.com/getkin/kin-openapi/openapi2"
	"github.com/getkin/kin-openapi/openapi2conv"
	"github.com/getkin/kin-openapi/openapi3"

	"kinverif/internal/hx"
)

func init() {
	hx.Register(&hx.Prop{
		ID: "C17",
		Rule: "exhaustive: every constraint keyword in every position (schema, query/header/path parameter, form-data field, response header, shared parameter), " +
			"every security scheme kind and OAuth2 flow, every host/basePath/schemes combination, responses with/without schema × with/without headers × produces, " +
			"operation summary / description / deprecated / tags and security requirements at operation and document level (empty lists and zero values included), " +
			"each as a one-feature document; then a seeded random stream of type-directed OpenAPI 2 documents (shared parameters/responses/definitions with references, " +
			"nested/allOf/additionalProperties schemas, x-nullable with true / false / non-boolean values, discriminator, file uploads, body or form parameters). " +
			"A case is non-trivial when the model reports at least one feature branch (keyword@position, reference kind, exclusion class).",
		Exhaustive: true,
		Gen:        genC17,
		Run:        runC17,
		RunChild:   runC17Child,
		Compare:    cmpC17,
		Shrink:     shrinkC17,
		Workers:    8,
		Assumptions: []string{
			"scalar constraint values are opaque: only non-zero values are generated (Go omits zero values when marshalling)",
			"encoding/json, the openapi2/openapi3 (un)marshallers and ResolveRefsIn are exercised, not modelled",
			"(*openapi3.T).Validate is modelled only by the component-name check (#38) and the request-body content rule (F-C17-14); generated documents stay inside what the rest of Validate accepts",
			"a shared form parameter is recognised in a v3 document by the library's own bookkeeping extension x-formData-name",
			"operations with formData parameters declare a form media type in consumes (required by the OpenAPI 2 specification)",
			"servers: an absent scheme is read as https and an absent base path as / (the converter's documented defaults)",
		},
	})
}

// ---------------------------------------------------------------- real code

// runC17: a reference inside an additionalProperties schema is followed by the reference rewriters of both
// directions (convertRefsInV3SchemaRef / convertRefsInV2SchemaRef); after ResolveRefsIn such a reference carries its
// resolved value, and a rewriter that enters it recurses without end on a cyclic definition (fatal stack overflow,
// not recoverable in-process). Those documents are evaluated in a (pooled) child process, the rest in-process.
func runC17(c hx.Case) any {
	if d := c17_jmap(c["doc"]); d != nil && c17RefUnderAddl(d, false) && c17CyclicDefs(d) {
		return hx.RunIsolated("C17", c, 30000)
	}
	return runC17Direct(c)
}

// runC17Child: the conversions are shallow; a small stack limit makes an unbounded recursion die at once
// instead of after a gigabyte of stack.
func runC17Child(c hx.Case) any {
	debug.SetMaxStack(48 << 20)
	return runC17Direct(c)
}

// c17CyclicDefs: some definition reaches itself through references
func c17CyclicDefs(d map[string]any) bool {
	defs := c17_jmap(d["definitions"])
	edges := map[string][]string{}
	var collect func(v any, out *[]string)
	collect = func(v any, out *[]string) {
		switch x := v.(type) {
		case map[string]any:
			if r, ok := x["$ref"].(string); ok && strings.HasPrefix(r, "#/definitions/") {
				*out = append(*out, r[len("#/definitions/"):])
			}
			for _, y := range x {
				collect(y, out)
			}
		case []any:
			for _, y := range x {
				collect(y, out)
			}
		}
	}
	for k, v := range defs {
		var l []string
		collect(v, &l)
		edges[k] = l
	}
	state := map[string]int{}
	var visit func(k string) bool
	visit = func(k string) bool {
		switch state[k] {
		case 1:
			return true
		case 2:
			return false
		}
		state[k] = 1
		for _, n := range edges[k] {
			if visit(n) {
				return true
			}
		}
		state[k] = 2
		return false
	}
	for k := range defs {
		if visit(k) {
			return true
		}
	}
	return false
}

func c17RefUnderAddl(v any, under bool) bool {
	switch x := v.(type) {
	case map[string]any:
		if under {
			if _, ok := x["$ref"].(string); ok {
				return true
			}
		}
		for k, y := range x {
			if c17RefUnderAddl(y, under || k == "additionalProperties") {
				return true
			}
		}
	case []any:
		for _, y := range x {
			if c17RefUnderAddl(y, under) {
				return true
			}
		}
	}
	return false
}

func runC17Direct(c hx.Case) any {
	raw, err := json.Marshal(c["doc"])
	if err != nil {
		return map[string]any{"kind": "badcase"}
	}
	var d2 openapi2.T
	if err := json.Unmarshal(raw, &d2); err != nil {
		return map[string]any{"kind": "unmarshal-error", "why": err.Error()}
	}
	d3, err := openapi2conv.ToV3(&d2)
	if err != nil {
		return map[string]any{"kind": "toV3-error", "toV3": "error", "why": err.Error()}
	}
	out := map[string]any{"kind": "ok", "toV3": "ok"}
	verr := d3.Validate(context.Background())
	out["validates"] = verr == nil
	if verr != nil {
		out["validateError"] = verr.Error()
	}
	j3, err := json.Marshal(d3)
	if err != nil {
		return map[string]any{"kind": "marshal3-error", "why": err.Error()}
	}
	var m3 map[string]any
	if err := unmarshalNum(j3, &m3); err != nil {
		return map[string]any{"kind": "marshal3-error", "why": err.Error()}
	}
	out["api3"] = c17Api3(m3)
	back, err, panicked := c17FromV3(d3)
	if panicked != "" {
		out["fromV3"] = "panic"
		out["why"] = panicked
		return out
	}
	out["fromV3"] = "ok"
	if err != nil {
		out["fromV3"] = "error"
		out["why"] = err.Error()
		return out
	}
	jb, err := json.Marshal(back)
	if err != nil {
		out["fromV3"] = "marshal-error"
		out["why"] = err.Error()
		return out
	}
	var mb map[string]any
	if err := unmarshalNum(jb, &mb); err != nil {
		out["fromV3"] = "marshal-error"
		return out
	}
	out["back"] = c17Api2(mb)
	bad := []string{}
	c17CollectRefs(mb, &bad)
	sort.Strings(bad)
	out["badRefs"] = bad
	return out
}

func c17FromV3(d3 *openapi3.T) (back *openapi2.T, err error, panicked string) {
	defer func() {
		if r := recover(); r != nil {
			panicked = fmt.Sprint(r)
		}
	}()
	back, err = openapi2conv.FromV3(d3)
	return
}

func unmarshalNum(b []byte, v any) error {
	dec := json.NewDecoder(strings.NewReader(string(b)))
	dec.UseNumber()
	return dec.Decode(v)
}

func c17CollectRefs(v any, bad *[]string) {
	switch x := v.(type) {
	case map[string]any:
		for k, y := range x {
			if k == "$ref" {
				if s, ok := y.(string); ok {
					if !(strings.HasPrefix(s, "#/definitions/") || strings.HasPrefix(s, "#/parameters/") || strings.HasPrefix(s, "#/responses/")) {
						*bad = append(*bad, s)
					}
					continue
				}
			}
			c17CollectRefs(y, bad)
		}
	case []any:
		for _, y := range x {
			c17CollectRefs(y, bad)
		}
	}
}

// ---------------------------------------------------------------- the Api abstraction (mirror of Conv.lean §3–§6)

var c17Prefixes = [][2]string{
	{"#/definitions/", "2"}, {"#/parameters/", "2"}, {"#/responses/", "2"},
	{"#/components/schemas/", "3"}, {"#/components/parameters/", "3"}, {"#/components/responses/", "3"}, {"#/components/requestBodies/", "3"},
}

// c17AbsRef reads a reference found in a document of the given version ("2" or "3").
func c17AbsRef(ref, ver string) (string, string) {
	for _, p := range c17Prefixes {
		if strings.HasPrefix(ref, p[0]) {
			name := ref[len(p[0]):]
			if p[1] == ver {
				switch p[0] {
				case "#/definitions/", "#/components/schemas/":
					return "schema", name
				case "#/parameters/", "#/components/parameters/", "#/components/requestBodies/":
					return "param", name
				default:
					return "resp", name
				}
			}
			// a reference of the other version: v2 doc holding a v3 ref is "v3:", v3 doc holding a v2 ref is "v2:"
			return "v" + p[1] + ":" + p[0], name
		}
	}
	if ver == "2" {
		return "v3:", ref
	}
	return "v2:", ref
}

var c17ConstraintFields = []string{"enum", "default", "uniqueItems", "exclusiveMinimum", "exclusiveMaximum", "minimum", "maximum",
	"multipleOf", "minLength", "maxLength", "pattern", "minItems", "maxItems", "minProperties", "maxProperties", "additionalProperties", "readOnly", "writeOnly"}

func c17_jmap(v any) map[string]any { m, _ := v.(map[string]any); return m }

func optStr(m map[string]any, k string) any {
	if s, ok := m[k].(string); ok {
		return s
	}
	return nil
}

func c17_sortedKeys(m map[string]any) []string {
	ks := make([]string, 0, len(m))
	for k := range m {
		ks = append(ks, k)
	}
	sort.Strings(ks)
	return ks
}

// c17AbsSchema: ver "2" = abs2S, "3" = abs3S. clearReq drops the node's own `required` list (form-field bookkeeping).
func c17AbsSchema(v any, ver string, clearReq bool) any {
	m := c17_jmap(v)
	if m == nil {
		return nil
	}
	if r, ok := m["$ref"].(string); ok {
		k, n := c17AbsRef(r, ver)
		return map[string]any{"ref": []any{k, n}}
	}
	ty, fmtv := optStr(m, "type"), optStr(m, "format")
	nullable := false
	var disc any
	if ver == "2" {
		if ty == "file" {
			ty, fmtv = "string", "binary"
		}
		nullable = m["x-nullable"] == true
		disc = optStr(m, "discriminator")
	} else {
		nullable = m["nullable"] == true
		if d := c17_jmap(m["discriminator"]); d != nil {
			disc = optStr(d, "propertyName")
		}
	}
	req := []any{}
	if !clearReq {
		if l, ok := m["required"].([]any); ok {
			req = l
		}
	}
	sc := map[string]any{}
	for _, f := range c17ConstraintFields {
		if x, ok := m[f]; ok {
			if f == "additionalProperties" {
				if _, isb := x.(bool); !isb {
					continue
				}
			}
			sc[f] = x
		}
	}
	kids := []any{}
	if it := c17_jmap(m["items"]); it != nil {
		kids = append(kids, map[string]any{"slot": "items", "s": c17AbsSchema(it, ver, false)})
	}
	if ps := c17_jmap(m["properties"]); ps != nil {
		for _, k := range c17_sortedKeys(ps) {
			if c17_jmap(ps[k]) == nil {
				continue
			}
			kids = append(kids, map[string]any{"slot": "prop:" + k, "s": c17AbsSchema(ps[k], ver, false)})
		}
	}
	if l, ok := m["allOf"].([]any); ok {
		for i, x := range l {
			if c17_jmap(x) == nil {
				continue
			}
			kids = append(kids, map[string]any{"slot": "allOf:" + strconv.Itoa(i), "s": c17AbsSchema(x, ver, false)})
		}
	}
	if ap := c17_jmap(m["additionalProperties"]); ap != nil {
		kids = append(kids, map[string]any{"slot": "addl", "s": c17AbsSchema(ap, ver, false)})
	}
	return map[string]any{"ty": ty, "fmt": fmtv, "nullable": nullable, "disc": disc, "req": req, "sc": sc, "kids": kids}
}

// constraints of a v2 non-body parameter / header, read as a schema
func c17ParamCons2(p map[string]any) any {
	m := map[string]any{}
	for k, v := range p {
		switch k {
		case "type", "format", "items":
			m[k] = v
		default:
			for _, f := range c17ConstraintFields {
				if f == k && k != "additionalProperties" && k != "readOnly" && k != "writeOnly" && k != "minProperties" && k != "maxProperties" {
					m[k] = v
				}
			}
		}
	}
	return c17AbsSchema(m, "2", false)
}

func c17Input2(v any) any {
	p := c17_jmap(v)
	if r, ok := p["$ref"].(string); ok {
		k, n := c17AbsRef(r, "2")
		return map[string]any{"k": "ref", "target": k, "name": n}
	}
	in, _ := p["in"].(string)
	name, _ := p["name"].(string)
	req := p["required"] == true
	switch in {
	case "body":
		return map[string]any{"k": "body", "required": req, "schema": c17AbsSchema(p["schema"], "2", false)}
	case "formData":
		return map[string]any{"k": "form", "name": name, "required": req, "cons": c17ParamCons2(p)}
	}
	return map[string]any{"k": "param", "name": name, "in": in, "required": req || in == "path", "cons": c17ParamCons2(p)}
}

func c17Param3(v any) any {
	p := c17_jmap(v)
	if r, ok := p["$ref"].(string); ok {
		k, n := c17AbsRef(r, "3")
		return map[string]any{"k": "ref", "target": k, "name": n}
	}
	in, _ := p["in"].(string)
	name, _ := p["name"].(string)
	return map[string]any{"k": "param", "name": name, "in": in, "required": p["required"] == true, "cons": c17AbsSchema(p["schema"], "3", false)}
}

func c17IsFormMime(m string) bool {
	return m == "application/x-www-form-urlencoded" || m == "multipart/form-data"
}

func contains(l []any, s string) bool {
	for _, x := range l {
		if x == s {
			return true
		}
	}
	return false
}

// the request inputs a v3 request body describes
func c17Body3(v any) []any {
	b := c17_jmap(v)
	if r, ok := b["$ref"].(string); ok {
		k, n := c17AbsRef(r, "3")
		return []any{map[string]any{"k": "ref", "target": k, "name": n}}
	}
	content := c17_jmap(b["content"])
	mimes := c17_sortedKeys(content)
	form := false
	for _, m := range mimes {
		if c17IsFormMime(m) {
			form = true
		}
	}
	var schema any
	if len(mimes) > 0 {
		schema = c17_jmap(content[mimes[0]])["schema"]
		if form {
			for _, m := range mimes {
				if c17IsFormMime(m) {
					schema = c17_jmap(content[m])["schema"]
					break
				}
			}
		}
	}
	if form {
		out := []any{}
		s := c17_jmap(schema)
		if s == nil || s["$ref"] != nil {
			return out
		}
		objReq, _ := s["required"].([]any)
		props := c17_jmap(s["properties"])
		for _, name := range c17_sortedKeys(props) {
			pm := c17_jmap(props[name])
			if r, ok := pm["$ref"].(string); ok {
				k, n := c17AbsRef(r, "3")
				if strings.HasPrefix(r, "#/components/schemas/") {
					k = "param"
				}
				out = append(out, map[string]any{"k": "ref", "target": k, "name": n})
				continue
			}
			out = append(out, map[string]any{"k": "form", "name": name, "required": contains(objReq, name), "cons": c17AbsSchema(pm, "3", true)})
		}
		return out
	}
	var s any
	if c17_jmap(schema) != nil {
		s = c17AbsSchema(schema, "3", false)
	}
	return []any{map[string]any{"k": "body", "required": b["required"] == true, "schema": s}}
}

func c17Resp2(v any) any {
	r := c17_jmap(v)
	if ref, ok := r["$ref"].(string); ok {
		k, n := c17AbsRef(ref, "2")
		return map[string]any{"ref": []any{k, n}}
	}
	desc, _ := r["description"].(string)
	hs := []any{}
	hm := c17_jmap(r["headers"])
	for _, name := range c17_sortedKeys(hm) {
		hs = append(hs, map[string]any{"name": name, "cons": c17ParamCons2(c17_jmap(hm[name]))})
	}
	return map[string]any{"desc": desc, "headers": hs, "schema": c17AbsSchema(r["schema"], "2", false)}
}

func c17Resp3(v any) any {
	r := c17_jmap(v)
	if ref, ok := r["$ref"].(string); ok {
		k, n := c17AbsRef(ref, "3")
		return map[string]any{"ref": []any{k, n}}
	}
	desc, _ := r["description"].(string)
	hs := []any{}
	hm := c17_jmap(r["headers"])
	for _, name := range c17_sortedKeys(hm) {
		hs = append(hs, map[string]any{"name": name, "cons": c17AbsSchema(c17_jmap(hm[name])["schema"], "3", false)})
	}
	var schema any
	content := c17_jmap(r["content"])
	// the property speaks of "the" schema of a response: every media type must carry the same one
	var first string
	for i, m := range c17_sortedKeys(content) {
		s := c17AbsSchema(c17_jmap(content[m])["schema"], "3", false)
		if i == 0 {
			schema, first = s, hx.Canon(s)
		} else if hx.Canon(s) != first {
			schema = map[string]any{"conflicting-media-type-schemas": true}
		}
	}
	return map[string]any{"desc": desc, "headers": hs, "schema": schema}
}

var c17Methods = []string{"delete", "get", "head", "options", "patch", "post", "put"}

var c17OpMetaFields = []string{"summary", "description", "deprecated", "tags"}

// c17OpMeta: what an operation object says beyond id, parameters and responses (zero values are "absent")
func c17OpMeta(op map[string]any) map[string]any {
	m := map[string]any{}
	for _, k := range c17OpMetaFields {
		switch x := op[k].(type) {
		case nil:
		case string:
			if x != "" {
				m[k] = x
			}
		case bool:
			if x {
				m[k] = x
			}
		case []any:
			if len(x) > 0 {
				m[k] = x
			}
		default:
			m[k] = x
		}
	}
	return m
}

// c17OpSecurity: the operation's own security requirements (`[]` is a value, absent is nil)
func c17OpSecurity(op map[string]any) any {
	if l, ok := op["security"].([]any); ok {
		return l
	}
	return nil
}

// c17DocSecurity: the document-level security requirements (an empty list says nothing)
func c17DocSecurity(d map[string]any) any {
	if l, ok := d["security"].([]any); ok && len(l) > 0 {
		return l
	}
	return nil
}

func c17Sec2(v any) any {
	s := c17_jmap(v)
	str := func(k string) string { x, _ := s[k].(string); return x }
	switch str("type") {
	case "basic":
		return map[string]any{"kind": "basic"}
	case "apiKey":
		return map[string]any{"kind": "apiKey", "in": str("in"), "pname": str("name")}
	case "oauth2":
		flow := str("flow")
		au, tu := "", ""
		if flow == "implicit" || flow == "accessCode" {
			au = str("authorizationUrl")
		}
		if flow == "accessCode" || flow == "password" || flow == "application" {
			tu = str("tokenUrl")
		}
		sc := c17_jmap(s["scopes"])
		if sc == nil {
			sc = map[string]any{}
		}
		return map[string]any{"kind": "oauth2", "flow": flow, "authUrl": au, "tokenUrl": tu, "scopes": sc}
	}
	return map[string]any{"kind": "other", "what": str("type")}
}

func c17Sec3(v any) any {
	s := c17_jmap(v)
	str := func(m map[string]any, k string) string { x, _ := m[k].(string); return x }
	switch str(s, "type") {
	case "http":
		if str(s, "scheme") == "basic" {
			return map[string]any{"kind": "basic"}
		}
		return map[string]any{"kind": "other", "what": "http " + str(s, "scheme")}
	case "apiKey":
		return map[string]any{"kind": "apiKey", "in": str(s, "in"), "pname": str(s, "name")}
	case "oauth2":
		flows := c17_jmap(s["flows"])
		names := [][2]string{{"implicit", "implicit"}, {"authorizationCode", "accessCode"}, {"password", "password"}, {"clientCredentials", "application"}}
		var found []([2]string)
		for _, n := range names {
			if c17_jmap(flows[n[0]]) != nil {
				found = append(found, n)
			}
		}
		if len(found) != 1 {
			return map[string]any{"kind": "other", "what": "oauth2 flows"}
		}
		f := c17_jmap(flows[found[0][0]])
		flow := found[0][1]
		au, tu := "", ""
		if flow == "implicit" || flow == "accessCode" {
			au = str(f, "authorizationUrl")
		}
		if flow != "implicit" {
			tu = str(f, "tokenUrl")
		}
		sc := c17_jmap(f["scopes"])
		if sc == nil {
			sc = map[string]any{}
		}
		return map[string]any{"kind": "oauth2", "flow": flow, "authUrl": au, "tokenUrl": tu, "scopes": sc}
	}
	return map[string]any{"kind": "other", "what": str(s, "type")}
}

func c17Api2(d map[string]any) any {
	ops, pathParams := []any{}, []any{}
	paths := c17_jmap(d["paths"])
	for _, p := range c17_sortedKeys(paths) {
		pi := c17_jmap(paths[p])
		for _, m := range c17Methods {
			op := c17_jmap(pi[m])
			if op == nil {
				continue
			}
			inputs := []any{}
			for _, x := range jlist(op["parameters"]) {
				inputs = append(inputs, c17Input2(x))
			}
			resps := []any{}
			rm := c17_jmap(op["responses"])
			for _, st := range c17_sortedKeys(rm) {
				resps = append(resps, map[string]any{"status": st, "r": c17Resp2(rm[st])})
			}
			opId, _ := op["operationId"].(string)
			ops = append(ops, map[string]any{"path": p, "method": m, "opId": opId, "inputs": inputs, "responses": resps, "meta": c17OpMeta(op), "security": c17OpSecurity(op)})
		}
		if l := jlist(pi["parameters"]); len(l) > 0 {
			inputs := []any{}
			for _, x := range l {
				inputs = append(inputs, c17Input2(x))
			}
			pathParams = append(pathParams, map[string]any{"path": p, "inputs": inputs})
		}
	}
	shared := []any{}
	sp := c17_jmap(d["parameters"])
	for _, k := range c17_sortedKeys(sp) {
		shared = append(shared, map[string]any{"name": k, "input": c17Input2(sp[k])})
	}
	sresps := []any{}
	sr := c17_jmap(d["responses"])
	for _, k := range c17_sortedKeys(sr) {
		sresps = append(sresps, map[string]any{"name": k, "r": c17Resp2(sr[k])})
	}
	defs := []any{}
	dm := c17_jmap(d["definitions"])
	for _, k := range c17_sortedKeys(dm) {
		defs = append(defs, map[string]any{"name": k, "schema": c17AbsSchema(dm[k], "2", false)})
	}
	host, _ := d["host"].(string)
	base, _ := d["basePath"].(string)
	schemes := toStrs(d["schemes"])
	servers := []any{}
	if !(host == "" && base == "" && len(schemes) == 0) {
		if len(schemes) == 0 {
			schemes = []string{"https"}
		}
		if base == "" {
			base = "/"
		}
		for _, s := range schemes {
			servers = append(servers, map[string]any{"scheme": s, "host": host, "base": base})
		}
	}
	secs := []any{}
	sm := c17_jmap(d["securityDefinitions"])
	for _, k := range c17_sortedKeys(sm) {
		secs = append(secs, map[string]any{"name": k, "s": c17Sec2(sm[k])})
	}
	return map[string]any{"ops": ops, "pathParams": pathParams, "shared": shared, "sharedResponses": sresps, "defs": defs, "servers": servers, "security": secs, "securityReq": c17DocSecurity(d)}
}

func c17Api3(d map[string]any) any {
	ops, pathParams := []any{}, []any{}
	paths := c17_jmap(d["paths"])
	for _, p := range c17_sortedKeys(paths) {
		pi := c17_jmap(paths[p])
		for _, m := range c17Methods {
			op := c17_jmap(pi[m])
			if op == nil {
				continue
			}
			inputs := []any{}
			for _, x := range jlist(op["parameters"]) {
				inputs = append(inputs, c17Param3(x))
			}
			if rb := c17_jmap(op["requestBody"]); rb != nil {
				inputs = append(inputs, c17Body3(rb)...)
			}
			resps := []any{}
			rm := c17_jmap(op["responses"])
			for _, st := range c17_sortedKeys(rm) {
				resps = append(resps, map[string]any{"status": st, "r": c17Resp3(rm[st])})
			}
			opId, _ := op["operationId"].(string)
			ops = append(ops, map[string]any{"path": p, "method": m, "opId": opId, "inputs": inputs, "responses": resps, "meta": c17OpMeta(op), "security": c17OpSecurity(op)})
		}
		if l := jlist(pi["parameters"]); len(l) > 0 {
			inputs := []any{}
			for _, x := range l {
				inputs = append(inputs, c17Param3(x))
			}
			pathParams = append(pathParams, map[string]any{"path": p, "inputs": inputs})
		}
	}
	comps := c17_jmap(d["components"])
	shared := []any{}
	cp := c17_jmap(comps["parameters"])
	for _, k := range c17_sortedKeys(cp) {
		shared = append(shared, map[string]any{"name": k, "input": c17Param3(cp[k])})
	}
	cb := c17_jmap(comps["requestBodies"])
	for _, k := range c17_sortedKeys(cb) {
		for _, in := range c17Body3(cb[k]) {
			shared = append(shared, map[string]any{"name": k, "input": in})
		}
	}
	defs := []any{}
	cs := c17_jmap(comps["schemas"])
	for _, k := range c17_sortedKeys(cs) {
		s := c17_jmap(cs[k])
		if fn, ok := s["x-formData-name"].(string); ok {
			req, _ := s["required"].([]any)
			shared = append(shared, map[string]any{"name": k, "input": map[string]any{"k": "form", "name": fn, "required": contains(req, fn), "cons": c17AbsSchema(s, "3", true)}})
			continue
		}
		defs = append(defs, map[string]any{"name": k, "schema": c17AbsSchema(s, "3", false)})
	}
	sresps := []any{}
	cr := c17_jmap(comps["responses"])
	for _, k := range c17_sortedKeys(cr) {
		sresps = append(sresps, map[string]any{"name": k, "r": c17Resp3(cr[k])})
	}
	servers := []any{}
	for _, s := range jlist(d["servers"]) {
		us, _ := c17_jmap(s)["url"].(string)
		u, err := url.Parse(us)
		if err != nil {
			servers = append(servers, map[string]any{"scheme": "?", "host": us, "base": ""})
			continue
		}
		servers = append(servers, map[string]any{"scheme": u.Scheme, "host": u.Host, "base": u.Path})
	}
	secs := []any{}
	sm := c17_jmap(comps["securitySchemes"])
	for _, k := range c17_sortedKeys(sm) {
		secs = append(secs, map[string]any{"name": k, "s": c17Sec3(sm[k])})
	}
	return map[string]any{"ops": ops, "pathParams": pathParams, "shared": shared, "sharedResponses": sresps, "defs": defs, "servers": servers, "security": secs, "securityReq": c17DocSecurity(d)}
}

// ---------------------------------------------------------------- comparison

// c17Canon: arrays that came out of maps / whose order is not part of the API are sorted; numbers are
// compared as float64; the opaque values under "sc" keep their order.
func c17Canon(v any, opaque bool) any {
	switch x := v.(type) {
	case map[string]any:
		out := map[string]any{}
		for k, y := range x {
			out[k] = c17Canon(y, opaque || k == "sc" || k == "meta" || k == "securityReq" || (k == "security" && !c17IsNamedList(y)))
		}
		return out
	case []any:
		out := make([]any, len(x))
		for i, y := range x {
			out[i] = c17Canon(y, opaque)
		}
		if !opaque {
			sort.SliceStable(out, func(i, j int) bool { return hx.Canon(out[i]) < hx.Canon(out[j]) })
		}
		return out
	case json.Number:
		f, err := x.Float64()
		if err != nil {
			return x.String()
		}
		return f
	}
	return v
}

// the Api's "security" key holds the named security schemes (a list of {name, s}); an operation's "security" key
// holds its requirement list, which is opaque (order kept)
func c17IsNamedList(v any) bool {
	l, ok := v.([]any)
	if !ok || len(l) == 0 {
		return false
	}
	m, ok := l[0].(map[string]any)
	return ok && m["name"] != nil && m["s"] != nil
}

func c17Same(a, b any) bool {
	return hx.Canon(c17Canon(a, false)) == hx.Canon(c17Canon(b, false))
}

// c17Diff names the first differing part of two Api values (for the detail line).
func c17Diff(a, b any) string {
	am, bm := c17_jmap(a), c17_jmap(b)
	if am == nil || bm == nil {
		return fmt.Sprintf("%s vs %s", trunc(hx.Canon(a)), trunc(hx.Canon(b)))
	}
	for _, k := range []string{"ops", "pathParams", "shared", "sharedResponses", "defs", "servers", "security", "securityReq"} {
		if !c17Same(am[k], bm[k]) {
			al, bl := jlist(c17Canon(am[k], false)), jlist(c17Canon(bm[k], false))
			for i := 0; i < len(al) || i < len(bl); i++ {
				var x, y any
				if i < len(al) {
					x = al[i]
				}
				if i < len(bl) {
					y = bl[i]
				}
				if hx.Canon(x) != hx.Canon(y) {
					return fmt.Sprintf("%s[%d]: %s vs %s", k, i, trunc(hx.Canon(x)), trunc(hx.Canon(y)))
				}
			}
			return k
		}
	}
	return ""
}

func trunc(s string) string {
	if len(s) > 700 {
		return s[:700] + "…"
	}
	return s
}

// c17Obs compares one observation (impl) with an expected outcome (model or spec shape).
func c17Obs(im map[string]any, exp map[string]any, api3Key, backKey string) (bool, string) {
	if jstr(im, "toV3") != jstr(exp, "toV3") {
		return false, fmt.Sprintf("ToV3: impl %s (%v) vs %s", jstr(im, "toV3"), im["why"], jstr(exp, "toV3"))
	}
	if jstr(exp, "toV3") != "ok" {
		return true, ""
	}
	if jbool(im, "validates") != jbool(exp, "validates") {
		return false, fmt.Sprintf("Validate of the converted document: impl %v (%v) vs %v", jbool(im, "validates"), im["validateError"], jbool(exp, "validates"))
	}
	if !c17Same(im["api3"], exp[api3Key]) {
		return false, "api3(ToV3 d): " + c17Diff(im["api3"], exp[api3Key])
	}
	if jstr(im, "fromV3") != jstr(exp, "fromV3") {
		return false, fmt.Sprintf("FromV3: impl %s (%v) vs %s", jstr(im, "fromV3"), im["why"], jstr(exp, "fromV3"))
	}
	if jstr(exp, "fromV3") != "ok" {
		return true, ""
	}
	if im["back"] == nil {
		return false, fmt.Sprintf("FromV3 failed: %v %v", im["fromV3"], im["why"])
	}
	if !c17Same(im["back"], exp[backKey]) {
		return false, "api2(FromV3(ToV3 d)): " + c17Diff(im["back"], exp[backKey])
	}
	if !sameStrs(toStrs(im["badRefs"]), toStrs(exp["badRefs"]), false) {
		return false, fmt.Sprintf("references not in v2 form after the round trip: impl %v vs %v", im["badRefs"], exp["badRefs"])
	}
	return true, ""
}

func cmpC17(c hx.Case, impl any, reply map[string]any) hx.Verdict {
	im, _ := impl.(map[string]any)
	model, _ := reply["model"].(map[string]any)
	spec, _ := reply["spec"].(map[string]any)
	if im == nil || model == nil || spec == nil {
		return hx.Verdict{IM: false, IS: im != nil && im["panic"] == nil, Detail: "missing observation"}
	}
	if cr, isCrash := im["crash"]; isCrash {
		return hx.Verdict{IM: false, IS: false, Detail: "the conversion killed the process: " + trunc(fmt.Sprint(cr))}
	}
	if im["hang"] == true {
		return hx.Verdict{IM: false, IS: false, Detail: "the conversion did not return within 30 s"}
	}
	if _, p := im["panic"]; p {
		return hx.Verdict{IM: false, IS: false, Detail: "implementation panicked: " + fmt.Sprint(im["panic"]) + " at " + fmt.Sprint(im["site"])}
	}
	if k := jstr(im, "kind"); k == "unmarshal-error" || k == "badcase" || k == "marshal3-error" {
		// the input is not a loadable OpenAPI 2 document: outside the quantifier
		return hx.Verdict{IM: false, IS: true, Detail: "input not loadable: " + fmt.Sprint(im["why"])}
	}
	v := hx.Verdict{IM: true, IS: true}
	if ok, d := c17Obs(im, model, "api3", "back"); !ok {
		v.IM = false
		v.Detail = "impl vs model: " + d
	}
	if ok, d := c17Obs(im, spec, "api", "api"); !ok {
		v.IS = false
		v.Detail = "impl vs spec: " + d + " | " + v.Detail
	}
	return v
}

// ---------------------------------------------------------------- generator

type g17 struct {
	r        *hx.Rng
	defs     []string // definition names that may be referenced
	addlBad  int      // percent chance of a not completely converted additionalProperties sub-schema
	clean    bool     // stay outside every known-finding class (the property is then checked strictly)
	noRef    bool     // no reference at this point (members of allOf inside possibly cyclic definitions)
}

func (g *g17) pick(xs ...any) any { return xs[g.r.Intn(len(xs))] }

// constraints by type; every value non-zero, defaults valid for the generated bounds
func (g *g17) constraints(m map[string]any, ty string, density int, isParam bool) {
	ch := func() bool { return g.r.Chance(density) }
	switch ty {
	case "integer", "number":
		if ch() {
			m["minimum"] = g.pick(1, 2, -3, 0)
			if ch() {
				m["exclusiveMinimum"] = true
			}
		}
		if ch() {
			m["maximum"] = g.pick(10, 20, 100)
			if ch() {
				m["exclusiveMaximum"] = true
			}
		}
		if ch() {
			if ty == "number" {
				m["multipleOf"] = g.pick(2.5, 5, 0.5)
			} else {
				m["multipleOf"] = g.pick(5, 1)
			}
		}
		if ch() {
			m["enum"] = []any{5, 10}
		}
		if ch() {
			m["default"] = 5
			if mn, has := m["minimum"]; g.r.Chance(30) && m["enum"] == nil && (!has || mn == -3 || (mn == 0 && m["exclusiveMinimum"] == nil)) {
				m["default"] = 0 // a zero value that is not "absent"
			}
		}
		if ch() {
			if ty == "integer" {
				m["format"] = g.pick("int32", "int64")
			} else {
				m["format"] = g.pick("float", "double")
			}
		}
	case "string":
		if ch() {
			m["minLength"] = g.pick(1, 2)
		}
		if ch() {
			m["maxLength"] = g.pick(5, 8)
		}
		if ch() {
			m["pattern"] = g.pick("^[a-z]+$", "^a")
		}
		if ch() {
			m["enum"] = []any{"ab", "abc"}
		}
		if ch() {
			m["default"] = "ab"
			if g.r.Chance(25) && m["minLength"] == nil && m["pattern"] == nil && m["enum"] == nil {
				m["default"] = ""
			}
		}
		if ch() {
			m["format"] = g.pick("date", "date-time", "byte", "password")
			if !g.clean && g.r.Chance(12) {
				m["format"] = "binary" // class BinaryString
			}
			delete(m, "default")
			delete(m, "enum")
			delete(m, "pattern")
			delete(m, "minLength")
			delete(m, "maxLength")
		}
	case "boolean":
		if ch() {
			m["default"] = g.r.Bool()
		}
	case "array":
		if ch() {
			m["minItems"] = g.pick(1, 2)
		}
		if ch() {
			m["maxItems"] = g.pick(3, 7)
		}
		if ch() {
			m["uniqueItems"] = true
		}
	case "object":
		if !isParam {
			if ch() {
				m["minProperties"] = 1
			}
			if ch() {
				m["maxProperties"] = g.pick(5, 9)
			}
		}
	}
}

var c17Prims = []string{"string", "integer", "number", "boolean"}

// primitive / array schema without references (items of parameters and headers)
func (g *g17) primSchema(depth int, density int) map[string]any {
	ty := hx.Pick(g.r, c17Prims)
	if depth > 0 && g.r.Chance(25) {
		ty = "array"
	}
	m := map[string]any{"type": ty}
	g.constraints(m, ty, density, true)
	if ty == "array" {
		m["items"] = g.primSchema(depth-1, density)
	}
	return m
}

func (g *g17) ref() map[string]any {
	return map[string]any{"$ref": "#/definitions/" + hx.Pick(g.r, g.defs)}
}

// pure additionalProperties sub-schema: references only along the additionalProperties chain
func (g *g17) addlSchema(depth int) any {
	if !g.noRef && len(g.defs) > 0 && g.r.Chance(35) {
		return g.ref() // rewritten in both directions since dfc5235
	}
	if !g.clean && g.r.Chance(g.addlBad) {
		// not completely converted by convertRefsInV3SchemaRef (class AddlSubschemaUnconverted)
		switch g.r.Intn(3) {
		case 0:
			return map[string]any{"type": "string", "x-nullable": true}
		case 1:
			if len(g.defs) > 0 && !g.noRef {
				return map[string]any{"type": "array", "items": g.ref()}
			}
		}
		return map[string]any{"type": "object", "properties": map[string]any{"n": map[string]any{"type": "integer", "x-nullable": true}}}
	}
	ty := hx.Pick(g.r, []string{"string", "integer", "number", "boolean", "object", "array"})
	m := map[string]any{"type": ty}
	g.constraints(m, ty, 30, false)
	if ty == "array" {
		it := map[string]any{"type": hx.Pick(g.r, c17Prims)}
		g.constraints(it, it["type"].(string), 30, false)
		m["items"] = it
	}
	if ty == "object" && depth > 0 && g.r.Chance(50) {
		m["additionalProperties"] = g.addlSchema(depth - 1)
	}
	return m
}

func (g *g17) schema(depth int, density int) map[string]any {
	if len(g.defs) > 0 && !g.noRef && g.r.Chance(22) {
		return g.ref()
	}
	if depth > 0 && g.r.Chance(12) {
		n := 1 + g.r.Intn(2)
		l := []any{}
		for i := 0; i < n; i++ {
			l = append(l, g.schema(depth-1, density))
		}
		m := map[string]any{"allOf": l}
		return m
	}
	ty := hx.Pick(g.r, []string{"string", "integer", "number", "boolean", "object", "object", "array"})
	if depth <= 0 && (ty == "object" || ty == "array") {
		ty = hx.Pick(g.r, c17Prims)
	}
	m := map[string]any{"type": ty}
	g.constraints(m, ty, density, false)
	if g.r.Chance(14) {
		// the extension's VALUE decides: true is nullability, false and non-boolean values are not
		m["x-nullable"] = g.pick(true, true, true, false, false, "yes", 1)
	}
	if g.r.Chance(6) {
		m[hx.Pick(g.r, []string{"readOnly", "writeOnly"})] = true
	}
	if g.r.Chance(8) {
		m[hx.Pick(g.r, []string{"title", "description"})] = "text"
	}
	switch ty {
	case "array":
		m["items"] = g.schema(depth-1, density)
	case "object":
		props := map[string]any{}
		names := []string{"a", "b", "kind", "n"}
		for i, k := 0, g.r.Intn(4); i < k; i++ {
			props[hx.Pick(g.r, names)] = g.schema(depth-1, density)
		}
		if len(props) > 0 {
			m["properties"] = props
			if g.r.Chance(40) {
				req := []any{}
				for _, k := range c17_sortedKeys(props) {
					if g.r.Chance(60) {
						req = append(req, k)
					}
				}
				if len(req) > 0 {
					m["required"] = req
				}
			}
			if g.r.Chance(10) { // copied back since e0e4b64
				ks := c17_sortedKeys(props)
				m["discriminator"] = ks[0]
				pm := c17_jmap(props[ks[0]])
				if pm["$ref"] == nil {
					props[ks[0]] = map[string]any{"type": "string"}
				}
				have := false
				for _, x := range jlist(m["required"]) {
					if x == ks[0] {
						have = true
					}
				}
				if !have {
					m["required"] = append(jlist(m["required"]), ks[0])
				}
			}
		}
		switch g.r.Intn(6) {
		case 0:
			m["additionalProperties"] = g.r.Bool()
		case 1, 2:
			m["additionalProperties"] = g.addlSchema(2)
		}
	}
	return m
}

var c17Locs = []string{"query", "header", "query"}

// keys shared by every namespace; the last two exercise the identifier alphabet (dot, dash, underscore)
var c17Keys = []string{"A", "B", "C", "Pet.v1", "pet-list_2"}

// defSchema: the schema of a definition. In a cyclic document a reference directly under allOf (a pure
// composition cycle, DESIGN #6) is avoided: cycles pass through properties / items / additionalProperties.
func (g *g17) defSchema(depth, density int, cyclic bool) map[string]any {
	if !cyclic {
		return g.schema(depth, density)
	}
	m := map[string]any{"type": "object"}
	props := map[string]any{}
	for i, k := 0, 1+g.r.Intn(3); i < k; i++ {
		name := hx.Pick(g.r, []string{"a", "b", "next", "items"})
		switch g.r.Intn(3) {
		case 0:
			props[name] = g.ref()
		case 1:
			props[name] = map[string]any{"type": "array", "items": g.ref()}
		default:
			g.noRef = true
			props[name] = g.schema(depth-1, density)
			g.noRef = false
		}
	}
	m["properties"] = props
	if g.r.Chance(30) {
		m["required"] = []any{c17_sortedKeys(props)[0]}
	}
	switch {
	case g.r.Chance(25):
		m["additionalProperties"] = g.ref() // may be the definition itself: the rewrite on the way back stops at a reference
	case g.r.Chance(15):
		m["additionalProperties"] = map[string]any{"type": "object", "additionalProperties": g.ref()}
	case g.r.Chance(15):
		m["additionalProperties"] = g.r.Bool()
	}
	return m
}

func (g *g17) param(name, in string, density int) map[string]any {
	ty := hx.Pick(g.r, c17Prims)
	if g.r.Chance(25) {
		ty = "array"
	}
	p := map[string]any{"name": name, "in": in, "type": ty}
	g.constraints(p, ty, density, true)
	if ty == "array" {
		p["items"] = g.primSchema(1, density)
		if g.r.Chance(30) {
			p["collectionFormat"] = g.pick("csv", "pipes", "ssv")
		}
	}
	if in == "path" || g.r.Chance(40) {
		p["required"] = true
	}
	if in == "query" && g.r.Chance(8) {
		p["allowEmptyValue"] = true
	}
	if g.r.Chance(10) {
		p["description"] = "text"
	}
	return p
}

func (g *g17) formParam(name string, density int) map[string]any {
	if g.r.Chance(25) {
		p := map[string]any{"name": name, "in": "formData", "type": "file"}
		if g.r.Chance(40) {
			p["required"] = true
		}
		return p
	}
	// required and format come back since 9a423cc / ddd71cc
	p := g.param(name, "formData", density)
	delete(p, "required")
	if g.r.Chance(35) {
		p["required"] = true
	}
	return p
}

func (g *g17) header(density int) map[string]any {
	ty := hx.Pick(g.r, c17Prims)
	if g.r.Chance(20) {
		ty = "array"
	}
	h := map[string]any{"type": ty}
	g.constraints(h, ty, density, true)
	if ty == "array" {
		h["items"] = g.primSchema(0, density)
	}
	if g.r.Chance(10) {
		h["description"] = "text"
	}
	return h
}

// every legal way to declare form media types in consumes (both may be listed, in either order)
var c17FormConsumes = [][]any{
	{"multipart/form-data"}, {"application/x-www-form-urlencoded"},
	{"multipart/form-data", "application/x-www-form-urlencoded"}, {"application/x-www-form-urlencoded", "multipart/form-data"},
}

var c17Produces = [][]any{nil, nil, {"application/json"}, {"application/xml"}, {"application/json", "application/xml"}, {"text/plain"}}

func (g *g17) response(density int, sharedResps []string) map[string]any {
	if len(sharedResps) > 0 && g.r.Chance(20) {
		return map[string]any{"$ref": "#/responses/" + hx.Pick(g.r, sharedResps)}
	}
	r := map[string]any{"description": g.pick("ok", "done", "not found")}
	if g.r.Chance(55) {
		r["schema"] = g.schema(2, density)
		if !g.clean && g.r.Chance(5) {
			r["schema"] = map[string]any{"type": "file"} // a download: class BinaryString
		}
	}
	if g.r.Chance(45) {
		hs := map[string]any{}
		for i, k := 0, 1+g.r.Intn(2); i < k; i++ {
			hs[hx.Pick(g.r, []string{"X-Rate", "X-Next", "Location"})] = g.header(density)
		}
		r["headers"] = hs
	}
	return r
}

var c17SecKinds = []string{"basic", "apiKey", "implicit", "accessCode", "password", "application"}

func c17Sec(kind string, r *hx.Rng) map[string]any {
	scopes := map[string]any{"read": "read things"}
	if r != nil && r.Bool() {
		scopes["write"] = "write things"
	}
	if r != nil && r.Chance(12) {
		scopes = map[string]any{}
	}
	switch kind {
	case "basic":
		return map[string]any{"type": "basic"}
	case "apiKey":
		in := "header"
		if r != nil && r.Bool() {
			in = "query"
		}
		return map[string]any{"type": "apiKey", "in": in, "name": "X-Key"}
	case "implicit":
		return map[string]any{"type": "oauth2", "flow": "implicit", "authorizationUrl": "https://auth.example/authorize", "scopes": scopes}
	case "accessCode":
		return map[string]any{"type": "oauth2", "flow": "accessCode", "authorizationUrl": "https://auth.example/authorize", "tokenUrl": "https://auth.example/token", "scopes": scopes}
	case "password":
		return map[string]any{"type": "oauth2", "flow": "password", "tokenUrl": "https://auth.example/token", "scopes": scopes}
	}
	return map[string]any{"type": "oauth2", "flow": "application", "tokenUrl": "https://auth.example/token2", "scopes": scopes}
}

// c17Ident turns a component key into something usable inside a parameter name
func c17Ident(s string) string {
	return strings.NewReplacer(".", "", "-", "", "_", "").Replace(s)
}

func c17Base() map[string]any {
	return map[string]any{"swagger": "2.0", "info": map[string]any{"title": "t", "version": "1"}}
}

func c17Op(id string, params []any, resps map[string]any) map[string]any {
	if resps == nil {
		resps = map[string]any{"200": map[string]any{"description": "ok"}}
	}
	op := map[string]any{"operationId": id, "responses": resps}
	if len(params) > 0 {
		op["parameters"] = params
	}
	return op
}

func c17Doc(paths map[string]any) map[string]any {
	d := c17Base()
	d["paths"] = paths
	return d
}

// one-feature documents: every constraint keyword in every position
func genC17Exhaustive(emit func(hx.Case)) {
	type kv struct {
		ty string
		k  string
		v  any
	}
	feats := []kv{
		{"integer", "minimum", 2}, {"integer", "maximum", 10}, {"integer", "exclusiveMinimum", true}, {"integer", "exclusiveMaximum", true},
		{"integer", "multipleOf", 5}, {"number", "multipleOf", 2.5}, {"integer", "enum", []any{5, 10}}, {"integer", "default", 5},
		{"integer", "format", "int32"}, {"integer", "format", "int64"}, {"number", "format", "double"},
		{"string", "minLength", 2}, {"string", "maxLength", 8}, {"string", "pattern", "^[a-z]+$"}, {"string", "enum", []any{"ab", "abc"}},
		{"string", "default", "ab"}, {"string", "format", "date"}, {"string", "format", "byte"},
		{"array", "minItems", 1}, {"array", "maxItems", 3}, {"array", "uniqueItems", true}, {"boolean", "default", true},
	}
	mk := func(f kv) map[string]any {
		m := map[string]any{"type": f.ty, f.k: f.v}
		if f.k == "exclusiveMinimum" {
			m["minimum"] = 1
		}
		if f.k == "exclusiveMaximum" {
			m["maximum"] = 10
		}
		if f.ty == "array" {
			m["items"] = map[string]any{"type": "string"}
		}
		return m
	}
	with := func(m map[string]any, extra map[string]any) map[string]any {
		out := map[string]any{}
		for k, v := range m {
			out[k] = v
		}
		for k, v := range extra {
			out[k] = v
		}
		return out
	}
	form := []any{"multipart/form-data"}
	for _, f := range feats {
		s := mk(f)
		// definition; property; items; allOf member; additionalProperties; body schema; response schema
		for _, def := range []any{
			s,
			map[string]any{"type": "object", "properties": map[string]any{"p": s}},
			map[string]any{"type": "array", "items": s},
			map[string]any{"allOf": []any{s}},
			map[string]any{"type": "object", "additionalProperties": s},
		} {
			d := c17Doc(map[string]any{"/x": map[string]any{"get": c17Op("g", nil, nil)}})
			d["definitions"] = map[string]any{"D": def}
			emit(hx.Case{"doc": d})
		}
		emit(hx.Case{"doc": c17Doc(map[string]any{"/x": map[string]any{"post": c17Op("p", []any{map[string]any{"name": "b", "in": "body", "schema": s}}, nil)}})})
		emit(hx.Case{"doc": c17Doc(map[string]any{"/x": map[string]any{"get": c17Op("g", nil, map[string]any{"200": map[string]any{"description": "ok", "schema": s}})}})})
		// parameters: query, header, path, path-level, shared; form field (inline, shared); response header (with and without schema; shared response)
		for _, in := range []string{"query", "header"} {
			for _, req := range []bool{false, true} {
				p := with(s, map[string]any{"name": "q", "in": in})
				if req {
					p["required"] = true
				}
				emit(hx.Case{"doc": c17Doc(map[string]any{"/x": map[string]any{"get": c17Op("g", []any{p}, nil)}})})
			}
		}
		pp := with(s, map[string]any{"name": "id", "in": "path", "required": true})
		emit(hx.Case{"doc": c17Doc(map[string]any{"/x/{id}": map[string]any{"get": c17Op("g", []any{pp}, nil)}})})
		emit(hx.Case{"doc": c17Doc(map[string]any{"/x/{id}": map[string]any{"parameters": []any{pp}, "get": c17Op("g", nil, nil)}})})
		sd := c17Doc(map[string]any{"/x": map[string]any{"get": c17Op("g", []any{map[string]any{"$ref": "#/parameters/sp"}}, nil)}})
		sd["parameters"] = map[string]any{"sp": with(s, map[string]any{"name": "q", "in": "query"})}
		emit(hx.Case{"doc": sd})
		for _, req := range []bool{false, true} {
			fp := with(s, map[string]any{"name": "f", "in": "formData"})
			if req {
				fp["required"] = true
			}
			op := c17Op("p", []any{fp}, nil)
			op["consumes"] = form
			emit(hx.Case{"doc": c17Doc(map[string]any{"/x": map[string]any{"post": op}})})
			op2 := c17Op("p", []any{map[string]any{"$ref": "#/parameters/sf"}}, nil)
			op2["consumes"] = form
			fd := c17Doc(map[string]any{"/x": map[string]any{"post": op2}})
			fd["parameters"] = map[string]any{"sf": fp}
			emit(hx.Case{"doc": fd})
		}
		for _, withSchema := range []bool{false, true} {
			r := map[string]any{"description": "ok", "headers": map[string]any{"X-H": s}}
			if withSchema {
				r["schema"] = map[string]any{"type": "string"}
			}
			emit(hx.Case{"doc": c17Doc(map[string]any{"/x": map[string]any{"get": c17Op("g", nil, map[string]any{"200": r})}})})
			rd := c17Doc(map[string]any{"/x": map[string]any{"get": c17Op("g", nil, map[string]any{"404": map[string]any{"$ref": "#/responses/nf"}})}})
			rd["responses"] = map[string]any{"nf": r}
			emit(hx.Case{"doc": rd})
		}
	}
	// schema-only features
	for _, s := range []any{
		map[string]any{"type": "string", "x-nullable": true},
		map[string]any{"type": "object", "properties": map[string]any{"a": map[string]any{"type": "string", "x-nullable": true}}, "required": []any{"a"}},
		map[string]any{"type": "object", "minProperties": 1, "maxProperties": 5},
		map[string]any{"type": "object", "additionalProperties": true},
		map[string]any{"type": "object", "additionalProperties": false},
		map[string]any{"type": "string", "readOnly": true},
		map[string]any{"type": "object", "discriminator": "kind", "required": []any{"kind"}, "properties": map[string]any{"kind": map[string]any{"type": "string"}}},
		map[string]any{"type": "object", "additionalProperties": map[string]any{"$ref": "#/definitions/E"}},
		map[string]any{"type": "object", "additionalProperties": map[string]any{"type": "object", "additionalProperties": map[string]any{"$ref": "#/definitions/E"}}},
		map[string]any{"type": "object", "additionalProperties": map[string]any{"type": "array", "items": map[string]any{"$ref": "#/definitions/E"}}},
		map[string]any{"type": "object", "additionalProperties": map[string]any{"type": "string", "x-nullable": true}},
		map[string]any{"type": "object", "properties": map[string]any{"e": map[string]any{"$ref": "#/definitions/E"}}},
		map[string]any{"allOf": []any{map[string]any{"$ref": "#/definitions/E"}, map[string]any{"type": "object", "properties": map[string]any{"z": map[string]any{"type": "integer"}}}}},
		map[string]any{"type": "array", "items": map[string]any{"$ref": "#/definitions/E"}},
	} {
		d := c17Doc(map[string]any{"/x": map[string]any{"get": c17Op("g", nil, map[string]any{"200": map[string]any{"description": "ok", "schema": map[string]any{"$ref": "#/definitions/D"}}})}})
		d["definitions"] = map[string]any{"D": s, "E": map[string]any{"type": "object"}}
		emit(hx.Case{"doc": d})
	}
	// x-nullable with every kind of value at every schema position (only the boolean true means nullable)
	for _, xv := range []any{true, false, "yes", 0, 1} {
		xs := map[string]any{"type": "string", "x-nullable": xv}
		for _, def := range []any{
			xs,
			map[string]any{"type": "object", "properties": map[string]any{"p": xs}},
			map[string]any{"type": "array", "items": xs},
			map[string]any{"allOf": []any{xs}},
			map[string]any{"type": "object", "additionalProperties": xs},
			map[string]any{"type": "object", "properties": map[string]any{"p": map[string]any{"type": "array", "items": map[string]any{"allOf": []any{xs}}}}},
		} {
			d := c17Doc(map[string]any{"/x": map[string]any{"get": c17Op("g", nil, nil)}})
			d["definitions"] = map[string]any{"D": def}
			emit(hx.Case{"doc": d})
		}
		emit(hx.Case{"doc": c17Doc(map[string]any{"/x": map[string]any{"post": c17Op("p", []any{map[string]any{"name": "b", "in": "body", "schema": xs}}, nil)}})})
		emit(hx.Case{"doc": c17Doc(map[string]any{"/x": map[string]any{"get": c17Op("g", nil, map[string]any{"200": map[string]any{"description": "ok", "schema": xs}})}})})
		sb := c17Doc(map[string]any{"/x": map[string]any{"put": c17Op("u", []any{map[string]any{"$ref": "#/parameters/bp"}}, map[string]any{"200": map[string]any{"$ref": "#/responses/r"}})}})
		sb["parameters"] = map[string]any{"bp": map[string]any{"name": "payload", "in": "body", "schema": map[string]any{"type": "object", "properties": map[string]any{"a": xs}}}}
		sb["responses"] = map[string]any{"r": map[string]any{"description": "ok", "schema": map[string]any{"type": "array", "items": xs}}}
		emit(hx.Case{"doc": sb})
		// items of an array parameter / header go through ToV3SchemaRef too
		ap := map[string]any{"name": "q", "in": "query", "type": "array", "items": xs}
		emit(hx.Case{"doc": c17Doc(map[string]any{"/x": map[string]any{"get": c17Op("g", []any{ap}, map[string]any{"200": map[string]any{"description": "ok", "headers": map[string]any{"X-L": map[string]any{"type": "array", "items": xs}}}})}})})
	}
	// file uploads
	for _, req := range []bool{false, true} {
		fp := map[string]any{"name": "up", "in": "formData", "type": "file"}
		if req {
			fp["required"] = true
		}
		for _, mime := range []string{"multipart/form-data", "application/x-www-form-urlencoded"} {
			op := c17Op("p", []any{fp, map[string]any{"name": "note", "in": "formData", "type": "string"}}, nil)
			op["consumes"] = []any{mime}
			emit(hx.Case{"doc": c17Doc(map[string]any{"/x": map[string]any{"post": op}})})
		}
		op2 := c17Op("p", []any{map[string]any{"$ref": "#/parameters/sf"}}, nil)
		op2["consumes"] = form
		fd := c17Doc(map[string]any{"/x": map[string]any{"post": op2}})
		fd["parameters"] = map[string]any{"sf": fp}
		emit(hx.Case{"doc": fd})
	}
	// form parameters × every legal declaration of the form media types (one, the other, both in either order; at the
	// operation or at the document): the request body then has one entry per media type over one shared form schema,
	// and the way back ranges over them
	for _, cons := range c17FormConsumes {
		for _, site := range []string{"op", "doc"} {
			for _, ps := range [][]any{
				{map[string]any{"name": "a", "in": "formData", "type": "string"}},
				{map[string]any{"name": "a", "in": "formData", "type": "string", "required": true}, map[string]any{"name": "b", "in": "formData", "type": "integer", "format": "int32", "minimum": 1}},
				{map[string]any{"name": "up", "in": "formData", "type": "file", "required": true}, map[string]any{"name": "note", "in": "formData", "type": "string", "maxLength": 8}},
				{map[string]any{"name": "l", "in": "formData", "type": "array", "items": map[string]any{"type": "string", "enum": []any{"x", "y"}}, "minItems": 1}},
				{map[string]any{"name": "l", "in": "formData", "type": "array", "items": map[string]any{"type": "string", "x-nullable": true}}},
				{map[string]any{"name": "q", "in": "query", "type": "string"}, map[string]any{"name": "a", "in": "formData", "type": "boolean", "default": true}, map[string]any{"name": "b", "in": "formData", "type": "number"}, map[string]any{"name": "c", "in": "formData", "type": "string", "pattern": "^[a-z]+$"}},
				{map[string]any{"$ref": "#/parameters/sf"}, map[string]any{"name": "a", "in": "formData", "type": "string"}},
			} {
				op := c17Op("p", ps, nil)
				d := c17Doc(map[string]any{"/x": map[string]any{"post": op}})
				if site == "op" {
					op["consumes"] = cons
				} else {
					d["consumes"] = cons
				}
				if _, isRef := ps[0].(map[string]any)["$ref"]; isRef {
					d["parameters"] = map[string]any{"sf": map[string]any{"name": "sf", "in": "formData", "type": "file"}}
				}
				emit(hx.Case{"doc": d})
			}
		}
	}
	// shared body parameter
	for _, req := range []bool{false, true} {
		bp := map[string]any{"name": "payload", "in": "body", "schema": map[string]any{"type": "object", "properties": map[string]any{"a": map[string]any{"type": "integer"}}}}
		if req {
			bp["required"] = true
		}
		bd := c17Doc(map[string]any{"/x": map[string]any{"put": c17Op("u", []any{map[string]any{"$ref": "#/parameters/bp"}}, nil)}})
		bd["parameters"] = map[string]any{"bp": bp}
		emit(hx.Case{"doc": bd})
		for _, cons := range [][]any{nil, {"application/json"}, {"application/xml"}, {"application/json", "application/xml"}} {
			op := c17Op("u", []any{bp}, nil)
			if cons != nil {
				op["consumes"] = cons
			}
			emit(hx.Case{"doc": c17Doc(map[string]any{"/x": map[string]any{"put": op}})})
			d := c17Doc(map[string]any{"/x": map[string]any{"put": c17Op("u", []any{bp}, nil)}})
			if cons != nil {
				d["consumes"] = cons
			}
			emit(hx.Case{"doc": d})
		}
	}
	// responses × produces
	for _, prod := range c17Produces {
		for _, withSchema := range []bool{false, true} {
			for _, withHeaders := range []bool{false, true} {
				r := map[string]any{"description": "ok"}
				if withSchema {
					r["schema"] = map[string]any{"type": "object", "properties": map[string]any{"a": map[string]any{"type": "string"}}}
				}
				if withHeaders {
					r["headers"] = map[string]any{"Location": map[string]any{"type": "string"}, "X-Rate": map[string]any{"type": "integer", "minimum": 1}}
				}
				op := c17Op("g", nil, map[string]any{"200": r, "default": map[string]any{"description": "err"}})
				if prod != nil {
					op["produces"] = prod
				}
				emit(hx.Case{"doc": c17Doc(map[string]any{"/x": map[string]any{"get": op}})})
				d := c17Doc(map[string]any{"/x": map[string]any{"get": c17Op("g", nil, map[string]any{"200": map[string]any{"$ref": "#/responses/r"}})}})
				d["responses"] = map[string]any{"r": r}
				if prod != nil {
					d["produces"] = prod
				}
				emit(hx.Case{"doc": d})
			}
		}
	}
	// security schemes
	for _, k := range c17SecKinds {
		d := c17Doc(map[string]any{"/x": map[string]any{"get": c17Op("g", nil, nil)}})
		d["securityDefinitions"] = map[string]any{"s": c17Sec(k, nil)}
		emit(hx.Case{"doc": d})
	}
	all := map[string]any{}
	for _, k := range c17SecKinds {
		all["s_"+k] = c17Sec(k, nil)
	}
	d := c17Doc(map[string]any{"/x": map[string]any{"get": c17Op("g", nil, nil)}})
	d["securityDefinitions"] = all
	emit(hx.Case{"doc": d})
	// servers
	for _, host := range []string{"", "api.example.com", "api.example.com:8080"} {
		for _, base := range []string{"", "/", "/v1", "/v1/api"} {
			for _, schemes := range [][]any{nil, {"https"}, {"http"}, {"http", "https"}, {"https", "http"}, {"ws"}, {"https", "wss"}} {
				d := c17Doc(map[string]any{"/x": map[string]any{"get": c17Op("g", nil, nil)}})
				if host != "" {
					d["host"] = host
				}
				if base != "" {
					d["basePath"] = base
				}
				if schemes != nil {
					d["schemes"] = schemes
				}
				emit(hx.Case{"doc": d})
			}
		}
	}
	// methods and operation ids
	pi := map[string]any{}
	for _, m := range c17Methods {
		pi[m] = c17Op("op_"+m, nil, nil)
	}
	emit(hx.Case{"doc": c17Doc(map[string]any{"/all": pi, "/other": map[string]any{"get": c17Op("og", nil, nil)}})})
	// one key in every namespace: definitions, shared parameters, shared responses, security definitions are
	// separate namespaces in OpenAPI 2; a shared parameter of every kind, referenced from an operation and from
	// a path item, next to a definition / response / security definition of the same key
	for _, key := range []string{"A", "Pet.v1"} {
		shared := []map[string]any{
			{"name": "q", "in": "query", "type": "integer", "minimum": 1},
			{"name": "X-H", "in": "header", "type": "string", "required": true},
			{"name": "id", "in": "path", "type": "string", "required": true},
			{"name": "payload", "in": "body", "required": true, "schema": map[string]any{"$ref": "#/definitions/" + key}},
			{"name": "up", "in": "formData", "type": "file", "required": true},
			{"name": "note", "in": "formData", "type": "string", "maxLength": 8},
		}
		for _, sp := range shared {
			for _, site := range []string{"op", "path"} {
				for mask := 1; mask < 8; mask++ {
					in := sp["in"].(string)
					if site == "path" && (in == "body" || in == "formData") {
						continue
					}
					pn := "/x"
					if in == "path" {
						pn = "/x/{id}"
					}
					ref := map[string]any{"$ref": "#/parameters/" + key}
					op := c17Op("g", nil, map[string]any{"200": map[string]any{"description": "ok", "schema": map[string]any{"$ref": "#/definitions/" + key}}, "404": map[string]any{"$ref": "#/responses/" + key}})
					pi := map[string]any{}
					if site == "op" {
						op["parameters"] = []any{ref}
					} else {
						pi["parameters"] = []any{ref}
					}
					if in == "formData" {
						op["consumes"] = form
					}
					pi["post"] = op
					d := c17Doc(map[string]any{pn: pi})
					d["parameters"] = map[string]any{key: sp}
					d["definitions"] = map[string]any{"Other": map[string]any{"type": "object"}}
					d["responses"] = map[string]any{"Other": map[string]any{"description": "nf"}}
					if mask&1 != 0 {
						d["definitions"] = map[string]any{key: map[string]any{"type": "object", "properties": map[string]any{"n": map[string]any{"type": "integer"}}}}
					} else {
						op["responses"].(map[string]any)["200"] = map[string]any{"description": "ok"}
						if in == "body" {
							continue
						}
					}
					if mask&2 != 0 {
						d["responses"] = map[string]any{key: map[string]any{"description": "nf", "headers": map[string]any{"X-R": map[string]any{"type": "integer"}}}}
					} else {
						delete(op["responses"].(map[string]any), "404")
					}
					if mask&4 != 0 {
						d["securityDefinitions"] = map[string]any{key: c17Sec("accessCode", nil)}
					}
					emit(hx.Case{"doc": d})
				}
			}
		}
	}
	// self-referential and mutually recursive definitions
	for _, defs := range []map[string]any{
		{"Node": map[string]any{"type": "object", "properties": map[string]any{"next": map[string]any{"$ref": "#/definitions/Node"}, "v": map[string]any{"type": "integer"}}}},
		{"Tree": map[string]any{"type": "object", "properties": map[string]any{"kids": map[string]any{"type": "array", "items": map[string]any{"$ref": "#/definitions/Tree"}}}}},
		{"A": map[string]any{"type": "object", "properties": map[string]any{"b": map[string]any{"$ref": "#/definitions/B"}}}, "B": map[string]any{"type": "object", "properties": map[string]any{"a": map[string]any{"$ref": "#/definitions/A"}}, "x-nullable": true}},
		{"A": map[string]any{"allOf": []any{map[string]any{"$ref": "#/definitions/B"}, map[string]any{"type": "object", "properties": map[string]any{"self": map[string]any{"$ref": "#/definitions/A"}}}}}, "B": map[string]any{"type": "object", "required": []any{"id"}, "properties": map[string]any{"id": map[string]any{"type": "string"}}}},
	} {
		var first string
		for k := range defs {
			if first == "" || k < first {
				first = k
			}
		}
		d := c17Doc(map[string]any{"/x": map[string]any{"post": c17Op("p", []any{map[string]any{"name": "b", "in": "body", "schema": map[string]any{"$ref": "#/definitions/" + first}}}, map[string]any{"200": map[string]any{"description": "ok", "schema": map[string]any{"$ref": "#/definitions/" + first}}})}})
		d["definitions"] = defs
		emit(hx.Case{"doc": d})
	}
	// zero values that are not "absent"
	for _, s := range []any{
		map[string]any{"type": "integer", "minimum": 0}, map[string]any{"type": "integer", "maximum": 0}, map[string]any{"type": "integer", "default": 0},
		map[string]any{"type": "boolean", "default": false}, map[string]any{"type": "string", "default": ""}, map[string]any{"type": "string", "maxLength": 0},
		map[string]any{"type": "array", "items": map[string]any{"type": "string"}, "maxItems": 0}, map[string]any{"type": "integer", "enum": []any{0}},
	} {
		sm := s.(map[string]any)
		d := c17Doc(map[string]any{"/x": map[string]any{"get": c17Op("g", []any{with(sm, map[string]any{"name": "q", "in": "query"})}, map[string]any{"200": map[string]any{"description": "ok", "schema": s, "headers": map[string]any{"X-H": s}}})}})
		d["definitions"] = map[string]any{"Z": s}
		emit(hx.Case{"doc": d})
		op := c17Op("p", []any{with(sm, map[string]any{"name": "f", "in": "formData"})}, nil)
		op["consumes"] = form
		emit(hx.Case{"doc": c17Doc(map[string]any{"/x": map[string]any{"post": op}})})
	}
	// operation metadata and security requirements (operation level: `security: []` is a value; zero values are absent)
	for _, kv := range [][2]any{
		{"summary", "short"}, {"description", "long text"}, {"deprecated", true}, {"tags", []any{"pets", "admin"}}, {"tags", []any{"b", "a", "b"}},
		{"summary", ""}, {"deprecated", false}, {"tags", []any{}},
		{"security", []any{}}, {"security", []any{map[string]any{"s": []any{}}}},
		{"security", []any{map[string]any{"o": []any{"read", "write"}}, map[string]any{"s": []any{}, "o": []any{"read"}}}},
	} {
		for _, docSec := range []any{nil, []any{}, []any{map[string]any{"s": []any{}}}, []any{map[string]any{"o": []any{"write"}}, map[string]any{"s": []any{}}}} {
			op := c17Op("g", []any{map[string]any{"name": "q", "in": "query", "type": "string"}}, nil)
			op[kv[0].(string)] = kv[1]
			d := c17Doc(map[string]any{"/x": map[string]any{"get": op, "post": c17Op("p", nil, nil)}})
			d["securityDefinitions"] = map[string]any{"s": c17Sec("basic", nil), "o": c17Sec("accessCode", nil)}
			if docSec != nil {
				d["security"] = docSec
			}
			emit(hx.Case{"doc": d})
		}
	}
	all4 := c17Op("g", nil, nil)
	all4["summary"], all4["description"], all4["deprecated"], all4["tags"] = "s", "d", true, []any{"t"}
	all4["security"] = []any{map[string]any{"s": []any{}}}
	all4d := c17Doc(map[string]any{"/x": map[string]any{"get": all4}})
	all4d["securityDefinitions"] = map[string]any{"s": c17Sec("apiKey", nil)}
	emit(hx.Case{"doc": all4d})
	// the names FromV3 tries for the body parameter are taken by other parameters
	for _, names := range [][]string{{"body"}, {"requestBody"}, {"body", "requestBody"}} {
		params := []any{map[string]any{"name": "payload", "in": "body", "schema": map[string]any{"type": "object"}}}
		for _, n := range names {
			params = append(params, map[string]any{"name": n, "in": "query", "type": "string"})
		}
		emit(hx.Case{"doc": c17Doc(map[string]any{"/x": map[string]any{"post": c17Op("p", params, nil)}})})
	}
	// a body parameter without a schema
	emit(hx.Case{"doc": c17Doc(map[string]any{"/x": map[string]any{"post": c17Op("p", []any{map[string]any{"name": "b", "in": "body", "required": true}}, nil)}})})
	// component names outside the v3 identifier alphabet
	for _, n := range []string{"My Def", "Page«Pet»", "a/b", "ok.name_1-x"} {
		d := c17Doc(map[string]any{"/x": map[string]any{"get": c17Op("g", nil, nil)}})
		d["definitions"] = map[string]any{n: map[string]any{"type": "object"}}
		emit(hx.Case{"doc": d})
	}
}

func (g *g17) randomDoc() map[string]any {
	r := g.r
	d := c17Base()
	density := hx.Pick(r, []int{15, 35, 60})
	// definitions
	// one key pool for every namespace (definitions, shared parameters, shared responses, security
	// definitions): the namespaces are separate in OpenAPI 2, so equal keys are legal and must not interact
	allDefs := append([]string{}, c17Keys[:r.Intn(len(c17Keys)+1)]...)
	if !g.clean && r.Chance(3) {
		allDefs = append(allDefs, "My Def")
	}
	defs := map[string]any{}
	g.defs = nil
	cyclic := r.Chance(40) // references may point forward, at the definition itself, or in a cycle
	if cyclic {
		for _, n := range allDefs {
			if !strings.ContainsAny(n, " /") {
				g.defs = append(g.defs, n)
			}
		}
		cyclic = len(g.defs) > 0
	}
	for _, n := range allDefs {
		g.noRef = false
		defs[n] = g.defSchema(3, density, cyclic)
		if c17_jmap(defs[n])["$ref"] != nil {
			defs[n] = map[string]any{"type": "object", "properties": map[string]any{"r": defs[n]}}
		}
		if strings.ContainsAny(n, " /") || cyclic {
			continue
		}
		g.defs = append(g.defs, n)
	}
	g.noRef = false
	if len(defs) > 0 {
		d["definitions"] = defs
	}
	// location
	if g.clean || r.Chance(60) {
		d["host"] = g.pick("api.example.com", "h:8080")
	}
	if r.Chance(50) {
		d["basePath"] = g.pick("/", "/v1", "/v1/api")
	}
	if r.Chance(50) {
		d["schemes"] = g.pick([]any{"https"}, []any{"http"}, []any{"http", "https"}, []any{"https", "ws"}, []any{"wss", "ws", "http"}, []any{"wss"})
	}
	if r.Chance(30) {
		d["consumes"] = g.pick([]any{"application/json"}, []any{"application/xml"}, []any{"application/json", "text/plain"})
		if g.clean {
			d["consumes"] = g.pick([]any{"application/json"}, []any{"application/xml"}) // two media types: class SharedBodyNullableLost
		}
	}
	if r.Chance(30) {
		d["produces"] = hx.Pick(r, c17Produces[2:])
	}
	// shared parameters and responses
	sharedQ, sharedB, sharedF := []string{}, []string{}, []string{}
	sp := map[string]any{}
	spKeys := []string{"A", "B", "Pet.v1", "lim", "payload", "C"}
	for i, k := 0, r.Intn(4); i < k; i++ {
		name := hx.Pick(r, spKeys)
		if sp[name] != nil {
			continue
		}
		kind := r.Intn(4)
		if g.clean && kind == 1 && defs[name] != nil {
			kind = 2 // a shared form parameter under the key of a definition: class SharedFormParamDefClash
		}
		switch kind {
		case 0:
			bp := map[string]any{"name": "payload", "in": "body", "schema": g.schema(2, density)}
			if r.Bool() {
				bp["required"] = true
			}
			sp[name] = bp
			sharedB = append(sharedB, name)
		case 1:
			fp := map[string]any{"name": "sf" + c17Ident(name), "in": "formData", "type": "file"}
			if !g.clean && r.Chance(15) {
				fp = g.formParam("sf"+c17Ident(name), density) // non-file shared form parameters: class SharedFormParamNotFile
			}
			if r.Bool() {
				fp["required"] = true
			}
			sp[name] = fp
			sharedF = append(sharedF, name)
		default:
			sp[name] = g.param("s"+c17Ident(name), hx.Pick(r, c17Locs), density)
			sharedQ = append(sharedQ, name)
		}
	}
	if len(sp) > 0 {
		d["parameters"] = sp
	}
	sharedR := []string{}
	sr := map[string]any{}
	for i, k := 0, r.Intn(3); i < k; i++ {
		name := hx.Pick(r, []string{"A", "B", "nf", "Pet.v1", "lim"})
		if sr[name] != nil {
			continue
		}
		sr[name] = g.response(density, nil)
		sharedR = append(sharedR, name)
	}
	if len(sr) > 0 {
		d["responses"] = sr
	}
	// security
	secNames := []string{}
	secReq := func() []any {
		l := []any{}
		for i, k := 0, r.Intn(3); i < k && len(secNames) > 0; i++ {
			req := map[string]any{}
			for j, kj := 0, 1+r.Intn(2); j < kj; j++ {
				scopes := []any{}
				if r.Bool() {
					scopes = append(scopes, "read")
					if r.Bool() {
						scopes = append(scopes, "write")
					}
				}
				req[hx.Pick(r, secNames)] = scopes
			}
			l = append(l, req)
		}
		return l
	}
	if r.Chance(50) {
		sd := map[string]any{}
		for i, k := 0, 1+r.Intn(3); i < k; i++ {
			kind := hx.Pick(r, c17SecKinds)
			sd[hx.Pick(r, []string{"A", "B", "Pet.v1", "sec_" + kind, "lim"})] = c17Sec(kind, r)
		}
		d["securityDefinitions"] = sd
		secNames = c17_sortedKeys(sd)
		if r.Chance(40) {
			d["security"] = secReq() // may be empty: says nothing
		}
	}
	// paths
	paths := map[string]any{}
	opn := 0
	pathNames := []string{"/a", "/b/{id}", "/c/{id}/d", "/e"}
	for i, k := 0, 1+r.Intn(3); i < k; i++ {
		pn := hx.Pick(r, pathNames)
		if paths[pn] != nil {
			continue
		}
		pi := map[string]any{}
		hasVar := strings.Contains(pn, "{id}")
		pathLevelID := hasVar && r.Bool()
		if pathLevelID {
			pl := []any{g.param("id", "path", density)}
			if r.Chance(30) && len(sharedQ) > 0 {
				pl = append(pl, map[string]any{"$ref": "#/parameters/" + hx.Pick(r, sharedQ)})
			}
			pi["parameters"] = pl
		} else if r.Chance(30) {
			pl := []any{g.param("plq", "query", density)}
			if r.Bool() && len(sharedQ) > 0 {
				pl = append(pl, map[string]any{"$ref": "#/parameters/" + hx.Pick(r, sharedQ)})
			}
			pi["parameters"] = pl
		}
		for j, km := 0, 1+r.Intn(3); j < km; j++ {
			m := hx.Pick(r, c17Methods)
			if pi[m] != nil {
				continue
			}
			opn++
			params := []any{}
			if hasVar && !pathLevelID {
				params = append(params, g.param("id", "path", density))
			}
			names := []string{"p", "q", "p", "body", "requestBody"}
			if !g.clean || !r.Chance(15) {
				names = names[:4] // FromV3's error (class BodyNameClash) and FromV3's panic (class BinaryString) are kept apart
			}
			seenNI := map[string]bool{}
			for x, kp := 0, r.Intn(4); x < kp; x++ {
				nm, in := hx.Pick(r, names), hx.Pick(r, c17Locs)
				if seenNI[nm+"/"+in] {
					continue
				}
				seenNI[nm+"/"+in] = true
				params = append(params, g.param(nm, in, density))
			}
			for _, s := range sharedQ {
				if r.Chance(25) {
					params = append(params, map[string]any{"$ref": "#/parameters/" + s})
				}
			}
			op := map[string]any{}
			switch r.Intn(4) {
			case 0: // body
				if len(sharedB) > 0 && r.Bool() {
					params = append(params, map[string]any{"$ref": "#/parameters/" + hx.Pick(r, sharedB)})
				} else {
					bp := map[string]any{"name": g.pick("body", "payload"), "in": "body", "schema": g.schema(2, density)}
					if !g.clean && r.Chance(6) {
						delete(bp, "schema") // class BodyWithoutSchema
					}
					if r.Bool() {
						bp["required"] = true
					}
					params = append(params, bp)
				}
				if r.Chance(40) {
					op["consumes"] = g.pick([]any{"application/json"}, []any{"application/xml"}, []any{"application/json", "application/xml"})
				}
			case 1: // form
				fnames := []string{"f1", "f2", "f3"}
				for x, kf := 0, 1+r.Intn(3); x < kf; x++ {
					params = append(params, g.formParam(fnames[x], density))
				}
				for _, s := range sharedF {
					if r.Chance(40) {
						params = append(params, map[string]any{"$ref": "#/parameters/" + s})
					}
				}
				op["consumes"] = hx.Pick(r, c17FormConsumes)
			}
			resps := map[string]any{}
			for x, kr := 0, 1+r.Intn(3); x < kr; x++ {
				resps[hx.Pick(r, []string{"200", "201", "302", "404", "default"})] = g.response(density, sharedR)
			}
			op["operationId"] = fmt.Sprintf("op%d", opn)
			op["responses"] = resps
			if r.Chance(25) {
				op["summary"] = g.pick("short", "list things")
			}
			if r.Chance(20) {
				op["description"] = g.pick("long text", "")
			}
			if r.Chance(15) {
				op["deprecated"] = r.Chance(80)
			}
			if r.Chance(25) {
				op["tags"] = g.pick([]any{"pets"}, []any{"b", "a"}, []any{})
			}
			if r.Chance(25) {
				op["security"] = secReq() // `[]`: this operation needs no authentication
			}
			if len(params) > 0 {
				// shuffle: the order of parameters is not part of the API
				for x := len(params) - 1; x > 0; x-- {
					y := r.Intn(x + 1)
					params[x], params[y] = params[y], params[x]
				}
				op["parameters"] = params
			}
			if r.Chance(35) {
				op["produces"] = hx.Pick(r, c17Produces[2:])
			}
			pi[m] = op
		}
		paths[pn] = pi
	}
	d["paths"] = paths
	return d
}

func genC17(ctx *hx.Ctx, emit func(hx.Case)) {
	genC17Exhaustive(emit)
	n := 2500
	if ctx.Thorough() {
		n = 40000
	}
	g := &g17{r: ctx.Rng, addlBad: 6}
	for i := 0; i < n; i++ {
		g.clean = i%2 == 0 // every other document stays outside the known-finding classes
		emit(hx.Case{"doc": g.randomDoc()})
	}
}

// ---------------------------------------------------------------- shrinker

// c17Shrinks proposes smaller JSON values: remove a map key, remove a list element, recurse.
func c17Shrinks(v any, budget *int) []any {
	var out []any
	switch x := v.(type) {
	case map[string]any:
		for _, k := range c17_sortedKeys(x) {
			if c17Protected[k] {
				continue
			}
			n := map[string]any{}
			for k2, v2 := range x {
				if k2 != k {
					n[k2] = v2
				}
			}
			out = append(out, n)
		}
		for _, k := range c17_sortedKeys(x) {
			if *budget <= 0 {
				break
			}
			for _, sub := range c17Shrinks(x[k], budget) {
				*budget--
				n := map[string]any{}
				for k2, v2 := range x {
					n[k2] = v2
				}
				n[k] = sub
				out = append(out, n)
			}
		}
	case []any:
		for _, n := range dropEach(x) {
			out = append(out, n)
		}
		for i := range x {
			if *budget <= 0 {
				break
			}
			for _, sub := range c17Shrinks(x[i], budget) {
				*budget--
				n := append([]any{}, x...)
				n[i] = sub
				out = append(out, n)
			}
		}
	}
	return out
}

var c17Protected = map[string]bool{"swagger": true, "info": true, "paths": true, "responses": true, "description": true, "name": true,
	"in": true, "type": true, "items": true, "schema": true, "flow": true, "authorizationUrl": true, "tokenUrl": true, "scopes": true,
	"title": true, "version": true, "operationId": true, "$ref": true}

// c17WellFormed keeps shrunk documents inside the quantifier: references resolve, operations have a
// response, path template variables are declared, form parameters come with a form media type.
func c17WellFormed(d map[string]any) bool {
	ok := true
	var walk func(v any)
	walk = func(v any) {
		switch x := v.(type) {
		case map[string]any:
			if r, isRef := x["$ref"].(string); isRef {
				for _, sec := range []string{"definitions", "parameters", "responses"} {
					if strings.HasPrefix(r, "#/"+sec+"/") {
						if c17_jmap(d[sec])[r[len(sec)+3:]] == nil {
							ok = false
						}
					}
				}
			}
			for _, y := range x {
				walk(y)
			}
		case []any:
			for _, y := range x {
				walk(y)
			}
		}
	}
	walk(d)
	for p, piv := range c17_jmap(d["paths"]) {
		pi := c17_jmap(piv)
		nops := 0
		for _, m := range c17Methods {
			op := c17_jmap(pi[m])
			if op == nil {
				continue
			}
			nops++
			if len(c17_jmap(op["responses"])) == 0 {
				ok = false
			}
			hasID, hasForm := false, false
			for _, l := range [][]any{jlist(op["parameters"]), jlist(pi["parameters"])} {
				for _, q := range l {
					qm := c17_jmap(q)
					if qm["in"] == "path" && qm["name"] == "id" {
						hasID = true
					}
					if qm["in"] == "formData" {
						hasForm = true
					}
					if r, isRef := qm["$ref"].(string); isRef && strings.HasPrefix(r, "#/parameters/") {
						if c17_jmap(c17_jmap(d["parameters"])[r[len("#/parameters/"):]])["in"] == "formData" {
							hasForm = true
						}
					}
				}
			}
			if strings.Contains(p, "{id}") != hasID {
				ok = false
			}
			if hasForm {
				cons := toStrs(op["consumes"])
				if len(cons) == 0 || !c17IsFormMime(cons[0]) {
					ok = false
				}
			}
		}
		if nops == 0 {
			ok = false
		}
	}
	return ok && len(c17_jmap(d["paths"])) > 0
}

func shrinkC17(c hx.Case) []hx.Case {
	budget := 400
	var out []hx.Case
	for _, d := range c17Shrinks(c["doc"], &budget) {
		if dm := c17_jmap(d); dm != nil && c17WellFormed(dm) {
			out = append(out, hx.Case{"doc": d})
		}
	}
	return out
}
