package main

// C19 — schema error reasons never contain the rejected value.
// Real code exercised: VisitJSON (default and MultiErrors) on values whose every string leaf is a unique marker;
// the Reason of every SchemaError at every nesting level (Origin chains included) and the messages rendered with
// details disabled / with a reason-only customizer are searched for markers, and the top-level reason texts are
// compared with the model's rendered reason fragments. Through the request validator: ValidateRequest with
// WithCustomSchemaErrorFunc(reason only) on JSON bodies carrying the same markers.

import (
	"bytes"
	"context"
	"encoding/json"
	"errors"
	"fmt"
	"math/big"
	"net/http"
	"net/url"
	"regexp"
	"strings"
	"sync"

	"github.com/getkin/kin-openapi/openapi3"
	"github.com/getkin/kin-openapi/openapi3filter"
	"github.com/getkin/kin-openapi/routers"

	"kinverif/internal/hx"
)

const c19Marker = "ZQXJ"

func init() {
	hx.Register(&hx.Prop{
		ID: "C19",
		Rule: "the schema space of C01/C12 crossed with a value alphabet in which every string leaf is a unique marker (all JSON types, nested; strings of lengths 4–12 so that " +
			"length, pattern, enum, format, type and composition keywords fail at depth 0–2); every Reason at every nesting level and three message paths are searched for markers; " +
			"reason texts are compared with the model. Non-trivial = the value is rejected with at least one error (the driver reports field and nesting).",
		Exhaustive: true,
		Gen:        genC19,
		Run:        runC19,
		Compare:    cmpC19,
		Shrink:     shrinkSchemaCase,
		Workers:    1, // the details switch is a package variable: cases toggle it and must not overlap
		Assumptions: []string{
			"markers are strings that occur in no schema; property names and numbers are not markers (the property speaks of string values)",
			"validator/regexp-compiler texts inside reasons are matched as wildcards (their wording is the validator's, checked for markers only)",
		},
	})
}

var c19Once sync.Once

func init() {
	// string formats beyond the three registered by default, so that every shape of validator error is exercised:
	// a built-in validator returning a bare *SchemaError, and a user validator that WRAPS such an error.
	openapi3.DefineIPv4Format()
	ip := openapi3.NewIPValidator(true)
	openapi3.DefineStringFormatValidator("x-wrapped-ip", openapi3.NewCallbackValidator(func(v string) error {
		if err := ip.Validate(v); err != nil {
			return fmt.Errorf("not acceptable here: %w", err)
		}
		return nil
	}))
}

func markerize(v any, n *int) any {
	switch x := v.(type) {
	case string:
		*n++
		return fmt.Sprintf("%s%d%s", c19Marker, *n, strings.Repeat("k", len(x)))
	case []any:
		out := make([]any, len(x))
		for i, e := range x {
			out[i] = markerize(e, n)
		}
		return out
	case map[string]any:
		out := make(map[string]any, len(x))
		keys := make([]string, 0, len(x))
		for k := range x {
			keys = append(keys, k)
		}
		sortStrings(keys)
		for _, k := range keys {
			out[k] = markerize(x[k], n)
		}
		return out
	}
	return v
}

func sortStrings(s []string) {
	for i := 1; i < len(s); i++ {
		for j := i; j > 0 && s[j] < s[j-1]; j-- {
			s[j], s[j-1] = s[j-1], s[j]
		}
	}
}

func genC19(ctx *hx.Ctx, emit0 func(hx.Case)) {
	emit := func(c hx.Case) { delete(c, "pre"); emit0(c) } // the regex-compiler history is observed by C01
	vals := make([]any, 0, len(c01Values))
	n := 0
	for _, v := range c01Values {
		vals = append(vals, markerize(v, &n))
	}
	for i, c := range c01DiscCases() {
		if !ctx.Thorough() && i%2 == 1 {
			continue
		}
		k := 0
		c["value"] = markerize(c["value"], &k)
		emit(withOracle(c))
	}
	for _, s := range c01Schemas(ctx) {
		for _, v := range vals {
			emit(withOracle(hx.Case{"schema": s, "value": v}))
		}
	}
	cnt := 4000
	if ctx.Thorough() {
		cnt = 100000
	}
	for i := 0; i < cnt; i++ {
		s := randSchema(ctx.Rng, 1+ctx.Rng.Intn(3))
		for j := 0; j < 3; j++ {
			k := 0
			emit(withOracle(hx.Case{"schema": s, "value": markerize(randValue(ctx.Rng, 1+ctx.Rng.Intn(3)), &k)}))
		}
	}
}

// allReasons walks an error tree: MultiError members, Origin chains, wrapped errors.
func allReasons(err error, out *[]string, depth int) {
	if err == nil || depth > 40 {
		return
	}
	switch e := err.(type) {
	case *openapi3.SchemaError:
		*out = append(*out, e.Reason)
		allReasons(e.Origin, out, depth+1)
		return
	case openapi3.MultiError:
		for _, x := range e {
			allReasons(x, out, depth+1)
		}
		return
	}
	if u, ok := err.(interface{ Unwrap() []error }); ok {
		for _, x := range u.Unwrap() {
			allReasons(x, out, depth+1)
		}
		return
	}
	if u := errors.Unwrap(err); u != nil {
		allReasons(u, out, depth+1)
	}
}

func topReasons(err error) []any {
	out := []any{}
	if err == nil {
		return out
	}
	var flat []error
	flattenErrs(err, &flat)
	for _, e := range flat {
		if se, ok := e.(*openapi3.SchemaError); ok {
			out = append(out, se.Reason)
		} else {
			out = append(out, "<not a SchemaError> "+e.Error())
		}
	}
	return out
}

func runC19(c hx.Case) any {
	openapi3.SchemaErrorDetailsDisabled = false // the default: reasons are computed while details are enabled
	s, err := caseSchema(c)
	if err != nil {
		return map[string]any{"kind": "schema-unmarshal-error", "err": err.Error()}
	}
	v := plainValue(c["value"])
	reasonOnly := func(e *openapi3.SchemaError) string { return e.Reason }
	ed := s.VisitJSON(v)
	em := s.VisitJSON(v, openapi3.MultiErrors())
	e2 := s.VisitJSON(v, openapi3.SetSchemaErrorMessageCustomizer(reasonOnly))
	var e3 error
	// through the request validator, JSON body, reason-only schema-error function
	if body, err := json.Marshal(v); err == nil {
		op := &openapi3.Operation{Responses: openapi3.NewResponses(),
			RequestBody: &openapi3.RequestBodyRef{Value: openapi3.NewRequestBody().WithJSONSchemaRef(&openapi3.SchemaRef{Value: s})}}
		req, _ := http.NewRequest("POST", "http://example.com/x", bytes.NewReader(body))
		req.Header.Set("Content-Type", "application/json")
		opts := &openapi3filter.Options{}
		opts.WithCustomSchemaErrorFunc(reasonOnly)
		in := &openapi3filter.RequestValidationInput{Request: req, Options: opts,
			Route: &routers.Route{Spec: &openapi3.T{}, Path: "/x", PathItem: &openapi3.PathItem{Post: op}, Method: "POST", Operation: op}}
		if e := openapi3filter.ValidateRequest(context.Background(), in); e != nil {
			var re *openapi3filter.RequestError
			if errors.As(e, &re) && re.Err != nil {
				e3 = re.Err // the part of the message that comes from the schema error
			}
		}
	}
	// … and as a query parameter described by content (any schema, any JSON value), fail-first and multi-error
	var e4, e5 error
	if body, err := json.Marshal(v); err == nil {
		for _, multi := range []bool{false, true} {
			prm := &openapi3.Parameter{Name: "p", In: "query", Content: openapi3.NewContentWithJSONSchemaRef(&openapi3.SchemaRef{Value: s})}
			op := &openapi3.Operation{Responses: openapi3.NewResponses(), Parameters: openapi3.Parameters{&openapi3.ParameterRef{Value: prm}}}
			q := url.Values{"p": []string{string(body)}}
			req, _ := http.NewRequest("GET", "http://example.com/x?"+q.Encode(), nil)
			opts := &openapi3filter.Options{MultiError: multi}
			opts.WithCustomSchemaErrorFunc(reasonOnly)
			in := &openapi3filter.RequestValidationInput{Request: req, Options: opts,
				Route: &routers.Route{Spec: &openapi3.T{}, Path: "/x", PathItem: &openapi3.PathItem{Get: op}, Method: "GET", Operation: op}}
			if e := openapi3filter.ValidateRequest(context.Background(), in); e != nil {
				var flat []error
				flattenErrs(e, &flat)
				for _, fe := range flat {
					var re *openapi3filter.RequestError
					if errors.As(fe, &re) && re.Err != nil {
						if _, isParse := re.Err.(*openapi3filter.ParseError); isParse {
							continue // a value that does not decode as the parameter is quoted by the parse error: not a schema error
						}
						if multi {
							e5 = re.Err
						} else {
							e4 = re.Err
						}
					}
				}
			}
		}
	}
	var reasons []string
	for _, e := range []error{ed, em, e2, e3, e4, e5} {
		allReasons(e, &reasons, 0)
	}
	leaks := []any{}
	for _, r := range reasons {
		if strings.Contains(r, c19Marker) {
			leaks = append(leaks, "reason: "+r)
		}
	}
	// message paths that are assembled from reasons alone
	msgs := []string{}
	if e2 != nil {
		msgs = append(msgs, "customizer: "+e2.Error())
	}
	if e3 != nil {
		msgs = append(msgs, "request-validator: "+e3.Error())
	}
	if e4 != nil {
		msgs = append(msgs, "request-validator/parameter: "+e4.Error())
	}
	if e5 != nil {
		msgs = append(msgs, "request-validator/parameter/multi: "+e5.Error())
	}
	// details disabled, as a deployment sets it: before validating (wrapped validator errors are rendered eagerly)
	openapi3.SchemaErrorDetailsDisabled = true
	if e := s.VisitJSON(v); e != nil {
		msgs = append(msgs, "details-disabled/default: "+e.Error())
		allReasons(e, &reasons, 0)
	}
	if e := s.VisitJSON(v, openapi3.MultiErrors()); e != nil {
		msgs = append(msgs, "details-disabled/multi: "+e.Error())
	}
	openapi3.SchemaErrorDetailsDisabled = false
	for _, m := range msgs {
		if strings.Contains(m, c19Marker) {
			leaks = append(leaks, "message "+m)
		}
	}
	return map[string]any{"ok": ed == nil, "leaks": leaks, "dflt": topReasons(ed), "multi": topReasons(em), "nreasons": len(reasons)}
}

func decanon(v any) any {
	switch x := v.(type) {
	case map[string]any:
		if s, ok := x["$num"].(string); ok && len(x) == 1 {
			r, ok := new(big.Rat).SetString(s)
			if !ok {
				return 0.0
			}
			f, _ := r.Float64()
			return f
		}
		out := map[string]any{}
		for k, e := range x {
			out[k] = decanon(e)
		}
		return out
	case []any:
		out := make([]any, len(x))
		for i, e := range x {
			out[i] = decanon(e)
		}
		return out
	}
	return v
}

// renderReason turns the model's typed fragments into a regular expression over the real reason text.
func renderReason(frags []any) string {
	var b strings.Builder
	b.WriteString("^")
	for _, f := range frags {
		m, _ := f.(map[string]any)
		for k, v := range m {
			switch k {
			case "lit", "s":
				b.WriteString(regexp.QuoteMeta(fmt.Sprint(v)))
			case "g":
				r, _ := new(big.Rat).SetString(fmt.Sprint(v))
				fl := 0.0
				if r != nil {
					fl, _ = r.Float64()
				}
				b.WriteString(regexp.QuoteMeta(fmt.Sprintf("%g", fl)))
			case "d":
				b.WriteString(regexp.QuoteMeta(fmt.Sprint(v)))
			case "q", "key":
				b.WriteString(regexp.QuoteMeta(fmt.Sprintf("%q", fmt.Sprint(v))))
			case "enum":
				js, _ := json.Marshal(decanon(v))
				b.WriteString(regexp.QuoteMeta(string(js)))
			case "types":
				ts := toStrs(v)
				a, x := "a", ""
				if len(ts) == 1 {
					x = ts[0]
					if x == "array" || x == "object" || x == "integer" {
						a = "an"
					}
				} else {
					a, x = "one of", strings.Join(ts, ", ")
				}
				b.WriteString(regexp.QuoteMeta(a + " " + x))
			case "indices":
				idx := []int{}
				for _, n := range jlist(v) {
					if jn, ok := n.(json.Number); ok {
						i, _ := jn.Int64()
						idx = append(idx, int(i))
					}
				}
				b.WriteString(regexp.QuoteMeta(fmt.Sprintf("%v", idx)))
			case "validator":
				b.WriteString("(?s:.*)")
			case "valueStr":
				b.WriteString(regexp.QuoteMeta(fmt.Sprint(v)))
			}
		}
	}
	b.WriteString("$")
	return b.String()
}

func modelReasons(m any) []string {
	out := []string{}
	mm, _ := m.(map[string]any)
	for _, e := range jlist(mm["errs"]) {
		em, _ := e.(map[string]any)
		out = append(out, renderReason(jlist(em["reason"])))
	}
	return out
}

func reasonsMatch(impl []string, model []string) bool {
	if len(impl) != len(model) {
		return false
	}
	for i := range impl {
		re, err := regexp.Compile(model[i])
		if err != nil || !re.MatchString(impl[i]) {
			return false
		}
	}
	return true
}

func cmpC19(c hx.Case, impl any, reply map[string]any) hx.Verdict {
	im, _ := impl.(map[string]any)
	model, _ := reply["model"].(map[string]any)
	if im == nil || model == nil {
		return hx.Verdict{IM: false, IS: true, Detail: "missing observation"}
	}
	if _, p := im["panic"]; p {
		return hx.Verdict{IM: false, IS: false, Detail: "implementation panicked: " + fmt.Sprint(im["panic"]) + " at " + fmt.Sprint(im["site"])}
	}
	if _, bad := im["kind"]; bad {
		return hx.Verdict{IM: false, IS: true, Detail: "generator produced a schema the library does not unmarshal"}
	}
	v := hx.Verdict{IM: true, IS: true}
	if l := jlist(im["leaks"]); len(l) > 0 {
		v.IS = false
		v.Detail = fmt.Sprintf("a marker planted in the value appears in: %v", l[0])
	}
	// spec side: the model's own fragments must not be value strings (proved; evaluated here as the oracle)
	if jbool(model, "valueFrag") {
		v.IS = false
		v.Detail += " | the model produced a value-derived fragment"
	}
	if !reasonsMatch(toStrs(im["dflt"]), modelReasons(model["dflt"])) {
		v.IM = false
		v.Detail += fmt.Sprintf(" | default-mode reasons: impl %q model %q", toStrs(im["dflt"]), modelReasons(model["dflt"]))
	}
	if !reasonsMatch(toStrs(im["multi"]), modelReasons(model["multi"])) {
		v.IM = false
		v.Detail += fmt.Sprintf(" | multi-mode reasons: impl %q model %q", toStrs(im["multi"]), modelReasons(model["multi"]))
	}
	return v
}
