package main

// C19 — schema error reasons never contain the rejected value.
// Real code exercised: VisitJSON (default and MultiErrors) and the exported typed entry points VisitJSONString / Array /
// Object / Number / Boolean on values whose every string leaf is a unique marker;
// the Reason of every SchemaError at every nesting level (Origin chains included) and the messages rendered with
// details disabled / with a reason-only customizer are searched for markers, and the top-level reason texts are
// compared with the model's rendered reason fragments. Through openapi3filter with WithCustomSchemaErrorFunc(reason only):
// ValidateRequest on JSON bodies and content-described query parameters, ValidateResponse on JSON bodies and — for
// string values — on a response HEADER declared with the schema, each fail-first and with MultiError; the texts of
// RequestError / ResponseError / MultiError .Error() and the Title/Source that ConvertErrors derives are searched too.
// Go-typed spellings: values the visitor does not handle (c19GoKinds, no model) and values it normalises and continues to
// validate with the caller's settings (c19TypedVariants: typed slices, Go integers, map[any]any) — the latter compared with
// the model of the plain value and searched on the customizer / details-disabled paths.

import (
	"bytes"
	"context"
	"encoding/json"
	"errors"
	"fmt"
	"math/big"
	"net/http"
	"net/url"
	"regexp"
	"runtime/debug"
	"strings"
	"sync"

	"github.com/getkin/kin-openapi/openapi3"
	"github.com/getkin/kin-openapi/openapi3filter"
	"github.com/getkin/kin-openapi/routers"

	"kinverif/internal/hx"
)

const c19Marker = "ZQXJ"

// value strings that are well-formed for SOME format validator (an address of the other family, an almost-date):
// validators have branches that only such inputs reach. They occur in no schema.
var c19Specials = []string{"198.51.100.77", "2001:db8::77", "2020-02-30", "198.51.100.77/33"}

// Go values outside the JSON-shaped set that visitJSON handles ("unhandled value of type %T"): a named string type, a
// map[string]string, a struct, a map[any]any with a non-string key — each carrying a marker
type c19Token string
type c19Struct struct{ Name string }

func c19GoForm(kind string, marker string) any {
	switch kind {
	case "namedString":
		return c19Token(marker)
	case "mapStringString":
		return map[string]string{"k": marker}
	case "struct":
		return c19Struct{Name: marker}
	case "structPtr":
		return &c19Struct{Name: marker}
	case "mapAnyAnyIntKey":
		return map[any]any{1: marker}
	case "stringer":
		return fmt.Errorf("%s", marker)
	}
	return marker
}

var c19GoKinds = []string{"namedString", "mapStringString", "struct", "structPtr", "mapAnyAnyIntKey", "stringer"}

// Go-typed spellings of JSON-shaped values that visitJSON DOES handle (it normalises them and continues with the
// caller's settings): slices whose Go type is not []any ([]string, []map[string]any, []int, []float64, []bool, a slice of
// a named interface type, a named slice type), Go integers, and map[any]any with string keys. The validation result is the
// one of the plain value, so these cases have a model; and every message path must stay reason-only below them.
type c19Any any
type c19Slice []any

var c19TypedVariants = []string{"concrete", "named", "mapany"}

func c19Retype(v any, variant string) any {
	switch x := v.(type) {
	case map[string]any:
		if variant == "mapany" {
			out := make(map[any]any, len(x))
			for k, e := range x {
				out[k] = c19Retype(e, variant)
			}
			return out
		}
		out := make(map[string]any, len(x))
		for k, e := range x {
			out[k] = c19Retype(e, variant)
		}
		return out
	case float64:
		if variant == "concrete" && x == float64(int32(x)) {
			switch int(x) % 3 {
			case 0:
				return int(x)
			case 1:
				return int64(x)
			}
			return int32(x)
		}
		return x
	case []any:
		el := make([]any, len(x))
		for i, e := range x {
			el[i] = c19Retype(e, variant)
		}
		if variant == "named" {
			return c19Slice(el)
		}
		if variant == "mapany" {
			out := make([]c19Any, len(el))
			for i, e := range el {
				out[i] = e
			}
			return out
		}
		allOf := func(pred func(any) bool) bool {
			for _, e := range el {
				if !pred(e) {
					return false
				}
			}
			return true
		}
		switch {
		case allOf(func(e any) bool { _, ok := e.(string); return ok }):
			out := make([]string, len(el))
			for i, e := range el {
				out[i] = e.(string)
			}
			return out
		case allOf(func(e any) bool { _, ok := e.(map[string]any); return ok }):
			out := make([]map[string]any, len(el))
			for i, e := range el {
				out[i] = e.(map[string]any)
			}
			return out
		case allOf(func(e any) bool { _, ok := e.([]string); return ok }):
			out := make([][]string, len(el))
			for i, e := range el {
				out[i] = e.([]string)
			}
			return out
		case allOf(func(e any) bool { _, ok := e.(int); return ok }):
			out := make([]int, len(el))
			for i, e := range el {
				out[i] = e.(int)
			}
			return out
		case allOf(func(e any) bool { _, ok := e.(float64); return ok }):
			out := make([]float64, len(el))
			for i, e := range el {
				out[i] = e.(float64)
			}
			return out
		case allOf(func(e any) bool { _, ok := e.(bool); return ok }):
			out := make([]bool, len(el))
			for i, e := range el {
				out[i] = e.(bool)
			}
			return out
		}
		out := make([]c19Any, len(el))
		for i, e := range el {
			out[i] = e
		}
		return out
	}
	return v
}

// c19HasArray: the value contains an array or (for "mapany") an object, i.e. the typed spelling differs from the plain one
func c19Retypable(v any, variant string) bool {
	switch x := v.(type) {
	case []any:
		return true
	case map[string]any:
		if variant == "mapany" {
			return true
		}
		for _, e := range x {
			if c19Retypable(e, variant) {
				return true
			}
		}
	case json.Number, float64, int:
		return variant == "concrete"
	}
	return false
}

// c19Typed replaces every {"$go": kind, "s": marker} node of a case value by the Go value it stands for
func c19Typed(v any) any {
	switch x := v.(type) {
	case map[string]any:
		if k, ok := x["$go"].(string); ok {
			m, _ := x["s"].(string)
			return c19GoForm(k, m)
		}
		out := make(map[string]any, len(x))
		for k, e := range x {
			out[k] = c19Typed(e)
		}
		return out
	case []any:
		out := make([]any, len(x))
		for i, e := range x {
			out[i] = c19Typed(e)
		}
		return out
	}
	return plainValue(v)
}

func init() {
	hx.Register(&hx.Prop{
		ID: "C19",
		Rule: "the schema space of C01/C12 crossed with a value alphabet in which every string leaf is a unique marker (all JSON types, nested; strings of lengths 4–12 so that " +
			"length, pattern, enum, format, type and composition keywords fail at depth 0–2); every Reason at every nesting level and every message path assembled from reasons " +
			"(customizer fail-first/multi, details disabled, RequestError and ResponseError texts of body / parameter / response body / response header, fail-first/multi, ConvertErrors titles) are searched for markers; " +
			"reason texts are compared with the model. Every fourth pair of the exhaustive block and every random pair is repeated with the value in a Go-typed spelling the visitor normalises (typed slices, Go integers, map[any]any). Non-trivial = the value is rejected with at least one error (the driver reports field and nesting).",
		Exhaustive: true,
		Gen:        genC19,
		Run:        runC19,
		Compare:    cmpC19,
		Shrink:     shrinkSchemaCase,
		Assumptions: []string{
			"markers are strings that occur in no schema; property names and numbers are not markers (the property speaks of string values)",
			"validator/regexp-compiler texts inside reasons are matched as wildcards (their wording is the validator's, checked for markers only)",
			"ConvertErrors: Title and Source are searched; the Detail it adds to an enum error quotes the value by design (not a message assembled from reasons)",
			"typed Go values outside the JSON-shaped set (named string, map[string]string, struct, …) have no model: the marker search is the whole check for them",
			"Go-typed spellings the visitor normalises ([]string, []map[string]any, []int, named slice/interface types, int/int32/int64, map[any]any) are compared with the model of the plain value, except under `enum` (reflect.DeepEqual on the raw value) and, for map[any]any, under uniqueItems / discriminator (raw value marshalled / type-asserted): marker search only there",
		},
	})
}

var c19Once sync.Once

func init() {
	// string formats beyond the three registered by default, so that every shape of validator error is exercised:
	// a built-in validator returning a bare *SchemaError, and a user validator that WRAPS such an error.
	openapi3.DefineIPv4Format()
	openapi3.DefineIPv6Format()
	ip := openapi3.NewIPValidator(true)
	openapi3.DefineStringFormatValidator("x-wrapped-ip", openapi3.NewCallbackValidator(func(v string) error {
		if err := ip.Validate(v); err != nil {
			return fmt.Errorf("not acceptable here: %w", err)
		}
		return nil
	}))
}

func markerize(v any, n *int) any {
	switch x := v.(type) {
	case string:
		*n++
		return fmt.Sprintf("%s%d%s", c19Marker, *n, strings.Repeat("k", len(x)))
	case []any:
		out := make([]any, len(x))
		for i, e := range x {
			out[i] = markerize(e, n)
		}
		return out
	case map[string]any:
		out := make(map[string]any, len(x))
		keys := make([]string, 0, len(x))
		for k := range x {
			keys = append(keys, k)
		}
		sortStrings(keys)
		for _, k := range keys {
			out[k] = markerize(x[k], n)
		}
		return out
	}
	return v
}

func sortStrings(s []string) {
	for i := 1; i < len(s); i++ {
		for j := i; j > 0 && s[j] < s[j-1]; j-- {
			s[j], s[j-1] = s[j-1], s[j]
		}
	}
}

func genC19(ctx *hx.Ctx, emit0 func(hx.Case)) {
	debug.SetGCPercent(400)
	emit := func(c hx.Case) { delete(c, "pre"); emit0(c) } // the regex-compiler history is observed by C01
	vals := make([]any, 0, len(c01Values))
	n := 0
	for _, v := range c01Values {
		vals = append(vals, markerize(v, &n))
	}
	for _, sp := range c19Specials {
		vals = append(vals, sp, []any{sp}, map[string]any{"a": sp})
	}
	// typed Go values the visitor does not handle, at depth 0–2, under schemas that reach the type switch (no model: markers only)
	for _, kind := range c19GoKinds {
		g := map[string]any{"$go": kind, "s": c19Marker + "7typed"}
		for _, v := range []any{g, []any{g}, map[string]any{"a": g}, map[string]any{"a": []any{1, g}}} {
			for _, sch := range []map[string]any{
				{"type": "string"}, {"type": "object"}, {"minLength": 1}, {"enum": []any{"x"}}, {"not": map[string]any{"type": "integer"}},
				{"items": map[string]any{"type": "string", "maxLength": 1}}, {"properties": map[string]any{"a": map[string]any{"type": "string"}}},
				{"additionalProperties": map[string]any{"items": map[string]any{"maxLength": 1}}}, {"anyOf": []any{map[string]any{"type": "string"}, map[string]any{"items": map[string]any{"type": "string"}}}},
				{"oneOf": []any{map[string]any{"type": "string"}}, "properties": map[string]any{"a": map[string]any{"minLength": 1}}},
			} {
				emit0(hx.Case{"schema": sch, "value": v, "nomodel": true})
			}
		}
	}
	for i, c := range c01DiscCases() {
		if !ctx.Thorough() && i%2 == 1 {
			continue
		}
		k := 0
		c["value"] = markerize(c["value"], &k)
		emit(withOracle(c))
	}
	for i, s := range c01Schemas(ctx) {
		for j, v := range vals {
			if !ctx.Thorough() && (i+j)%2 != 0 {
				continue
			}
			emit(withOracle(hx.Case{"schema": s, "value": v}))
			// the same value handed over in a Go-typed spelling the visitor normalises (one variant per pair, all three over the space)
			if tv := c19TypedVariants[(i+2*j)%len(c19TypedVariants)]; (i+j)%4 == 0 && c19Retypable(v, tv) {
				emit(withOracle(hx.Case{"schema": s, "value": v, "gotyped": tv}))
			}
		}
	}
	cnt := 4000
	if ctx.Thorough() {
		cnt = 100000
	}
	for i := 0; i < cnt; i++ {
		s := randSchema(ctx.Rng, 1+ctx.Rng.Intn(3))
		for j := 0; j < 3; j++ {
			k := 0
			rv := markerize(randValue(ctx.Rng, 1+ctx.Rng.Intn(3)), &k)
			emit(withOracle(hx.Case{"schema": s, "value": rv}))
			if tv := c19TypedVariants[ctx.Rng.Intn(len(c19TypedVariants))]; c19Retypable(rv, tv) {
				emit(withOracle(hx.Case{"schema": s, "value": rv, "gotyped": tv}))
			}
		}
	}
}

// allReasons walks an error tree: MultiError members, Origin chains, wrapped errors.
func allReasons(err error, out *[]string, depth int) {
	if err == nil || depth > 40 {
		return
	}
	switch e := err.(type) {
	case *openapi3.SchemaError:
		*out = append(*out, e.Reason)
		allReasons(e.Origin, out, depth+1)
		return
	case openapi3.MultiError:
		for _, x := range e {
			allReasons(x, out, depth+1)
		}
		return
	}
	if u, ok := err.(interface{ Unwrap() []error }); ok {
		for _, x := range u.Unwrap() {
			allReasons(x, out, depth+1)
		}
		return
	}
	if u := errors.Unwrap(err); u != nil {
		allReasons(u, out, depth+1)
	}
}

func topReasons(err error) []any {
	out := []any{}
	if err == nil {
		return out
	}
	var flat []error
	flattenErrs(err, &flat)
	for _, e := range flat {
		if se, ok := e.(*openapi3.SchemaError); ok {
			out = append(out, se.Reason)
		} else {
			out = append(out, "<not a SchemaError> "+e.Error())
		}
	}
	return out
}

// mentionsKey: some object in the tree has one of the keys
func mentionsKey(v any, keys ...string) bool {
	switch x := v.(type) {
	case map[string]any:
		for _, k := range keys {
			if _, ok := x[k]; ok {
				return true
			}
		}
		for _, e := range x {
			if mentionsKey(e, keys...) {
				return true
			}
		}
	case []any:
		for _, e := range x {
			if mentionsKey(e, keys...) {
				return true
			}
		}
	}
	return false
}

// c19Mu: the details switch is a package variable. Everything that runs with the default setting holds the read lock;
// the short section that validates and renders with details disabled holds the write lock.
var c19Mu sync.RWMutex

func reasonOnly(e *openapi3.SchemaError) string { return e.Reason }

// isParseErr: a value that does not decode as the parameter / header is quoted by the PARSE error — not a schema error
func isParseErr(e error) bool {
	var pe *openapi3filter.ParseError
	return errors.As(e, &pe)
}

// c19Request validates value v, sent as a JSON body (op with a request body) or as a content-described query parameter,
// through the request validator with a reason-only schema-error function; returns the errors whose text comes from schema errors.
func c19Request(s *openapi3.Schema, body []byte, asParam bool, multi bool) (schemaErr error, full error) {
	opts := &openapi3filter.Options{MultiError: multi}
	opts.WithCustomSchemaErrorFunc(reasonOnly)
	var op *openapi3.Operation
	var req *http.Request
	method := "POST"
	if asParam {
		method = "GET"
		prm := &openapi3.Parameter{Name: "p", In: "query", Content: openapi3.NewContentWithJSONSchemaRef(&openapi3.SchemaRef{Value: s})}
		op = &openapi3.Operation{Responses: openapi3.NewResponses(), Parameters: openapi3.Parameters{&openapi3.ParameterRef{Value: prm}}}
		q := url.Values{"p": []string{string(body)}}
		req, _ = http.NewRequest("GET", "http://example.com/x?"+q.Encode(), nil)
	} else {
		op = &openapi3.Operation{Responses: openapi3.NewResponses(),
			RequestBody: &openapi3.RequestBodyRef{Value: openapi3.NewRequestBody().WithJSONSchemaRef(&openapi3.SchemaRef{Value: s})}}
		req, _ = http.NewRequest("POST", "http://example.com/x", bytes.NewReader(body))
		req.Header.Set("Content-Type", "application/json")
	}
	item := &openapi3.PathItem{}
	item.SetOperation(method, op)
	in := &openapi3filter.RequestValidationInput{Request: req, Options: opts,
		Route: &routers.Route{Spec: &openapi3.T{}, Path: "/x", PathItem: item, Method: method, Operation: op}}
	e := openapi3filter.ValidateRequest(context.Background(), in)
	if e == nil {
		return nil, nil
	}
	var flat []error
	flattenErrs(e, &flat)
	var se openapi3.MultiError
	for _, fe := range flat {
		var re *openapi3filter.RequestError
		if errors.As(fe, &re) && re.Err != nil && !isParseErr(re.Err) {
			se = append(se, re.Err)
		} else {
			return nil, nil // rejected before / besides schema validation (decoding): its text is not assembled from reasons
		}
	}
	if len(se) == 0 {
		return nil, nil
	}
	return se, e
}

// c19Response validates v as the JSON body of a response, or (a string) as the value of a response header with schema s,
// through the response validator with a reason-only schema-error function.
func c19Response(s *openapi3.Schema, body []byte, header *string, multi bool) (out error) {
	// the schemas of the shared space are not validated documents (e.g. `type: array` without `items`); what the header /
	// body DECODER does with those belongs to C05 / C10 — a decoder panic is "no schema error to look at" here
	defer func() {
		if recover() != nil {
			out = nil
		}
	}()
	opts := &openapi3filter.Options{MultiError: multi, IncludeResponseStatus: true}
	opts.WithCustomSchemaErrorFunc(reasonOnly)
	resp := openapi3.NewResponse().WithDescription("d")
	h := http.Header{}
	if header != nil {
		resp.Headers = openapi3.Headers{"X-Verif": &openapi3.HeaderRef{Value: &openapi3.Header{Parameter: openapi3.Parameter{Schema: &openapi3.SchemaRef{Value: s}}}}}
		h.Set("X-Verif", *header)
	} else {
		resp.Content = openapi3.NewContentWithJSONSchemaRef(&openapi3.SchemaRef{Value: s})
		h.Set("Content-Type", "application/json")
	}
	op := &openapi3.Operation{Responses: openapi3.NewResponses(openapi3.WithStatus(200, &openapi3.ResponseRef{Value: resp}))}
	req, _ := http.NewRequest("GET", "http://example.com/x", nil)
	rin := &openapi3filter.RequestValidationInput{Request: req, Options: opts,
		Route: &routers.Route{Spec: &openapi3.T{}, Path: "/x", PathItem: &openapi3.PathItem{Get: op}, Method: "GET", Operation: op}}
	in := &openapi3filter.ResponseValidationInput{RequestValidationInput: rin, Status: 200, Header: h, Options: opts}
	in.SetBodyBytes(body)
	e := openapi3filter.ValidateResponse(context.Background(), in)
	if e == nil || isParseErr(e) {
		return nil
	}
	var re *openapi3filter.ResponseError
	if errors.As(e, &re) && re.Err != nil {
		if _, isSchema := re.Err.(*openapi3.SchemaError); isSchema {
			return e
		}
		if _, isMulti := re.Err.(openapi3.MultiError); isMulti {
			return e
		}
	}
	return nil
}

func runC19(c hx.Case) any {
	c19Mu.RLock()
	locked := true
	defer func() { // a panic in the library must not leave the lock held
		if locked {
			c19Mu.RUnlock()
		}
	}()
	s, err := caseSchema(c)
	if err != nil {
		return map[string]any{"kind": "schema-unmarshal-error", "err": err.Error()}
	}
	v := plainValue(c["value"])
	if jbool(c, "nomodel") {
		v = c19Typed(c["value"])
	}
	if tv := jstr(c, "gotyped"); tv != "" {
		v = c19Retype(v, tv)
	}
	ed := s.VisitJSON(v)
	em := s.VisitJSON(v, openapi3.MultiErrors())
	e2 := s.VisitJSON(v, openapi3.SetSchemaErrorMessageCustomizer(reasonOnly))
	e2m := s.VisitJSON(v, openapi3.SetSchemaErrorMessageCustomizer(reasonOnly), openapi3.MultiErrors())
	var reasons []string
	msgs := []string{} // every message that is assembled from reasons alone
	add := func(path string, e error) {
		if e != nil {
			msgs = append(msgs, path+": "+e.Error())
			allReasons(e, &reasons, 0)
		}
	}
	add("customizer", e2)
	add("customizer/multi", e2m)
	// the exported typed entry points (they start below enum / composition keywords, with default settings): their
	// reasons are searched like the others, their texts with details disabled (below)
	typedEntry := func() error {
		switch x := v.(type) {
		case string:
			return s.VisitJSONString(x)
		case []any:
			return s.VisitJSONArray(x)
		case map[string]any:
			return s.VisitJSONObject(x)
		case float64:
			return s.VisitJSONNumber(x)
		case bool:
			return s.VisitJSONBoolean(x)
		}
		return nil
	}
	allReasons(typedEntry(), &reasons, 0)
	paths := 0
	// a value the schema accepts produces no schema error on any path (the filter adds only the request/response reading)
	// (a Go-typed spelling reaches the filter only as the JSON text of the plain value — a body decoder must return
	// []any / map[string]any by contract —, so the filter paths of a "gotyped" case would repeat those of the plain case)
	if body, err := json.Marshal(v); err == nil && jstr(c, "gotyped") == "" && (ed != nil || mentionsKey(c["schema"], "readOnly", "writeOnly")) {
		// the request validator: JSON body and content-described query parameter, fail-first and multi-error; the text of
		// the RequestError itself, and what ConvertErrors / the ValidationError encoder make of it (Title and Source; the
		// Detail of an enum error quotes the value by design and is not a message assembled from reasons)
		for _, asParam := range []bool{false, true} {
			for _, multi := range []bool{false, true} {
				name := fmt.Sprintf("request-validator/param=%v/multi=%v", asParam, multi)
				se, full := c19Request(s, body, asParam, multi)
				add(name+"/schema-error", se)
				add(name+"/RequestError", full)
				if full != nil {
					paths++
					var flat []error
					flattenErrs(full, &flat)
					for _, fe := range flat {
						if ve, ok := openapi3filter.ConvertErrors(fe).(*openapi3filter.ValidationError); ok {
							t := ve.Title
							if ve.Source != nil {
								t += " @" + ve.Source.Pointer + " " + ve.Source.Parameter
							}
							msgs = append(msgs, name+"/ConvertErrors.Title: "+t)
						}
					}
				}
			}
		}
		// the response validator: JSON body, and (string values) a response header with this schema
		for _, multi := range []bool{false, true} {
			e := c19Response(s, body, nil, multi)
			add(fmt.Sprintf("response-validator/body/multi=%v", multi), e)
			if e != nil {
				paths++
			}
			if str, ok := v.(string); ok {
				e := c19Response(s, nil, &str, multi)
				add(fmt.Sprintf("response-validator/header/multi=%v", multi), e)
				if e != nil {
					paths++
				}
			}
		}
	}
	for _, e := range []error{ed, em} {
		allReasons(e, &reasons, 0)
	}
	c19Mu.RUnlock()
	locked = false
	// details disabled, as a deployment sets it: before validating (wrapped validator errors are rendered eagerly)
	if ed != nil {
		func() {
			c19Mu.Lock()
			defer func() { openapi3.SchemaErrorDetailsDisabled = false; c19Mu.Unlock() }()
			openapi3.SchemaErrorDetailsDisabled = true
			add("details-disabled/default", s.VisitJSON(v))
			add("details-disabled/multi", s.VisitJSON(v, openapi3.MultiErrors()))
			add("details-disabled/typed-entry", typedEntry())
		}()
	}
	leaks := []any{}
	leaky := func(t string) bool {
		if strings.Contains(t, c19Marker) {
			return true
		}
		for _, sp := range c19Specials {
			if strings.Contains(t, sp) {
				return true
			}
		}
		return false
	}
	for _, r := range reasons {
		if leaky(r) {
			leaks = append(leaks, "reason: "+r)
		}
	}
	for _, m := range msgs {
		if leaky(m) {
			leaks = append(leaks, "message "+m)
		}
	}
	return map[string]any{"ok": ed == nil, "leaks": leaks, "dflt": topReasons(ed), "multi": topReasons(em), "nreasons": len(reasons), "npaths": paths}
}

func decanon(v any) any {
	switch x := v.(type) {
	case map[string]any:
		if s, ok := x["$num"].(string); ok && len(x) == 1 {
			r, ok := new(big.Rat).SetString(s)
			if !ok {
				return 0.0
			}
			f, _ := r.Float64()
			return f
		}
		out := map[string]any{}
		for k, e := range x {
			out[k] = decanon(e)
		}
		return out
	case []any:
		out := make([]any, len(x))
		for i, e := range x {
			out[i] = decanon(e)
		}
		return out
	}
	return v
}

// renderReason turns the model's typed fragments into a regular expression over the real reason text.
func renderReason(frags []any) string {
	var b strings.Builder
	b.WriteString("^")
	for _, f := range frags {
		m, _ := f.(map[string]any)
		for k, v := range m {
			switch k {
			case "lit", "s":
				b.WriteString(regexp.QuoteMeta(fmt.Sprint(v)))
			case "g":
				r, _ := new(big.Rat).SetString(fmt.Sprint(v))
				fl := 0.0
				if r != nil {
					fl, _ = r.Float64()
				}
				b.WriteString(regexp.QuoteMeta(fmt.Sprintf("%g", fl)))
			case "d":
				b.WriteString(regexp.QuoteMeta(fmt.Sprint(v)))
			case "q", "key":
				b.WriteString(regexp.QuoteMeta(fmt.Sprintf("%q", fmt.Sprint(v))))
			case "enum":
				js, _ := json.Marshal(decanon(v))
				b.WriteString(regexp.QuoteMeta(string(js)))
			case "types":
				ts := toStrs(v)
				a, x := "a", ""
				if len(ts) == 1 {
					x = ts[0]
					if x == "array" || x == "object" || x == "integer" {
						a = "an"
					}
				} else {
					a, x = "one of", strings.Join(ts, ", ")
				}
				b.WriteString(regexp.QuoteMeta(a + " " + x))
			case "indices":
				idx := []int{}
				for _, n := range jlist(v) {
					if jn, ok := n.(json.Number); ok {
						i, _ := jn.Int64()
						idx = append(idx, int(i))
					}
				}
				b.WriteString(regexp.QuoteMeta(fmt.Sprintf("%v", idx)))
			case "validator":
				b.WriteString("(?s:.*)")
			case "valueStr":
				b.WriteString(regexp.QuoteMeta(fmt.Sprint(v)))
			}
		}
	}
	b.WriteString("$")
	return b.String()
}

func modelReasons(m any) []string {
	out := []string{}
	mm, _ := m.(map[string]any)
	for _, e := range jlist(mm["errs"]) {
		em, _ := e.(map[string]any)
		out = append(out, renderReason(jlist(em["reason"])))
	}
	return out
}

func reasonsMatch(impl []string, model []string) bool {
	if len(impl) != len(model) {
		return false
	}
	for i := range impl {
		re, err := regexp.Compile(model[i])
		if err != nil || !re.MatchString(impl[i]) {
			return false
		}
	}
	return true
}

func cmpC19(c hx.Case, impl any, reply map[string]any) hx.Verdict {
	im, _ := impl.(map[string]any)
	model, _ := reply["model"].(map[string]any)
	if im == nil || model == nil {
		return hx.Verdict{IM: false, IS: true, Detail: "missing observation"}
	}
	if _, p := im["panic"]; p {
		return hx.Verdict{IM: false, IS: false, Detail: "implementation panicked: " + fmt.Sprint(im["panic"]) + " at " + fmt.Sprint(im["site"])}
	}
	if _, bad := im["kind"]; bad {
		return hx.Verdict{IM: false, IS: true, Detail: "generator produced a schema the library does not unmarshal"}
	}
	v := hx.Verdict{IM: true, IS: true}
	if l := jlist(im["leaks"]); len(l) > 0 {
		v.IS = false
		v.Detail = fmt.Sprintf("a marker planted in the value appears in: %v", l[0])
	}
	if jbool(c, "nomodel") {
		return v // Go values outside `J`: the marker search is the whole check
	}
	if tv := jstr(c, "gotyped"); tv != "" {
		// a typed spelling validates like the plain value, except where the code compares the RAW value: `enum` uses
		// reflect.DeepEqual on it, the default uniqueItems checker marshals it (map[any]any does not marshal), the
		// discriminator is read from a map[string]any only. There the marker search is the whole check.
		if mentionsKey(c["schema"], "enum") || (tv == "mapany" && mentionsKey(c["schema"], "uniqueItems", "discriminator")) {
			return v
		}
	}
	// spec side: the model's own fragments must not be value strings (proved; evaluated here as the oracle)
	if jbool(model, "valueFrag") {
		v.IS = false
		v.Detail += " | the model produced a value-derived fragment"
	}
	if !reasonsMatch(toStrs(im["dflt"]), modelReasons(model["dflt"])) {
		v.IM = false
		v.Detail += fmt.Sprintf(" | default-mode reasons: impl %q model %q", toStrs(im["dflt"]), modelReasons(model["dflt"]))
	}
	if !reasonsMatch(toStrs(im["multi"]), modelReasons(model["multi"])) {
		v.IM = false
		v.Detail += fmt.Sprintf(" | multi-mode reasons: impl %q model %q", toStrs(im["multi"]), modelReasons(model["multi"]))
	}
	return v
}
