package main

// C03 — the Loader route: documents the library parses with Loader.LoadFromData(WithPath) — references of
// every kind resolved (`Value` filled next to `Ref`, path items copied over) — must serialise to the input:
// every `$ref` text exactly as written, nothing of the resolved value in the output.
// Directed documents: every reference site of every kind × {direct, chain of 2, chain of 3, fragment in another
// file, whole other file, chain through another file}; path-item references (single, chains, shared target,
// in callbacks, other file, other file that is itself a reference).

import (
	"encoding/json"
	"fmt"
	"os"
	"path/filepath"
	"net/url"
	"path"
	"sort"
	"strings"

	"github.com/getkin/kin-openapi/openapi3"

	"kinverif/internal/hx"
)

// c03NewLoader builds the loader of one case: external references are served from the case's own "files"
func c03NewLoader(files map[string]any) (*openapi3.Loader, *url.URL) {
	ld := openapi3.NewLoader()
	if files == nil {
		return ld, nil
	}
	ld.IsExternalRefsAllowed = true
	ld.ReadFromURIFunc = func(_ *openapi3.Loader, u *url.URL) ([]byte, error) {
		name := path.Base(u.Path)
		f, ok := files[name]
		if !ok {
			return nil, fmt.Errorf("no such file %q", name)
		}
		return jsonBytes(f), nil
	}
	return ld, &url.URL{Path: "root.json"}
}

// c03LoadFromFile: the document and the files it refers to are written into a fresh directory and loaded with
// Loader.LoadFromFile (the real file reader, relative references resolved against the root's location)
func c03LoadFromFile(data []byte, files map[string]any) (*openapi3.T, error) {
	dir, err := os.MkdirTemp("", "c03-")
	if err != nil {
		return nil, err
	}
	defer os.RemoveAll(dir)
	for name, f := range files {
		if name == "root.json" {
			continue
		}
		if err := os.WriteFile(filepath.Join(dir, name), jsonBytes(f), 0o600); err != nil {
			return nil, err
		}
	}
	root := filepath.Join(dir, "root.json")
	if err := os.WriteFile(root, data, 0o600); err != nil {
		return nil, err
	}
	ld := openapi3.NewLoader()
	ld.IsExternalRefsAllowed = true
	return ld.LoadFromFile(root)
}

func jsonBytes(v any) []byte {
	b, _ := json.Marshal(v)
	return b
}

type c03RefKind struct {
	coll     string // components collection
	terminal func() any
}

var c03RefKinds = []c03RefKind{
	{"schemas", func() any {
		return map[string]any{"type": "object", "properties": map[string]any{"n": map[string]any{"type": "integer"}}}
	}},
	{"parameters", func() any {
		return map[string]any{"name": "p", "in": "query", "schema": map[string]any{"type": "string"}}
	}},
	{"headers", func() any { return map[string]any{"schema": map[string]any{"type": "string"}} }},
	{"requestBodies", func() any {
		return map[string]any{"content": map[string]any{"application/json": map[string]any{"schema": map[string]any{"type": "string"}}}}
	}},
	{"responses", func() any { return map[string]any{"description": "ok"} }},
	{"securitySchemes", func() any { return map[string]any{"type": "http", "scheme": "basic"} }},
	{"examples", func() any { return map[string]any{"value": map[string]any{"a": 1}} }},
	{"links", func() any { return map[string]any{"operationId": "op"} }},
	{"callbacks", func() any {
		return map[string]any{"{$request.body#/url}": map[string]any{"post": map[string]any{"responses": map[string]any{"200": map[string]any{"description": "cb"}}}}}
	}},
}

func c03Ref(s string) map[string]any { return map[string]any{"$ref": s} }

// c03Skeleton: a document in normal form in which every reference site of the collections in `use` holds
// ref(coll) and every other site holds an inline value (or is absent)
func c03Skeleton(use map[string]bool, ref func(coll string) string) map[string]any {
	site := func(coll string, inline any) any {
		if use[coll] {
			return c03Ref(ref(coll))
		}
		return inline
	}
	str := map[string]any{"type": "string"}
	media := map[string]any{"schema": site("schemas", str)}
	if use["examples"] {
		media["examples"] = map[string]any{"e": c03Ref(ref("examples"))}
	}
	if use["headers"] {
		media["encoding"] = map[string]any{"f": map[string]any{"headers": map[string]any{"X-E": c03Ref(ref("headers"))}}}
	}
	resp := map[string]any{"description": "r", "content": map[string]any{"application/json": media}}
	if use["headers"] {
		resp["headers"] = map[string]any{"X-H": c03Ref(ref("headers"))}
	}
	if use["links"] {
		resp["links"] = map[string]any{"l": c03Ref(ref("links"))}
	}
	op := map[string]any{"responses": map[string]any{"200": site("responses", resp), "default": resp}}
	if use["parameters"] {
		op["parameters"] = []any{c03Ref(ref("parameters"))}
	}
	if use["requestBodies"] {
		op["requestBody"] = c03Ref(ref("requestBodies"))
	}
	if use["callbacks"] {
		op["callbacks"] = map[string]any{"cb": c03Ref(ref("callbacks"))}
	}
	item := map[string]any{"get": op}
	if use["parameters"] {
		item["parameters"] = []any{c03Ref(ref("parameters")), map[string]any{"name": "q", "in": "header", "schema": site("schemas", str)}}
	}
	doc := map[string]any{"openapi": "3.0.3", "info": map[string]any{"title": "t", "version": "1"}, "paths": map[string]any{"/a": item}}
	comps := map[string]any{}
	if use["schemas"] {
		sref := c03Ref(ref("schemas"))
		comps["schemas"] = map[string]any{"W": map[string]any{"type": "object",
			"properties": map[string]any{"p": sref}, "additionalProperties": sref, "allOf": []any{sref}, "anyOf": []any{sref, str},
			"oneOf": []any{sref}, "not": sref}, "L": map[string]any{"type": "array", "items": sref}}
		comps["parameters"] = map[string]any{"WP": map[string]any{"name": "w", "in": "query", "schema": sref}}
		comps["headers"] = map[string]any{"WH": map[string]any{"schema": sref}}
	}
	if use["securitySchemes"] {
		comps["securitySchemes"] = map[string]any{"W": c03Ref(ref("securitySchemes"))}
	}
	if use["examples"] {
		ps, _ := comps["parameters"].(map[string]any)
		if ps == nil {
			ps = map[string]any{}
			comps["parameters"] = ps
		}
		ps["WE"] = map[string]any{"name": "e", "in": "query", "schema": str, "examples": map[string]any{"e": c03Ref(ref("examples"))}}
	}
	if len(comps) > 0 {
		doc["components"] = comps
	}
	return doc
}

// c03AddTargets adds to `doc` the components the reference texts point at: A real, B → A, C → B
func c03AddTargets(doc map[string]any, kinds []c03RefKind, prefix string, upto int) {
	comps, _ := doc["components"].(map[string]any)
	if comps == nil {
		comps = map[string]any{}
		doc["components"] = comps
	}
	for _, k := range kinds {
		coll, _ := comps[k.coll].(map[string]any)
		if coll == nil {
			coll = map[string]any{}
			comps[k.coll] = coll
		}
		coll["A"] = k.terminal()
		if upto >= 2 {
			coll["B"] = c03Ref(prefix + "#/components/" + k.coll + "/A")
		}
		if upto >= 3 {
			coll["C"] = c03Ref(prefix + "#/components/" + k.coll + "/B")
		}
	}
}

func c03ExtDoc() map[string]any {
	return map[string]any{"openapi": "3.0.3", "info": map[string]any{"title": "ext", "version": "1"}, "paths": map[string]any{}}
}

func c03LoaderCase(doc map[string]any, files map[string]any, format string) hx.Case {
	c := hx.Case{"kind": "openapi3.T", "wrap": "kind", "fmt": format, "doc": c03Plain(doc), "loader": true, "mustLoad": true}
	if files != nil {
		c["files"] = c03Plain(files)
	}
	return c
}

func c03PathItem(desc string) map[string]any {
	return map[string]any{"get": map[string]any{"responses": map[string]any{"200": map[string]any{"description": desc}}}}
}

// c03SelfCallbackItem: a real path item one of whose callbacks holds a path-item reference to `target`
func c03SelfCallbackItem(target string) map[string]any {
	return map[string]any{"post": map[string]any{"responses": map[string]any{"200": map[string]any{"description": "r"}},
		"callbacks": map[string]any{"cb": map[string]any{"{$request.body#/url}": c03Ref(target)}}}}
}

func genC03Loader(ctx *hx.Ctx, emit0 func(hx.Case)) {
	// every directed document goes through LoadFromData(WithPath) and, in turn (thorough: both), through
	// LoadFromFile (real files in a fresh directory) and json/yaml.Unmarshal + ResolveRefsIn
	nth := 0
	emit := func(c hx.Case) {
		emit0(c)
		entries := []string{"file", "resolveIn"}
		for i, e := range entries {
			if !ctx.Thorough() && i != nth%2 {
				continue
			}
			x := cloneCase(c)
			x["entry"] = e
			emit0(x)
		}
		nth++
	}
	formats := []string{"json", "yaml"}
	sets := [][]c03RefKind{}
	for _, k := range c03RefKinds {
		sets = append(sets, []c03RefKind{k})
	}
	sets = append(sets, c03RefKinds) // every kind at once
	for si, set := range sets {
		use := map[string]bool{}
		for _, k := range set {
			use[k.coll] = true
		}
		for fi, form := range []string{"direct", "chain2", "chain3", "extFragment", "extChain", "extBack", "extFile"} {
			format := formats[(si+fi)%2]
			var doc map[string]any
			var files map[string]any
			switch form {
			case "direct", "chain2", "chain3":
				name := map[string]string{"direct": "A", "chain2": "B", "chain3": "C"}[form]
				doc = c03Skeleton(use, func(coll string) string { return "#/components/" + coll + "/" + name })
				c03AddTargets(doc, set, "", map[string]int{"direct": 1, "chain2": 2, "chain3": 3}[form])
			case "extFragment", "extChain":
				name := map[string]string{"extFragment": "A", "extChain": "C"}[form]
				doc = c03Skeleton(use, func(coll string) string { return "ext.json#/components/" + coll + "/" + name })
				ext := c03ExtDoc()
				c03AddTargets(ext, set, "", 3)
				files = map[string]any{"ext.json": ext}
			case "extBack":
				// the other file's B points back into the root document
				doc = c03Skeleton(use, func(coll string) string { return "ext.json#/components/" + coll + "/B" })
				c03AddTargets(doc, set, "", 1)
				ext := c03ExtDoc()
				c03AddTargets(ext, set, "root.json", 2)
				files = map[string]any{"ext.json": ext, "root.json": doc} // the back reference re-reads the root document by its name
			case "extFile":
				doc = c03Skeleton(use, func(coll string) string { return coll + "_a.json" })
				files = map[string]any{}
				for _, k := range set {
					files[k.coll+"_a.json"] = k.terminal()
				}
			}
			emit(c03LoaderCase(doc, files, format))
			if ctx.Thorough() {
				emit(c03LoaderCase(doc, files, formats[(si+fi+1)%2]))
			}
		}
	}
	// path-item references
	base := func(paths map[string]any) map[string]any {
		return map[string]any{"openapi": "3.0.3", "info": map[string]any{"title": "t", "version": "1"}, "paths": paths}
	}
	type pcase struct {
		paths map[string]any
		files map[string]any
	}
	pcs := []pcase{
		{map[string]any{"/a": c03Ref("#/paths/~1b"), "/b": c03PathItem("b")}, nil},
		{map[string]any{"/b": c03Ref("#/paths/~1a"), "/a": c03PathItem("a")}, nil},
		{map[string]any{"/a": c03Ref("#/paths/~1b"), "/b": c03Ref("#/paths/~1c"), "/c": c03PathItem("c")}, nil},
		{map[string]any{"/c": c03Ref("#/paths/~1b"), "/b": c03Ref("#/paths/~1a"), "/a": c03PathItem("a")}, nil},
		{map[string]any{"/a": c03Ref("#/paths/~1d"), "/b": c03Ref("#/paths/~1c"), "/c": c03Ref("#/paths/~1d"), "/d": c03PathItem("d")}, nil},
		{map[string]any{"/a": c03Ref("#/paths/~1z"), "/b": c03Ref("#/paths/~1z"), "/z": c03PathItem("z")}, nil},
		{map[string]any{"/a/{id}": c03Ref("#/paths/~1b~1%7Bid%7D"), "/b/{id}": c03PathItem("b")}, nil},
		{map[string]any{"/a": c03Ref("item.json")}, map[string]any{"item.json": c03PathItem("file")}},
		{map[string]any{"/a": c03Ref("item.json"), "/b": c03Ref("item.json")}, map[string]any{"item.json": c03PathItem("file")}},
		{map[string]any{"/a": c03Ref("item.json")}, map[string]any{"item.json": c03Ref("item2.json"), "item2.json": c03PathItem("file2")}},
		{map[string]any{"/a": c03Ref("ext.json#/paths/~1x")}, map[string]any{"ext.json": func() any {
			e := c03ExtDoc()
			e["paths"] = map[string]any{"/x": c03PathItem("x")}
			return e
		}()}},
		{map[string]any{"/a": c03Ref("ext.json#/paths/~1x")}, map[string]any{"ext.json": func() any {
			e := c03ExtDoc()
			e["paths"] = map[string]any{"/x": c03Ref("#/paths/~1y"), "/y": c03PathItem("y")}
			return e
		}()}},
		{map[string]any{"/a": c03Ref("#/paths/~1b"), "/b": c03Ref("item.json")}, map[string]any{"item.json": c03PathItem("file")}},
	}
	for i, pc := range pcs {
		for fi, format := range formats {
			if !ctx.Thorough() && fi != i%2 {
				continue
			}
			emit(c03LoaderCase(base(pc.paths), pc.files, format))
		}
	}
	// a callback whose path item is a reference, and a path item that uses every other reference kind next to a referenced sibling
	for i, target := range []string{"#/paths/~1b", "#/paths/~1c"} {
		op := map[string]any{"responses": map[string]any{"200": map[string]any{"description": "r"}},
			"callbacks": map[string]any{"cb": map[string]any{"{$request.body#/url}": c03Ref(target)}}}
		paths := map[string]any{"/a": map[string]any{"post": op}, "/b": c03PathItem("b"), "/c": c03Ref("#/paths/~1b")}
		emit(c03LoaderCase(base(paths), nil, formats[i%2]))
	}
	// the key of a path-item reference met again while it is in progress (the node is queued and overwritten later by the
	// deferred callback with the owner's node): a referenced path item whose own callback refers to it, reached directly,
	// through a chain, and from two referrers
	for i, paths := range []map[string]any{
		{"/a": c03Ref("#/paths/~1b"), "/b": c03SelfCallbackItem("#/paths/~1b")},
		{"/z": c03Ref("#/paths/~1b"), "/b": c03SelfCallbackItem("#/paths/~1b")},
		{"/a": c03Ref("#/paths/~1c"), "/c": c03Ref("#/paths/~1b"), "/b": c03SelfCallbackItem("#/paths/~1b")},
		{"/a": c03Ref("#/paths/~1b"), "/z": c03Ref("#/paths/~1b"), "/b": c03SelfCallbackItem("#/paths/~1b")},
		{"/a": c03Ref("#/paths/~1b"), "/b": c03SelfCallbackItem("#/paths/~1a")},
	} {
		emit(c03LoaderCase(base(paths), nil, formats[i%2]))
	}
	// wrappers met again while their key is in progress (queued, `Value` filled by the deferred callback): a schema that
	// refers to itself, two schemas that refer to each other, a self-reference through items / allOf / additionalProperties,
	// a callback component whose operation uses the same callback component
	sref := func(n string) map[string]any { return c03Ref("#/components/schemas/" + n) }
	for i, schemas := range []map[string]any{
		{"A": map[string]any{"type": "object", "properties": map[string]any{"self": sref("A"), "n": map[string]any{"type": "integer"}}}},
		{"A": map[string]any{"type": "object", "properties": map[string]any{"b": sref("B")}},
			"B": map[string]any{"type": "object", "properties": map[string]any{"a": sref("A")}}},
		{"A": map[string]any{"type": "array", "items": sref("A")},
			"M": map[string]any{"type": "object", "additionalProperties": sref("M")},
			"N": map[string]any{"allOf": []any{sref("A"), map[string]any{"type": "object", "properties": map[string]any{"n": sref("N")}}}}},
		{"A": map[string]any{"type": "object", "properties": map[string]any{"self": sref("B")}}, "B": sref("A2"),
			"A2": map[string]any{"type": "object", "properties": map[string]any{"back": sref("B")}}},
	} {
		d := base(map[string]any{"/a": map[string]any{"get": map[string]any{"responses": map[string]any{"200": map[string]any{"description": "r",
			"content": map[string]any{"application/json": map[string]any{"schema": sref("A")}}}}}}})
		d["components"] = map[string]any{"schemas": schemas}
		emit(c03LoaderCase(d, nil, formats[i%2]))
	}
	{
		cbRef := c03Ref("#/components/callbacks/CB")
		cbOp := map[string]any{"responses": map[string]any{"200": map[string]any{"description": "cb"}}, "callbacks": map[string]any{"again": cbRef}}
		d := base(map[string]any{"/a": map[string]any{"post": map[string]any{"responses": map[string]any{"200": map[string]any{"description": "r"}},
			"callbacks": map[string]any{"cb": cbRef}}}})
		d["components"] = map[string]any{"callbacks": map[string]any{"CB": map[string]any{"{$request.body#/url}": map[string]any{"post": cbOp}}}}
		emit(c03LoaderCase(d, nil, "json"))
		emit(c03LoaderCase(d, nil, "yaml"))
	}
	use := map[string]bool{}
	for _, k := range c03RefKinds {
		use[k.coll] = true
	}
	doc := c03Skeleton(use, func(coll string) string { return "#/components/" + coll + "/C" })
	c03AddTargets(doc, c03RefKinds, "", 3)
	ps := doc["paths"].(map[string]any)
	ps["/r1"] = c03Ref("#/paths/~1r2")
	ps["/r2"] = c03Ref("#/paths/~1a")
	emit(c03LoaderCase(doc, nil, "json"))
	emit(c03LoaderCase(doc, nil, "yaml"))
}

// c03Chains rewrites a random loader document: some components become references to a fresh component of the same
// collection (resolved by the next round of c03Resolvable), and some paths become references to other paths.
func c03PathRefs(g *c03Gen, doc map[string]any) {
	paths, _ := doc["paths"].(map[string]any)
	if paths == nil {
		return
	}
	var real []string
	for k, v := range paths {
		if m, ok := v.(map[string]any); ok && !strings.HasPrefix(k, "x-") {
			if _, isRef := m["$ref"]; !isRef {
				real = append(real, k)
			}
		}
	}
	if len(real) == 0 {
		return
	}
	sort.Strings(real)
	esc := func(p string) string {
		return "#/paths/" + strings.NewReplacer("~", "~0", "/", "~1", "{", "%7B", "}", "%7D").Replace(p)
	}
	prev := hx.Pick(g.r, real)
	n := 1 + g.r.Intn(3)
	for i := 0; i < n; i++ {
		name := fmt.Sprintf("/ref%d", i)
		paths[name] = c03Ref(esc(prev))
		if g.r.Chance(60) {
			prev = name // chain
		}
	}
}

var _ = url.URL{}
