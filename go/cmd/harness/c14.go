package main

// C14 — the middleware calls the handler only for valid requests and shields clients.
// Real code exercised: openapi3filter.Validator.Middleware (strictResponseWrapper, warnResponseWrapper,
// default and custom ErrFunc / LogFunc) over the gorillamux and the legacy router, and
// openapi3filter.ValidationHandler (ServeHTTP and Middleware, ValidationErrorEncoder / custom ErrorEncoder),
// each under httptest.ResponseRecorder and behind a real net/http server (httptest.Server).

import (
	"context"
	"encoding/json"
	"errors"
	"fmt"
	"io"
	"log"
	"net/http"
	"net/http/httptest"
	"net/http/httptrace"
	"net/textproto"
	"net/url"
	"os"
	"sort"
	"strconv"
	"strings"
	"sync"
	"sync/atomic"
	"time"

	"github.com/getkin/kin-openapi/openapi3"
	"github.com/getkin/kin-openapi/openapi3filter"
	"github.com/getkin/kin-openapi/routers"
	"github.com/getkin/kin-openapi/routers/gorillamux"
	legacyrouter "github.com/getkin/kin-openapi/routers/legacy"

	"kinverif/internal/hx"
)

func init() {
	hx.Register(&hx.Prop{
		ID: "C14",
		Rule: "exhaustive: every handler op sequence of length ≤ 3 (thorough: ≤ 4) over a 12-letter alphabet (Content-Type set, X-A set to a valid / an invalid value, WriteHeader 200/404/0/103, Write valid/invalid piece, empty Write, Flush, panic) " +
			"× strict/non-strict × 10 response-document shapes (exact, range and default keys; JSON content, required response header, both; IncludeResponseStatus, ExcludeResponseBody); " +
			"every way an operation can constrain the request, alone and in pairs with exactly one failing (document-level / operation-level security incl. override, empty list, undeclared scheme, AND/OR requirements; " +
			"operation-level and path-level parameters in query/header/cookie/path; body schema/empty/content-type) × strict × routers × transports × Validator/ValidationHandler × neighbour operations that demand nothing; " +
			"plus route/request failures × ErrFunc kinds (default http.Error, echo, silent, custom op list) × routers × recorder/real server, " +
			"plus ValidationHandler (ServeHTTP/Middleware × custom/ValidationErrorEncoder × route/request outcomes); " +
			"plus HISTORIES: every pair over a pool of 20 steps (9 handler behaviours × two operations with different responses, a rejected route, a rejected request) and every triple over a pool of 6, " +
			"through ONE Validator chain, strict/non-strict × 3 two-operation documents, a rotating part behind the real server, with the other callbacks and with all requests in flight at once (barrier inside the handlers); the same for ValidationHandler; " +
			"plus optional-interface calls (probe of 11 interfaces, ResponseController.Flush, io.Copy, io.WriteString), bodies of 40 kB (thorough 300 kB), 8 pieces, informational codes in every position, panics after partial output × both transports; " +
			"plus the defaults (no AuthenticationFunc configured: Validator refuses / ValidationHandler.Load's no-op accepts; DefaultErrorEncoder and ValidationErrorEncoder{DefaultErrorEncoder} with the library's own error text as a wildcard body); " +
			"plus every option list of length ≤ 3 over {Strict(true), Strict(false), OnErr ×2, OnLog, ValidationOptions ×2} handed to NewValidator; then a seeded random stream of op lists up to length 8 and of histories of 2-4 requests " +
			"(incl. invalid status codes, header deletions, Content-Type variants). Non-trivial = the model reports a non-default branch (e.g. write before WriteHeader, several WriteHeader calls, " +
			"no status at all, Flush before the status, strict replacement, custom callbacks, real server transport).",
		Exhaustive: true,
		Gen:        genC14,
		Run:        runC14,
		Compare:    cmpC14,
		Shrink:     shrinkC14,
		Workers:    8,
		Assumptions: []string{
			"verdicts of FindRoute / ValidateRequest / ValidateResponse are controlled through the document and the request (required integer query parameter; response entries with or without an application/json integer schema; body bytes drawn from digits 1-9 and 'x') and recomputed by the driver for that family",
			"status codes 101, 204, 304 are not generated (httptest.ResponseRecorder and the net/http server differ there beyond what the Client model captures); informational codes 102, 103, 199 are generated: the model's client is transport-aware for them (real server: sent at once, fix nothing; recorder: final)",
			"net/http's client gives up after more than 5 informational responses: such an exchange is compared as aborted",
			"histories: sync.Pool-style reuse is observed when consecutive requests are served from one goroutine (recorder transport); concurrent requests use a bounded barrier (150 ms) so that all wrappers are alive at once",
			"request verdict: the operation is described as in C07 (parameters with a controlled verdict, security requirements decided by an AuthenticationFunc from the accepted-scheme set, body passing / schema / missing / content-type) and the driver evaluates the C07 model of ValidateRequest on it; ValidationHandler + unknown method is generated only for paths without template variables",
			"w.Write of the client's writer never fails (no closed connections), so the 'failed to write response' log is not reachable",
			"behind the real server only status, body, the X-*/Content-Type headers the model knows to be set, and connection abort (handler panic) are observable",
		},
	})
}

var c14Once sync.Once
var c14Srv *httptest.Server
var c14Handlers sync.Map // id -> *c14Entry
var c14Seq atomic.Int64
var c14Client, c14ClientNoKA *http.Client

// one request of a case: what the handler does on it, what the callbacks reported while it was served
type c14Step struct {
	obs  c14Obs
	ops  []any
	bar  *c14Barrier
	done chan struct{} // real server: closed when the middleware chain has returned (or panicked) for this request
	once sync.Once
}

type c14StepKey struct{}

func c14StepOf(ctx context.Context) *c14Step {
	st, _ := ctx.Value(c14StepKey{}).(*c14Step)
	if st == nil {
		return &c14Step{} // a request the harness did not send (never happens); observations are dropped
	}
	return st
}

// requests in flight at once: every handler waits (bounded) until all expected handlers have arrived, does
// its calls, and waits again before returning, so that all response wrappers are alive at the same time
type c14Barrier struct {
	n       int32
	arrived [2]atomic.Int32
}

func (b *c14Barrier) wait(phase int) {
	b.arrived[phase].Add(1)
	deadline := time.Now().Add(150 * time.Millisecond)
	for b.arrived[phase].Load() < b.n && time.Now().Before(deadline) {
		time.Sleep(20 * time.Microsecond)
	}
}

type c14Entry struct {
	h     http.Handler
	steps []*c14Step
}

func c14Server() {
	c14Once.Do(func() {
		log.SetOutput(io.Discard) // the default LogFunc of the Validator prints through package log
		c14Srv = httptest.NewUnstartedServer(http.HandlerFunc(func(w http.ResponseWriter, r *http.Request) {
			e, ok := c14Handlers.Load(r.Header.Get("X-Verif-Case"))
			if !ok {
				http.Error(w, "no such case", 599)
				return
			}
			ent := e.(*c14Entry)
			i, _ := strconv.Atoi(r.Header.Get("X-Verif-Step"))
			if i < 0 || i >= len(ent.steps) {
				http.Error(w, "no such step", 599)
				return
			}
			// the client may be done with the exchange before the chain returns (it gives up after too many
			// informational responses, or sees the connection die on a panic): the observations of the
			// callbacks are read only after this
			defer ent.steps[i].once.Do(func() { close(ent.steps[i].done) })
			ent.h.ServeHTTP(w, r.WithContext(context.WithValue(r.Context(), c14StepKey{}, ent.steps[i])))
		}))
		c14Srv.Config.ErrorLog = log.New(io.Discard, "", 0)
		c14Srv.Start()
		c14Client = &http.Client{Transport: &http.Transport{MaxIdleConnsPerHost: 16, DisableCompression: true},
			CheckRedirect: func(*http.Request, []*http.Request) error { return http.ErrUseLastResponse }}
		// a handler panic aborts the connection; on a reused connection net/http would silently retry the GET
		// (second handler invocation), so cases that can panic use fresh connections
		c14ClientNoKA = &http.Client{Transport: &http.Transport{DisableKeepAlives: true, DisableCompression: true},
			CheckRedirect: func(*http.Request, []*http.Request) error { return http.ErrUseLastResponse }}
	})
}

// ---- document family

// parameter with a controlled verdict: integer with maximum 9 (passes) or 1 (fails) against the value 5
func c14Param(pm map[string]any) *openapi3.ParameterRef {
	max := 9.0
	if !jbool(pm, "ok") {
		max = 1.0
	}
	sch := openapi3.NewIntegerSchema()
	sch.Max = &max
	p := &openapi3.Parameter{Name: jstr(pm, "name"), In: jstr(pm, "in"), Schema: sch.NewRef()}
	if p.In == "path" {
		p.Required = true
	}
	return &openapi3.ParameterRef{Value: p}
}

func c14Reqs(v any) openapi3.SecurityRequirements {
	srs := openapi3.SecurityRequirements{}
	for _, r := range jlist(v) {
		sr := openapi3.SecurityRequirement{}
		for _, n := range jlist(r) {
			sr[n.(string)] = []string{}
		}
		srs = append(srs, sr)
	}
	return srs
}

func c14Rq(c hx.Case) map[string]any {
	m, _ := c["rq"].(map[string]any)
	if m == nil {
		m = map[string]any{}
	}
	return m
}

// path-located parameter names in order of first appearance (path-level list first)
func c14PathNames(rq map[string]any) []string {
	var out []string
	seen := map[string]bool{}
	for _, k := range []string{"pathParams", "opParams"} {
		for _, p := range jlist(rq[k]) {
			pm := p.(map[string]any)
			if jstr(pm, "in") == "path" && !seen[jstr(pm, "name")] {
				seen[jstr(pm, "name")] = true
				out = append(out, jstr(pm, "name"))
			}
		}
	}
	return out
}

func c14Method(c hx.Case) string {
	if jbool(c14Rq(c), "hasBody") {
		return "POST"
	}
	return "GET"
}

// "head": the request is a HEAD request; the document declares the operation under `head` as well
func c14Head(c hx.Case) bool { return jbool(c, "head") && c14Method(c) == "GET" }

func c14Template(c hx.Case) string {
	t := "/x"
	for _, n := range c14PathNames(c14Rq(c)) {
		t += "/{" + n + "}"
	}
	return t
}

func c14Response(kind string) *openapi3.Response {
	desc := "d"
	resp := &openapi3.Response{Description: &desc}
	if kind == "json" || kind == "hdrjson" {
		resp.Content = openapi3.NewContentWithJSONSchema(openapi3.NewIntegerSchema())
	}
	if kind == "hdr" || kind == "hdrjson" {
		resp.Headers = openapi3.Headers{"X-A": &openapi3.HeaderRef{Value: &openapi3.Header{Parameter: openapi3.Parameter{
			Required: true, Schema: openapi3.NewIntegerSchema().NewRef()}}}}
	}
	return resp
}

func c14Doc(c hx.Case) *openapi3.T {
	docm, _ := c["doc"].(map[string]any)
	rq := c14Rq(c)
	doc := &openapi3.T{OpenAPI: "3.0.0", Info: &openapi3.Info{Title: "t", Version: "1"}, Paths: openapi3.NewPaths()}
	op := &openapi3.Operation{Responses: &openapi3.Responses{}}
	for _, e := range jlist(docm["responses"]) {
		em := e.(map[string]any)
		op.Responses.Set(jstr(em, "key"), &openapi3.ResponseRef{Value: c14Response(jstr(em, "kind"))})
	}
	if !jbool(c, "noq") {
		op.Parameters = openapi3.Parameters{&openapi3.ParameterRef{Value: &openapi3.Parameter{
			Name: "q", In: "query", Required: true, Schema: openapi3.NewIntegerSchema().NewRef()}}}
	}
	for _, pm := range jlist(rq["opParams"]) {
		op.Parameters = append(op.Parameters, c14Param(pm.(map[string]any)))
	}
	pi := &openapi3.PathItem{}
	for _, pm := range jlist(rq["pathParams"]) {
		pi.Parameters = append(pi.Parameters, c14Param(pm.(map[string]any)))
	}
	if len(jlist(rq["declared"])) > 0 {
		doc.Components = &openapi3.Components{SecuritySchemes: openapi3.SecuritySchemes{}}
		for _, n := range jlist(rq["declared"]) {
			doc.Components.SecuritySchemes[n.(string)] = &openapi3.SecuritySchemeRef{Value: openapi3.NewSecurityScheme().WithType("http").WithScheme("basic")}
		}
	}
	if l := jlist(rq["docSecurity"]); len(l) > 0 {
		doc.Security = c14Reqs(l)
	}
	if rq["opSecurity"] != nil {
		sr := c14Reqs(rq["opSecurity"])
		op.Security = &sr
	}
	if jbool(rq, "hasBody") {
		need := "a"
		if jstr(rq, "bodyFail") == "schema" {
			need = "b"
		}
		sch := openapi3.NewObjectSchema()
		sch.Required = []string{need}
		op.RequestBody = &openapi3.RequestBodyRef{Value: openapi3.NewRequestBody().WithJSONSchema(sch).WithRequired(true)}
	}
	lax := func() *openapi3.Operation {
		// a neighbour that demands nothing and documents nothing: must never be the operation consulted
		desc := "d"
		o := &openapi3.Operation{Responses: &openapi3.Responses{}, Security: &openapi3.SecurityRequirements{}}
		o.Responses.Set("default", &openapi3.ResponseRef{Value: &openapi3.Response{Description: &desc}})
		return o
	}
	laxHere := func() *openapi3.Operation {
		o := lax()
		pathLevel := map[string]bool{}
		for _, p := range jlist(rq["pathParams"]) {
			if pm := p.(map[string]any); jstr(pm, "in") == "path" {
				pathLevel[jstr(pm, "name")] = true
			}
		}
		for _, n := range c14PathNames(rq) {
			if !pathLevel[n] { // template variables declared only by the main operation: the neighbour needs them too
				o.Parameters = append(o.Parameters, c14Param(c14P(n, "path", true)))
			}
		}
		return o
	}
	if c14Method(c) == "POST" {
		pi.Post = op
		if jbool(c, "decoy") {
			pi.Get = laxHere()
		}
	} else {
		pi.Get = op
		if jbool(c, "head") {
			pi.Head = op
		}
		if jbool(c, "decoy") {
			pi.Post = laxHere()
		}
	}
	doc.Paths.Set(c14Template(c), pi)
	if l := jlist(docm["responses2"]); len(l) > 0 {
		// a second operation (GET /w) with its own responses, for histories that alternate between operations
		op2 := &openapi3.Operation{Responses: &openapi3.Responses{}}
		for _, e := range l {
			em := e.(map[string]any)
			op2.Responses.Set(jstr(em, "key"), &openapi3.ResponseRef{Value: c14Response(jstr(em, "kind"))})
		}
		if !jbool(c, "noq") {
			op2.Parameters = openapi3.Parameters{&openapi3.ParameterRef{Value: &openapi3.Parameter{
				Name: "q", In: "query", Required: true, Schema: openapi3.NewIntegerSchema().NewRef()}}}
		}
		doc.Paths.Set("/w", &openapi3.PathItem{Get: op2})
	}
	if jbool(c, "decoy") {
		doc.Paths.Set("/z", &openapi3.PathItem{Get: lax(), Post: lax()})
	}
	return doc
}

type c14Routers struct {
	gorilla, legacy routers.Router
	vhServe        map[string]*openapi3filter.ValidationHandler
	err            error
}

var c14DocCache sync.Map // canonical doc text -> *c14Routers

func c14RoutersFor(c hx.Case) *c14Routers {
	cacheable := c["rq"] == nil && !jbool(c, "decoy") && !jbool(c, "noq") && !jbool(c, "head")
	key := hx.Canon(c["doc"])
	if cacheable {
		if v, ok := c14DocCache.Load(key); ok {
			return v.(*c14Routers)
		}
	}
	r := &c14Routers{}
	doc := c14Doc(c)
	if err := doc.Validate(context.Background()); err != nil {
		r.err = err
	} else {
		r.gorilla, r.err = gorillamux.NewRouter(doc)
		if r.err == nil {
			r.legacy, r.err = legacyrouter.NewRouter(doc)
		}
	}
	if !cacheable {
		return r
	}
	v, _ := c14DocCache.LoadOrStore(key, r)
	return v.(*c14Routers)
}

// ValidationHandler loads its document from a file: write it to a scratch file, Load, remove.
func c14NewVH(c hx.Case) (*openapi3filter.ValidationHandler, error) {
	doc := c14Doc(c)
	b, err := json.Marshal(doc)
	if err != nil {
		return nil, err
	}
	f, err := os.CreateTemp("", "c14-*.json")
	if err != nil {
		return nil, err
	}
	defer os.Remove(f.Name())
	f.Write(b)
	f.Close()
	vh := &openapi3filter.ValidationHandler{File: f.Name()}
	if err := vh.Load(); err != nil {
		return nil, err
	}
	return vh, nil
}

// ---- handler = op list

type c14Obs struct {
	mu     sync.Mutex
	ran    int
	errs   []string
	logs   []string
	ifaces []string
	probed bool
}

// the optional interfaces a handler may look for on its http.ResponseWriter (names as in
// KinModel/MiddlewareSrc.lean, Iface.name)
func c14Probe(w http.ResponseWriter) []string {
	out := []string{}
	add := func(ok bool, n string) {
		if ok {
			out = append(out, n)
		}
	}
	_, ok := w.(http.Flusher)
	add(ok, "Flusher")
	_, ok = w.(interface{ FlushError() error })
	add(ok, "FlushError")
	_, ok = w.(http.Hijacker)
	add(ok, "Hijacker")
	_, ok = w.(http.Pusher)
	add(ok, "Pusher")
	_, ok = w.(http.CloseNotifier)
	add(ok, "CloseNotifier")
	_, ok = w.(io.ReaderFrom)
	add(ok, "ReaderFrom")
	_, ok = w.(io.StringWriter)
	add(ok, "StringWriter")
	_, ok = w.(interface{ Unwrap() http.ResponseWriter })
	add(ok, "Unwrap")
	_, ok = w.(interface{ SetReadDeadline(time.Time) error })
	add(ok, "SetReadDeadline")
	_, ok = w.(interface{ SetWriteDeadline(time.Time) error })
	add(ok, "SetWriteDeadline")
	_, ok = w.(interface{ EnableFullDuplex() error })
	add(ok, "EnableFullDuplex")
	return out
}

func c14Bytes(m map[string]any) string {
	b := jstr(m, "b")
	if n, _ := strconv.Atoi(fmt.Sprint(m["rep"])); n > 0 {
		return strings.Repeat(b, n)
	}
	return b
}

func c14RunOps(w http.ResponseWriter, ops []any, st *c14Step) {
	for _, o := range ops {
		m, _ := o.(map[string]any)
		switch jstr(m, "op") {
		case "set":
			w.Header().Set(jstr(m, "k"), jstr(m, "v"))
		case "del":
			w.Header().Del(jstr(m, "k"))
		case "wh":
			n, _ := strconv.Atoi(fmt.Sprint(m["n"]))
			w.WriteHeader(n)
		case "w":
			w.Write([]byte(c14Bytes(m)))
		case "ws":
			io.WriteString(w, c14Bytes(m))
		case "copy":
			// the reader is wrapped so that io.Copy cannot use its WriteTo: the writer's ReadFrom is used if it has one
			io.Copy(w, struct{ io.Reader }{strings.NewReader(c14Bytes(m))})
		case "fl":
			if f, ok := w.(http.Flusher); ok {
				f.Flush()
			}
		case "rcfl":
			http.NewResponseController(w).Flush()
		case "probe":
			if st != nil {
				st.obs.mu.Lock()
				st.obs.ifaces, st.obs.probed = c14Probe(w), true
				st.obs.mu.Unlock()
			}
		case "panic":
			panic("handler panic (verif)")
		}
	}
}

func c14LogKind(msg string) string {
	switch {
	case strings.HasPrefix(msg, "validation error: failed to find route for "):
		return "route"
	case msg == "invalid request":
		return "request"
	case msg == "invalid response":
		return "response"
	case msg == "failed to write response":
		return "write"
	}
	return "other:" + msg
}

func c14Auth(c hx.Case) openapi3filter.AuthenticationFunc {
	accepted := map[string]bool{}
	for _, n := range jlist(c14Rq(c)["accepted"]) {
		accepted[n.(string)] = true
	}
	return func(ctx context.Context, ai *openapi3filter.AuthenticationInput) error {
		if accepted[ai.SecuritySchemeName] {
			return nil
		}
		return errors.New("denied")
	}
}

// c14Build builds ONE middleware chain for the case; which step a request belongs to (handler calls, where the
// callbacks report) travels in the request context.
func c14Build(c hx.Case) (http.Handler, error) {
	inner := http.HandlerFunc(func(w http.ResponseWriter, r *http.Request) {
		st := c14StepOf(r.Context())
		st.obs.mu.Lock()
		st.obs.ran++
		st.obs.mu.Unlock()
		if st.bar != nil {
			st.bar.wait(0)
			defer st.bar.wait(1)
		}
		c14RunOps(w, st.ops, st)
	})
	if jstr(c, "mode") == "vh" {
		vh, err := c14NewVH(c)
		if err != nil {
			return nil, err
		}
		if !jbool(c14Rq(c), "noauth") {
			vh.AuthenticationFunc = c14Auth(c) // "noauth": the NoopAuthenticationFunc Load installs stays
		}
		kindOf := func(err error) string {
			var re *routers.RouteError
			var qe *openapi3filter.RequestError
			var se *openapi3filter.SecurityRequirementsError
			switch {
			case errors.As(err, &re):
				if re.Error() == routers.ErrPathNotFound.Error() {
					return "nopath"
				}
				if re.Error() == routers.ErrMethodNotAllowed.Error() {
					return "nomethod"
				}
				return "route:" + re.Error()
			case errors.As(err, &se):
				return "security"
			case errors.As(err, &qe):
				if qe.RequestBody != nil {
					return "body"
				}
				return "param"
			}
			return "other"
		}
		rec := func(ctx context.Context, k string) {
			obs := &c14StepOf(ctx).obs
			obs.mu.Lock()
			obs.errs = append(obs.errs, k)
			obs.mu.Unlock()
		}
		switch jstr(c, "enc") {
		case "default":
			// the DefaultErrorEncoder Load installs stays: text/plain, 500 unless the error carries a status, err.Error()
		case "veedefault":
			vh.ErrorEncoder = (&openapi3filter.ValidationErrorEncoder{Encoder: openapi3filter.DefaultErrorEncoder}).Encode
		case "vee":
			vh.ErrorEncoder = func(ctx context.Context, orig error, w http.ResponseWriter) {
				vee := &openapi3filter.ValidationErrorEncoder{Encoder: func(ctx context.Context, err error, w http.ResponseWriter) {
					rec(ctx, kindOf(orig))
					code := http.StatusInternalServerError // as DefaultErrorEncoder: an error without a status is a 500
					if sc, ok := err.(openapi3filter.StatusCoder); ok {
						code = sc.StatusCode()
					}
					w.WriteHeader(code)
					w.Write([]byte("V"))
				}}
				vee.Encode(ctx, orig, w)
			}
		case "silent":
			vh.ErrorEncoder = func(ctx context.Context, err error, w http.ResponseWriter) { rec(ctx, kindOf(err)) }
		default:
			vh.ErrorEncoder = func(ctx context.Context, err error, w http.ResponseWriter) {
				rec(ctx, kindOf(err))
				c14RunOps(w, jlist(c["errops"]), nil)
			}
		}
		if jstr(c, "entry") == "mw" {
			return vh.Middleware(inner), nil
		}
		vh.Handler = inner
		return vh, nil
	}
	rs := c14RoutersFor(c)
	if rs.err != nil {
		return nil, rs.err
	}
	router := rs.gorilla
	if jstr(c, "router") == "legacy" {
		router = rs.legacy
	}
	docm, _ := c["doc"].(map[string]any)
	rq := c14Rq(c)
	recErr := func(ctx context.Context, status int, code openapi3filter.ErrCode) {
		obs := &c14StepOf(ctx).obs
		obs.mu.Lock()
		obs.errs = append(obs.errs, fmt.Sprintf("%d:%d", status, int(code)))
		obs.mu.Unlock()
	}
	onErr := func(kind string) openapi3filter.ValidatorOption {
		switch kind {
		case "echo":
			return openapi3filter.OnErr(func(ctx context.Context, w http.ResponseWriter, status int, code openapi3filter.ErrCode, err error) {
				recErr(ctx, status, code)
				w.Header().Set("X-Err", strconv.Itoa(int(code)))
				w.WriteHeader(status)
				w.Write([]byte("E" + strconv.Itoa(int(code))))
			})
		case "silent":
			return openapi3filter.OnErr(func(ctx context.Context, w http.ResponseWriter, status int, code openapi3filter.ErrCode, err error) {
				recErr(ctx, status, code)
			})
		}
		return openapi3filter.OnErr(func(ctx context.Context, w http.ResponseWriter, status int, code openapi3filter.ErrCode, err error) {
			recErr(ctx, status, code)
			c14RunOps(w, jlist(c["errops"]), nil)
		})
	}
	onLog := openapi3filter.OnLog(func(ctx context.Context, message string, err error) {
		obs := &c14StepOf(ctx).obs
		obs.mu.Lock()
		obs.logs = append(obs.logs, c14LogKind(message))
		obs.mu.Unlock()
	})
	var opts []openapi3filter.ValidatorOption
	if vo, ok := c["vopts"].([]any); ok {
		// the option list exactly as given (order, repetitions, omissions): NewValidator's defaults and
		// "the last one wins" are the model's business
		for _, x := range vo {
			m, _ := x.(map[string]any)
			switch jstr(m, "o") {
			case "strict":
				opts = append(opts, openapi3filter.Strict(jbool(m, "v")))
			case "onerr":
				opts = append(opts, onErr(jstr(m, "kind")))
			case "onlog":
				opts = append(opts, onLog)
			default:
				opts = append(opts, openapi3filter.ValidationOptions(openapi3filter.Options{
					IncludeResponseStatus: jbool(m, "inc"), ExcludeResponseBody: jbool(m, "exb"), AuthenticationFunc: c14Auth(c)}))
			}
		}
		return openapi3filter.NewValidator(router, opts...).Middleware(inner), nil
	}
	opts = append(opts, openapi3filter.Strict(jbool(c, "strict")))
	o := openapi3filter.Options{IncludeResponseStatus: jbool(docm, "includeStatus"), ExcludeResponseBody: jbool(docm, "excludeRespBody"),
		ExcludeRequestBody: jbool(rq, "excludeBody"), ExcludeRequestQueryParams: jbool(rq, "excludeQuery"), MultiError: jbool(rq, "multi"),
		AuthenticationFunc: c14Auth(c)}
	if jbool(rq, "noauth") {
		o.AuthenticationFunc = nil // as when no AuthenticationFunc is configured: every security requirement fails
	}
	opts = append(opts, openapi3filter.ValidationOptions(o))
	if jstr(c, "errfn") != "default" {
		opts = append(opts, onErr(jstr(c, "errfn")))
	}
	if jstr(c, "logfn") != "default" {
		opts = append(opts, onLog)
	}
	return openapi3filter.NewValidator(router, opts...).Middleware(inner), nil
}

// which callbacks of the case report to the harness (error callback, log callback)
func c14Custom(c hx.Case) (bool, bool) {
	if jstr(c, "mode") == "vh" {
		return jstr(c, "enc") != "default" && jstr(c, "enc") != "veedefault", false
	}
	if vo, ok := c["vopts"].([]any); ok {
		e, l := false, false
		for _, x := range vo {
			m, _ := x.(map[string]any)
			e = e || jstr(m, "o") == "onerr"
			l = l || jstr(m, "o") == "onlog"
		}
		return e, l
	}
	return jstr(c, "errfn") != "default", jstr(c, "logfn") != "default"
}

func c14Request(c hx.Case, base string) *http.Request {
	rq := c14Rq(c)
	method, path := c14Method(c), "/x"
	for range c14PathNames(rq) {
		path += "/5"
	}
	q := url.Values{}
	if !jbool(c, "noq") {
		q.Set("q", "5")
	}
	if jbool(c, "path2") {
		path = "/w"
	}
	switch jstr(c, "route") {
	case "nopath":
		path = "/y" + strings.TrimPrefix(strings.TrimPrefix(path, "/x"), "/w")
	case "nomethod":
		method = "PUT"
	}
	switch jstr(c, "req") {
	case "missing":
		q.Del("q")
	case "type":
		if !jbool(c, "noq") {
			q.Set("q", "abc")
		}
	}
	var body io.Reader
	if jbool(rq, "hasBody") && jstr(rq, "bodyFail") != "empty" {
		body = strings.NewReader(`{"a":1}`)
	}
	if c14Head(c) && method == "GET" {
		method = "HEAD"
	}
	req, _ := http.NewRequest(method, base+path, body)
	if jbool(rq, "hasBody") && jstr(rq, "bodyFail") != "empty" {
		if jstr(rq, "bodyFail") == "ctype" {
			req.Header.Set("Content-Type", "text/plain")
		} else {
			req.Header.Set("Content-Type", "application/json")
		}
	}
	seenCookie := map[string]bool{}
	for _, k := range []string{"opParams", "pathParams"} {
		for _, p := range jlist(rq[k]) {
			pm := p.(map[string]any)
			name := jstr(pm, "name")
			switch jstr(pm, "in") {
			case "query":
				q.Set(name, "5")
			case "header":
				req.Header.Set(name, "5")
			case "cookie":
				if !seenCookie[name] {
					seenCookie[name] = true
					req.AddCookie(&http.Cookie{Name: name, Value: "5"})
				}
			}
		}
	}
	req.URL.RawQuery = q.Encode()
	return req
}

func c14MayPanic(c hx.Case) bool {
	lists := []any{c["ops"], c["errops"]}
	for _, st := range jlist(c["seq"]) {
		if m, ok := st.(map[string]any); ok {
			lists = append(lists, m["ops"])
		}
	}
	for _, l := range lists {
		for _, o := range jlist(l) {
			m, _ := o.(map[string]any)
			if jstr(m, "op") == "panic" {
				return true
			}
			if jstr(m, "op") == "wh" {
				if n, _ := strconv.Atoi(fmt.Sprint(m["n"])); n < 100 || n > 999 {
					return true
				}
				if n, _ := strconv.Atoi(fmt.Sprint(m["n"])); n >= 100 && n <= 199 {
					return true // many informational responses make the client give up: no silent retry on a reused connection
				}
			}
		}
	}
	return false
}

var c14HeaderNames = []string{"Content-Type", "X-A", "X-B", "X-Err", "X-Content-Type-Options", "Content-Length"}

func c14Headers(h http.Header, server bool) [][]string {
	out := [][]string{}
	for _, k := range c14HeaderNames {
		if server && k == "Content-Length" {
			continue // computed by the server
		}
		if vs, ok := h[k]; ok && len(vs) > 0 {
			out = append(out, []string{k, strings.Join(vs, ",")})
		}
	}
	sort.Slice(out, func(i, j int) bool { return out[i][0] < out[j][0] })
	return out
}

// the requests of a case: the case itself, or — for a history {"seq": [...]} — the base case overlaid with each
// step (route, req, ops, path2)
func c14StepCases(c hx.Case) []hx.Case {
	l, ok := c["seq"].([]any)
	if !ok {
		return []hx.Case{c}
	}
	out := []hx.Case{}
	for _, st := range l {
		x := hx.Case{}
		for k, v := range c {
			x[k] = v
		}
		if m, ok := st.(map[string]any); ok {
			for k, v := range m {
				x[k] = v
			}
		}
		out = append(out, x)
	}
	return out
}

func c14ServeStep(c hx.Case, sc hx.Case, h http.Handler, st *c14Step, id string, idx int) map[string]any {
	res := map[string]any{}
	if jstr(c, "transport") == "server" {
		req := c14Request(sc, c14Srv.URL)
		req.Header.Set("X-Verif-Case", id)
		req.Header.Set("X-Verif-Step", strconv.Itoa(idx))
		cl := c14Client
		if c14MayPanic(c) {
			cl = c14ClientNoKA
		}
		info := []int{}
		var imu sync.Mutex
		req = req.WithContext(httptrace.WithClientTrace(req.Context(), &httptrace.ClientTrace{
			Got1xxResponse: func(code int, _ textproto.MIMEHeader) error {
				imu.Lock()
				info = append(info, code)
				imu.Unlock()
				return nil
			}}))
		resp, err := cl.Do(req)
		imu.Lock()
		res["info"] = append([]int{}, info...)
		imu.Unlock()
		aborted := err != nil
		if err == nil {
			b, rerr := io.ReadAll(resp.Body)
			resp.Body.Close()
			if rerr != nil {
				aborted = true
			}
			res["status"] = resp.StatusCode
			res["body"] = string(b)
			res["sent"] = c14Headers(resp.Header, true)
		}
		res["panicked"] = aborted
		res["kind"] = "server"
		select {
		case <-st.done:
		case <-time.After(3 * time.Second):
			res["server_side_unfinished"] = true
		}
	} else {
		rec := httptest.NewRecorder()
		req := c14Request(sc, "http://example.com")
		req = req.WithContext(context.WithValue(req.Context(), c14StepKey{}, st))
		panicked := false
		func() {
			defer func() {
				if r := recover(); r != nil {
					panicked = true
					res["panic_value"] = fmt.Sprint(r)
				}
			}()
			h.ServeHTTP(rec, req)
		}()
		result := rec.Result()
		res["status"] = rec.Code
		res["body"] = rec.Body.String()
		res["sent"] = c14Headers(result.Header, false)
		res["flushed"] = rec.Flushed
		res["panicked"] = panicked
		res["kind"] = "recorder"
	}
	st.obs.mu.Lock()
	res["ran"] = st.obs.ran
	res["err"] = append([]string{}, st.obs.errs...)
	res["logs"] = append([]string{}, st.obs.logs...)
	if st.obs.probed {
		res["ifaces"] = append([]string{}, st.obs.ifaces...)
	}
	st.obs.mu.Unlock()
	return res
}

func runC14(c hx.Case) any {
	h, err := c14Build(c)
	if err != nil {
		return map[string]any{"kind": "setup-error", "error": err.Error()}
	}
	scs := c14StepCases(c)
	steps := make([]*c14Step, len(scs))
	par := jbool(c, "par") && len(scs) > 1
	var bar *c14Barrier
	if par {
		// handlers expected to run: the steps whose route and request are fine (concurrent histories are
		// generated in the family where that is visible in the case)
		n := 0
		for _, sc := range scs {
			if jstr(sc, "route") == "ok" && jstr(sc, "req") == "ok" {
				n++
			}
		}
		bar = &c14Barrier{n: int32(n)}
	}
	for i, sc := range scs {
		steps[i] = &c14Step{ops: jlist(sc["ops"]), bar: bar, done: make(chan struct{})}
	}
	id := ""
	if jstr(c, "transport") == "server" {
		c14Server()
		id = strconv.FormatInt(c14Seq.Add(1), 10)
		c14Handlers.Store(id, &c14Entry{h: h, steps: steps})
		defer c14Handlers.Delete(id)
	}
	outs := make([]map[string]any, len(scs))
	if par {
		var wg sync.WaitGroup
		for i := range scs {
			wg.Add(1)
			go func(i int) {
				defer wg.Done()
				outs[i] = c14ServeStep(c, scs[i], h, steps[i], id, i)
			}(i)
		}
		wg.Wait()
	} else {
		for i := range scs {
			outs[i] = c14ServeStep(c, scs[i], h, steps[i], id, i)
		}
	}
	if _, ok := c["seq"].([]any); !ok {
		return outs[0]
	}
	l := []any{}
	for _, o := range outs {
		l = append(l, o)
	}
	return map[string]any{"kind": "seq", "steps": l}
}

// ---- comparison

func c14Pairs(v any) map[string]string {
	out := map[string]string{}
	for _, p := range jlist(v) {
		l := jlist(p)
		if len(l) == 2 {
			out[fmt.Sprint(l[0])] = fmt.Sprint(l[1])
		}
	}
	return out
}

// c14Diff compares the observation with an expected outcome (model, or the prescribed part of the spec).
func c14Diff(c hx.Case, im, want map[string]any, full bool, checkLogs bool) string {
	server := jstr(im, "kind") == "server"
	wantRan := 0
	if jbool(want, "ran") {
		wantRan = 1
	}
	if fmt.Sprint(im["ran"]) != strconv.Itoa(wantRan) {
		return fmt.Sprintf("handler invocations: impl %v, expected %d", im["ran"], wantRan)
	}
	custom, customLog := c14Custom(c)
	if custom && !sameStrs(toStrs(im["err"]), toStrs(want["err"]), true) {
		return fmt.Sprintf("error callback calls: impl %v, expected %v", im["err"], want["err"])
	}
	if checkLogs && customLog && !sameStrs(toStrs(im["logs"]), toStrs(want["logs"]), true) {
		return fmt.Sprintf("log callback calls: impl %v, expected %v", im["logs"], want["logs"])
	}
	if _, probed := im["ifaces"]; probed && want["ifaces"] != nil {
		a, b := toStrs(im["ifaces"]), toStrs(want["ifaces"])
		sort.Strings(a)
		sort.Strings(b)
		if !sameStrs(a, b, true) {
			return fmt.Sprintf("optional interfaces the handler's writer offers: impl %v, expected %v", a, b)
		}
	}
	if wantPanic := jbool(want, "panicked"); jbool(im, "panicked") != wantPanic {
		return fmt.Sprintf("panic/abort: impl %v, expected %v (%v)", im["panicked"], wantPanic, im["panic_value"])
	}
	if server && jbool(im, "panicked") {
		return "" // connection aborted: nothing else is observable
	}
	if server && want["info"] != nil && hx.Canon(im["info"]) != hx.Canon(want["info"]) {
		return fmt.Sprintf("informational responses: impl %v, expected %v", im["info"], want["info"])
	}
	if fmt.Sprint(im["status"]) != fmt.Sprint(want["status"]) {
		return fmt.Sprintf("status: impl %v, expected %v", im["status"], want["status"])
	}
	if server && c14Head(c) {
		want = c14With(want, "body", "") // net/http drops the body bytes of the answer to a HEAD request
	}
	if jstr(want, "body") == "*" {
		// the library's own error text (DefaultErrorEncoder writes err.Error()): any non-empty body
		if jstr(im, "body") == "" && !(server && c14Head(c)) {
			return "body: impl wrote none, expected the error text"
		}
	} else if jstr(im, "body") != jstr(want, "body") {
		return fmt.Sprintf("body: impl %q, expected %q", jstr(im, "body"), jstr(want, "body"))
	}
	if full {
		ih, wh := c14Pairs(im["sent"]), c14Pairs(want["sent"])
		// both the server and the recorder sniff a Content-Type on an implicit WriteHeader when the
		// handler set none; compare the header only where the model knows it to be set
		if _, ok := wh["Content-Type"]; !ok {
			delete(ih, "Content-Type")
		}
		if server {
			delete(wh, "Content-Length")
		}
		if hx.Canon(ih) != hx.Canon(wh) {
			return fmt.Sprintf("headers received: impl %v, expected %v", ih, wh)
		}
		if !server && jbool(im, "flushed") != jbool(want, "flushed") {
			return fmt.Sprintf("flushed: impl %v, expected %v", im["flushed"], want["flushed"])
		}
	}
	return ""
}

func cmpC14(c hx.Case, impl any, reply map[string]any) hx.Verdict {
	im, _ := impl.(map[string]any)
	model, _ := reply["model"].(map[string]any)
	spec, _ := reply["spec"].(map[string]any)
	if im == nil || model == nil || spec == nil {
		return hx.Verdict{IM: false, IS: false, Detail: "missing observation"}
	}
	if _, p := im["panic"]; p {
		return hx.Verdict{IM: false, IS: false, Detail: "harness-level panic: " + fmt.Sprint(im["panic"])}
	}
	if jstr(im, "kind") == "setup-error" {
		return hx.Verdict{IM: false, IS: false, Detail: "setup: " + jstr(im, "error")}
	}
	if jstr(im, "kind") == "seq" {
		v := hx.Verdict{IM: true, IS: true}
		is, ms, ss := jlist(im["steps"]), jlist(model["steps"]), jlist(spec["steps"])
		if len(is) != len(ms) || len(is) != len(ss) {
			return hx.Verdict{IM: false, IS: false, Detail: "history: number of answers differs"}
		}
		for i := range is {
			ii, _ := is[i].(map[string]any)
			mm, _ := ms[i].(map[string]any)
			sp, _ := ss[i].(map[string]any)
			sv := c14CmpOne(c, ii, mm, sp)
			if !sv.IM || !sv.IS {
				v.IM = v.IM && sv.IM
				v.IS = v.IS && sv.IS
				if v.Detail == "" {
					v.Detail = fmt.Sprintf("request #%d of the history: %s", i+1, sv.Detail)
				}
			}
		}
		return v
	}
	return c14CmpOne(c, im, model, spec)
}

func c14CmpOne(c hx.Case, im, model, spec map[string]any) hx.Verdict {
	if im == nil || model == nil || spec == nil {
		return hx.Verdict{IM: false, IS: false, Detail: "missing observation"}
	}
	v := hx.Verdict{IM: true, IS: true}
	if d := c14Diff(c, im, model, true, true); d != "" {
		v.IM = false
		v.Detail = "model: " + d
	}
	if jbool(spec, "applicable") {
		want := map[string]any{"ran": spec["ran"], "err": spec["err"], "status": spec["status"], "body": spec["body"], "panicked": spec["panicked"]}
		full := false
		if fm, ok := spec["full"].(map[string]any); ok {
			full = true
			for k, x := range fm {
				want[k] = x
			}
		}
		if d := c14Diff(c, im, want, full, false); d != "" {
			ok := false
			if jbool(spec, "orDead") {
				// the spec also accepts a dead writer with nothing on the wire (refused status code in strict mode)
				dead := map[string]any{"ran": true, "err": []any{}, "status": 200, "body": "", "panicked": true}
				ok = c14Diff(c, im, dead, false, false) == ""
			}
			if !ok {
				v.IS = false
				v.Detail = "property: " + d + " " + v.Detail
			}
		}
	}
	return v
}

// ---- generation

func c14Op(kind string, a ...any) map[string]any {
	m := map[string]any{"op": kind}
	switch kind {
	case "set":
		m["k"], m["v"] = a[0], a[1]
	case "del":
		m["k"] = a[0]
	case "wh":
		m["n"] = a[0]
	case "w", "ws", "copy":
		m["b"] = a[0]
		if len(a) > 1 {
			m["rep"] = a[1]
		}
	}
	return m
}

func c14HasInfo(ops []any) bool {
	for _, o := range ops {
		m, _ := o.(map[string]any)
		if jstr(m, "op") == "wh" {
			if n, _ := strconv.Atoi(fmt.Sprint(m["n"])); n >= 100 && n <= 199 {
				return true
			}
		}
	}
	return false
}

func c14DocShape(includeStatus bool, entries ...string) map[string]any {
	rs := []any{}
	for i := 0; i+1 < len(entries); i += 2 {
		rs = append(rs, map[string]any{"key": entries[i], "kind": entries[i+1]})
	}
	return map[string]any{"responses": rs, "includeStatus": includeStatus}
}

var c14Docs = []map[string]any{
	c14DocShape(false, "200", "json"),
	c14DocShape(false, "200", "json", "404", "any"),
	c14DocShape(false, "default", "json"),
	c14DocShape(true, "200", "json"),
	c14DocShape(true, "200", "any", "404", "json"),
	c14DocShape(false, "200", "any", "default", "json"),
	c14DocShape(false, "2XX", "json", "404", "hdr"),
	c14DocShape(true, "200", "hdr", "4XX", "json"),
	c14DocShape(false, "200", "hdrjson"),
	c14DocExB(c14DocShape(true, "200", "hdrjson", "4XX", "json")),
}

func c14DocExB(d map[string]any) map[string]any {
	d["excludeRespBody"] = true
	return d
}

func c14P(name, in string, ok bool) map[string]any {
	return map[string]any{"name": name, "in": in, "ok": ok}
}

type c14Src struct {
	name string
	fail bool
	rq   map[string]any
}

// the ways an operation can constrain a request, each alone, in a passing and in failing variants
func c14Sources() []c14Src {
	A := []any{"a"}
	out := []c14Src{
		{"sec.doc", false, map[string]any{"docSecurity": []any{A}, "declared": []any{"a"}, "accepted": []any{"a"}}},
		{"sec.doc", true, map[string]any{"docSecurity": []any{A}, "declared": []any{"a"}, "accepted": []any{}}},
		{"sec.doc.undeclared", true, map[string]any{"docSecurity": []any{[]any{"u"}}, "declared": []any{"a"}, "accepted": []any{"a", "u"}}},
		{"sec.doc.alt", false, map[string]any{"docSecurity": []any{A, []any{"b"}}, "declared": []any{"a", "b"}, "accepted": []any{"b"}}},
		{"sec.doc.and", true, map[string]any{"docSecurity": []any{[]any{"a", "b"}}, "declared": []any{"a", "b"}, "accepted": []any{"a"}}},
		{"sec.op", false, map[string]any{"opSecurity": []any{A}, "declared": []any{"a"}, "accepted": []any{"a"}}},
		{"sec.op", true, map[string]any{"opSecurity": []any{A}, "declared": []any{"a"}, "accepted": []any{}}},
		{"sec.op.over", true, map[string]any{"opSecurity": []any{A}, "docSecurity": []any{[]any{"b"}}, "declared": []any{"a", "b"}, "accepted": []any{"b"}}},
		{"sec.op.over", false, map[string]any{"opSecurity": []any{A}, "docSecurity": []any{[]any{"b"}}, "declared": []any{"a", "b"}, "accepted": []any{"a"}}},
		{"sec.op.none", false, map[string]any{"opSecurity": []any{}, "docSecurity": []any{A}, "declared": []any{"a"}, "accepted": []any{}}},
		// the empty requirement {} needs no authentication — alone, as the alternative after a failing one, at operation level
		{"sec.doc.empty", false, map[string]any{"docSecurity": []any{[]any{}}, "declared": []any{"a"}, "accepted": []any{}}},
		{"sec.doc.alt_empty", false, map[string]any{"docSecurity": []any{A, []any{}}, "declared": []any{"a"}, "accepted": []any{}}},
		{"sec.op.empty", false, map[string]any{"opSecurity": []any{[]any{}}, "docSecurity": []any{A}, "declared": []any{"a"}, "accepted": []any{}}},
		{"sec.op.alt_empty", false, map[string]any{"opSecurity": []any{[]any{"u"}, []any{}}, "declared": []any{"a"}, "accepted": []any{}}},
		{"body", false, map[string]any{"hasBody": true, "bodyFail": ""}},
		{"body.schema", true, map[string]any{"hasBody": true, "bodyFail": "schema"}},
		{"body.empty", true, map[string]any{"hasBody": true, "bodyFail": "empty"}},
		{"body.ctype", true, map[string]any{"hasBody": true, "bodyFail": "ctype"}},
	}
	for _, lvl := range []string{"opParams", "pathParams"} {
		for _, in := range []string{"query", "header", "cookie", "path"} {
			for _, ok := range []bool{true, false} {
				out = append(out, c14Src{"param." + lvl + "." + in, !ok, map[string]any{lvl: []any{c14P("p", in, ok)}}})
			}
		}
	}
	return out
}

// merge two request descriptions (lists concatenated, security/body fields of b win when a has none)
func c14MergeRq(a, b map[string]any) (map[string]any, bool) {
	out := map[string]any{}
	for k, v := range a {
		out[k] = v
	}
	for k, v := range b {
		switch k {
		case "opParams", "pathParams":
			l := append([]any{}, jlist(out[k])...)
			for _, p := range jlist(v) {
				pm := p.(map[string]any)
				for _, q := range l {
					qm := q.(map[string]any)
					if jstr(qm, "name") == jstr(pm, "name") && jstr(qm, "in") == jstr(pm, "in") {
						return nil, false
					}
				}
				l = append(l, p)
			}
			out[k] = l
		default:
			if _, dup := out[k]; dup {
				return nil, false
			}
			out[k] = v
		}
	}
	return out, true
}

func c14Base() hx.Case {
	return hx.Case{"mode": "mw", "strict": true, "errfn": "default", "errops": []any{}, "logfn": "custom",
		"route": "ok", "req": "ok", "doc": c14Docs[0], "ops": []any{}, "transport": "recorder", "router": "gorilla"}
}

func c14With(c hx.Case, kv ...any) hx.Case {
	x := cloneCase(c)
	for i := 0; i+1 < len(kv); i += 2 {
		x[kv[i].(string)] = kv[i+1]
	}
	return x
}

func genC14(ctx *hx.Ctx, emit func(hx.Case)) {
	ct := c14Op("set", "Content-Type", "application/json")
	alphabet := []map[string]any{
		ct, c14Op("wh", 200), c14Op("wh", 404), c14Op("w", "12"), c14Op("w", "x"), c14Op("w", ""), c14Op("fl"), c14Op("set", "X-A", "1"), c14Op("wh", 0), c14Op("set", "X-A", "z"),
		c14Op("panic"), c14Op("wh", 103),
	}
	// all op sequences of length ≤ 3 (quick) / ≤ 4 (thorough)
	maxLen := 3
	if ctx.Thorough() {
		maxLen = 4
	}
	var seqs [][]any
	var rec func(prefix []any, n int)
	rec = func(prefix []any, n int) {
		seqs = append(seqs, append([]any{}, prefix...))
		if n == 0 {
			return
		}
		for _, a := range alphabet {
			rec(append(prefix, a), n-1)
		}
	}
	rec(nil, maxLen)
	base := c14Base()
	i := 0
	for _, ops := range seqs {
		for _, strict := range []bool{true, false} {
			for di, doc := range c14Docs {
				i++
				// every sequence runs on the recorder in both modes against every document; a rotating
				// third of them additionally behind the real server, and with the other callbacks
				c := c14With(base, "ops", ops, "strict", strict, "doc", doc)
				_ = di
				emit(c)
				if i%6 != 0 && c14HasInfo(ops) {
					emit(c14With(c, "transport", "server")) // informational codes differ from final ones only behind a real server
				}
				switch i % 6 {
				case 0:
					emit(c14With(c, "transport", "server"))
				case 1:
					emit(c14With(c, "errfn", "echo", "router", "legacy"))
				case 2:
					emit(c14With(c, "errfn", "silent", "logfn", "default"))
				case 3:
					emit(c14With(c, "errfn", "ops", "errops", []any{c14Op("w", "oops"), c14Op("wh", 418)}, "transport", "server"))
				}
			}
		}
	}
	// route / request failures × callbacks × routers × transports
	someOps := [][]any{{}, {ct, c14Op("w", "12")}, {c14Op("wh", 404), c14Op("w", "x")}}
	for _, route := range []string{"ok", "nopath", "nomethod"} {
		for _, rq := range []string{"ok", "missing", "type"} {
			for _, errfn := range []string{"default", "echo", "silent", "ops"} {
				for _, router := range []string{"gorilla", "legacy"} {
					for _, tr := range []string{"recorder", "server"} {
						for _, strict := range []bool{true, false} {
							for oi, ops := range someOps {
								logfn := "custom"
								if oi == 2 {
									logfn = "default"
								}
								emit(c14With(base, "route", route, "req", rq, "errfn", errfn, "router", router, "transport", tr,
									"strict", strict, "ops", ops, "logfn", logfn, "doc", c14Docs[oi],
									"errops", []any{c14Op("set", "X-B", "e"), c14Op("wh", 418), c14Op("w", "teapot")}))
							}
						}
					}
				}
			}
		}
	}
	// the ways a request can be invalid: every source alone and every pair with exactly one failing member
	srcs := c14Sources()
	var rqs []map[string]any
	for _, a := range srcs {
		rqs = append(rqs, a.rq)
	}
	for _, a := range srcs {
		if !a.fail {
			continue
		}
		for _, b := range srcs {
			if b.fail || strings.SplitN(a.name, ".", 2)[0] == strings.SplitN(b.name, ".", 2)[0] && !strings.HasPrefix(a.name, "param") {
				continue
			}
			if m, ok := c14MergeRq(a.rq, b.rq); ok {
				rqs = append(rqs, m)
			}
		}
	}
	type hcfg struct{ mode, router, transport, entry, enc, errfn string }
	hcfgs := []hcfg{{"mw", "gorilla", "recorder", "", "", "default"}, {"mw", "legacy", "server", "", "", "echo"},
		{"vh", "gorilla", "recorder", "serve", "vee", "default"}, {"vh", "gorilla", "server", "mw", "ops", "default"}}
	k := 0
	for _, rq := range rqs {
		for _, strict := range []bool{true, false} {
			for hi, h := range hcfgs {
				for _, decoy := range []bool{false, true} {
					k++
					if h.mode == "vh" && strict {
						continue // ValidationHandler has no strict mode
					}
					ops := someOps[(k+hi)%len(someOps)]
					emit(c14With(base, "rq", rq, "noq", true, "decoy", decoy, "strict", strict, "mode", h.mode, "router", h.router,
						"transport", h.transport, "entry", h.entry, "enc", h.enc, "errfn", h.errfn, "ops", ops, "doc", c14Docs[k%len(c14Docs)],
						"errops", []any{c14Op("set", "X-B", "e"), c14Op("wh", 418), c14Op("w", "teapot")}))
				}
			}
		}
		// option flags of the Validator that change which parts are checked
		for o := 1; o < 8; o++ {
			r2 := map[string]any{"excludeBody": o&1 != 0, "excludeQuery": o&2 != 0, "multi": o&4 != 0}
			if m, ok := c14MergeRq(rq, r2); ok {
				emit(c14With(base, "rq", m, "noq", o&2 != 0 && o&1 != 0, "strict", o&4 != 0, "ops", someOps[o%len(someOps)], "doc", c14Docs[o%len(c14Docs)]))
			}
		}
	}
	// defaults: no AuthenticationFunc configured (Validator: every security requirement fails; ValidationHandler.Load
	// installs the no-op one: every declared scheme passes), and the encoders Load installs / the library ships
	for _, src := range srcs {
		if !strings.HasPrefix(src.name, "sec.") {
			continue
		}
		rq, _ := c14MergeRq(src.rq, map[string]any{"noauth": true})
		for _, decoy := range []bool{false, true} {
			for _, strict := range []bool{true, false} {
				emit(c14With(base, "rq", rq, "noq", true, "decoy", decoy, "strict", strict, "ops", someOps[1], "doc", c14Docs[0]))
			}
			for _, enc := range []string{"default", "veedefault", "vee"} {
				emit(c14With(base, "rq", rq, "noq", true, "decoy", decoy, "strict", false, "mode", "vh", "entry", "serve", "enc", enc, "ops", someOps[1]))
			}
		}
	}
	for _, rq := range rqs {
		for ei, enc := range []string{"default", "veedefault"} {
			for _, tr := range []string{"recorder", "server"} {
				emit(c14With(base, "rq", rq, "noq", true, "strict", false, "mode", "vh", "entry", []string{"serve", "mw"}[ei], "enc", enc,
					"transport", tr, "ops", someOps[1]))
			}
		}
	}
	for _, route := range []string{"ok", "nopath", "nomethod"} {
		for _, rq := range []string{"ok", "missing", "type"} {
			for _, enc := range []string{"default", "veedefault"} {
				for _, tr := range []string{"recorder", "server"} {
					emit(c14With(base, "mode", "vh", "route", route, "req", rq, "enc", enc, "entry", "serve", "transport", tr, "ops", someOps[2], "strict", false))
				}
			}
		}
	}
	// ValidationHandler
	for _, route := range []string{"ok", "nopath", "nomethod"} {
		for _, rq := range []string{"ok", "missing", "type"} {
			for _, enc := range []string{"vee", "ops", "silent"} {
				for _, entry := range []string{"serve", "mw"} {
					for _, tr := range []string{"recorder", "server"} {
						for _, ops := range append(someOps, []any{c14Op("fl"), c14Op("wh", 404), ct, c14Op("w", "1"), c14Op("w", "2")}) {
							emit(c14With(base, "mode", "vh", "route", route, "req", rq, "enc", enc, "entry", entry, "transport", tr, "ops", ops,
								"errops", []any{c14Op("set", "X-B", "e"), c14Op("wh", 418), c14Op("w", "teapot")}))
						}
					}
				}
			}
		}
	}
	// optional interfaces of the writer the handler is given (probe, ResponseController.Flush, io.Copy → ReadFrom,
	// io.WriteString → WriteString), large bodies (beyond net/http's 4 kB buffer and io.Copy's 32 kB chunk),
	// many pieces, informational codes in every position, panics after partial output
	big := 40000
	if ctx.Thorough() {
		big = 300000
	}
	ifaceOps := [][]any{
		{c14Op("probe")},
		{c14Op("probe"), ct, c14Op("w", "12")},
		{ct, c14Op("rcfl"), c14Op("w", "12")},
		{ct, c14Op("w", "1"), c14Op("rcfl"), c14Op("w", "2")},
		{ct, c14Op("rcfl"), c14Op("w", "x")},
		{c14Op("wh", 404), c14Op("rcfl"), c14Op("w", "x")},
		{ct, c14Op("ws", "12")},
		{ct, c14Op("ws", "x")},
		{ct, c14Op("copy", "12")},
		{ct, c14Op("copy", "x")},
		{ct, c14Op("copy", "")},
		{c14Op("wh", 404), c14Op("copy", "1"), c14Op("ws", "2"), c14Op("w", "3")},
		{ct, c14Op("w", "x", big)},
		{c14Op("wh", 404), c14Op("w", "x", big)},
		{ct, c14Op("copy", "x", big), c14Op("probe")},
		{ct, c14Op("ws", "x", big), c14Op("w", "1")},
		{c14Op("w", "x", 5000), c14Op("fl"), c14Op("w", "x", 5000), c14Op("wh", 404)},
		{ct, c14Op("w", "1"), c14Op("w", "2"), c14Op("w", "3"), c14Op("w", "4"), c14Op("w", "5"), c14Op("w", "6"), c14Op("w", "7"), c14Op("w", "8")},
		{c14Op("wh", 103), ct, c14Op("wh", 200), c14Op("w", "12")},
		{c14Op("wh", 103), c14Op("wh", 404), c14Op("w", "1")},
		{c14Op("wh", 102), c14Op("wh", 103), ct, c14Op("w", "12")},
		{ct, c14Op("wh", 103)},
		{ct, c14Op("w", "12"), c14Op("wh", 103)},
		{c14Op("wh", 103), c14Op("wh", 103), c14Op("wh", 103), c14Op("wh", 103), c14Op("wh", 103), c14Op("wh", 103), c14Op("wh", 103), ct, c14Op("w", "12")},
		{ct, c14Op("w", "12"), c14Op("panic")},
		{c14Op("wh", 404), c14Op("fl"), c14Op("w", "x"), c14Op("panic"), c14Op("w", "y")},
		{c14Op("set", "X-A", "1"), c14Op("panic")},
		{c14Op("panic")},
	}
	ifaceDocs := []map[string]any{c14Docs[0], c14Docs[1], c14Docs[4], c14Docs[5], c14Docs[9]}
	for _, ops := range ifaceOps {
		for _, strict := range []bool{true, false} {
			for _, doc := range ifaceDocs {
				for _, tr := range []string{"recorder", "server"} {
					emit(c14With(base, "ops", ops, "strict", strict, "doc", doc, "transport", tr))
					emit(c14With(base, "ops", ops, "strict", strict, "doc", doc, "transport", tr, "errfn", "echo", "router", "legacy"))
				}
			}
		}
		for _, tr := range []string{"recorder", "server"} {
			emit(c14With(base, "mode", "vh", "enc", "ops", "entry", "serve", "ops", ops, "transport", tr, "strict", false,
				"errops", []any{c14Op("wh", 418), c14Op("w", "teapot")}))
		}
	}
	// HEAD requests (the operation is declared under `head` too): the handler's bytes are validated and flushed as
	// usual; a real server drops them on the wire
	for _, ops := range [][]any{{ct, c14Op("w", "12")}, {ct, c14Op("w", "x")}, {c14Op("wh", 404), c14Op("w", "x")}, {}, {ct, c14Op("fl"), c14Op("w", "3")}} {
		for _, strict := range []bool{true, false} {
			for _, doc := range ifaceDocs {
				for _, tr := range []string{"recorder", "server"} {
					for _, router := range []string{"gorilla", "legacy"} {
						emit(c14With(base, "head", true, "ops", ops, "strict", strict, "doc", doc, "transport", tr, "router", router))
					}
				}
			}
		}
		for _, route := range []string{"ok", "nopath"} {
			emit(c14With(base, "head", true, "mode", "vh", "enc", "vee", "entry", "mw", "ops", ops, "transport", "server", "strict", false, "route", route))
		}
	}
	// every way of handing options to NewValidator: all lists of length ≤ 3 over a pool (order, repetition,
	// omission → defaults), on a few handler behaviours
	optPool := []map[string]any{
		{"o": "strict", "v": true}, {"o": "strict", "v": false}, {"o": "onerr", "kind": "echo"}, {"o": "onerr", "kind": "silent"},
		{"o": "onlog"}, {"o": "valopts", "inc": true, "exb": false}, {"o": "valopts", "inc": false, "exb": true},
	}
	var optLists [][]any
	var recOpt func(prefix []any, n int)
	recOpt = func(prefix []any, n int) {
		optLists = append(optLists, append([]any{}, prefix...))
		if n == 0 {
			return
		}
		for _, o := range optPool {
			recOpt(append(prefix, o), n-1)
		}
	}
	recOpt(nil, 3)
	optBeh := [][]any{{ct, c14Op("w", "x")}, {c14Op("wh", 404), c14Op("w", "1")}, {}}
	for li, l := range optLists {
		for bi, b := range optBeh {
			c := c14With(base, "vopts", l, "ops", b, "doc", c14DocShape(false, "200", "json"))
			emit(c)
			if (li+bi)%7 == 0 {
				emit(c14With(c, "transport", "server"))
			}
			if (li+bi)%5 == 0 {
				emit(c14With(c, "route", "nopath"))
			}
			if (li+bi)%5 == 1 {
				emit(c14With(c, "req", "missing"))
			}
		}
	}
	// histories: sequences of requests through ONE middleware chain (what a Validator keeps between requests
	// must not influence the next answer): every pair over a pool of steps, triples over a smaller pool
	st := func(route, req string, path2 bool, ops ...map[string]any) map[string]any {
		l := []any{}
		for _, o := range ops {
			l = append(l, o)
		}
		m := map[string]any{"route": route, "req": req, "ops": l}
		if path2 {
			m["path2"] = true
		}
		return m
	}
	xa := c14Op("set", "X-A", "1")
	behaviours := [][]map[string]any{
		{ct, c14Op("w", "12")},                      // valid where a JSON integer is wanted
		{ct, c14Op("w", "x")},                       // invalid body
		{c14Op("wh", 404), c14Op("w", "x")},         // another status
		{},                                          // nothing at all
		{c14Op("w", "1"), c14Op("wh", 404), c14Op("w", "2")}, // write first, late WriteHeader, pieces
		{ct, xa, c14Op("wh", 200), c14Op("w", "7")}, // with the required response header
		{ct, c14Op("fl"), c14Op("w", "3")},          // Flush before the first write
		{c14Op("wh", 201)},                          // status only
		{c14Op("wh", 404), c14Op("w", "x"), c14Op("panic")}, // output, then a panic
	}
	var pool, small []map[string]any
	for bi, b := range behaviours {
		pool = append(pool, st("ok", "ok", false, b...), st("ok", "ok", true, b...))
		if bi < 4 {
			small = append(small, st("ok", "ok", false, b...))
		}
	}
	pool = append(pool, st("nopath", "ok", false, ct, c14Op("w", "12")), st("ok", "missing", false, ct, c14Op("w", "12")))
	small = append(small, st("ok", "type", false, ct, c14Op("w", "12")), st("ok", "ok", true, ct, c14Op("w", "12")))
	two := func(d map[string]any, entries ...string) map[string]any {
		x := map[string]any{}
		for k, v := range d {
			x[k] = v
		}
		x["responses2"] = c14DocShape(false, entries...)["responses"]
		return x
	}
	seqDocs := []map[string]any{
		two(c14DocShape(false, "200", "json"), "200", "any", "404", "json"),
		two(c14DocShape(true, "200", "json", "404", "any"), "404", "any"),
		two(c14DocExB(c14DocShape(true, "200", "hdrjson", "4XX", "json")), "200", "json"),
	}
	hist := 0
	emitHist := func(seq []any, strict bool, doc map[string]any) {
		hist++
		c := c14With(base, "seq", seq, "strict", strict, "doc", doc, "ops", []any{})
		emit(c)
		switch hist % 8 {
		case 0:
			emit(c14With(c, "transport", "server"))
		case 1:
			emit(c14With(c, "errfn", "echo", "router", "legacy"))
		case 2:
			emit(c14With(c, "par", true))
		case 3:
			emit(c14With(c, "errfn", "ops", "errops", []any{c14Op("w", "oops"), c14Op("wh", 418)}, "logfn", "default"))
		case 4:
			emit(c14With(c, "par", true, "transport", "server", "errfn", "silent"))
		}
	}
	for _, strict := range []bool{true, false} {
		for _, doc := range seqDocs {
			for _, a := range pool {
				for _, b := range pool {
					emitHist([]any{a, b}, strict, doc)
				}
			}
		}
		for _, doc := range seqDocs[:2] {
			for _, a := range small {
				for _, b := range small {
					for _, d := range small {
						emitHist([]any{a, b, d}, strict, doc)
					}
				}
			}
		}
	}
	// ValidationHandler histories: served / rejected in every order, both entries, every encoder
	vhSteps := []map[string]any{st("ok", "ok", false, ct, c14Op("w", "12")), st("ok", "missing", false, c14Op("w", "x")),
		st("nopath", "ok", false), st("ok", "ok", false, c14Op("wh", 404), c14Op("w", "x")), st("nomethod", "ok", false), st("ok", "type", false)}
	for _, enc := range []string{"vee", "ops", "silent"} {
		for _, entry := range []string{"serve", "mw"} {
			for ai, a := range vhSteps {
				for bi, b := range vhSteps {
					seq := []any{a, b}
					if (ai+bi)%3 == 0 {
						seq = append(seq, vhSteps[(ai+2*bi+1)%len(vhSteps)])
					}
					c := c14With(base, "mode", "vh", "enc", enc, "entry", entry, "seq", seq, "ops", []any{}, "strict", false,
						"errops", []any{c14Op("set", "X-B", "e"), c14Op("wh", 418), c14Op("w", "teapot")})
					emit(c)
					if (ai+bi)%4 == 1 {
						emit(c14With(c, "transport", "server"))
					}
					if (ai+bi)%4 == 2 {
						emit(c14With(c, "par", true))
					}
				}
			}
		}
	}
	// seeded random stream
	n := 8000
	if ctx.Thorough() {
		n = 60000
	}
	r := ctx.Rng
	randOp := func() map[string]any {
		if r.Chance(8) {
			switch r.Intn(8) {
			case 0:
				return c14Op("panic")
			case 1, 2:
				return c14Op("wh", hx.Pick(r, []int{102, 103, 103, 199}))
			case 3:
				return c14Op("rcfl")
			case 4:
				return c14Op("ws", hx.Pick(r, []string{"1", "x", "45"}))
			case 5:
				return c14Op("copy", hx.Pick(r, []string{"1", "x", "67", ""}))
			case 6:
				return c14Op("probe")
			default:
				return c14Op("w", "x", hx.Pick(r, []int{3000, 5000, 33000})) // never digits: a 3000-digit JSON integer is not what "integer" is modelled for
			}
		}
		switch r.Intn(12) {
		case 0, 1:
			return c14Op("wh", hx.Pick(r, []int{200, 201, 404, 500, 200, 404, 0, 99, 1000, 299}))
		case 2, 3, 4:
			return c14Op("w", hx.Pick(r, []string{"1", "23", "456", "x", "", "7"}))
		case 5:
			return c14Op("fl")
		case 6, 7:
			return c14Op("set", "Content-Type", hx.Pick(r, []string{"application/json", "application/json; charset=utf-8", "text/plain"}))
		case 8:
			return c14Op("set", hx.Pick(r, []string{"X-A", "X-A", "X-B"}), hx.Pick(r, []string{"1", "2", "z"}))
		case 9:
			return c14Op("del", hx.Pick(r, []string{"X-A", "Content-Type"}))
		case 10:
			return c14Op("wh", hx.Pick(r, []int{200, 404}))
		default:
			return c14Op("w", hx.Pick(r, []string{"1", "9"}))
		}
	}
	randOps := func(max int) []any {
		out := []any{}
		for k := r.Intn(max + 1); k > 0; k-- {
			out = append(out, randOp())
		}
		return out
	}
	keys := []string{"200", "201", "404", "500", "default", "2XX", "4XX"}
	randDoc := func() map[string]any {
		rs := []any{}
		for _, k := range keys {
			if r.Chance(40) {
				rs = append(rs, map[string]any{"key": k, "kind": hx.Pick(r, []string{"json", "json", "any", "hdr", "hdrjson"})})
			}
		}
		if len(rs) == 0 {
			rs = append(rs, map[string]any{"key": "200", "kind": "json"})
		}
		d := map[string]any{"responses": rs, "includeStatus": r.Chance(30)}
		if r.Chance(15) {
			d["excludeRespBody"] = true
		}
		return d
	}
	randParams := func() []any {
		out := []any{}
		seen := map[string]bool{}
		for i, k := 0, r.Intn(4); i < k; i++ {
			p := c14P(hx.Pick(r, []string{"p", "r"}), hx.Pick(r, []string{"query", "header", "cookie", "path"}), r.Chance(70))
			key := jstr(p, "in") + ":" + jstr(p, "name")
			if !seen[key] {
				seen[key] = true
				out = append(out, p)
			}
		}
		return out
	}
	randReqs := func() []any {
		rs := []any{}
		for i, k := 0, r.Intn(3); i < k; i++ {
			req := []any{}
			seen := map[string]bool{}
			for j, m := 0, r.Intn(3); j < m; j++ {
				s := hx.Pick(r, []string{"a", "b", "c", "u"})
				if !seen[s] {
					seen[s] = true
					req = append(req, s)
				}
			}
			rs = append(rs, req)
		}
		return rs
	}
	randRq := func() map[string]any {
		rq := map[string]any{"opParams": randParams(), "pathParams": randParams(), "docSecurity": randReqs(),
			"declared": []any{"a", "b", "c"}, "accepted": hx.Pick(r, [][]any{{}, {"a"}, {"b"}, {"a", "b"}, {"a", "b", "c"}, {"c", "u"}}),
			"excludeBody": r.Chance(20), "excludeQuery": r.Chance(20), "multi": r.Chance(30)}
		if r.Chance(45) {
			rq["opSecurity"] = randReqs()
		}
		if r.Chance(45) {
			rq["hasBody"] = true
			rq["bodyFail"] = hx.Pick(r, []string{"", "", "", "schema", "empty", "ctype"})
		}
		return rq
	}
	for k := 0; k < n; k++ {
		c := c14With(base, "ops", randOps(8), "strict", r.Bool(), "doc", randDoc(),
			"errfn", hx.Pick(r, []string{"default", "echo", "silent", "ops"}), "errops", randOps(3),
			"logfn", hx.Pick(r, []string{"custom", "custom", "default"}),
			"router", hx.Pick(r, []string{"gorilla", "legacy"}),
			"transport", hx.Pick(r, []string{"recorder", "recorder", "server"}))
		if r.Chance(12) {
			c["route"] = hx.Pick(r, []string{"nopath", "nomethod"})
		}
		if r.Chance(12) {
			c["req"] = hx.Pick(r, []string{"missing", "type"})
		}
		if r.Chance(45) {
			c["rq"] = randRq()
			c["noq"] = r.Chance(60)
			c["decoy"] = r.Chance(40)
		}
		if r.Chance(10) {
			c["mode"] = "vh"
			c["enc"] = hx.Pick(r, []string{"vee", "ops", "silent"})
			c["entry"] = hx.Pick(r, []string{"serve", "mw"})
			if jstr(c, "route") == "nomethod" && len(c14PathNames(c14Rq(c))) > 0 {
				// the legacy router (the only one ValidationHandler uses) reports an unknown method on a
				// templated path as "path not found" (C09's subject): keep the route outcome unambiguous here
				c["route"] = "nopath"
			}
		}
		emit(c)
	}
	// random histories (2-4 requests; random handler behaviour, route and request outcome per request)
	nh := 1500
	if ctx.Thorough() {
		nh = 12000
	}
	for k := 0; k < nh; k++ {
		doc := randDoc()
		twoOps := r.Chance(50)
		if twoOps {
			doc["responses2"] = randDoc()["responses"]
		}
		seq := []any{}
		for i, m := 0, 2+r.Intn(3); i < m; i++ {
			s := map[string]any{"route": "ok", "req": "ok", "ops": randOps(5)}
			if r.Chance(10) {
				s["route"] = hx.Pick(r, []string{"nopath", "nomethod"})
			}
			if r.Chance(10) {
				s["req"] = hx.Pick(r, []string{"missing", "type"})
			}
			if twoOps && r.Chance(50) {
				s["path2"] = true
			}
			seq = append(seq, s)
		}
		c := c14With(base, "seq", seq, "ops", []any{}, "strict", r.Chance(65), "doc", doc,
			"errfn", hx.Pick(r, []string{"default", "echo", "silent", "ops"}), "errops", randOps(3),
			"logfn", hx.Pick(r, []string{"custom", "custom", "default"}),
			"router", hx.Pick(r, []string{"gorilla", "legacy"}),
			"transport", hx.Pick(r, []string{"recorder", "recorder", "recorder", "server"}))
		if r.Chance(15) {
			c["par"] = true
		}
		if r.Chance(12) {
			c["mode"] = "vh"
			c["strict"] = false
			c["enc"] = hx.Pick(r, []string{"vee", "ops", "silent"})
			c["entry"] = hx.Pick(r, []string{"serve", "mw"})
		}
		emit(c)
	}
}

func shrinkC14(c hx.Case) []hx.Case {
	var out []hx.Case
	if seq, ok := c["seq"].([]any); ok {
		if len(seq) > 1 {
			for _, n := range dropEach(seq) {
				out = append(out, c14With(c, "seq", n))
			}
		}
		for i, st := range seq {
			m, _ := st.(map[string]any)
			for _, n := range dropEach(jlist(m["ops"])) {
				x := map[string]any{}
				for k, v := range m {
					x[k] = v
				}
				x["ops"] = n
				l := append([]any{}, seq...)
				l[i] = x
				out = append(out, c14With(c, "seq", l))
			}
		}
		if jbool(c, "par") {
			out = append(out, c14With(c, "par", false))
		}
	}
	for _, k := range []string{"ops", "errops"} {
		if l, ok := c[k].([]any); ok {
			for _, n := range dropEach(l) {
				x := cloneCase(c)
				x[k] = n
				out = append(out, x)
			}
		}
	}
	if d, ok := c["doc"].(map[string]any); ok {
		docWith := func(k string, v any) hx.Case {
			n := map[string]any{}
			for a, b := range d {
				n[a] = b
			}
			n[k] = v
			return c14With(c, "doc", n)
		}
		for _, k := range []string{"responses", "responses2"} {
			for _, n := range dropEach(jlist(d[k])) {
				if len(n) == 0 {
					continue // an operation keeps at least one response (a document without any is invalid)
				}
				out = append(out, docWith(k, n))
			}
		}
		if jbool(d, "includeStatus") {
			out = append(out, docWith("includeStatus", false))
		}
	}
	if rq, ok := c["rq"].(map[string]any); ok {
		with := func(k string, v any) hx.Case {
			n := map[string]any{}
			for a, b := range rq {
				n[a] = b
			}
			if v == nil {
				delete(n, k)
			} else {
				n[k] = v
			}
			return c14With(c, "rq", n)
		}
		for _, k := range []string{"opParams", "pathParams", "docSecurity", "opSecurity", "accepted"} {
			if l, ok := rq[k].([]any); ok {
				for _, n := range dropEach(l) {
					out = append(out, with(k, n))
				}
			}
		}
		if rq["opSecurity"] != nil {
			out = append(out, with("opSecurity", nil))
		}
		for _, k := range []string{"hasBody", "excludeBody", "excludeQuery", "multi"} {
			if jbool(rq, k) {
				out = append(out, with(k, false))
			}
		}
		if jstr(rq, "bodyFail") != "" {
			out = append(out, with("bodyFail", ""))
		}
	}
	if vo, ok := c["vopts"].([]any); ok {
		for _, n := range dropEach(vo) {
			out = append(out, c14With(c, "vopts", n))
		}
	}
	if jbool(c, "decoy") {
		out = append(out, c14With(c, "decoy", false))
	}
	if jstr(c, "transport") == "server" {
		out = append(out, c14With(c, "transport", "recorder"))
	}
	if jstr(c, "router") == "legacy" {
		out = append(out, c14With(c, "router", "gorilla"))
	}
	if jstr(c, "errfn") != "default" && jstr(c, "mode") != "vh" {
		out = append(out, c14With(c, "errfn", "default"))
	}
	if jstr(c, "logfn") == "default" {
		out = append(out, c14With(c, "logfn", "custom"))
	}
	return out
}
