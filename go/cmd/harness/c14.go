package main

// C14 — the middleware calls the handler only for valid requests and shields clients.
// Real code exercised: openapi3filter.Validator.Middleware (strictResponseWrapper, warnResponseWrapper,
// default and custom ErrFunc / LogFunc) over the gorillamux and the legacy router, and
// openapi3filter.ValidationHandler (ServeHTTP and Middleware, ValidationErrorEncoder / custom ErrorEncoder),
// each under httptest.ResponseRecorder and behind a real net/http server (httptest.Server).

import (
	"context"
	"encoding/json"
	"errors"
	"fmt"
	"io"
	"log"
	"net/http"
	"net/http/httptest"
	"os"
	"sort"
	"strconv"
	"strings"
	"sync"
	"sync/atomic"

	"github.com/getkin/kin-openapi/openapi3"
	"github.com/getkin/kin-openapi/openapi3filter"
	"github.com/getkin/kin-openapi/routers"
	"github.com/getkin/kin-openapi/routers/gorillamux"
	legacyrouter "github.com/getkin/kin-openapi/routers/legacy"

	"kinverif/internal/hx"
)

func init() {
	hx.Register(&hx.Prop{
		ID: "C14",
		Rule: "exhaustive: every handler op sequence of length ≤ 3 (thorough: ≤ 4) over a 9-letter alphabet (Content-Type set, X-A set, WriteHeader 200/404/0, Write valid/invalid piece, empty Write, Flush) " +
			"× strict/non-strict × 6 response-document shapes, plus route/request failures × ErrFunc kinds (default http.Error, echo, silent, custom op list) × routers × recorder/real server, " +
			"plus ValidationHandler (ServeHTTP/Middleware × custom/ValidationErrorEncoder × route/request outcomes); then a seeded random stream of op lists up to length 8 " +
			"(incl. invalid status codes, header deletions, Content-Type variants). Non-trivial = the model reports a non-default branch (e.g. write before WriteHeader, several WriteHeader calls, " +
			"no status at all, Flush before the status, strict replacement, custom callbacks, real server transport).",
		Exhaustive: true,
		Gen:        genC14,
		Run:        runC14,
		Compare:    cmpC14,
		Shrink:     shrinkC14,
		Workers:    8,
		Assumptions: []string{
			"verdicts of FindRoute / ValidateRequest / ValidateResponse are controlled through the document and the request (required integer query parameter; response entries with or without an application/json integer schema; body bytes drawn from digits 1-9 and 'x') and recomputed by the driver for that family",
			"status codes 1xx, 204, 304 and HEAD requests are not generated (httptest.ResponseRecorder and the net/http server differ there); only behaviour common to both transports is compared",
			"w.Write of the client's writer never fails (no closed connections), so the 'failed to write response' log is not reachable",
			"behind the real server only status, body, the X-*/Content-Type headers the model knows to be set, and connection abort (handler panic) are observable",
		},
	})
}

var c14Once sync.Once
var c14Srv *httptest.Server
var c14Handlers sync.Map // id -> http.Handler
var c14Seq atomic.Int64
var c14Client, c14ClientNoKA *http.Client

func c14Server() {
	c14Once.Do(func() {
		log.SetOutput(io.Discard) // the default LogFunc of the Validator prints through package log
		c14Srv = httptest.NewUnstartedServer(http.HandlerFunc(func(w http.ResponseWriter, r *http.Request) {
			h, ok := c14Handlers.Load(r.Header.Get("X-Verif-Case"))
			if !ok {
				http.Error(w, "no such case", 599)
				return
			}
			h.(http.Handler).ServeHTTP(w, r)
		}))
		c14Srv.Config.ErrorLog = log.New(io.Discard, "", 0)
		c14Srv.Start()
		c14Client = &http.Client{Transport: &http.Transport{MaxIdleConnsPerHost: 16, DisableCompression: true},
			CheckRedirect: func(*http.Request, []*http.Request) error { return http.ErrUseLastResponse }}
		// a handler panic aborts the connection; on a reused connection net/http would silently retry the GET
		// (second handler invocation), so cases that can panic use fresh connections
		c14ClientNoKA = &http.Client{Transport: &http.Transport{DisableKeepAlives: true, DisableCompression: true},
			CheckRedirect: func(*http.Request, []*http.Request) error { return http.ErrUseLastResponse }}
	})
}

// ---- document family

func c14Doc(c hx.Case) *openapi3.T {
	docm, _ := c["doc"].(map[string]any)
	doc := &openapi3.T{OpenAPI: "3.0.0", Info: &openapi3.Info{Title: "t", Version: "1"}, Paths: openapi3.NewPaths()}
	op := &openapi3.Operation{Responses: &openapi3.Responses{}}
	for _, e := range jlist(docm["responses"]) {
		em := e.(map[string]any)
		desc := "d"
		resp := &openapi3.Response{Description: &desc}
		if jstr(em, "kind") == "json" {
			resp.Content = openapi3.NewContentWithJSONSchema(openapi3.NewIntegerSchema())
		}
		op.Responses.Set(jstr(em, "key"), &openapi3.ResponseRef{Value: resp})
	}
	op.Parameters = openapi3.Parameters{&openapi3.ParameterRef{Value: &openapi3.Parameter{
		Name: "q", In: "query", Required: true, Schema: openapi3.NewIntegerSchema().NewRef()}}}
	doc.Paths.Set("/x", &openapi3.PathItem{Get: op})
	return doc
}

type c14Routers struct {
	gorilla, legacy routers.Router
	vhServe        map[string]*openapi3filter.ValidationHandler
	err            error
}

var c14DocCache sync.Map // canonical doc text -> *c14Routers

func c14RoutersFor(c hx.Case) *c14Routers {
	key := hx.Canon(c["doc"])
	if v, ok := c14DocCache.Load(key); ok {
		return v.(*c14Routers)
	}
	r := &c14Routers{}
	doc := c14Doc(c)
	if err := doc.Validate(context.Background()); err != nil {
		r.err = err
	} else {
		r.gorilla, r.err = gorillamux.NewRouter(doc)
		if r.err == nil {
			r.legacy, r.err = legacyrouter.NewRouter(doc)
		}
	}
	v, _ := c14DocCache.LoadOrStore(key, r)
	return v.(*c14Routers)
}

// ValidationHandler loads its document from a file: write it to a scratch file, Load, remove.
func c14NewVH(c hx.Case) (*openapi3filter.ValidationHandler, error) {
	doc := c14Doc(c)
	b, err := json.Marshal(doc)
	if err != nil {
		return nil, err
	}
	f, err := os.CreateTemp("", "c14-*.json")
	if err != nil {
		return nil, err
	}
	defer os.Remove(f.Name())
	f.Write(b)
	f.Close()
	vh := &openapi3filter.ValidationHandler{File: f.Name()}
	if err := vh.Load(); err != nil {
		return nil, err
	}
	return vh, nil
}

// ---- handler = op list

type c14Obs struct {
	mu   sync.Mutex
	ran  int
	errs []string
	logs []string
}

func c14RunOps(w http.ResponseWriter, ops []any) {
	for _, o := range ops {
		m, _ := o.(map[string]any)
		switch jstr(m, "op") {
		case "set":
			w.Header().Set(jstr(m, "k"), jstr(m, "v"))
		case "del":
			w.Header().Del(jstr(m, "k"))
		case "wh":
			n, _ := strconv.Atoi(fmt.Sprint(m["n"]))
			w.WriteHeader(n)
		case "w":
			w.Write([]byte(jstr(m, "b")))
		case "fl":
			if f, ok := w.(http.Flusher); ok {
				f.Flush()
			}
		}
	}
}

func c14LogKind(msg string) string {
	switch {
	case strings.HasPrefix(msg, "validation error: failed to find route for "):
		return "route"
	case msg == "invalid request":
		return "request"
	case msg == "invalid response":
		return "response"
	case msg == "failed to write response":
		return "write"
	}
	return "other:" + msg
}

func c14Build(c hx.Case, obs *c14Obs) (http.Handler, error) {
	inner := http.HandlerFunc(func(w http.ResponseWriter, r *http.Request) {
		obs.mu.Lock()
		obs.ran++
		obs.mu.Unlock()
		c14RunOps(w, jlist(c["ops"]))
	})
	if jstr(c, "mode") == "vh" {
		vh, err := c14NewVH(c)
		if err != nil {
			return nil, err
		}
		kindOf := func(err error) string {
			var re *routers.RouteError
			var qe *openapi3filter.RequestError
			switch {
			case errors.As(err, &re):
				if re.Error() == routers.ErrPathNotFound.Error() {
					return "nopath"
				}
				if re.Error() == routers.ErrMethodNotAllowed.Error() {
					return "nomethod"
				}
				return "route:" + re.Error()
			case errors.As(err, &qe):
				return "invalid"
			}
			return "other"
		}
		rec := func(k string) {
			obs.mu.Lock()
			obs.errs = append(obs.errs, k)
			obs.mu.Unlock()
		}
		switch jstr(c, "enc") {
		case "vee":
			var orig error
			vee := &openapi3filter.ValidationErrorEncoder{Encoder: func(ctx context.Context, err error, w http.ResponseWriter) {
				rec(kindOf(orig))
				code := 0
				if sc, ok := err.(openapi3filter.StatusCoder); ok {
					code = sc.StatusCode()
				}
				w.WriteHeader(code)
				w.Write([]byte("V"))
			}}
			vh.ErrorEncoder = func(ctx context.Context, err error, w http.ResponseWriter) {
				orig = err
				vee.Encode(ctx, err, w)
			}
		case "silent":
			vh.ErrorEncoder = func(ctx context.Context, err error, w http.ResponseWriter) { rec(kindOf(err)) }
		default:
			vh.ErrorEncoder = func(ctx context.Context, err error, w http.ResponseWriter) {
				rec(kindOf(err))
				c14RunOps(w, jlist(c["errops"]))
			}
		}
		if jstr(c, "entry") == "mw" {
			return vh.Middleware(inner), nil
		}
		vh.Handler = inner
		return vh, nil
	}
	rs := c14RoutersFor(c)
	if rs.err != nil {
		return nil, rs.err
	}
	router := rs.gorilla
	if jstr(c, "router") == "legacy" {
		router = rs.legacy
	}
	opts := []openapi3filter.ValidatorOption{openapi3filter.Strict(jbool(c, "strict"))}
	docm, _ := c["doc"].(map[string]any)
	o := openapi3filter.Options{IncludeResponseStatus: jbool(docm, "includeStatus")}
	opts = append(opts, openapi3filter.ValidationOptions(o))
	recErr := func(status int, code openapi3filter.ErrCode) {
		obs.mu.Lock()
		obs.errs = append(obs.errs, fmt.Sprintf("%d:%d", status, int(code)))
		obs.mu.Unlock()
	}
	switch jstr(c, "errfn") {
	case "default":
	case "echo":
		opts = append(opts, openapi3filter.OnErr(func(ctx context.Context, w http.ResponseWriter, status int, code openapi3filter.ErrCode, err error) {
			recErr(status, code)
			w.Header().Set("X-Err", strconv.Itoa(int(code)))
			w.WriteHeader(status)
			w.Write([]byte("E" + strconv.Itoa(int(code))))
		}))
	case "silent":
		opts = append(opts, openapi3filter.OnErr(func(ctx context.Context, w http.ResponseWriter, status int, code openapi3filter.ErrCode, err error) {
			recErr(status, code)
		}))
	default:
		opts = append(opts, openapi3filter.OnErr(func(ctx context.Context, w http.ResponseWriter, status int, code openapi3filter.ErrCode, err error) {
			recErr(status, code)
			c14RunOps(w, jlist(c["errops"]))
		}))
	}
	if jstr(c, "logfn") != "default" {
		opts = append(opts, openapi3filter.OnLog(func(ctx context.Context, message string, err error) {
			obs.mu.Lock()
			obs.logs = append(obs.logs, c14LogKind(message))
			obs.mu.Unlock()
		}))
	}
	return openapi3filter.NewValidator(router, opts...).Middleware(inner), nil
}

func c14Request(c hx.Case, base string) *http.Request {
	method, path, query := "GET", "/x", "q=5"
	switch jstr(c, "route") {
	case "nopath":
		path = "/y"
	case "nomethod":
		method = "POST"
	}
	switch jstr(c, "req") {
	case "missing":
		query = ""
	case "type":
		query = "q=abc"
	}
	u := base + path
	if query != "" {
		u += "?" + query
	}
	req, _ := http.NewRequest(method, u, nil)
	return req
}

func c14MayPanic(c hx.Case) bool {
	for _, k := range []string{"ops", "errops"} {
		for _, o := range jlist(c[k]) {
			m, _ := o.(map[string]any)
			if jstr(m, "op") == "wh" {
				if n, _ := strconv.Atoi(fmt.Sprint(m["n"])); n < 100 || n > 999 {
					return true
				}
			}
		}
	}
	return false
}

var c14HeaderNames = []string{"Content-Type", "X-A", "X-B", "X-Err", "X-Content-Type-Options", "Content-Length"}

func c14Headers(h http.Header, server bool) [][]string {
	out := [][]string{}
	for _, k := range c14HeaderNames {
		if server && k == "Content-Length" {
			continue // computed by the server
		}
		if vs, ok := h[k]; ok && len(vs) > 0 {
			out = append(out, []string{k, strings.Join(vs, ",")})
		}
	}
	sort.Slice(out, func(i, j int) bool { return out[i][0] < out[j][0] })
	return out
}

func runC14(c hx.Case) any {
	obs := &c14Obs{}
	h, err := c14Build(c, obs)
	if err != nil {
		return map[string]any{"kind": "setup-error", "error": err.Error()}
	}
	res := map[string]any{}
	if jstr(c, "transport") == "server" {
		c14Server()
		id := strconv.FormatInt(c14Seq.Add(1), 10)
		c14Handlers.Store(id, h)
		defer c14Handlers.Delete(id)
		req := c14Request(c, c14Srv.URL)
		req.Header.Set("X-Verif-Case", id)
		cl := c14Client
		if c14MayPanic(c) {
			cl = c14ClientNoKA
		}
		resp, err := cl.Do(req)
		aborted := err != nil
		if err == nil {
			b, rerr := io.ReadAll(resp.Body)
			resp.Body.Close()
			if rerr != nil {
				aborted = true
			}
			res["status"] = resp.StatusCode
			res["body"] = string(b)
			res["sent"] = c14Headers(resp.Header, true)
		}
		res["panicked"] = aborted
		res["kind"] = "server"
	} else {
		rec := httptest.NewRecorder()
		req := c14Request(c, "http://example.com")
		panicked := false
		func() {
			defer func() {
				if r := recover(); r != nil {
					panicked = true
					res["panic_value"] = fmt.Sprint(r)
				}
			}()
			h.ServeHTTP(rec, req)
		}()
		result := rec.Result()
		res["status"] = rec.Code
		res["body"] = rec.Body.String()
		res["sent"] = c14Headers(result.Header, false)
		res["flushed"] = rec.Flushed
		res["panicked"] = panicked
		res["kind"] = "recorder"
	}
	obs.mu.Lock()
	res["ran"] = obs.ran
	res["err"] = append([]string{}, obs.errs...)
	res["logs"] = append([]string{}, obs.logs...)
	obs.mu.Unlock()
	return res
}

// ---- comparison

func c14Pairs(v any) map[string]string {
	out := map[string]string{}
	for _, p := range jlist(v) {
		l := jlist(p)
		if len(l) == 2 {
			out[fmt.Sprint(l[0])] = fmt.Sprint(l[1])
		}
	}
	return out
}

// c14Diff compares the observation with an expected outcome (model, or the prescribed part of the spec).
func c14Diff(c hx.Case, im, want map[string]any, full bool, checkLogs bool) string {
	server := jstr(im, "kind") == "server"
	wantRan := 0
	if jbool(want, "ran") {
		wantRan = 1
	}
	if fmt.Sprint(im["ran"]) != strconv.Itoa(wantRan) {
		return fmt.Sprintf("handler invocations: impl %v, expected %d", im["ran"], wantRan)
	}
	custom := jstr(c, "mode") == "vh" || jstr(c, "errfn") != "default"
	if custom && !sameStrs(toStrs(im["err"]), toStrs(want["err"]), true) {
		return fmt.Sprintf("error callback calls: impl %v, expected %v", im["err"], want["err"])
	}
	if checkLogs && jstr(c, "mode") != "vh" && jstr(c, "logfn") != "default" && !sameStrs(toStrs(im["logs"]), toStrs(want["logs"]), true) {
		return fmt.Sprintf("log callback calls: impl %v, expected %v", im["logs"], want["logs"])
	}
	if wantPanic := jbool(want, "panicked"); jbool(im, "panicked") != wantPanic {
		return fmt.Sprintf("panic/abort: impl %v, expected %v (%v)", im["panicked"], wantPanic, im["panic_value"])
	}
	if server && jbool(im, "panicked") {
		return "" // connection aborted: nothing else is observable
	}
	if fmt.Sprint(im["status"]) != fmt.Sprint(want["status"]) {
		return fmt.Sprintf("status: impl %v, expected %v", im["status"], want["status"])
	}
	if jstr(im, "body") != jstr(want, "body") {
		return fmt.Sprintf("body: impl %q, expected %q", jstr(im, "body"), jstr(want, "body"))
	}
	if full {
		ih, wh := c14Pairs(im["sent"]), c14Pairs(want["sent"])
		// both the server and the recorder sniff a Content-Type on an implicit WriteHeader when the
		// handler set none; compare the header only where the model knows it to be set
		if _, ok := wh["Content-Type"]; !ok {
			delete(ih, "Content-Type")
		}
		if server {
			delete(wh, "Content-Length")
		}
		if hx.Canon(ih) != hx.Canon(wh) {
			return fmt.Sprintf("headers received: impl %v, expected %v", ih, wh)
		}
		if !server && jbool(im, "flushed") != jbool(want, "flushed") {
			return fmt.Sprintf("flushed: impl %v, expected %v", im["flushed"], want["flushed"])
		}
	}
	return ""
}

func cmpC14(c hx.Case, impl any, reply map[string]any) hx.Verdict {
	im, _ := impl.(map[string]any)
	model, _ := reply["model"].(map[string]any)
	spec, _ := reply["spec"].(map[string]any)
	if im == nil || model == nil || spec == nil {
		return hx.Verdict{IM: false, IS: false, Detail: "missing observation"}
	}
	if _, p := im["panic"]; p {
		return hx.Verdict{IM: false, IS: false, Detail: "harness-level panic: " + fmt.Sprint(im["panic"])}
	}
	if jstr(im, "kind") == "setup-error" {
		return hx.Verdict{IM: false, IS: false, Detail: "setup: " + jstr(im, "error")}
	}
	v := hx.Verdict{IM: true, IS: true}
	if d := c14Diff(c, im, model, true, true); d != "" {
		v.IM = false
		v.Detail = "model: " + d
	}
	if jbool(spec, "applicable") {
		want := map[string]any{"ran": spec["ran"], "err": spec["err"], "status": spec["status"], "body": spec["body"], "panicked": spec["panicked"]}
		full := false
		if fm, ok := spec["full"].(map[string]any); ok {
			full = true
			for k, x := range fm {
				want[k] = x
			}
		}
		if d := c14Diff(c, im, want, full, false); d != "" {
			v.IS = false
			v.Detail = "property: " + d + " " + v.Detail
		}
	}
	return v
}

// ---- generation

func c14Op(kind string, a ...any) map[string]any {
	m := map[string]any{"op": kind}
	switch kind {
	case "set":
		m["k"], m["v"] = a[0], a[1]
	case "del":
		m["k"] = a[0]
	case "wh":
		m["n"] = a[0]
	case "w":
		m["b"] = a[0]
	}
	return m
}

func c14DocShape(includeStatus bool, entries ...string) map[string]any {
	rs := []any{}
	for i := 0; i+1 < len(entries); i += 2 {
		rs = append(rs, map[string]any{"key": entries[i], "kind": entries[i+1]})
	}
	return map[string]any{"responses": rs, "includeStatus": includeStatus}
}

var c14Docs = []map[string]any{
	c14DocShape(false, "200", "json"),
	c14DocShape(false, "200", "json", "404", "any"),
	c14DocShape(false, "default", "json"),
	c14DocShape(true, "200", "json"),
	c14DocShape(true, "200", "any", "404", "json"),
	c14DocShape(false, "200", "any", "default", "json"),
}

func c14Base() hx.Case {
	return hx.Case{"mode": "mw", "strict": true, "errfn": "default", "errops": []any{}, "logfn": "custom",
		"route": "ok", "req": "ok", "doc": c14Docs[0], "ops": []any{}, "transport": "recorder", "router": "gorilla"}
}

func c14With(c hx.Case, kv ...any) hx.Case {
	x := cloneCase(c)
	for i := 0; i+1 < len(kv); i += 2 {
		x[kv[i].(string)] = kv[i+1]
	}
	return x
}

func genC14(ctx *hx.Ctx, emit func(hx.Case)) {
	ct := c14Op("set", "Content-Type", "application/json")
	alphabet := []map[string]any{
		ct, c14Op("wh", 200), c14Op("wh", 404), c14Op("w", "12"), c14Op("w", "x"), c14Op("w", ""), c14Op("fl"), c14Op("set", "X-A", "1"), c14Op("wh", 0),
	}
	// all op sequences of length ≤ 3 (quick) / ≤ 4 (thorough)
	maxLen := 3
	if ctx.Thorough() {
		maxLen = 4
	}
	var seqs [][]any
	var rec func(prefix []any, n int)
	rec = func(prefix []any, n int) {
		seqs = append(seqs, append([]any{}, prefix...))
		if n == 0 {
			return
		}
		for _, a := range alphabet {
			rec(append(prefix, a), n-1)
		}
	}
	rec(nil, maxLen)
	base := c14Base()
	i := 0
	for _, ops := range seqs {
		for _, strict := range []bool{true, false} {
			for di, doc := range c14Docs {
				i++
				// every sequence runs on the recorder in both modes against every document; a rotating
				// third of them additionally behind the real server, and with the other callbacks
				c := c14With(base, "ops", ops, "strict", strict, "doc", doc)
				_ = di
				emit(c)
				switch i % 6 {
				case 0:
					emit(c14With(c, "transport", "server"))
				case 1:
					emit(c14With(c, "errfn", "echo", "router", "legacy"))
				case 2:
					emit(c14With(c, "errfn", "silent", "logfn", "default"))
				case 3:
					emit(c14With(c, "errfn", "ops", "errops", []any{c14Op("w", "oops"), c14Op("wh", 418)}, "transport", "server"))
				}
			}
		}
	}
	// route / request failures × callbacks × routers × transports
	someOps := [][]any{{}, {ct, c14Op("w", "12")}, {c14Op("wh", 404), c14Op("w", "x")}}
	for _, route := range []string{"ok", "nopath", "nomethod"} {
		for _, rq := range []string{"ok", "missing", "type"} {
			for _, errfn := range []string{"default", "echo", "silent", "ops"} {
				for _, router := range []string{"gorilla", "legacy"} {
					for _, tr := range []string{"recorder", "server"} {
						for _, strict := range []bool{true, false} {
							for oi, ops := range someOps {
								logfn := "custom"
								if oi == 2 {
									logfn = "default"
								}
								emit(c14With(base, "route", route, "req", rq, "errfn", errfn, "router", router, "transport", tr,
									"strict", strict, "ops", ops, "logfn", logfn, "doc", c14Docs[oi],
									"errops", []any{c14Op("set", "X-B", "e"), c14Op("wh", 418), c14Op("w", "teapot")}))
							}
						}
					}
				}
			}
		}
	}
	// ValidationHandler
	for _, route := range []string{"ok", "nopath", "nomethod"} {
		for _, rq := range []string{"ok", "missing", "type"} {
			for _, enc := range []string{"vee", "ops", "silent"} {
				for _, entry := range []string{"serve", "mw"} {
					for _, tr := range []string{"recorder", "server"} {
						for _, ops := range append(someOps, []any{c14Op("fl"), c14Op("wh", 404), ct, c14Op("w", "1"), c14Op("w", "2")}) {
							emit(c14With(base, "mode", "vh", "route", route, "req", rq, "enc", enc, "entry", entry, "transport", tr, "ops", ops,
								"errops", []any{c14Op("set", "X-B", "e"), c14Op("wh", 418), c14Op("w", "teapot")}))
						}
					}
				}
			}
		}
	}
	// seeded random stream
	n := 8000
	if ctx.Thorough() {
		n = 60000
	}
	r := ctx.Rng
	randOp := func() map[string]any {
		switch r.Intn(12) {
		case 0, 1:
			return c14Op("wh", hx.Pick(r, []int{200, 201, 404, 500, 200, 404, 0, 99, 1000, 299}))
		case 2, 3, 4:
			return c14Op("w", hx.Pick(r, []string{"1", "23", "456", "x", "", "7"}))
		case 5:
			return c14Op("fl")
		case 6, 7:
			return c14Op("set", "Content-Type", hx.Pick(r, []string{"application/json", "application/json; charset=utf-8", "text/plain"}))
		case 8:
			return c14Op("set", hx.Pick(r, []string{"X-A", "X-B"}), hx.Pick(r, []string{"1", "2"}))
		case 9:
			return c14Op("del", hx.Pick(r, []string{"X-A", "Content-Type"}))
		case 10:
			return c14Op("wh", hx.Pick(r, []int{200, 404}))
		default:
			return c14Op("w", hx.Pick(r, []string{"1", "9"}))
		}
	}
	randOps := func(max int) []any {
		out := []any{}
		for k := r.Intn(max + 1); k > 0; k-- {
			out = append(out, randOp())
		}
		return out
	}
	keys := []string{"200", "201", "404", "500", "default"}
	randDoc := func() map[string]any {
		rs := []any{}
		for _, k := range keys {
			if r.Chance(40) {
				rs = append(rs, map[string]any{"key": k, "kind": hx.Pick(r, []string{"json", "json", "any"})})
			}
		}
		if len(rs) == 0 {
			rs = append(rs, map[string]any{"key": "200", "kind": "json"})
		}
		return map[string]any{"responses": rs, "includeStatus": r.Chance(30)}
	}
	for k := 0; k < n; k++ {
		c := c14With(base, "ops", randOps(8), "strict", r.Bool(), "doc", randDoc(),
			"errfn", hx.Pick(r, []string{"default", "echo", "silent", "ops"}), "errops", randOps(3),
			"logfn", hx.Pick(r, []string{"custom", "custom", "default"}),
			"router", hx.Pick(r, []string{"gorilla", "legacy"}),
			"transport", hx.Pick(r, []string{"recorder", "recorder", "server"}))
		if r.Chance(12) {
			c["route"] = hx.Pick(r, []string{"nopath", "nomethod"})
		}
		if r.Chance(12) {
			c["req"] = hx.Pick(r, []string{"missing", "type"})
		}
		if r.Chance(10) {
			c["mode"] = "vh"
			c["enc"] = hx.Pick(r, []string{"vee", "ops", "silent"})
			c["entry"] = hx.Pick(r, []string{"serve", "mw"})
		}
		emit(c)
	}
}

func shrinkC14(c hx.Case) []hx.Case {
	var out []hx.Case
	for _, k := range []string{"ops", "errops"} {
		if l, ok := c[k].([]any); ok {
			for _, n := range dropEach(l) {
				x := cloneCase(c)
				x[k] = n
				out = append(out, x)
			}
		}
	}
	if d, ok := c["doc"].(map[string]any); ok {
		for _, n := range dropEach(jlist(d["responses"])) {
			if len(n) == 0 {
				continue
			}
			x := cloneCase(c)
			x["doc"] = map[string]any{"responses": n, "includeStatus": d["includeStatus"]}
			out = append(out, x)
		}
		if jbool(d, "includeStatus") {
			x := cloneCase(c)
			x["doc"] = map[string]any{"responses": d["responses"], "includeStatus": false}
			out = append(out, x)
		}
	}
	if jstr(c, "transport") == "server" {
		out = append(out, c14With(c, "transport", "recorder"))
	}
	if jstr(c, "router") == "legacy" {
		out = append(out, c14With(c, "router", "gorilla"))
	}
	if jstr(c, "errfn") != "default" && jstr(c, "mode") != "vh" {
		out = append(out, c14With(c, "errfn", "default"))
	}
	if jstr(c, "logfn") == "default" {
		out = append(out, c14With(c, "logfn", "custom"))
	}
	return out
}
