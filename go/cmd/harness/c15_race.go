//go:build race

package main

// raceEnabled: the harness was built with -race (checks.d/C15.json "race": true).
const raceEnabled = true
