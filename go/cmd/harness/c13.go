package main

// C13 — validation leaves the request readable; defaults are added exactly once.
// Real code exercised: openapi3filter.ValidateRequest, twice on the same *http.Request (security phase with
// authentication callbacks that may read the body, parameter defaults per location, request-body validation with
// default injection and re-encoding), on a document loaded from the case.

import (
	"bytes"
	"context"
	"encoding/json"
	"errors"
	"fmt"
	"io"
	"net/http"
	"net/url"
	"os"
	"sort"
	"strconv"
	"strings"

	"github.com/getkin/kin-openapi/openapi3"
	"github.com/getkin/kin-openapi/openapi3filter"
	"github.com/getkin/kin-openapi/routers"
	"github.com/oasdiff/yaml"

	"kinverif/internal/hx"
)

func init() {
	hx.Register(&hx.Prop{
		ID: "C13",
		Rule: "exhaustive blocks: (A) body stream × security: GetBody nil/ok/failing × ContentLength known/unknown × body none/empty/JSON × 9 requirement lists " +
			"(none, empty requirement, undeclared scheme, one/two schemes, alternatives) × all 16 (reads body, verdict) vectors of two callbacks × missing callback × skip-defaults × multi-error; " +
			"(B) one parameter: 3 locations × 5 schema types × 4 defaults × 6 presences × 3 explode settings × required × skip-defaults, plus pairs; " +
			"(C) body schemas from a grammar (objects with defaulted / nullable / readOnly / required properties, nested objects, arrays of objects, allOf/oneOf/anyOf over a branch pool) × a pool of bodies; " +
			"(D) 18 Content-Type headers (parameters, case, +json family, YAML, text/plain, unknown, empty) × 11 declared content sets (exact, with parameters, wildcards, several, none, schema-less, YAML) × 5 bodies; " +
			"(E) path-item parameters × 6 kinds of operation-level redeclaration × presence × ExcludeRequestQueryParams; (F) parameter schemas whose type and default sit inside allOf; (G) parameters described by content; " +
			"(H) a property present with the value null: 2 types × nullable × default × readOnly × required × 5 bodies × top level / nested / array item / anyOf, oneOf, allOf branch × options; " +
			"(I) urlencoded bodies: 4 flat object schemas (defaults, required, additionalProperties) × 7 field texts × 4 Content-Type spellings × options × GetBody kinds; " +
			"(J) how the body arrives: ContentLength = length / -1 / 0 with a body present × reader / io.Pipe × GetBody nil/ok/failing × body nil / http.NoBody / empty / JSON × security reading the body or not × required; " +
			"every block is additionally run with Content-Type parameters and with document-level security in turn; " +
			"then a seeded random stream combining random schemas (depth ≤ 3, structured defaults), schema-directed values, random path-item and operation parameters, media types and security. " +
			"A case is non-trivial when the model reports at least one non-default branch.",
		Exhaustive: true,
		Gen:        genC13,
		Run:        runC13,
		Compare:    cmpC13,
		Shrink:     shrinkC13,
		Workers:    8,
		Assumptions: []string{
			"the second validation uses a fresh RequestValidationInput (or, with reuseInput, the very same one) on the same *http.Request, after the 'next handler' has read the body and a reader over the same bytes has been put back",
			"numbers in bodies, defaults and parameters are integers; strings are short alphanumeric words (text↔number conversion, JSON encoding and cookie/query escaping are trusted)",
			"defaults are scalars or arrays of scalars (an object default is inserted by reference and would be mutated inside the shared document: that is C15's subject)",
			"ContentLength is compared only when the incoming value was known (≥ 0); a re-encoded body is compared as a JSON value, and whether it was re-encoded at all is compared too",
			"authentication callbacks either leave the body alone or read it to the end",
			"the property lists of object schemas are sorted by name (they are keys of a Go map, visited in sorted order); bodies are JSON objects whose keys the model sees sorted",
			"under a YAML media type only JSON texts are sent (the YAML decoder reads a JSON text as the same value: trusted); a re-encoded YAML body is compared as a value",
			"parameters described by content have scalar schemas and the single media type application/json",
			"urlencoded bodies carry only fields of the schema's own (primitive) properties, with values that parse for their type: the value the fields stand for is then the decoded object (the form decoder itself is C06's subject)",
		},
	})
}

// ---------------------------------------------------------------- helpers

func c13norm(c hx.Case) map[string]any {
	b, _ := json.Marshal(c)
	var out map[string]any
	dec := json.NewDecoder(bytes.NewReader(b))
	dec.UseNumber()
	_ = dec.Decode(&out)
	return out
}

func jmap(v any) map[string]any { m, _ := v.(map[string]any); return m }

func scalarText(v any) string {
	switch x := v.(type) {
	case json.Number:
		return x.String()
	case string:
		return x
	case bool:
		return strconv.FormatBool(x)
	case float64:
		return strconv.FormatFloat(x, 'f', -1, 64)
	case int:
		return strconv.Itoa(x)
	case nil:
		return ""
	}
	return fmt.Sprint(v)
}

// wireText: the raw text of a wire shape {"k":"empty|lit|csv|sprint","v":…}
func wireText(w any) string {
	m := jmap(w)
	switch jstr(m, "k") {
	case "lit":
		return scalarText(m["v"])
	case "csv":
		parts := []string{}
		for _, x := range jlist(m["v"]) {
			parts = append(parts, scalarText(x))
		}
		return strings.Join(parts, ",")
	case "sprint":
		parts := []string{}
		for _, x := range jlist(m["v"]) {
			parts = append(parts, scalarText(x))
		}
		return "[" + strings.Join(parts, " ") + "]"
	}
	return ""
}

func canonJSON(b []byte) (string, bool) {
	var v any
	dec := json.NewDecoder(bytes.NewReader(b))
	dec.UseNumber()
	if err := dec.Decode(&v); err != nil {
		return "", false
	}
	if _, err := dec.Token(); err != io.EOF {
		return "", false
	}
	out, _ := json.Marshal(v) // maps are written with sorted keys
	return string(out), true
}

// formCanon: the value a urlencoded text stands for, as canonical JSON (one value per field; digits are numbers,
// true/false booleans, anything else a string — the generator's string fields are alphabetic words)
func formCanon(b []byte) (string, bool) {
	vals, err := url.ParseQuery(string(b))
	if err != nil {
		return "", false
	}
	obj := map[string]any{}
	for k, vs := range vals {
		if len(vs) != 1 || vs[0] == "" {
			continue
		}
		t := vs[0]
		if n, err := strconv.ParseInt(t, 10, 64); err == nil {
			obj[k] = n
		} else if t == "true" || t == "false" {
			obj[k] = t == "true"
		} else {
			obj[k] = t
		}
	}
	out, _ := json.Marshal(obj)
	return string(out), true
}

// ---------------------------------------------------------------- building the document and the request

func c13ParamJSON(pm map[string]any) map[string]any {
	sch := map[string]any{}
	switch ty := jstr(pm, "ty"); {
	case ty == "untyped":
	case strings.HasPrefix(ty, "array:"):
		sch["type"] = "array"
		sch["items"] = map[string]any{"type": strings.TrimPrefix(ty, "array:")}
	default:
		sch["type"] = ty
	}
	if jbool(pm, "viaAllOf") {
		// the typed schema (with its own default, if any) is an allOf member; the outer schema only carries `default`
		inner := sch
		if d, ok := pm["allOfDflt"]; ok && d != nil {
			inner["default"] = d
		}
		sch = map[string]any{"allOf": []any{inner}}
	}
	if d, ok := pm["dflt"]; ok && d != nil {
		sch["default"] = d
	}
	p := map[string]any{"name": jstr(pm, "name"), "in": jstr(pm, "in"), "schema": sch}
	if jbool(pm, "content") {
		delete(p, "schema")
		p["content"] = map[string]any{"application/json": map[string]any{"schema": sch}}
	}
	if jbool(pm, "required") || jstr(pm, "in") == "path" {
		p["required"] = true
	}
	if jbool(pm, "allowEmpty") {
		p["allowEmptyValue"] = true
	}
	if e, ok := pm["explode"].(bool); ok && !jbool(pm, "content") {
		p["explode"] = e
	}
	return p
}

type c13Env struct {
	doc   *openapi3.T
	route *routers.Route
	path  map[string]string
}

func c13Build(c map[string]any) (*c13Env, error) {
	sec := jmap(c["sec"])
	bs := jmap(c["bodySpec"])
	op := map[string]any{"responses": map[string]any{"200": map[string]any{"description": "ok"}}}
	params := []any{}
	for _, p := range jlist(c["params"]) {
		params = append(params, c13ParamJSON(jmap(p)))
	}
	if len(params) > 0 {
		op["parameters"] = params
	}
	var secReqs []any
	if sec["reqs"] != nil {
		secReqs = []any{}
		for _, r := range jlist(sec["reqs"]) {
			m := map[string]any{}
			for _, n := range jlist(r) {
				m[n.(string)] = []any{}
			}
			secReqs = append(secReqs, m)
		}
		if !jbool(sec, "docLevel") {
			op["security"] = secReqs
		}
	}
	if jbool(bs, "present") {
		content := map[string]any{}
		if l, ok := bs["content"].([]any); ok {
			for _, e := range l {
				mt := map[string]any{}
				if sc := jmap(e)["schema"]; sc != nil {
					mt["schema"] = sc
				}
				content[jstr(jmap(e), "key")] = mt
			}
		} else {
			mt := map[string]any{}
			if bs["schema"] != nil {
				mt["schema"] = bs["schema"]
			}
			content["application/json"] = mt
		}
		op["requestBody"] = map[string]any{"required": jbool(bs, "required"), "content": content}
	}
	pathItem := map[string]any{"post": op}
	if pps := jlist(c["pathParams"]); len(pps) > 0 {
		l := []any{}
		for _, p := range pps {
			l = append(l, c13ParamJSON(jmap(p)))
		}
		pathItem["parameters"] = l
	}
	schemes := map[string]any{}
	for _, n := range jlist(sec["declared"]) {
		schemes[n.(string)] = map[string]any{"type": "http", "scheme": "basic"}
	}
	docj := map[string]any{
		"openapi": "3.0.0", "info": map[string]any{"title": "t", "version": "1"},
		"paths":      map[string]any{"/x/{id}": pathItem},
		"components": map[string]any{"securitySchemes": schemes},
	}
	if secReqs != nil && jbool(sec, "docLevel") {
		docj["security"] = secReqs
	}
	raw, err := json.Marshal(docj)
	if err != nil {
		return nil, err
	}
	loader := openapi3.NewLoader()
	doc, err := loader.LoadFromData(raw)
	if err != nil {
		return nil, err
	}
	pi := doc.Paths.Find("/x/{id}")
	return &c13Env{doc: doc, route: &routers.Route{Spec: doc, Path: "/x/{id}", PathItem: pi, Method: "POST", Operation: pi.Post},
		path: map[string]string{}}, nil
}

// a body that is neither nil nor http.NoBody, whatever its length, and that honours Close (like a spooled file or a
// network stream): reading it after Close fails
type c13Reader struct {
	r      *bytes.Reader
	closed bool
}

func (b *c13Reader) Read(p []byte) (int, error) {
	if b.closed {
		return 0, errors.New("http: read on closed body")
	}
	return b.r.Read(p)
}
func (b *c13Reader) Close() error { b.closed = true; return nil }

func c13Request(c map[string]any, env *c13Env) (*http.Request, []byte, bool) {
	q := url.Values{}
	hdr := http.Header{}
	cookies := []string{}
	for _, e := range jlist(c["store"]) {
		m := jmap(e)
		name := jstr(m, "name")
		for _, w := range jlist(m["raw"]) {
			t := wireText(w)
			switch jstr(m, "in") {
			case "query":
				q.Add(name, t)
			case "header":
				hdr[http.CanonicalHeaderKey(name)] = append(hdr[http.CanonicalHeaderKey(name)], t)
			case "cookie":
				cookies = append(cookies, name+"="+t)
			case "path":
				env.path[name] = t
			}
		}
	}
	if len(cookies) > 0 {
		hdr["Cookie"] = []string{strings.Join(cookies, "; ")}
	}
	u := &url.URL{Scheme: "http", Host: "example.com", Path: "/x/1", RawQuery: q.Encode()}
	req := &http.Request{Method: "POST", URL: u, Header: hdr, Host: "example.com", Proto: "HTTP/1.1", ProtoMajor: 1, ProtoMinor: 1}
	req = req.WithContext(context.Background())
	if ct := jstr(c, "ctype"); ct != "" {
		req.Header.Set("Content-Type", ct)
	}
	body, has := c["body"].(string)
	st := jmap(c["stream"])
	if !has {
		req.Body = http.NoBody
		if jstr(st, "kind") == "nil" {
			req.Body = nil // a client request built without a body
		}
		return req, nil, false
	}
	data := []byte(body)
	req.Body = &c13Reader{r: bytes.NewReader(data)}
	if jstr(st, "kind") == "pipe" {
		// a streamed body: net/http knows neither its length nor how to rewind it
		pr, pw := io.Pipe()
		go func() { _, _ = pw.Write(data); _ = pw.Close() }()
		req.Body = pr
	}
	switch jstr(st, "getBody") {
	case "ok":
		req.GetBody = func() (io.ReadCloser, error) { return &c13Reader{r: bytes.NewReader(data)}, nil }
	case "fails":
		req.GetBody = func() (io.ReadCloser, error) { return nil, errors.New("cannot rewind") }
	}
	switch jstr(st, "cl") {
	case "unknown":
		req.ContentLength = -1
	case "zero":
		req.ContentLength = 0 // what http.NewRequest leaves for a reader it does not recognise: "unknown" for a client request
	default:
		req.ContentLength = int64(len(data))
	}
	return req, data, true
}

func c13Store(req *http.Request, path map[string]string) map[string]any {
	out := map[string]any{}
	for k, v := range path {
		out["path:"+k] = []any{v}
	}
	for k, vs := range req.URL.Query() {
		l := []any{}
		for _, v := range vs {
			l = append(l, v)
		}
		if len(l) > 0 {
			out["query:"+k] = l
		}
	}
	for k, vs := range req.Header {
		if k == "Content-Type" || k == "Cookie" {
			continue
		}
		l := []any{}
		for _, v := range vs {
			l = append(l, v)
		}
		if len(l) > 0 {
			out["header:"+k] = l
		}
	}
	for _, ck := range req.Cookies() {
		l, _ := out["cookie:"+ck.Name].([]any)
		out["cookie:"+ck.Name] = append(l, ck.Value)
	}
	return out
}

func runC13(c0 hx.Case) any {
	c := c13norm(c0)
	env, err := c13Build(c)
	if err != nil {
		return map[string]any{"buildError": err.Error()}
	}
	req, orig, hasBody := c13Request(c, env)
	opts := jmap(c["opts"])
	sec := jmap(c["sec"])
	auth := jmap(sec["auth"])
	current := orig // what a callback is entitled to read in the running pass
	seenFull := true
	o := &openapi3filter.Options{
		SkipSettingDefaults:        jbool(opts, "skip"),
		MultiError:                 jbool(opts, "multi"),
		ExcludeRequestBody:         jbool(opts, "excludeBody"),
		ExcludeReadOnlyValidations: jbool(opts, "roDisabled"),
		ExcludeRequestQueryParams:  jbool(opts, "excludeQuery"),
	}
	if jbool(sec, "hasFunc") {
		o.AuthenticationFunc = func(ctx context.Context, ai *openapi3filter.AuthenticationInput) error {
			a := jmap(auth[ai.SecuritySchemeName])
			if jbool(a, "reads") {
				r := ai.RequestValidationInput.Request
				if r.Body != nil && r.Body != http.NoBody {
					b, rerr := io.ReadAll(r.Body)
					if rerr != nil || !bytes.Equal(b, current) {
						seenFull = false
					}
				}
			}
			if jbool(a, "ok") {
				return nil
			}
			return errors.New("denied")
		}
	}
	rawQuery0 := req.URL.RawQuery
	hdr0 := req.Header.Clone()
	clKnown := jstr(jmap(c["stream"]), "cl") != "unknown" && jstr(jmap(c["stream"]), "cl") != "zero"
	isForm := strings.HasPrefix(jstr(c, "ctype"), "application/x-www-form-urlencoded")
	reuse := jbool(c, "reuseInput")
	var shared *openapi3filter.RequestValidationInput
	pass := func() map[string]any {
		seenFull = true
		in := &openapi3filter.RequestValidationInput{Request: req, PathParams: env.path, Route: env.route, Options: o}
		if reuse {
			if shared == nil {
				shared = in
			}
			in = shared
		}
		err := openapi3filter.ValidateRequest(context.Background(), in)
		obs := map[string]any{"ok": err == nil, "json": nil, "clIsLen": nil, "getBodyOK": true, "seenFull": seenFull}
		if err != nil {
			e := err.Error()
			if len(e) > 160 {
				e = e[:160]
			}
			obs["err"] = e
		}
		if req.Body == nil || req.Body == http.NoBody {
			obs["body"] = "none"
			current = nil
		} else {
			b, rerr := io.ReadAll(req.Body)
			switch {
			case rerr != nil:
				obs["body"] = "readError:" + rerr.Error()
			case hasBody && bytes.Equal(b, orig):
				obs["body"] = "orig"
			case len(b) == 0:
				obs["body"] = "consumed"
			default:
				obs["body"] = "new"
				if cj, ok := formCanon(b); ok && isForm {
					obs["json"] = cj
				} else if cj, ok := canonJSON(b); ok {
					obs["json"] = cj
				} else if jb, yerr := yaml.YAMLToJSON(b); yerr == nil && strings.Contains(jstr(c, "ctype"), "yaml") {
					cj, _ := canonJSON(jb) // a YAML body that was re-encoded as YAML: compared as a value
					obs["json"] = cj
				} else {
					obs["json"] = "not-json:" + string(b)
				}
			}
			if clKnown {
				obs["clIsLen"] = req.ContentLength == int64(len(b))
			}
			if req.GetBody != nil {
				if rc, gerr := req.GetBody(); gerr == nil && rc != nil {
					gb, _ := io.ReadAll(rc)
					obs["getBodyOK"] = bytes.Equal(gb, b)
				}
			}
			// the next handler has read the body; the same bytes are put back for whoever comes next
			req.Body = &c13Reader{r: bytes.NewReader(b)}
			current = b
		}
		obs["store"] = c13Store(req, env.path)
		obs["rawQuerySame"] = req.URL.RawQuery == rawQuery0
		same := len(req.Header) == len(hdr0)
		for k, v := range hdr0 {
			if strings.Join(req.Header[k], "\x00") != strings.Join(v, "\x00") {
				same = false
			}
		}
		obs["headersSame"] = same
		return obs
	}
	p1 := pass()
	p2 := pass()
	return map[string]any{"pass1": p1, "pass2": p2}
}

// ---------------------------------------------------------------- comparison

// model/spec stores are maps key → list of wire shapes; the observation has texts
func c13StoreTexts(v any, wires bool) map[string][]string {
	out := map[string][]string{}
	for k, l := range jmap(v) {
		ts := []string{}
		for _, w := range jlist(l) {
			if wires {
				ts = append(ts, wireText(w))
			} else {
				s, _ := w.(string)
				ts = append(ts, s)
			}
		}
		if len(ts) > 0 {
			out[k] = ts
		}
	}
	return out
}

func c13StoreEq(a, b map[string][]string) bool {
	if len(a) != len(b) {
		return false
	}
	for k, va := range a {
		vb, ok := b[k]
		if !ok || len(va) != len(vb) {
			return false
		}
		for i := range va {
			if va[i] != vb[i] {
				return false
			}
		}
	}
	return true
}

func c13StoreStr(m map[string][]string) string {
	ks := []string{}
	for k := range m {
		ks = append(ks, k)
	}
	sort.Strings(ks)
	parts := []string{}
	for _, k := range ks {
		parts = append(parts, k+"="+strings.Join(m[k], "|"))
	}
	return "{" + strings.Join(parts, " ") + "}"
}

// canonical JSON text of a model value (it travels as a JSON value inside the reply)
func c13ValText(v any) string {
	b, _ := json.Marshal(v)
	return string(b)
}

func cmpC13(c0 hx.Case, impl any, reply map[string]any) hx.Verdict {
	c := c13norm(c0)
	im := jmap(impl)
	model := jmap(reply["model"])
	spec := jmap(reply["spec"])
	if im == nil || model == nil || spec == nil {
		return hx.Verdict{IM: false, IS: im != nil && im["panic"] == nil, Detail: "missing observation"}
	}
	if _, p := im["panic"]; p {
		return hx.Verdict{IM: false, IS: false, Detail: "implementation panicked: " + fmt.Sprint(im["panic"])}
	}
	if e, bad := im["buildError"]; bad {
		return hx.Verdict{IM: true, IS: true, Detail: "case does not load: " + fmt.Sprint(e)}
	}
	v := hx.Verdict{IM: true, IS: true}
	skip := jbool(jmap(c["opts"]), "skip")
	origText, hasBody := c["body"].(string)
	origCanon, origIsJSON := "", false
	if hasBody {
		origCanon, origIsJSON = canonJSON([]byte(origText))
		if strings.HasPrefix(jstr(c, "ctype"), "application/x-www-form-urlencoded") {
			origCanon, origIsJSON = formCanon([]byte(origText)) // the value the fields stand for
		}
	}
	// the JSON value the observation's body stands for ("" when it is not JSON / there is none)
	bodyVal := func(o map[string]any) string {
		switch jstr(o, "body") {
		case "orig":
			if origIsJSON {
				return origCanon
			}
		case "new":
			s, _ := o["json"].(string)
			return s
		}
		return ""
	}
	modelVal := func(o map[string]any) string {
		switch jstr(o, "body") {
		case "orig":
			if origIsJSON {
				return origCanon
			}
		case "new":
			return c13ValText(o["json"])
		}
		return ""
	}
	var imDiff, isDiff []string
	for _, pn := range []string{"pass1", "pass2"} {
		io_, mo := jmap(im[pn]), jmap(model[pn])
		if jbool(io_, "ok") != jbool(mo, "ok") {
			imDiff = append(imDiff, fmt.Sprintf("%s verdict: impl %v (%v) model %v", pn, jbool(io_, "ok"), io_["err"], jbool(mo, "ok")))
		}
		ib, mb := jstr(io_, "body"), jstr(mo, "body")
		if ib != mb {
			imDiff = append(imDiff, fmt.Sprintf("%s body: impl %s %v model %s", pn, ib, io_["json"], mb))
		} else if ib == "new" && bodyVal(io_) != modelVal(mo) {
			imDiff = append(imDiff, fmt.Sprintf("%s forwarded body: impl %s model %s", pn, bodyVal(io_), modelVal(mo)))
		}
		if io_["clIsLen"] != nil && mo["clIsLen"] != nil && jbool(io_, "clIsLen") != jbool(mo, "clIsLen") {
			imDiff = append(imDiff, fmt.Sprintf("%s ContentLength==len(body): impl %v model %v", pn, io_["clIsLen"], mo["clIsLen"]))
		}
		if jbool(io_, "getBodyOK") != jbool(mo, "getBodyOK") {
			imDiff = append(imDiff, fmt.Sprintf("%s GetBody agrees with Body: impl %v model %v", pn, io_["getBodyOK"], mo["getBodyOK"]))
		}
		if jbool(io_, "seenFull") != jbool(mo, "seenFull") {
			imDiff = append(imDiff, fmt.Sprintf("%s callbacks saw the whole body: impl %v model %v", pn, io_["seenFull"], mo["seenFull"]))
		}
		is, ms := c13StoreTexts(io_["store"], false), c13StoreTexts(mo["store"], true)
		if !c13StoreEq(is, ms) {
			imDiff = append(imDiff, fmt.Sprintf("%s parameters: impl %s model %s", pn, c13StoreStr(is), c13StoreStr(ms)))
		}
	}
	// ---- the property on this input (implementation vs spec)
	p1, p2 := jmap(im["pass1"]), jmap(im["pass2"])
	for _, pn := range []string{"pass1", "pass2"} {
		o := jmap(im[pn])
		// readable in full, whatever the verdict
		switch b := jstr(o, "body"); {
		case b == "consumed" || strings.HasPrefix(b, "readError"):
			isDiff = append(isDiff, pn+": the body cannot be read any more ("+b+")")
		case b == "none" && hasBody:
			isDiff = append(isDiff, pn+": the body is gone")
		}
		if o["clIsLen"] != nil && !jbool(o, "clIsLen") {
			isDiff = append(isDiff, pn+": ContentLength is not the length of the body")
		}
		if !jbool(o, "getBodyOK") {
			isDiff = append(isDiff, pn+": GetBody yields something else than Body")
		}
		if !jbool(o, "seenFull") {
			isDiff = append(isDiff, pn+": an authentication callback could not read the whole body")
		}
		if skip {
			if b := jstr(o, "body"); hasBody && b != "orig" {
				isDiff = append(isDiff, pn+": defaults skipped but the body is not byte-identical ("+b+")")
			}
			if !jbool(o, "rawQuerySame") || !jbool(o, "headersSame") {
				isDiff = append(isDiff, pn+": defaults skipped but query/headers changed")
			}
		}
	}
	if !skip {
		ok1 := jbool(p1, "ok")
		if ok1 {
			if jbool(spec, "bodyActive") && origIsJSON {
				switch jstr(spec, "bodyExpected") {
				case "value":
					if want := c13ValText(spec["body"]); bodyVal(p1) != want {
						isDiff = append(isDiff, fmt.Sprintf("forwarded body %s, expected (defaults for absent properties only) %s", bodyVal(p1), want))
					} else if want == origCanon && jstr(p1, "body") == "new" {
						isDiff = append(isDiff, "no default applies, yet the body was re-encoded: the forwarded bytes are not the ones received")
					}
				case "reject":
					isDiff = append(isDiff, "accepted, but the body does not validate when only ABSENT properties receive defaults; forwarded "+bodyVal(p1))
				}
			}
			is, ss := c13StoreTexts(p1["store"], false), c13StoreTexts(spec["store"], true)
			if !c13StoreEq(is, ss) {
				isDiff = append(isDiff, fmt.Sprintf("forwarded parameters %s, expected (defaults for absent parameters only) %s", c13StoreStr(is), c13StoreStr(ss)))
			}
			if !jbool(p2, "ok") {
				isDiff = append(isDiff, fmt.Sprintf("the forwarded request does not validate again: %v", p2["err"]))
			}
			if bodyVal(p2) != bodyVal(p1) || jstr(p2, "body") == "consumed" {
				isDiff = append(isDiff, fmt.Sprintf("a second validation changed the body: %s → %s", bodyVal(p1), bodyVal(p2)))
			}
			s1, s2 := c13StoreTexts(p1["store"], false), c13StoreTexts(p2["store"], false)
			if !c13StoreEq(s1, s2) {
				isDiff = append(isDiff, fmt.Sprintf("a second validation changed the parameters: %s → %s", c13StoreStr(s1), c13StoreStr(s2)))
			}
		} else if jbool(spec, "mustAccept") {
			isDiff = append(isDiff, fmt.Sprintf("a request that is valid (security, parameters, body against its schema) is rejected instead of being forwarded with its defaults: %v", p1["err"]))
		} else if hasBody && origIsJSON {
			// rejected: the body is the original one, or (multi-error mode: the body part passed) the defaulted one
			if bv := bodyVal(p1); bv != origCanon && !(jstr(spec, "bodyExpected") == "value" && bv == c13ValText(spec["body"])) {
				isDiff = append(isDiff, "rejected request carries a body that is neither the original nor the defaulted one: "+bv)
			}
		}
	}
	if len(imDiff) > 0 {
		v.IM = false
		v.Detail = "impl≠model: " + strings.Join(imDiff, "; ")
		if f := os.Getenv("C13_DEBUG"); f != "" { // development aid: every model/implementation disagreement, also inside known classes
			if fh, err := os.OpenFile(f, os.O_APPEND|os.O_CREATE|os.O_WRONLY, 0o644); err == nil {
				b, _ := json.Marshal(map[string]any{"case": c, "detail": v.Detail, "excl": reply["excl"]})
				fh.Write(append(b, '\n'))
				fh.Close()
			}
		}
	}
	if len(isDiff) > 0 {
		v.IS = false
		if v.Detail != "" {
			v.Detail += " || "
		}
		v.Detail += "property: " + strings.Join(isDiff, "; ")
	}
	return v
}
