package main

// C11 — two further case families.
//
// (1) "rd" cases: the library's OWN readers (openapi3.ReadFromURIs(openapi3.ReadFromHTTP(client), openapi3.ReadFromFile),
//     i.e. DefaultReadFromURI below its cache, and DefaultReadFromURI itself where it cannot reach the network) on a
//     grid of locations scheme × host × path. The medium touched (local file at which path / HTTP round trip to which
//     URL / nothing) is compared with the model (KinModel/ReadsMedium.lean) and with the spec Faithful.
//     The files live in a scratch directory (os.MkdirTemp, removed); paths in the case are relative to it.
//
// (2) root locations whose directory or file name holds characters that are special in URL syntax ('#', '?', a
//     literal %XX): a file PATH is not a URL reference, the location read must be the path as given.

import (
	"errors"
	"fmt"
	"io"
	"net/http"
	"net/url"
	"os"
	"path/filepath"
	"strings"

	"github.com/getkin/kin-openapi/openapi3"

	"kinverif/internal/hx"
)

func c11IsReader(c hx.Case) bool {
	_, ok := c["rd"].(map[string]any)
	return ok
}

type c11RecTransport struct{ seen []string }

func (t *c11RecTransport) RoundTrip(req *http.Request) (*http.Response, error) {
	t.seen = append(t.seen, req.URL.Scheme+"|"+req.URL.Host+"|"+req.URL.Path)
	return &http.Response{StatusCode: 200, Body: io.NopCloser(strings.NewReader("remote")), Header: http.Header{}, Request: req}, nil
}

// c11ReaderObserve: which medium did the reader touch for the location {s,h,dir+p}? Files "x.json" and "sub/y.json"
// exist below dir with their own relative path as content.
func c11ReaderObserve(reader openapi3.ReadFromURIFunc, tr *c11RecTransport, dir string, s, h, p string) string {
	full := p
	if p != "" {
		full = filepath.ToSlash(dir) + p
	}
	tr.seen = nil
	buf, err := reader(nil, &url.URL{Scheme: s, Host: h, Path: full})
	if len(tr.seen) > 0 {
		k := tr.seen[0]
		return "http:" + strings.Replace(k, filepath.ToSlash(dir), "", 1)
	}
	if err == openapi3.ErrURINotSupported {
		return "unsupported"
	}
	if err == nil {
		return "file:" + string(buf)
	}
	var pe *os.PathError
	if errors.As(err, &pe) {
		return "file:" + strings.Replace(filepath.ToSlash(pe.Path), filepath.ToSlash(dir), "", 1)
	}
	return "error:" + err.Error()
}

func runC11Reader(c hx.Case) any {
	rd, _ := c["rd"].(map[string]any)
	s, h, p := jstr(rd, "s"), jstr(rd, "h"), jstr(rd, "p")
	dir, err := os.MkdirTemp("", "c11rd")
	if err != nil {
		return map[string]any{"medium": "error:" + err.Error()}
	}
	defer os.RemoveAll(dir)
	os.MkdirAll(filepath.Join(dir, "sub"), 0o755)
	os.WriteFile(filepath.Join(dir, "x.json"), []byte("/x.json"), 0o644)
	os.WriteFile(filepath.Join(dir, "sub", "y.json"), []byte("/sub/y.json"), 0o644)
	tr := &c11RecTransport{}
	cl := &http.Client{Transport: tr}
	out := map[string]any{}
	out["medium"] = c11ReaderObserve(openapi3.ReadFromURIs(openapi3.ReadFromHTTP(cl), openapi3.ReadFromFile), tr, dir, s, h, p)
	out["fileFirst"] = c11ReaderObserve(openapi3.ReadFromURIs(openapi3.ReadFromFile, openapi3.ReadFromHTTP(cl)), tr, dir, s, h, p)
	out["fileOnly"] = c11ReaderObserve(openapi3.ReadFromFile, tr, dir, s, h, p)
	if s == "" || h == "" {
		// ReadFromHTTP declines before any network access: the real default reader (with its cache) can be called
		out["default"] = c11ReaderObserve(openapi3.DefaultReadFromURI, tr, dir, s, h, p)
	}
	return out
}

func cmpC11Reader(c hx.Case, im map[string]any, model map[string]any, spec map[string]any) hx.Verdict {
	v := hx.Verdict{IM: true, IS: true}
	rd, _ := c["rd"].(map[string]any)
	s, h, p := jstr(rd, "s"), jstr(rd, "h"), jstr(rd, "p")
	faithful := func(m string) bool {
		switch {
		case m == "unsupported":
			return true
		case strings.HasPrefix(m, "file:"):
			return jbool(spec, "fileOK") && m == "file:"+p
		case strings.HasPrefix(m, "http:"):
			return jbool(spec, "httpOK") && m == "http:"+s+"|"+h+"|"+p
		}
		return false
	}
	for _, k := range []string{"medium", "fileFirst", "fileOnly", "default"} {
		obs, ok := im[k].(string)
		if !ok {
			continue
		}
		mk := k
		if k == "default" {
			mk = "medium"
		}
		if obs != jstr(model, mk) {
			v.IM = false
			v.Detail = fmt.Sprintf("reader %s on location {scheme %q host %q path %q}: impl %s vs model %s", k, s, h, p, obs, jstr(model, mk))
		}
		if !faithful(obs) {
			v.IS = false
			v.Detail = fmt.Sprintf("reader %s handed the location {scheme %q host %q path %q} touched %s, which is not that location", k, s, h, p, obs)
		}
	}
	return v
}

func c11GenReaders(ctx *hx.Ctx, emit func(hx.Case)) {
	for _, s := range []string{"", "file", "http", "https", "ftp"} {
		for _, h := range []string{"", "h.example", "localhost"} {
			for _, p := range []string{"", "/x.json", "/sub/y.json", "/missing.json"} {
				emit(hx.Case{"rd": map[string]any{"s": s, "h": h, "p": p}})
			}
		}
	}
}

// c11GenRootNames: roots whose directory / file name contains '#', '?' or a literal percent-escape (the texts below are
// URL-escaped: the harness' url.Parse yields the decoded path that the entry point is given), every entry point, both
// switch settings, a whole-file reference beside the root, one in a sibling directory and a fragment reference.
func c11GenRootNames(ctx *hx.Ctx, emit func(hx.Case)) {
	type rn struct{ dir, name string }
	for _, r := range []rn{{"/r/a%23v2/", "root.json"}, {"/r/q%3Fx/", "root.json"}, {"/r/p%2541/", "root.json"}, {"/r/a/", "ro%23ot.json"}, {"/r/a/", "r%3Fo.json"},
		{"/r/a/", "r%2542.json"}, {"http://h.example/r/a%23v2/", "root.json"}} {
		for ri, ref := range []string{"s.json", "../b/s.json", "d.json#/components/schemas/A"} {
			for _, entry := range []string{"file", "dataWithPath", "data"} {
				for _, allowed := range []bool{false, true} {
					rootLoc := r.dir + r.name
					files := []any{c11Doc(rootLoc, kid(c11NewEl("schema", ref), "components", "schemas", "S"))}
					switch ri {
					case 0:
						files = append(files, c11SimpleElemFile(r.dir+"s.json", "schema", true))
					case 1:
						files = append(files, c11SimpleElemFile(c11Resolve(rootLoc, "../b/s.json"), "schema", true))
					default:
						files = append(files, c11SimpleDoc(r.dir+"d.json", "schema"), c11SimpleElemFile(r.dir+"s.json", "schema", false))
					}
					g := map[string]any{"allowed": allowed, "entry": entry, "root": rootLoc, "rootInStore": true, "files": c11DedupFiles(files)}
					emit(c11Derive(hx.Case{"g": g}))
				}
			}
		}
	}
}
