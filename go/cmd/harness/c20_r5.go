package main

// C20, round 5: two more input dimensions of the differential run.
//
//  1. typed values below a schema (c20TypedValueCases): every spelling of `type` (absent, a string, an
//     empty / one-element / several-element list) × `format` × the member that carries a value (example,
//     default, enum member of the schema; example of the parameter / media type that uses it) × every JSON
//     kind of value. Reaches the typed decoding of Schema (the format-specific rewriting of the example), the
//     value validator behind Validate (visitJSON → expectedType: the wording of a type error) and the
//     serialisers.
//  2. history (c20HistoryCases): a sequence of loads in one process through the library's own reader
//     (Loader.ReadFromURIFunc == nil: DefaultReadFromURI = URIMapCache(ReadFromURIs(http, file)), a
//     process-wide cache behind a process-wide lock) on real files below a scratch directory given by
//     absolute path: the same file twice (cache hit) and then another one (cache miss), on one loader or a
//     fresh one per load, LoadFromFile / LoadFromURI, with whole-file references that are read again on every
//     use inside one load. State kept between calls is the behaviour class; every step must return.

import (
	"context"
	"encoding/json"
	"fmt"
	"net/url"
	"os"
	"path/filepath"
	"strings"
	"time"

	"github.com/getkin/kin-openapi/openapi3"

	"kinverif/internal/hx"
)

// c20WatchdogMs bounds a history case inside the child (a blocked lock never returns; the parent's 20 s + 60 s
// would make every such case cost 80 s). The child reports on stderr and exits; the parent maps that to the
// observation "hang". A sequence of at most five loads of documents of a few hundred bytes takes milliseconds.
const c20WatchdogMs = 12000

const c20WatchdogMark = "c20 watchdog: no return within"

func c20TypedValueCases(ctx *hx.Ctx, emit func(hx.Case)) {
	types := []any{nil, "string", "array", "object", "integer", []any{}, []any{"string"}, []any{"string", "null"}, []any{"array", "object"}}
	formats := []any{nil, "date", "date-time", "byte", "x"}
	carriers := []string{"example", "default", "enum", "param.example", "media.example"}
	values := []any{true, json.Number("0"), json.Number("1.5"), "", "2020-01-01", "2020-01-01T00:00:00Z", []any{}, []any{"2020-01-01"}, map[string]any{}, map[string]any{"a": json.Number("1")}}
	n := 0
	for _, t := range types {
		for _, f := range formats {
			for _, cr := range carriers {
				for _, v := range values {
					n++
					if !ctx.Thorough() && n%3 != int(ctx.Seed%3) {
						continue // quick tier: a third of the block, chosen by the seed
					}
					s := map[string]any{}
					if t != nil {
						s["type"] = t
					}
					if f != nil {
						s["format"] = f
					}
					var doc any
					switch cr {
					case "example", "default":
						s[cr] = v
						doc = map[string]any{"components": map[string]any{"schemas": map[string]any{"T": s}}}
					case "enum":
						s[cr] = []any{v}
						doc = map[string]any{"components": map[string]any{"schemas": map[string]any{"T": s}}}
					case "param.example":
						doc = map[string]any{"components": map[string]any{"parameters": map[string]any{"P": map[string]any{"name": "p", "in": "query", "schema": s, "example": v}}}}
					case "media.example":
						doc = map[string]any{"components": map[string]any{"requestBodies": map[string]any{"B": map[string]any{"content": map[string]any{"application/json": map[string]any{"schema": s, "example": v}}}}}}
					}
					m := doc.(map[string]any)
					m["openapi"], m["info"], m["paths"] = "3.0.0", map[string]any{"title": "t", "version": "1"}, map[string]any{}
					enc := "json"
					if n%4 == 0 {
						enc = "yaml"
					}
					emit(hx.Case{"doc": doc, "enc": enc, "entry": []string{"data", "path", "file"}[n%3], "ext": n%5 == 0})
				}
			}
		}
	}
}

func c20HistoryCases(emit func(hx.Case)) {
	files := map[string]any{
		"lib.json":     c20Parse(`{"openapi":"3.0.0","info":{"title":"l","version":"1"},"paths":{},"components":{"schemas":{"Y":{"type":"string"}}}}`),
		"lib2.json":    c20Parse(`{"openapi":"3.0.0","info":{"title":"m","version":"1"},"paths":{},"components":{"schemas":{"Z":{"$ref":"lib.json#/components/schemas/Y"}}}}`),
		"schema1.json": c20Parse(`{"type":"object","properties":{"y":{"type":"string"}}}`),
		"schema2.json": c20Parse(`{"type":"integer"}`),
		"param1.json":  c20Parse(`{"name":"x","in":"query","schema":{"$ref":"schema1.json"}}`),
	}
	roots := []string{
		// no reference at all
		`{"openapi":"3.0.0","info":{"title":"t","version":"1"},"paths":{}}`,
		// one whole-file reference used twice (read again on every use), then another file
		`{"openapi":"3.0.0","info":{"title":"t","version":"1"},"paths":{},"components":{"schemas":{"A":{"$ref":"schema1.json"},"B":{"$ref":"schema1.json"},"C":{"$ref":"schema2.json"}}}}`,
		// fragment references into one other document (read once per load), a whole-file parameter that uses a whole-file schema
		`{"openapi":"3.0.0","info":{"title":"t","version":"1"},"paths":{"/a":{"parameters":[{"$ref":"param1.json"},{"$ref":"param1.json"}],"get":{"responses":{"200":{"description":"ok","content":{"a/b":{"schema":{"$ref":"lib.json#/components/schemas/Y"}}}}}}}},"components":{"schemas":{"A":{"$ref":"lib2.json#/components/schemas/Z"}}}}`,
	}
	seqs := [][]string{
		{"root.json"},
		{"root.json", "root.json"},
		{"root.json", "root.json", "lib.json"},
		{"root.json", "lib.json", "root.json", "lib2.json"},
		{"root.json", "lib2.json", "lib2.json", "root.json", "lib.json"},
	}
	n := 0
	for ri, root := range roots {
		for _, seq := range seqs {
			for _, via := range []string{"file", "uri"} {
				for _, same := range []bool{false, true} {
					ext := ri > 0 || n%2 == 0
					sq := make([]any, len(seq))
					for i, s := range seq {
						sq[i] = s
					}
					emit(hx.Case{"doc": c20Parse(root), "enc": "json", "entry": "file", "ext": ext, "files": files,
						"reader": "default", "via": via, "same_loader": same, "seq": sq})
					n++
				}
			}
		}
	}
}

// c20RunHistory: the load stage(s) of a history case. Returns the document of the first load (the one the
// model is evaluated on); the later loads are stages "reload<i>".
func c20RunHistory(c hx.Case, o *c20Obs, data []byte, others map[string][]byte) (doc *openapi3.T, ok bool, cleanup func()) {
	dir, err := os.MkdirTemp("", "c20h-")
	cleanup = func() {}
	if err != nil {
		o.stages["load"] = "err"
		return nil, false, cleanup
	}
	cleanup = func() { os.RemoveAll(dir) }
	if abs, err := filepath.Abs(dir); err == nil {
		dir = abs
	}
	os.WriteFile(filepath.Join(dir, "root.json"), data, 0o600)
	for k, b := range others {
		os.WriteFile(filepath.Join(dir, filepath.Base(k)), b, 0o600)
	}
	mk := func() *openapi3.Loader {
		l := openapi3.NewLoader()
		l.IsExternalRefsAllowed = jbool(c, "ext")
		return l // ReadFromURIFunc stays nil: DefaultReadFromURI
	}
	loader := mk()
	seq := toStrs(c["seq"])
	if len(seq) == 0 {
		seq = []string{"root.json"}
	}
	for i, name := range seq {
		stage := "load"
		if i > 0 {
			stage = fmt.Sprintf("reload%d", i)
			if !jbool(c, "same_loader") {
				loader = mk()
			}
		}
		p := filepath.Join(dir, filepath.Base(name))
		var d *openapi3.T
		r := o.stage(stage, func() (err error) {
			if jstr(c, "via") == "uri" {
				d, err = loader.LoadFromURI(&url.URL{Scheme: "file", Path: filepath.ToSlash(p)})
			} else {
				d, err = loader.LoadFromFile(p)
			}
			return
		})
		if i == 0 {
			doc, ok = d, r
		} else if r && d != nil {
			// a document that came (partly) out of the cache is used like any other
			o.stage(stage+".validate", func() error { return d.Validate(context.Background()) })
			o.stage(stage+".marshal", func() error { _, err := json.Marshal(d); return err })
		}
	}
	return doc, ok, cleanup
}

// c20Watchdog ends the child when a history case does not return (see c20WatchdogMs).
func c20Watchdog() (stop func()) {
	t := time.AfterFunc(c20WatchdogMs*time.Millisecond, func() {
		fmt.Fprintf(os.Stderr, "%s %d ms (a load through the default reader blocked)\n", c20WatchdogMark, c20WatchdogMs)
		os.Exit(3)
	})
	return func() { t.Stop() }
}

func c20IsWatchdog(m map[string]any) bool {
	return strings.Contains(fmt.Sprint(m["crash"]), c20WatchdogMark)
}

// c20ShrinkHistory: a history case shrinks along its sequence (drop one step, never the first), then to one
// loader / LoadFromFile, then by dropping files; the documents are minimal already.
func c20ShrinkHistory(c hx.Case) []hx.Case {
	var out []hx.Case
	seq, _ := c["seq"].([]any)
	for i := 1; i < len(seq); i++ {
		x := cloneCase(c)
		x["seq"] = append(append([]any{}, seq[:i]...), seq[i+1:]...)
		out = append(out, x)
	}
	if jstr(c, "via") != "file" {
		x := cloneCase(c)
		x["via"] = "file"
		out = append(out, x)
	}
	if jbool(c, "same_loader") {
		x := cloneCase(c)
		x["same_loader"] = false
		out = append(out, x)
	}
	return out
}
