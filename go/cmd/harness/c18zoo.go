package main

// C18 — the declared Go types the generator is exercised on (reflect cannot create named types at run time).
// No name ends in "Ref" (openapi3gen treats `…Ref` structs with Ref/Value fields specially; not modelled).

import (
	"reflect"
	"time"
)

// ---- defined (named) non-struct types over every basic kind the property lists
type ZOctet uint8
type ZStr string
type ZI16 int16
type ZU64 uint64
type ZF32 float32
type ZFlag bool
type ZNames []string
type ZDigest []byte
type ZOctets []ZOctet
type ZGrid [][]ZOctet
type ZDict map[string]int8
type ZStrMap map[ZStr]ZI16
type ZNodes []*ZNode
type ZNodeMap map[string]ZNode
type ZL []ZL
type ZM map[string]ZM

// ---- structs (recursive, mutually recursive, embedded, …)
type ZNode struct {
	Next *ZNode `json:"next"`
	V    int8   `json:"v"`
}
type ZKids struct {
	Kids []*ZKids `json:"kids"`
	N    uint16   `json:"n,omitempty"`
}
type ZTree struct {
	Kids map[string]*ZTree `json:"kids"`
	V    int               `json:"v"`
}
type ZA struct {
	B *ZB   `json:"b"`
	V int32 `json:"v"`
}
type ZB struct {
	A *ZA    `json:"a"`
	V string `json:"v"`
}
type ZBoth struct {
	A ZNode  `json:"a"`
	B *ZNode `json:"b"`
}
type ZDList struct {
	Next *ZDList `json:"next,omitempty"`
	Prev *ZDList `json:"prev,omitempty"`
	ID   uint64  `json:"id"`
}
type ZInner struct {
	X int16  `json:"x"`
	Y string `json:"y,omitempty"`
}
type ZEmb struct {
	ZInner
	Z bool `json:"z"`
}
type ZEmbP struct {
	*ZInner
	Z *bool `json:"z"`
}
type ZEmbRec struct {
	ZNode
	W float32 `json:"w"`
}
type ZHidden struct {
	A      int `json:"a"`
	hidden int
	Skip   string `json:"-"`
	Plain  uint8
}
type ZSliceRec struct {
	Items []ZSliceRec `json:"items"`
	T     time.Time   `json:"t"`
}
type ZMapRec struct {
	M map[string]ZMapRec `json:"m"`
	B []byte             `json:"b"`
}
type ZDeep struct {
	P **ZDeep `json:"p"`
	L int64   `json:"l"`
}
type ZOuter struct {
	In  ZMid  `json:"in"`
	Ptr *ZMid `json:"ptr"`
}
type ZMid struct {
	Back *ZOuter `json:"back"`
	U    uint32  `json:"u"`
}

// ---- round 3: defined types inside structs, empty structs, anonymous structs, yaml tags, generics, arrays
type ZUses struct {
	O  ZOctet   `json:"o"`
	S  ZStr     `json:"s,omitempty"`
	Os []ZOctet `json:"os"`
	D  ZDigest  `json:"d"`
	N  ZNames   `json:"n"`
	P  *ZI16    `json:"p"`
	M  ZDict    `json:"m"`
	F  ZF32     `json:"f"`
	B  ZFlag    `json:"b,omitempty"`
	G  ZGrid    `json:"g"`
	K  ZStrMap  `json:"k"`
}
type ZQuotedDef struct {
	Q ZU64 `json:"q,string"`
	S ZStr `json:"s,string"`
}
type ZEmpty struct{}
type ZHasEmpty struct {
	E ZEmpty `json:"e"`
	X int    `json:"x"`
}
type ZNoTags struct {
	A int
	B string
}
type ZHasNoTags struct {
	N ZNoTags  `json:"n"`
	P *ZNoTags `json:"p"`
}
type ZAnon struct {
	Y struct {
		X *ZAnon `json:"x"`
	} `json:"y"`
}
type ZTwoAnon struct {
	A struct {
		X int8 `json:"x"`
	} `json:"a"`
	B struct {
		X string `json:"x"`
	} `json:"b"`
}
type ZEmbDef struct {
	ZOctet
	ZStr `json:"ms"`
	Z    int `json:"z"`
}
type ZEmbDefP struct {
	*ZI16
	Z int `json:"z"`
}
type ZYaml struct {
	A int    `yaml:"alpha"`
	B string `yaml:"beta,omitempty"`
	C bool   `json:"c" yaml:"cc"`
	D int8   `yaml:"-"`
	E *ZNode `yaml:"node"`
}
type ZYamlClash struct {
	C string `json:"c"`
	E uint8  `yaml:"c"`
}
type ZUnder struct {
	_X int  `json:"ux"`
	A  int8 `json:"a"`
}
type ZBox[T any] struct {
	V T `json:"v"`
}
type ZHasBox struct {
	I ZBox[int8]    `json:"i"`
	S ZBox[string]  `json:"s"`
	P *ZBox[string] `json:"p"`
}
type ZNL []*ZNS
type ZNS struct {
	Kids ZNL `json:"kids"`
}
type ZTriA struct {
	B *ZTriB `json:"b"`
}
type ZTriB struct {
	C []ZTriC `json:"c"`
}
type ZTriC struct {
	A map[string]*ZTriA `json:"a"`
	V int8              `json:"v"`
}
type ZArr struct {
	A [2]int8   `json:"a"`
	B [3]byte   `json:"b"`
	C [1]*ZNode `json:"c"`
}
type ZSelfVal struct {
	Kids []ZSelfVal          `json:"kids"`
	M    map[string]ZSelfVal `json:"m,omitempty"`
}
type ZWide struct {
	A ZNode    `json:"a"`
	B ZNode    `json:"b"`
	C *ZNode   `json:"c"`
	D []ZNode  `json:"d"`
	E ZInner   `json:"e"`
	F *ZInner  `json:"f"`
	G []*ZNode `json:"g"`
}
type ZHolder struct {
	L  ZNodes   `json:"l"`
	M  ZNodeMap `json:"m"`
	Em ZEmpty   `json:"em"`
}

var c18Zoo = map[string]reflect.Type{}

// c18ZooStructs: the declared struct types, in a fixed order (roots of the option matrix).
var c18ZooStructs []string

// c18ZooDefs: the defined non-struct types.
var c18ZooDefs []string

func init() {
	for _, v := range []any{ZNode{}, ZKids{}, ZTree{}, ZA{}, ZB{}, ZBoth{}, ZDList{}, ZInner{}, ZEmb{}, ZEmbP{}, ZEmbRec{},
		ZHidden{}, ZSliceRec{}, ZMapRec{}, ZDeep{}, ZOuter{}, ZMid{},
		ZUses{}, ZQuotedDef{}, ZEmpty{}, ZHasEmpty{}, ZNoTags{}, ZHasNoTags{}, ZAnon{}, ZTwoAnon{}, ZEmbDef{}, ZEmbDefP{}, ZYaml{}, ZYamlClash{},
		ZUnder{}, ZBox[int8]{}, ZBox[string]{}, ZHasBox{}, ZNS{}, ZTriA{}, ZTriB{}, ZTriC{}, ZArr{}, ZSelfVal{}, ZWide{}, ZHolder{}} {
		t := reflect.TypeOf(v)
		c18Zoo[t.Name()] = t
		c18ZooStructs = append(c18ZooStructs, t.Name())
	}
	for _, v := range []any{ZOctet(0), ZStr(""), ZI16(0), ZU64(0), ZF32(0), ZFlag(false), ZNames{}, ZDigest{}, ZOctets{}, ZGrid{}, ZDict{}, ZStrMap{},
		ZNodes{}, ZNodeMap{}, ZL{}, ZM{}, ZNL{}} {
		t := reflect.TypeOf(v)
		c18Zoo[t.Name()] = t
		c18ZooDefs = append(c18ZooDefs, t.Name())
	}
}
