package main

// C09 — routers return the declared operation whose template matches the URL.
// Real code exercised: routers/legacy.NewRouter + (*Router).FindRoute and routers/gorillamux.NewRouter +
// (*Router).FindRoute on documents built from the case (openapi3.T.Validate first, as both routers assume).

import (
	"context"
	"crypto/tls"
	"fmt"
	"net/http"
	"net/url"
	"sort"
	"strings"
	"sync"

	"github.com/getkin/kin-openapi/openapi3"
	"github.com/getkin/kin-openapi/routers"
	"github.com/getkin/kin-openapi/routers/gorillamux"
	"github.com/getkin/kin-openapi/routers/legacy"

	"kinverif/internal/hx"
)

func init() {
	hx.Register(&hx.Prop{
		ID: "C09",
		Rule: "exhaustive: every set of ≤2 (thorough: ≤3, an eighth of the 3-sets' cases) templates out of a universe of 11 (root, literal/templated siblings, shared prefixes, 0–2 variables, " +
			"mid-segment variable, trailing-slash template, /a next to /a/) × 3 method layouts × 12 server configurations (none, relative, absolute with trailing slash, host+port variables, " +
			"scheme variable + second server, relative with variable, two relative servers with different base paths, three servers with one base a path prefix of another, " +
			"path-item level servers on the first / on the last template with one or two document-level servers, path-item level absolute server with variable and no document-level server) " +
			"× request forms per configuration (through each declared server, wrong base, host, scheme, enum value inside/outside, absolute and " +
			"server-style URL) × 20 paths (filled templates and near-misses: empty binding, //, trailing slash, missing/extra segment, empty path) × methods GET/POST/unknown, for both routers " +
			"(quick tier: a deterministic sixth of it); plus a seeded random stream of documents (1–5 templates from a segment grammar, 0–3 variables, up to 9 methods, sometimes a template and its " +
			"trailing-slash twin; 0–3 document-level servers with different base paths from six shapes, path-item level servers on one or two path items in 22% of the documents) with " +
			"requests built from the document's own templates and mutations of them, sent through the forms of every declared server. Observed per case: error kind, route template, method, " +
			"operation identity, path parameters and the identity of Route.Server; after every routed request further FindRoute calls are made on the same router (same URL with another declared method; the same remaining path through every other variable-free server of the list the matched server belongs to) and the first route is re-inspected (Method, Operation, Server, Path, PathItem, Spec). Non-trivial = the model reports a branch other than the bare not-found of a server-less document.",
		Exhaustive: true,
		Gen:        genC09,
		Run:        runC09,
		Compare:    cmpC09,
		Shrink:     shrinkC09,
		Workers:    8,
		Assumptions: []string{
			"request URLs consist of unreserved characters plus, in 7% of the random requests, one percent-encoded character (an unreserved one, %2F, %20, a dot or dash); net/url parsing and escaping are trusted; such a request is judged under both readings of 'the request path' (escaped, decoded)",
			"gorilla/mux regular-expression matching is modelled as greedy leftmost-first template matching; host variables match [^.]+, path variables [^/]+",
			"no `{name*}` wildcard or `{name:regexp}` templates, at most one variable in a server's scheme part",
			"where two path keys share a node of the legacy trie (`/a` and `/a/`) the router's answer depends on a Go map iteration order: the model gives the set of answers over the insertion orders and the observed answer has to be one of them",
		"Route.Server is compared by pointer identity with the servers of the document (document level, path-item level); operation-level `servers` are not generated (neither router reads them)",
			"port variables are requested with their default value only (gorillamux documents that only the default matches); no explicit port is requested from a server whose URL has none (mux ignores the port then)",
		},
	})
}

type c09Built struct {
	doc    *openapi3.T
	router routers.Router
	err    string
}

var (
	c09Cache   sync.Map // key → *c09Built
	c09CacheMu sync.Mutex
	c09CacheN  int
)

func c09VarNames(t string) []string {
	var out []string
	for {
		i := strings.IndexByte(t, '{')
		if i < 0 {
			return out
		}
		j := strings.IndexByte(t[i:], '}')
		if j < 0 {
			return out
		}
		out = append(out, t[i+1:i+j])
		t = t[i+j+1:]
	}
}

func c09Doc(c hx.Case) *openapi3.T {
	doc := &openapi3.T{OpenAPI: "3.0.3", Info: &openapi3.Info{Title: "t", Version: "1"}, Paths: openapi3.NewPaths()}
	for _, p := range jlist(c["paths"]) {
		pm, _ := p.(map[string]any)
		t := jstr(pm, "t")
		pi := &openapi3.PathItem{}
		for _, m := range toStrs(pm["m"]) {
			op := &openapi3.Operation{Responses: openapi3.NewResponses(openapi3.WithStatus(200,
				&openapi3.ResponseRef{Value: openapi3.NewResponse().WithDescription("ok")}))}
			for _, n := range c09VarNames(t) {
				op.Parameters = append(op.Parameters, &openapi3.ParameterRef{Value: &openapi3.Parameter{
					Name: n, In: "path", Required: true, Schema: openapi3.NewStringSchema().NewRef()}})
			}
			pi.SetOperation(m, op)
		}
		pi.Servers = c09Servers(pm["s"])
		doc.Paths.Set(t, pi)
	}
	doc.Servers = c09Servers(c["servers"])
	return doc
}

func c09Servers(l any) openapi3.Servers {
	var out openapi3.Servers
	for _, s := range jlist(l) {
		sm, _ := s.(map[string]any)
		srv := &openapi3.Server{URL: jstr(sm, "url")}
		for _, v := range jlist(sm["vars"]) {
			vm, _ := v.(map[string]any)
			if srv.Variables == nil {
				srv.Variables = map[string]*openapi3.ServerVariable{}
			}
			srv.Variables[jstr(vm, "n")] = &openapi3.ServerVariable{Default: jstr(vm, "d"), Enum: toStrs(vm["e"])}
		}
		out = append(out, srv)
	}
	return out
}

// which declared server Route.Server points to: "nil", "doc#i", "path#<template>#i" (the i-th server of the path item
// declared under <template>), "foreign" for a pointer that is none of the document's servers
func c09SrvRef(doc *openapi3.T, s *openapi3.Server) string {
	if s == nil {
		return "nil"
	}
	for i, x := range doc.Servers {
		if x == s {
			return fmt.Sprintf("doc#%d", i)
		}
	}
	var ts []string
	for t := range doc.Paths.Map() {
		ts = append(ts, t)
	}
	sort.Strings(ts)
	for _, t := range ts {
		for i, x := range doc.Paths.Value(t).Servers {
			if x == s {
				return fmt.Sprintf("path#%s#%d", t, i)
			}
		}
	}
	return "foreign"
}

func c09Build(c hx.Case) *c09Built {
	key := jstr(c, "router") + "|" + hx.Canon(c["paths"]) + "|" + hx.Canon(c["servers"])
	if v, ok := c09Cache.Load(key); ok {
		return v.(*c09Built)
	}
	b := &c09Built{doc: c09Doc(c)}
	func() {
		defer func() {
			if r := recover(); r != nil {
				b.err = fmt.Sprint("panic in NewRouter: ", r)
			}
		}()
		if err := b.doc.Validate(context.Background()); err != nil {
			b.err = "validate: " + err.Error()
			return
		}
		var err error
		if jstr(c, "router") == "gorilla" {
			b.router, err = gorillamux.NewRouter(b.doc)
		} else {
			b.router, err = legacy.NewRouter(b.doc)
		}
		if err != nil {
			b.err = "newrouter: " + err.Error()
		}
	}()
	c09CacheMu.Lock()
	c09CacheN++
	if c09CacheN > 20000 {
		c09Cache.Range(func(k, _ any) bool { c09Cache.Delete(k); return true })
		c09CacheN = 0
	}
	c09CacheMu.Unlock()
	c09Cache.Store(key, b)
	return b
}

func c09Request(c hx.Case) *http.Request {
	method, scheme, host, path := jstr(c, "method"), jstr(c, "scheme"), jstr(c, "host"), jstr(c, "path")
	var req *http.Request
	if jbool(c, "abs") {
		u, err := url.Parse(scheme + "://" + host + path)
		if err != nil {
			return nil
		}
		req = &http.Request{Method: method, URL: u, Host: u.Host, Header: http.Header{}}
	} else {
		u := &url.URL{Path: path}
		if d, ok := c["dpath"].(string); ok && d != path {
			u = &url.URL{Path: d, RawPath: path} // "path" is the escaped path as written on the wire
		}
		req = &http.Request{Method: method, URL: u, Host: host, Header: http.Header{}}
		if scheme == "https" {
			req.TLS = &tls.ConnectionState{}
		}
	}
	return req
}

func runC09(c hx.Case) any {
	b := c09Build(c)
	if b.err != "" {
		return map[string]any{"kind": "invalid_doc", "msg": b.err}
	}
	req := c09Request(c)
	if req == nil {
		return map[string]any{"kind": "invalid_request"}
	}
	route, params, err := b.router.FindRoute(req)
	if err != nil {
		switch err.Error() {
		case routers.ErrPathNotFound.Error():
			return map[string]any{"kind": "notfound", "hasRoute": route != nil}
		case routers.ErrMethodNotAllowed.Error():
			return map[string]any{"kind": "method", "hasRoute": route != nil}
		}
		return map[string]any{"kind": "error", "msg": err.Error(), "hasRoute": route != nil}
	}
	if route == nil {
		return map[string]any{"kind": "nil_route"}
	}
	ps := map[string]any{}
	for k, v := range params {
		ps[k] = v
	}
	// "the route's operation is the one the document declares for the request method under the route's template"
	opOK := false
	if pi := b.doc.Paths.Value(route.Path); pi != nil && route.PathItem == pi && route.Spec == b.doc {
		if op := pi.Operations()[req.Method]; op != nil && route.Operation == op {
			opOK = true
		}
	}
	out := map[string]any{"kind": "route", "template": route.Path, "method": route.Method, "params": ps, "opOK": opOK,
		"server": c09SrvRef(b.doc, route.Server)}
	// call sequence: a later FindRoute on the same router (same URL, another declared method) must not change the route
	// that was returned first — the caller still holds it
	if pi := b.doc.Paths.Value(route.Path); pi != nil {
		var others []string
		for m := range pi.Operations() {
			if m != req.Method {
				others = append(others, m)
			}
		}
		sort.Strings(others)
		if len(others) > 0 {
			m0, op0, srv0, path0 := route.Method, route.Operation, route.Server, route.Path
			req2 := c09Request(c)
			req2.Method = others[0]
			route2, _, err2 := b.router.FindRoute(req2)
			if route.Method != m0 || route.Operation != op0 || route.Server != srv0 || route.Path != path0 {
				out["mutatedByLaterCall"] = fmt.Sprintf("after FindRoute(%s …) the route returned for %s says method %q", others[0], m0, route.Method)
			} else if err2 == nil && route2 != nil && route2 == route {
				out["mutatedByLaterCall"] = "two FindRoute calls with different methods returned the same *Route"
			}
		}
	}
	// call sequence, second dimension: the same remaining path asked through every OTHER declared server of the list the
	// matched server belongs to (state kept between calls: a stored route that is handed out and written per call)
	if _, bad := out["mutatedByLaterCall"]; !bad && route.Server != nil {
		if msg := c09ReuseOtherServers(c, b, req, route); msg != "" {
			out["mutatedByLaterCall"] = msg
		}
	}
	return out
}

// scheme, host, base path of a server URL without variables ("" scheme: relative server)
func c09PlainServer(s *openapi3.Server) (scheme, host, base string, ok bool) {
	if s == nil || strings.Contains(s.URL, "{") {
		return
	}
	if strings.HasPrefix(s.URL, "/") {
		return "", "", strings.TrimSuffix(s.URL, "/"), true
	}
	u, err := url.Parse(s.URL)
	if err != nil || u.Scheme == "" || u.Host == "" {
		return
	}
	return u.Scheme, u.Host, strings.TrimSuffix(u.EscapedPath(), "/"), true
}

func c09ReuseOtherServers(c hx.Case, b *c09Built, req *http.Request, route *routers.Route) string {
	list := b.doc.Servers
	found := false
	for _, s := range list {
		found = found || s == route.Server
	}
	if !found && route.PathItem != nil {
		list = route.PathItem.Servers
		for _, s := range list {
			found = found || s == route.Server
		}
	}
	if !found || len(list) < 2 {
		return ""
	}
	_, _, base0, ok := c09PlainServer(route.Server)
	ep := req.URL.EscapedPath()
	if !ok || !strings.HasPrefix(ep, base0) {
		return ""
	}
	rem := ep[len(base0):]
	m0, op0, srv0, path0, pi0, spec0 := route.Method, route.Operation, route.Server, route.Path, route.PathItem, route.Spec
	for _, o := range list {
		if o == route.Server {
			continue
		}
		scheme, host, base, ok := c09PlainServer(o)
		if !ok {
			continue
		}
		c2 := cloneCase(c)
		if scheme != "" {
			c2["abs"], c2["scheme"], c2["host"] = true, scheme, host
		}
		c09SetPath(c2, base+rem)
		req2 := c09Request(c2)
		if req2 == nil {
			continue
		}
		route2, _, err2 := b.router.FindRoute(req2)
		if route.Method != m0 || route.Operation != op0 || route.Server != srv0 || route.Path != path0 || route.PathItem != pi0 || route.Spec != spec0 {
			return fmt.Sprintf("after FindRoute(%s %s) through server %s the route returned first names server %s, template %q, method %q",
				req2.Method, req2.URL.String(), c09SrvRef(b.doc, o), c09SrvRef(b.doc, route.Server), route.Path, route.Method)
		}
		if err2 == nil && route2 != nil && route2 == route && route2.Server != nil {
			return "two FindRoute calls through different servers returned the same *Route"
		}
	}
	return ""
}

func c09SameParams(a, b any) bool {
	am, _ := a.(map[string]any)
	bm, _ := b.(map[string]any)
	if len(am) != len(bm) {
		return false
	}
	for k, v := range am {
		if w, ok := bm[k]; !ok || fmt.Sprint(v) != fmt.Sprint(w) {
			return false
		}
	}
	return true
}

func cmpC09(c hx.Case, impl any, reply map[string]any) hx.Verdict {
	im, _ := impl.(map[string]any)
	model, _ := reply["model"].(map[string]any)
	spec, _ := reply["spec"].(map[string]any)
	if im == nil || model == nil || spec == nil {
		return hx.Verdict{IM: false, IS: im != nil && im["panic"] == nil, Detail: "missing observation"}
	}
	if _, p := im["panic"]; p {
		return hx.Verdict{IM: jstr(model, "kind") == "panic", IS: false, Detail: "implementation panicked: " + fmt.Sprint(im["panic"], " at ", im["site"])}
	}
	kind := jstr(im, "kind")
	v := hx.Verdict{IM: true, IS: true}
	switch kind {
	case "invalid_doc", "invalid_request":
		// the generator is meant to produce validated documents only: not a property failure, but the
		// model (which predicts a routing outcome) does not describe it
		return hx.Verdict{IM: jstr(model, "kind") == "builderror", IS: true, Detail: "document not accepted: " + jstr(im, "msg")}
	}
	// implementation vs model; where the legacy router's outcome depends on a map iteration order (two keys at one
	// trie node) the model gives the set of possible outcomes and the observed one has to be in it
	same := func(model map[string]any) bool {
		if kind != jstr(model, "kind") {
			return false
		}
		if kind == "route" {
			return jstr(im, "template") == jstr(model, "template") && jstr(im, "method") == jstr(model, "method") &&
				c09SameParams(im["params"], model["params"]) && jstr(im, "server") == jstr(model, "server")
		}
		return true
	}
	v.IM = same(model)
	for _, a := range jlist(reply["modelAlts"]) {
		if am, _ := a.(map[string]any); am != nil && !v.IM {
			v.IM = same(am)
		}
	}
	if !v.IM {
		v.Detail = fmt.Sprintf("impl %v vs model %v %v", hx.Canon(im), hx.Canon(model), hx.Canon(reply["modelAlts"]))
	}
	// implementation vs spec; a percent-encoded request is judged under both readings of "the request path" (escaped and
	// decoded) and has to satisfy the property under one of them
	if msg := jstr(im, "mutatedByLaterCall"); msg != "" {
		return hx.Verdict{IM: false, IS: false, Detail: "a returned route is changed by a later FindRoute on the same router: " + msg}
	}
	imDetail := v.Detail
	c09Judge(c, im, kind, spec, &v)
	if !v.IS {
		if alt, _ := reply["specAlt"].(map[string]any); alt != nil {
			w := hx.Verdict{IM: v.IM, IS: true}
			c09Judge(c, im, kind, alt, &w)
			if w.IS {
				v.IS = true
				v.Detail = imDetail
			}
		}
	}
	if jbool(im, "hasRoute") {
		v.IS = false
		v.Detail = "an error was returned together with a route"
	}
	return v
}

func c09Judge(c hx.Case, im map[string]any, kind string, spec map[string]any, v *hx.Verdict) {
	must := jstr(spec, "must")
	switch kind {
	case "route":
		ok := false
		if must == "route" && jbool(im, "opOK") && jstr(im, "method") == jstr(c, "method") {
			got, _ := im["params"].(map[string]any)
			for _, a := range jlist(spec["allowed"]) {
				am, _ := a.(map[string]any)
				// the route must name the template AND the server under which the template reproduces the request
				if jstr(am, "template") != jstr(im, "template") || jstr(am, "server") != jstr(im, "server") {
					continue
				}
				all := true
				ap, _ := am["params"].(map[string]any)
				for k, val := range ap {
					if w, has := got[k]; !has || fmt.Sprint(w) != fmt.Sprint(val) {
						all = false
					}
				}
				if all {
					ok = true
					break
				}
			}
		}
		if !ok {
			v.IS = false
			v.Detail = fmt.Sprintf("routed to %v; the property requires %v", hx.Canon(im), hx.Canon(spec))
		}
	case "notfound":
		if must == "route" {
			v.IS = false
			v.Detail = fmt.Sprintf("not found; the property requires a route: %v", hx.Canon(spec))
		}
	case "method":
		if must != "error" {
			v.IS = false
			v.Detail = fmt.Sprintf("method not allowed; the property requires %v", hx.Canon(spec))
		}
	default:
		v.IS = false
		v.Detail = fmt.Sprintf("unexpected outcome %v; the property requires %v", hx.Canon(im), hx.Canon(spec))
	}
}

// ---------------------------------------------------------------- generator

func c09P(t string, ms ...string) map[string]any {
	l := []any{}
	for _, m := range ms {
		l = append(l, m)
	}
	return map[string]any{"t": t, "m": l}
}

func c09V(n, d string, e ...string) map[string]any {
	l := []any{}
	for _, x := range e {
		l = append(l, x)
	}
	return map[string]any{"n": n, "d": d, "e": l}
}

func c09S(u string, vars ...map[string]any) map[string]any {
	l := []any{}
	for _, v := range vars {
		l = append(l, v)
	}
	return map[string]any{"url": u, "vars": l}
}

// a way of addressing a server configuration: request form and the prefix put before the path
type c09Form struct {
	abs          bool
	scheme, host string
	prefix       string
}

type c09SrvCfg struct {
	servers []any
	forms   []c09Form
	// path-item level servers of the i-th of n templates of the document (nil: none anywhere)
	pathSrv func(i, n int) []any
}

func c09WithPathServers(paths []any, cfg c09SrvCfg) []any {
	if cfg.pathSrv == nil {
		return paths
	}
	out := make([]any, len(paths))
	for i, p := range paths {
		pm := p.(map[string]any)
		out[i] = map[string]any{"t": pm["t"], "m": pm["m"], "s": cfg.pathSrv(i, len(paths))}
	}
	return out
}

var c09SrvCfgs = []c09SrvCfg{
	{[]any{}, []c09Form{{true, "http", "localhost", ""}, {false, "http", "localhost", ""}}, nil},
	{[]any{c09S("/v1")}, []c09Form{{false, "http", "localhost", "/v1"}, {false, "https", "localhost", "/v2"}, {false, "http", "localhost", ""}, {true, "http", "localhost", "/v1"}}, nil},
	{[]any{c09S("https://example.com/v1/")}, []c09Form{{true, "https", "example.com", "/v1"}, {true, "http", "example.com", "/v1"}, {true, "https", "example.org", "/v1"},
		{true, "https", "example.com", ""}, {false, "https", "example.com", "/v1"}}, nil},
	{[]any{c09S("https://{env}.example.com:{port}/v1", c09V("env", "prod", "prod", "dev"), c09V("port", "8443"))}, []c09Form{
		{true, "https", "prod.example.com:8443", "/v1"}, {true, "https", "dev.example.com:8443", "/v1"}, {true, "https", "qa.example.com:8443", "/v1"},
		{true, "https", "prod.example.com", "/v1"}, {false, "https", "dev.example.com:8443", "/v1"}}, nil},
	{[]any{c09S("{scheme}://example.com", c09V("scheme", "https", "http", "https")), c09S("/alt")}, []c09Form{
		{true, "https", "example.com", ""}, {true, "http", "example.com", ""}, {true, "ftp", "example.com", ""}, {false, "http", "localhost", "/alt"}, {false, "http", "example.com", ""}}, nil},
	{[]any{c09S("/{ver}/api", c09V("ver", "v1", "v1", "v2"))}, []c09Form{{false, "http", "localhost", "/v1/api"}, {false, "http", "localhost", "/v2/api"},
		{false, "http", "localhost", "/v3/api"}, {false, "http", "localhost", "/api"}}, nil},
	// several servers with different base paths: the returned Route.Server has to be the one the request came through
	{[]any{c09S("/v1"), c09S("/v2/x")}, []c09Form{{false, "http", "localhost", "/v1"}, {false, "http", "localhost", "/v2/x"}, {false, "http", "localhost", "/v2"},
		{false, "http", "localhost", ""}}, nil},
	// … one base path a path prefix of another, absolute and relative mixed
	{[]any{c09S("https://example.com/api"), c09S("https://example.com/api/v2/"), c09S("/alt")}, []c09Form{{true, "https", "example.com", "/api"},
		{true, "https", "example.com", "/api/v2"}, {false, "http", "localhost", "/alt"}, {true, "http", "example.com", "/api/v2"}}, nil},
	// path-item level servers on the first template (two of them), document-level server for the others
	{[]any{c09S("/v1")}, []c09Form{{false, "http", "localhost", "/v1"}, {false, "http", "localhost", "/p"}, {false, "http", "localhost", "/q/r"}, {false, "http", "localhost", ""}},
		func(i, n int) []any {
			if i == 0 {
				return []any{c09S("/p"), c09S("/q/r")}
			}
			return []any{}
		}},
	// path-item level servers on the last template, two document-level servers
	{[]any{c09S("/v1"), c09S("/v2")}, []c09Form{{false, "http", "localhost", "/v1"}, {false, "http", "localhost", "/v2"}, {false, "http", "localhost", "/p"}},
		func(i, n int) []any {
			if i == n-1 {
				return []any{c09S("/p")}
			}
			return []any{}
		}},
	// no document-level servers, an absolute path-item level server with a variable on the last template
	{[]any{}, []c09Form{{true, "https", "prod.example.com", "/p"}, {true, "https", "prod.example.com", ""}, {false, "http", "localhost", ""}, {true, "https", "qa.example.com", "/p"}},
		func(i, n int) []any {
			if i == n-1 {
				return []any{c09S("https://{env}.example.com/p", c09V("env", "prod", "prod", "dev"))}
			}
			return []any{}
		}},
}

var c09Universe = []string{"/", "/a", "/a/b", "/a/{x}", "/{y}/b", "/a/{x}/c/{y}", "/b/{x}", "/report.{format}", "/a/{x}/c", "/c/", "/a/"}

var c09Paths = []string{"", "/", "/a", "/a/", "/b", "/b/", "/a/b", "/a/1", "/a//c/1", "/a/1/c/2", "/a/1/c", "/zz/b", "/a/b/", "/report.pdf", "/report.",
	"/c", "/c/", "//", "/a/b/c", "/b/1"}

var c09MethodLayouts = [][][]string{
	{{"GET"}, {"GET"}, {"GET"}},
	{{"POST"}, {"GET"}, {"GET", "POST"}},
	{{"GET", "POST"}, {"POST"}, {"GET"}},
}

func c09Emit(emit func(hx.Case), router string, paths []any, servers []any, f c09Form, path, method string) {
	c := hx.Case{"router": router, "paths": paths, "servers": servers, "method": method, "abs": f.abs,
		"scheme": f.scheme, "host": f.host}
	c09SetPath(c, f.prefix+path)
	emit(c)
}

// "path" is the escaped path as written on the wire; "dpath" its decoded form, present only when the two differ
func c09SetPath(c hx.Case, p string) {
	c["path"] = p
	delete(c, "dpath")
	if strings.Contains(p, "%") {
		if d, err := url.PathUnescape(p); err == nil && d != p {
			c["dpath"] = d
		}
	}
}

// percent-encode something inside the path: an unreserved character (decodes to itself), an encoded slash or space
// inside a segment, a dot or dash
func c09Encode(r *hx.Rng, p string) string {
	if len(p) < 2 {
		return p
	}
	i := 1 + r.Intn(len(p)-1)
	switch r.Intn(4) {
	case 0:
		if ch := p[i]; ch != '/' && ch != '%' {
			return p[:i] + fmt.Sprintf("%%%02X", ch) + p[i+1:]
		}
	case 1:
		return p[:i] + "%2F" + p[i:]
	case 2:
		return p[:i] + "%20" + p[i:]
	case 3:
		if j := strings.IndexAny(p, ".-"); j >= 0 {
			return p[:j] + fmt.Sprintf("%%%02X", p[j]) + p[j+1:]
		}
	}
	return p
}

func genC09(ctx *hx.Ctx, emit func(hx.Case)) {
	// ---- exhaustive block
	maxSet := 2
	if ctx.Thorough() {
		maxSet = 3
	}
	var sets [][]string
	n := len(c09Universe)
	for a := 0; a < n; a++ {
		sets = append(sets, []string{c09Universe[a]})
		for b := a + 1; b < n; b++ {
			sets = append(sets, []string{c09Universe[a], c09Universe[b]})
			if maxSet >= 3 {
				for d := b + 1; d < n; d++ {
					sets = append(sets, []string{c09Universe[a], c09Universe[b], c09Universe[d]})
				}
			}
		}
	}
	methods := []string{"GET", "POST", "FOO"}
	cnt := 0
	for si, set := range sets {
		for li, lay := range c09MethodLayouts {
			paths := []any{}
			for i, t := range set {
				paths = append(paths, c09P(t, lay[i]...))
			}
			for ci, cfg := range c09SrvCfgs {
				for fi, f := range cfg.forms {
					for pi, p := range c09Paths {
						for mi, m := range methods {
							cnt++
							if !ctx.Thorough() {
								// quick tier: a deterministic sixth (every combination of two coordinates still occurs)
								if (si+li+ci+fi+pi+mi)%6 != 0 {
									continue
								}
							} else if len(set) == 3 && (si+li+ci+fi+pi+mi)%8 != 0 {
								continue
							}
							for _, router := range []string{"legacy", "gorilla"} {
								c09Emit(emit, router, paths, cfg.servers, f, p, m)
							}
						}
					}
				}
			}
		}
	}
	// ---- random stream
	N := 3000
	if ctx.Thorough() {
		N = 45000
	}
	r := ctx.Rng
	for i := 0; i < N; i++ {
		c09Random(r, emit)
	}
}

var c09Lits = []string{"a", "b", "c", "ab", "zz", "items", "v2"}
var c09Vars = []string{"x", "y", "z", "id", "format"}
var c09Vals = []string{"1", "b", "zz", "a.b", "x-1", "ab", "items", "c"}
var c09AllMethods = []string{"GET", "POST", "PUT", "DELETE", "PATCH", "HEAD", "OPTIONS", "TRACE", "CONNECT"}

func c09RandTemplate(r *hx.Rng) string {
	if r.Chance(6) {
		return "/"
	}
	nseg := 1 + r.Intn(4)
	used := map[string]bool{}
	pickVar := func() string {
		for k := 0; k < 8; k++ {
			v := hx.Pick(r, c09Vars)
			if !used[v] {
				used[v] = true
				return v
			}
		}
		return ""
	}
	var sb strings.Builder
	for s := 0; s < nseg; s++ {
		sb.WriteByte('/')
		switch k := r.Intn(100); {
		case k < 50:
			sb.WriteString(hx.Pick(r, c09Lits))
		case k < 85:
			if v := pickVar(); v != "" {
				sb.WriteString("{" + v + "}")
			} else {
				sb.WriteString("a")
			}
		case k < 92: // literal prefix, variable suffix: /report.{format}
			if v := pickVar(); v != "" {
				sb.WriteString(hx.Pick(r, []string{"report.", "v", "a-"}) + "{" + v + "}")
			} else {
				sb.WriteString("b")
			}
		case k < 97: // variable followed by text in the same segment: /{id}.json
			if v := pickVar(); v != "" {
				sb.WriteString("{" + v + "}" + hx.Pick(r, []string{".json", "-x", "a"}))
			} else {
				sb.WriteString("c")
			}
		default: // two variables in one segment
			v1, v2 := pickVar(), pickVar()
			if v1 != "" && v2 != "" {
				sb.WriteString("{" + v1 + "}." + "{" + v2 + "}")
			} else {
				sb.WriteString("zz")
			}
		}
	}
	if r.Chance(5) {
		sb.WriteByte('/')
	}
	return sb.String()
}

// the key under which openapi3 considers two templates conflicting (variable names erased)
func c09Norm(t string) string {
	var sb strings.Builder
	in := false
	for _, ch := range t {
		switch {
		case ch == '{':
			in = true
			sb.WriteString("{}")
		case ch == '}':
			in = false
		case !in:
			sb.WriteRune(ch)
		}
	}
	return sb.String()
}

type c09Blk struct {
	s     map[string]any
	forms []c09Form
}

// k different server building blocks, each with its own base path (bases differ between the blocks of one call whenever possible)
func c09RandBlocks(r *hx.Rng, k int) []c09Blk {
	envs := []string{"prod", "dev"}
	bases := []string{"", "/v1", "/api/v2", "/v1/", "/api", "/v2/x"}
	usedIdx := map[int]bool{}
	usedBase := map[string]bool{}
	var out []c09Blk
	for i := 0; i < k; i++ {
		base := hx.Pick(r, bases)
		for try := 0; try < 6 && usedBase[strings.TrimSuffix(base, "/")]; try++ {
			base = hx.Pick(r, bases)
		}
		usedBase[strings.TrimSuffix(base, "/")] = true
		b := strings.TrimSuffix(base, "/")
		blocks := []c09Blk{
			{c09S("/" + strings.TrimPrefix(base, "/")), []c09Form{{false, "http", "localhost", b}, {false, "https", "h.test", b}, {false, "http", "localhost", "/zz"}, {true, "http", "localhost", b}}},
			{c09S("http://api.test" + base), []c09Form{{true, "http", "api.test", b}, {true, "https", "api.test", b}, {true, "http", "other.test", b}, {false, "http", "api.test", b}}},
			{c09S("https://{env}.api.test"+base, c09V("env", "prod", envs...)), []c09Form{{true, "https", "prod.api.test", b}, {true, "https", "dev.api.test", b}, {true, "https", "qa.api.test", b}, {true, "https", "api.test", b}, {true, "https", "a.b.api.test", b}}},
			{c09S("https://{tenant}.api.test:{port}"+base, c09V("tenant", "acme"), c09V("port", "8443", "8443", "443")), []c09Form{{true, "https", "acme.api.test:8443", b}, {true, "https", "other.api.test:8443", b}, {true, "https", "acme.api.test", b}, {true, "https", "x.y.api.test:8443", b}}},
			{c09S("https://api.test/{ver}"+base, c09V("ver", "v1", "v1", "v2")), []c09Form{{true, "https", "api.test", "/v1" + b}, {true, "https", "api.test", "/v2" + b}, {true, "https", "api.test", "/v9" + b}, {true, "https", "api.test", b}}},
			{c09S("{scheme}://api.test"+base, c09V("scheme", "https", "https", "http")), []c09Form{{true, "https", "api.test", b}, {true, "http", "api.test", b}, {true, "ws", "api.test", b}}},
		}
		j := r.Intn(len(blocks))
		if r.Chance(40) {
			j = r.Intn(2) // plain relative / plain absolute servers are the common case
		}
		if usedIdx[j] && j > 1 {
			continue
		}
		usedIdx[j] = true
		out = append(out, blocks[j])
	}
	return out
}

// document-level servers, the request forms that address them
func c09RandServers(r *hx.Rng) ([]any, []c09Form) {
	if r.Chance(25) {
		cfg := c09SrvCfgs[0]
		return cfg.servers, cfg.forms
	}
	if r.Chance(35) {
		cfg := c09SrvCfgs[1+r.Intn(7)] // the configurations without path-item level servers
		return cfg.servers, cfg.forms
	}
	// composed: one to three servers from building blocks
	servers := []any{}
	var forms []c09Form
	for _, b := range c09RandBlocks(r, 1+r.Intn(3)) {
		servers = append(servers, b.s)
		forms = append(forms, b.forms...)
	}
	return servers, forms
}

func c09Fill(r *hx.Rng, t string) string {
	var sb strings.Builder
	for len(t) > 0 {
		i := strings.IndexByte(t, '{')
		if i < 0 {
			sb.WriteString(t)
			break
		}
		sb.WriteString(t[:i])
		j := strings.IndexByte(t, '}')
		sb.WriteString(hx.Pick(r, c09Vals))
		t = t[j+1:]
	}
	return sb.String()
}

func c09Mutate(r *hx.Rng, p string) string {
	segs := strings.Split(p, "/")
	switch r.Intn(9) {
	case 0:
		return p + "/"
	case 1:
		return strings.TrimRight(p, "/")
	case 2: // drop last segment
		if len(segs) > 1 {
			return strings.Join(segs[:len(segs)-1], "/")
		}
	case 3: // extra segment
		return p + "/" + hx.Pick(r, c09Vals)
	case 4: // empty a segment
		if len(segs) > 2 {
			i := 1 + r.Intn(len(segs)-1)
			segs[i] = ""
			return strings.Join(segs, "/")
		}
	case 5: // replace a segment
		if len(segs) > 1 {
			i := 1 + r.Intn(len(segs)-1)
			segs[i] = hx.Pick(r, append(append([]string{}, c09Vals...), c09Lits...))
			return strings.Join(segs, "/")
		}
	case 6:
		return "/" + p
	case 7:
		return ""
	case 8: // drop last character
		if len(p) > 1 {
			return p[:len(p)-1]
		}
	}
	return p
}

func c09Random(r *hx.Rng, emit func(hx.Case)) {
	nt := 1 + r.Intn(5)
	var ts []string
	norm := map[string]bool{}
	stripped := map[string]bool{}
	collide := r.Chance(12)
	for len(ts) < nt {
		var t string
		if collide && len(ts) > 0 && r.Chance(40) {
			base := hx.Pick(r, ts)
			if strings.HasSuffix(base, "/") {
				t = strings.TrimRight(base, "/")
			} else {
				t = base + "/"
			}
		} else if len(ts) > 0 && r.Chance(45) {
			// sibling: share a prefix with an earlier template
			base := hx.Pick(r, ts)
			segs := strings.Split(strings.TrimRight(base, "/"), "/")
			keep := 1 + r.Intn(len(segs))
			t = strings.Join(segs[:keep], "/") + c09RandTemplate(r)
			if strings.Count(t, "{") > 3 {
				continue
			}
			// variable names must stay distinct inside one template
			names := c09VarNames(t)
			dup := false
			seen := map[string]bool{}
			for _, nme := range names {
				if seen[nme] {
					dup = true
				}
				seen[nme] = true
			}
			if dup {
				continue
			}
		} else {
			t = c09RandTemplate(r)
		}
		// a template and the same template with a trailing slash are both valid and distinct for the specification (the
		// legacy router stores them at one trie node): let such pairs through now and then
		if t == "" || norm[c09Norm(t)] || (stripped[strings.TrimRight(c09Norm(t), "/")] && !collide) {
			nt--
			continue
		}
		norm[c09Norm(t)] = true
		stripped[strings.TrimRight(c09Norm(t), "/")] = true
		ts = append(ts, t)
	}
	if len(ts) == 0 {
		ts = []string{"/a"}
	}
	paths := []any{}
	for _, t := range ts {
		var ms []string
		switch k := r.Intn(100); {
		case k < 4: // a path item without operations
		case k < 50:
			ms = []string{"GET"}
		default:
			for _, m := range c09AllMethods {
				if r.Chance(30) {
					ms = append(ms, m)
				}
			}
			if len(ms) == 0 {
				ms = []string{"POST"}
			}
		}
		paths = append(paths, c09P(t, ms...))
	}
	servers, forms := c09RandServers(r)
	// path-item level servers on one or two of the path items (gorillamux honours them, the legacy router does not)
	if r.Chance(22) {
		np := 1
		if len(paths) > 1 && r.Chance(35) {
			np = 2
		}
		for q := 0; q < np; q++ {
			i := r.Intn(len(paths))
			pm := paths[i].(map[string]any)
			ps := []any{}
			for _, b := range c09RandBlocks(r, 1+r.Intn(2)) {
				ps = append(ps, b.s)
				forms = append(forms, b.forms...)
			}
			paths[i] = map[string]any{"t": pm["t"], "m": pm["m"], "s": ps}
		}
	}
	// mux ignores the port of the request when a host template has none (see Assumptions): ask with an explicit port only
	// when every absolute server of the document declares one
	portEverywhere := true
	chk := func(l []any) {
		for _, sv := range l {
			u := jstr(sv.(map[string]any), "url")
			if i := strings.Index(u, "://"); i >= 0 && !strings.Contains(u[i+3:], ":") {
				portEverywhere = false
			}
		}
	}
	chk(servers)
	for _, p := range paths {
		chk(jlist(p.(map[string]any)["s"]))
	}
	if !portEverywhere {
		kept := forms[:0:0]
		for _, f := range forms {
			if !strings.Contains(f.host, ":") {
				kept = append(kept, f)
			}
		}
		if len(kept) > 0 {
			forms = kept
		}
	}
	// server variable names must not clash with template variables (mux: duplicated route variable): they don't, by construction
	nreq := 6 + r.Intn(8)
	for q := 0; q < nreq; q++ {
		t := hx.Pick(r, ts)
		p := c09Fill(r, t)
		if r.Chance(45) {
			p = c09Mutate(r, p)
		}
		if r.Chance(8) { // the literal text of another template
			p = c09Fill(r, hx.Pick(r, ts))
		}
		if r.Chance(7) && !strings.Contains(p, "%") {
			p = c09Encode(r, p)
		}
		var m string
		switch k := r.Intn(100); {
		case k < 55:
			pm := paths[indexOf(ts, t)].(map[string]any)
			if ms := toStrs(pm["m"]); len(ms) > 0 {
				m = hx.Pick(r, ms)
			} else {
				m = "GET"
			}
		case k < 85:
			m = hx.Pick(r, c09AllMethods)
		case k < 92:
			m = "FOO"
		case k < 96:
			m = "get"
		default:
			m = ""
		}
		f := forms[0]
		if r.Chance(40) {
			f = hx.Pick(r, forms)
		}
		router := "legacy"
		if r.Bool() {
			router = "gorilla"
		}
		c09Emit(emit, router, paths, servers, f, p, m)
		if r.Chance(50) { // the same request through the other router
			other := "legacy"
			if router == "legacy" {
				other = "gorilla"
			}
			c09Emit(emit, other, paths, servers, f, p, m)
		}
	}
}

func indexOf(l []string, s string) int {
	for i, x := range l {
		if x == s {
			return i
		}
	}
	return 0
}

// ---------------------------------------------------------------- shrinker

func shrinkC09(c hx.Case) []hx.Case {
	var out []hx.Case
	paths := jlist(c["paths"])
	for _, n := range dropEach(paths) {
		if len(n) > 0 {
			x := cloneCase(c)
			x["paths"] = n
			out = append(out, x)
		}
	}
	for i, p := range paths {
		pm, _ := p.(map[string]any)
		for _, n := range dropEach(jlist(pm["m"])) {
			x := cloneCase(c)
			np := append([]any{}, paths...)
			np[i] = map[string]any{"t": pm["t"], "m": n}
			x["paths"] = np
			out = append(out, x)
		}
	}
	for i, p := range paths {
		pm, _ := p.(map[string]any)
		ps := jlist(pm["s"])
		if len(ps) == 0 {
			continue
		}
		for _, n := range append(dropEach(ps), []any{}) {
			x := cloneCase(c)
			np := append([]any{}, paths...)
			np[i] = map[string]any{"t": pm["t"], "m": pm["m"], "s": n}
			x["paths"] = np
			out = append(out, x)
		}
	}
	servers := jlist(c["servers"])
	for _, n := range dropEach(servers) {
		x := cloneCase(c)
		x["servers"] = n
		out = append(out, x)
		if len(n) == 0 {
			// without servers the base path has to go as well: try every suffix of the path that starts a segment
			p := jstr(c, "path")
			for i := 1; i < len(p); i++ {
				if p[i] == '/' {
					y := cloneCase(x)
					c09SetPath(y, p[i:])
					y["abs"] = true
					y["scheme"], y["host"] = "http", "localhost"
					out = append(out, y)
				}
			}
		}
	}
	// shorter request path: drop one segment
	p := jstr(c, "path")
	segs := strings.Split(p, "/")
	if len(segs) > 2 {
		for i := 1; i < len(segs); i++ {
			ns := append(append([]string{}, segs[:i]...), segs[i+1:]...)
			x := cloneCase(c)
			c09SetPath(x, strings.Join(ns, "/"))
			out = append(out, x)
		}
	}
	if jstr(c, "method") != "GET" {
		x := cloneCase(c)
		x["method"] = "GET"
		out = append(out, x)
	}
	sort.SliceStable(out, func(i, j int) bool { return len(hx.Canon(out[i])) < len(hx.Canon(out[j])) })
	return out
}
