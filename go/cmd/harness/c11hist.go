package main

// C11 — histories: several loads on ONE openapi3.Loader (a located load, then LoadFromData, the same file twice, a
// document that refers to one loaded before, …).  A history case has g["steps"] = [{"entry","root":<loc of a file of
// g["files"]>,"allowed"}…]; all steps share the file universe g["files"].  Each load is judged against its own root and
// the documents read in THAT load: since c555d93 the loader keeps nothing from one load to the next.

import (
	"encoding/json"
	"bytes"
	"fmt"
	"net/url"

	"github.com/getkin/kin-openapi/openapi3"

	"kinverif/internal/hx"
)

func c11IsHistory(c hx.Case) bool {
	g, _ := c["g"].(map[string]any)
	return len(jlist(g["steps"])) > 0
}

func c11FileAt(files []any, loc string) map[string]any {
	for _, fa := range files {
		f, _ := fa.(map[string]any)
		if jstr(f, "loc") == loc {
			return f
		}
	}
	return nil
}

// c11DeriveHistory fills "steps" and "store" for the Lean driver; nil when a step's root file is missing.
func c11DeriveHistory(c hx.Case) hx.Case {
	g, _ := c["g"].(map[string]any)
	files := jlist(g["files"])
	store := []any{}
	abs := map[string]any{}
	for _, fa := range files {
		f, _ := fa.(map[string]any)
		a := c11FileAbstract(f)
		abs[jstr(f, "loc")] = a
		uj, _ := c11UrlJSON(jstr(f, "loc"))
		if uj == nil {
			continue
		}
		store = append(store, map[string]any{"loc": uj, "file": a})
	}
	steps := []any{}
	for _, sa := range jlist(g["steps"]) {
		s, _ := sa.(map[string]any)
		a, ok := abs[jstr(s, "root")]
		if !ok {
			return nil
		}
		entry := jstr(s, "entry")
		if entry == "reader" {
			entry = "data"
		}
		if entry == "resolveIn" {
			// the exported ResolveRefsIn(doc, location) called directly on a document the caller unmarshalled; on a used Loader it
			// does not reset. Generated with the switch off only, where the model of a located in-memory load describes it (the guard
			// denies before any state of earlier loads is consulted); the step is judged against the SPEC only (see cmpC11History)
			entry = "dataWithPath"
		}
		st := map[string]any{"allowed": jbool(s, "allowed"), "entry": entry, "rootFile": a, "rootInStore": true, "rootLoc": nil, "store": []any{}}
		if entry != "data" {
			uj, _ := c11UrlJSON(jstr(s, "root"))
			st["rootLoc"] = uj
		}
		steps = append(steps, st)
	}
	c["steps"] = steps
	c["store"] = store
	return c
}

func runC11History(c hx.Case) any {
	g, _ := c["g"].(map[string]any)
	files := jlist(g["files"])
	bodies := map[string][]byte{}
	for _, fa := range files {
		f, _ := fa.(map[string]any)
		_, u := c11UrlJSON(jstr(f, "loc"))
		if u == nil {
			continue
		}
		if _, dup := bodies[c11Key(u)]; !dup {
			bodies[c11Key(u)] = c11FileBody(f)
		}
	}
	log := []string{}
	loader := openapi3.NewLoader()
	loader.ReadFromURIFunc = func(_ *openapi3.Loader, u *url.URL) ([]byte, error) {
		k := c11Key(u)
		log = append(log, k)
		if b, ok := bodies[k]; ok {
			return b, nil
		}
		return nil, fmt.Errorf("no such file %s", k)
	}
	out := []any{}
	for _, sa := range jlist(g["steps"]) {
		s, _ := sa.(map[string]any)
		f := c11FileAt(files, jstr(s, "root"))
		if f == nil {
			return map[string]any{"steps": out, "bad": true}
		}
		body := c11FileBody(f)
		_, ru := c11UrlJSON(jstr(s, "root"))
		loader.IsExternalRefsAllowed = jbool(s, "allowed")
		log = []string{}
		var err error
		switch jstr(s, "entry") {
		case "file":
			if ru != nil && ru.Scheme == "" && ru.Host == "" {
				_, err = loader.LoadFromFile(ru.Path)
			} else {
				_, err = loader.LoadFromURI(ru)
			}
		case "dataWithPath":
			_, err = loader.LoadFromDataWithPath(body, ru)
		case "reader":
			_, err = loader.LoadFromIoReader(bytes.NewReader(body))
		case "resolveIn":
			doc := &openapi3.T{}
			if err = json.Unmarshal(body, doc); err == nil {
				err = loader.ResolveRefsIn(doc, ru)
			}
		default:
			_, err = loader.LoadFromData(body)
		}
		es := ""
		if err != nil {
			es = err.Error()
			if len(es) > 120 {
				es = es[:120]
			}
		}
		out = append(out, map[string]any{"log": append([]string{}, log...), "ok": err == nil, "err": es})
	}
	return map[string]any{"steps": out}
}

func cmpC11History(c hx.Case, im map[string]any, model map[string]any, spec map[string]any) hx.Verdict {
	v := hx.Verdict{IM: true, IS: true}
	isteps, msteps, ssteps := jlist(im["steps"]), jlist(model["steps"]), jlist(spec["steps"])
	if jbool(model, "oof") {
		v.IM = false
		v.Detail = "model ran out of fuel"
	}
	if len(isteps) != len(msteps) || len(isteps) != len(ssteps) {
		return hx.Verdict{IM: false, IS: true, Detail: "history: step counts differ"}
	}
	g, _ := c["g"].(map[string]any)
	gsteps := jlist(g["steps"])
	for i := range isteps {
		specOnly := false
		if i < len(gsteps) {
			gs, _ := gsteps[i].(map[string]any)
			// a direct ResolveRefsIn on a used Loader keeps the in-progress marks and the documents cache of the earlier call (it
			// does not reset): not modelled — the step's reads are judged against the spec only
			specOnly = jstr(gs, "entry") == "resolveIn"
		}
		is, _ := isteps[i].(map[string]any)
		ms, _ := msteps[i].(map[string]any)
		ss, _ := ssteps[i].(map[string]any)
		ilog, mlog := toStrs(is["log"]), toStrs(ms["log"])
		if v.IM && !specOnly && (!sameStrs(ilog, mlog, true) || jbool(is, "ok") != jbool(ms, "ok")) {
			v.IM = false
			v.Detail = fmt.Sprintf("load %d of the history: reads impl %v ok=%v (%s) vs model %v ok=%v", i+1, ilog, jbool(is, "ok"), jstr(is, "err"), mlog, jbool(ms, "ok"))
		}
		if ok, why := c11SpecHoldsKnown(ilog, ss, toStrs(ss["known"])); !ok && v.IS {
			v.IS = false
			v.Detail = fmt.Sprintf("load %d of the history: %s (reads %v)", i+1, why, ilog)
		}
	}
	return v
}

// ---- generation

func c11Step(entry, root string, allowed bool) map[string]any {
	return map[string]any{"entry": entry, "root": root, "allowed": allowed}
}

func c11HistCase(files []any, steps ...map[string]any) hx.Case {
	ss := make([]any, len(steps))
	for i, s := range steps {
		ss[i] = s
	}
	g := map[string]any{"files": c11DedupFiles(files), "steps": ss}
	return c11DeriveHistory(hx.Case{"g": g})
}

// c11GenHistories: a located document A and an in-memory document B in every order, with every kind of reference in B
func c11GenHistories(ctx *hx.Ctx, emit func(hx.Case)) {
	i := 0
	for _, aLoc := range []string{"/r/a/root.json", "http://h.example/r/a/root.json", "r/a/root.json"} {
		for bi := 0; bi < 6; bi++ {
			for _, al := range [][2]bool{{false, false}, {true, true}, {true, false}, {false, true}} {
				a := c11Doc(aLoc, kid(c11NewEl("schema", "s.json"), "components", "schemas", "S"), kid(c11NewEl("schema", "d.json#/components/schemas/A"), "components", "schemas", "T"),
					kid(c11NewEl("schema", ""), "components", "schemas", "Nope2"))
				var bk [2]any
				switch bi {
				case 0:
					bk = kid(c11NewEl("schema", "#/components/schemas/Nope"), "components", "schemas", "X") // dangling: the raw re-read fallback
				case 1:
					bk = kid(c11NewEl("schema", "s.json"), "components", "schemas", "X")
				case 2:
					bk = kid(c11NewEl("schema", "d.json#/components/schemas/A"), "components", "schemas", "X")
				case 3:
					bk = kid(c11NewEl("schema", aLoc+"#/components/schemas/S"), "components", "schemas", "X") // into the document loaded before
				case 4:
					bk = kid(c11NewEl("schema", "#/components/schemas/Nope2"), "components", "schemas", "X") // exists in A only
				default:
					bk = kid(c11NewEl("schema", ""), "components", "schemas", "X")
				}
				bLoc := "/r/m/mem.json"
				b := c11Doc(bLoc, bk)
				files := []any{a, b}
				for _, base := range []string{aLoc, bLoc, ""} {
					files = append(files, c11Elem(c11Resolve(base, "s.json"), "schema"),
						c11Doc(c11Resolve(base, "d.json"), kid(c11With(c11NewEl("schema", ""), kid(c11NewEl("schema", "t.json"), "items")), "components", "schemas", "A")),
						c11Elem(c11Resolve(base, "t.json"), "schema"))
				}
				aEntry := "file"
				orders := [][]map[string]any{
					{c11Step(aEntry, aLoc, al[0]), c11Step("data", bLoc, al[1])},
					{c11Step("dataWithPath", aLoc, al[0]), c11Step("data", bLoc, al[1])},
					{c11Step(aEntry, aLoc, al[0]), c11Step("reader", bLoc, al[1])},
					{c11Step("data", bLoc, al[0]), c11Step(aEntry, aLoc, al[1])},
					{c11Step(aEntry, aLoc, al[0]), c11Step(aEntry, aLoc, al[1])},
					{c11Step(aEntry, aLoc, al[0]), c11Step("dataWithPath", bLoc, al[1])},
					{c11Step(aEntry, aLoc, al[0]), c11Step("data", bLoc, al[1]), c11Step("dataWithPath", aLoc, al[0])},
					{c11Step("dataWithPath", bLoc, al[0]), c11Step("file", bLoc, al[1]), c11Step("data", bLoc, al[1])},
				}
				if al[1] == false {
					// the switch changes between calls and the later call is the exported ResolveRefsIn, called directly (switch off)
					for _, o := range [][]map[string]any{
						{c11Step(aEntry, aLoc, al[0]), c11Step("resolveIn", bLoc, false)},
						{c11Step("dataWithPath", aLoc, al[0]), c11Step("resolveIn", bLoc, false)},
						{c11Step("data", bLoc, al[0]), c11Step("resolveIn", aLoc, false)},
						{c11Step(aEntry, aLoc, al[0]), c11Step("resolveIn", aLoc, false), c11Step("data", bLoc, true)},
						{c11Step("resolveIn", bLoc, false), c11Step(aEntry, aLoc, true), c11Step("resolveIn", bLoc, false)},
					} {
						if c := c11HistCase(files, o...); c != nil {
							emit(c)
						}
					}
				}
				for _, o := range orders {
					i++
					if !ctx.Thorough() && i%3 != 0 {
						continue
					}
					if c := c11HistCase(files, o...); c != nil {
						emit(c)
					}
				}
			}
		}
	}
}

// c11RandomHistory: a random universe, two or three loads whose roots are documents of the universe
func c11RandomHistory(r *hx.Rng) hx.Case {
	base := c11RandomCase(r)
	g, _ := base["g"].(map[string]any)
	files := jlist(g["files"])
	docs := []string{}
	for _, fa := range files {
		f, _ := fa.(map[string]any)
		if jstr(f, "view") == "doc" {
			docs = append(docs, jstr(f, "loc"))
		}
	}
	if len(docs) == 0 {
		return nil
	}
	n := 2 + r.Intn(2)
	steps := []map[string]any{}
	allowed := r.Chance(60)
	for k := 0; k < n; k++ {
		if r.Chance(25) {
			allowed = !allowed
		}
		loc := docs[0]
		if r.Chance(50) {
			loc = hx.Pick(r, docs)
		}
		steps = append(steps, c11Step(hx.Pick(r, []string{"file", "file", "dataWithPath", "data", "data", "reader"}), loc, allowed))
	}
	return c11HistCase(files, steps...)
}

func shrinkC11History(c hx.Case) []hx.Case {
	var out []hx.Case
	g0, _ := c["g"].(map[string]any)
	steps := jlist(g0["steps"])
	try := func(mut func(g map[string]any)) {
		g := c11_deepCopy(g0).(map[string]any)
		mut(g)
		if d := c11DeriveHistory(hx.Case{"g": g}); d != nil {
			out = append(out, d)
		}
	}
	if len(steps) > 1 {
		for i := range steps {
			i := i
			try(func(g map[string]any) {
				ss := jlist(g["steps"])
				g["steps"] = append(append([]any{}, ss[:i]...), ss[i+1:]...)
			})
		}
	}
	files := jlist(g0["files"])
	for i := range files {
		i := i
		try(func(g map[string]any) {
			fs := jlist(g["files"])
			g["files"] = append(append([]any{}, fs[:i]...), fs[i+1:]...)
		})
	}
	for fi := range files {
		fi := fi
		f, _ := files[fi].(map[string]any)
		root, _ := f["root"].(map[string]any)
		if root == nil {
			continue
		}
		var pos [][]int
		c11Positions(root, nil, &pos)
		for _, p := range pos {
			p := p
			try(func(g map[string]any) {
				r := jlist(g["files"])[fi].(map[string]any)["root"].(map[string]any)
				par := c11At(r, p[:len(p)-1])
				ks := jlist(par["kids"])
				par["kids"] = append(append([]any{}, ks[:p[len(p)-1]]...), ks[p[len(p)-1]+1:]...)
			})
		}
	}
	return out
}
