package main

// C16 — internalising refs yields a self-contained, equivalent document.
// Real code exercised: openapi3.Loader (external refs allowed, in-memory ReadFromURIFunc),
// (*openapi3.T).InternalizeRefs with the default name resolver, (*T).MarshalJSON, a second Loader
// with external refs DISALLOWED, (*T).Validate, openapi3filter.ValidateRequest / ValidateResponse.
//
// A case is {root, files, heap, reqs}. `heap` is the abstraction of the loaded root document (ref cells
// with their $ref text and RefPath, shared values, path items) on which the Lean model of InternalizeRefs
// runs. It is produced from the real loader when the case is generated and RE-DERIVED by Run on every
// evaluation: a difference is reported as an observation (heap_mismatch) and breaks the correspondence.

import (
	"context"
	"crypto/sha256"
	"encoding/hex"
	"encoding/json"
	"fmt"
	"net/http"
	"net/url"
	"os"
	"path"
	"reflect"
	"sort"
	"strings"

	"github.com/getkin/kin-openapi/openapi3"
	"github.com/getkin/kin-openapi/openapi3filter"
	"github.com/getkin/kin-openapi/routers"

	"kinverif/internal/hx"
)

// ---------------------------------------------------------------- heap abstraction

type c16Cell struct {
	K     string `json:"k"`     // collection name (schemas, parameters, …)
	Ref   string `json:"ref"`   // $ref text
	HasRP bool   `json:"hasrp"` // RefPath() != nil
	RPP   string `json:"rpp"`   // RefPath().Path
	RPF   string `json:"rpf"`   // RefPath().Fragment
	Val   int    `json:"val"`   // value id, -1 = nil Value
}

type c16MT struct {
	Schema int     `json:"schema"`
	Ex     []int   `json:"ex"`
	Enc    [][]int `json:"enc"`
}

type c16Op struct {
	RB     int   `json:"rb"`
	Cbs    []int `json:"cbs"`
	Resps  []int `json:"resps"`
	Params []int `json:"params"`
}

type c16PI struct {
	Ref    string  `json:"ref"`
	Params []int   `json:"params"`
	Ops    []c16Op `json:"ops"`
}

type c16Val struct {
	T       string  `json:"t"`  // S schema, P parameter/header, R response, B request body, C callback, X leaf
	CC      string  `json:"cc"` // content class (hash of the bounded unfolding of the resolved content)
	Ch      []int   `json:"ch"`
	Schema  int     `json:"schema"`
	Content []c16MT `json:"content"`
	Headers []int   `json:"headers"`
	Links   []int   `json:"links"`
	Items   []int   `json:"items"` // path item ids of a callback
	Pex     []int   `json:"pex"`   // Examples of a parameter / header: resolved by the loader, not visited by InternalizeRefs
	Dmap    []c16DM `json:"dmap"`  // discriminator mapping entries that select a oneOf alternative by its $ref text
}

type c16DM struct {
	T string `json:"t"`
	C int    `json:"c"`
}

type c16Named struct {
	N string `json:"n"`
	C int    `json:"c"`
}

type c16Heap struct {
	Root    string                `json:"root"`
	HasURL  bool                  `json:"hasurl"`
	Cells   []c16Cell             `json:"cells"`
	Vals    []c16Val              `json:"vals"`
	PIs     []c16PI               `json:"pis"`
	Comps   map[string][]c16Named `json:"comps"`
	Paths   []int                 `json:"paths"`
	HasComp bool                  `json:"hascomp"`
	Valid   bool                  `json:"valid"` // verdict of Validate on the loaded document (oracle bit of the model)
}

var c16Kinds = []string{"schemas", "parameters", "headers", "requestBodies", "responses", "securitySchemes", "examples", "links", "callbacks"}

type c16X struct {
	h       *c16Heap
	cellID  map[any]int
	valID   map[any]int
	piID    map[*openapi3.PathItem]int
	cellPtr []any
	piPtr   []*openapi3.PathItem
}

func c16_sortedKeys[E any](m map[string]E) []string {
	out := make([]string, 0, len(m))
	for k := range m {
		out = append(out, k)
	}
	sort.Strings(out)
	return out
}

func (x *c16X) newCell(ptr any, k, ref string, rp *url.URL) (int, bool) {
	if id, ok := x.cellID[ptr]; ok {
		return id, false
	}
	id := len(x.h.Cells)
	x.cellID[ptr] = id
	c := c16Cell{K: k, Ref: ref, Val: -1}
	if rp != nil {
		c.HasRP, c.RPP, c.RPF = true, rp.Path, rp.Fragment
	}
	x.h.Cells = append(x.h.Cells, c)
	x.cellPtr = append(x.cellPtr, ptr)
	return id, true
}

func (x *c16X) newVal(ptr any, t string) (int, bool) {
	if id, ok := x.valID[ptr]; ok {
		return id, false
	}
	id := len(x.h.Vals)
	x.valID[ptr] = id
	x.h.Vals = append(x.h.Vals, c16Val{T: t, Schema: -1, Ch: []int{}, Content: []c16MT{}, Headers: []int{}, Links: []int{}, Items: []int{}, Pex: []int{}, Dmap: []c16DM{}})
	return id, true
}

func (x *c16X) addComp(k, n string, c int) {
	if c >= 0 {
		x.h.Comps[k] = append(x.h.Comps[k], c16Named{n, c})
	}
}

// c16App appends a cell / path item id; nil entries (id -1) are skipped, as the descent skips them
func c16App(l []int, id int) []int {
	if id < 0 {
		return l
	}
	return append(l, id)
}

func (x *c16X) schemaCell(s *openapi3.SchemaRef) int {
	if s == nil {
		return -1
	}
	id, fresh := x.newCell(s, "schemas", s.Ref, s.RefPath())
	if fresh {
		v := x.schemaVal(s.Value)
		x.h.Cells[id].Val = v
	}
	return id
}

func (x *c16X) schemaVal(s *openapi3.Schema) int {
	if s == nil {
		return -1
	}
	id, fresh := x.newVal(s, "S")
	if !fresh {
		return id
	}
	ch := []int{}
	add := func(r *openapi3.SchemaRef) {
		if c := x.schemaCell(r); c >= 0 {
			ch = append(ch, c)
		}
	}
	for _, l := range []openapi3.SchemaRefs{s.AllOf, s.AnyOf, s.OneOf} {
		for _, r := range l {
			add(r)
		}
	}
	for _, n := range c16_sortedKeys(s.Properties) {
		add(s.Properties[n])
	}
	add(s.Not)
	add(s.AdditionalProperties.Schema)
	add(s.Items)
	x.h.Vals[id].Ch = ch
	if d := s.Discriminator; d != nil {
		dm := []c16DM{}
		for _, k := range c16_sortedKeys(d.Mapping) {
			for _, r := range s.OneOf {
				if r != nil && d.Mapping[k] != "" && r.Ref == d.Mapping[k] {
					dm = append(dm, c16DM{d.Mapping[k], x.schemaCell(r)})
				}
			}
		}
		x.h.Vals[id].Dmap = dm
	}
	return id
}

func (x *c16X) content(c openapi3.Content) []c16MT {
	out := []c16MT{}
	for _, n := range c16_sortedKeys(c) {
		mt := c[n]
		if mt == nil {
			continue
		}
		m := c16MT{Schema: x.schemaCell(mt.Schema), Ex: []int{}, Enc: [][]int{}}
		for _, en := range c16_sortedKeys(mt.Examples) {
			m.Ex = c16App(m.Ex, x.exampleCell(mt.Examples[en]))
		}
		for _, en := range c16_sortedKeys(mt.Encoding) {
			e := mt.Encoding[en]
			hs := []int{}
			if e != nil {
				for _, hn := range c16_sortedKeys(e.Headers) {
					hs = c16App(hs, x.headerCell(e.Headers[hn]))
				}
			}
			if e != nil {
				m.Enc = append(m.Enc, hs)
			}
		}
		out = append(out, m)
	}
	return out
}

func (x *c16X) leafCell(ptr any, k, ref string, rp *url.URL, val any, isNil bool) int {
	id, fresh := x.newCell(ptr, k, ref, rp)
	if fresh && !isNil {
		v, _ := x.newVal(val, "X")
		x.h.Cells[id].Val = v
	}
	return id
}

func (x *c16X) exampleCell(e *openapi3.ExampleRef) int {
	if e == nil {
		return -1
	}
	return x.leafCell(e, "examples", e.Ref, e.RefPath(), e.Value, e.Value == nil)
}
func (x *c16X) linkCell(e *openapi3.LinkRef) int {
	if e == nil {
		return -1
	}
	return x.leafCell(e, "links", e.Ref, e.RefPath(), e.Value, e.Value == nil)
}
func (x *c16X) secCell(e *openapi3.SecuritySchemeRef) int {
	if e == nil {
		return -1
	}
	return x.leafCell(e, "securitySchemes", e.Ref, e.RefPath(), e.Value, e.Value == nil)
}

func (x *c16X) paramFill(id int, p *openapi3.Parameter) {
	x.h.Vals[id].Schema = x.schemaCell(p.Schema)
	x.h.Vals[id].Content = x.content(p.Content)
	pex := []int{}
	for _, n := range c16_sortedKeys(p.Examples) {
		pex = c16App(pex, x.exampleCell(p.Examples[n]))
	}
	x.h.Vals[id].Pex = pex
}

func (x *c16X) headerCell(h *openapi3.HeaderRef) int {
	if h == nil {
		return -1
	}
	id, fresh := x.newCell(h, "headers", h.Ref, h.RefPath())
	if fresh && h.Value != nil {
		v, fv := x.newVal(h.Value, "P")
		x.h.Cells[id].Val = v
		if fv {
			x.paramFill(v, &h.Value.Parameter)
		}
	}
	return id
}

func (x *c16X) paramCell(p *openapi3.ParameterRef) int {
	if p == nil {
		return -1
	}
	id, fresh := x.newCell(p, "parameters", p.Ref, p.RefPath())
	if fresh && p.Value != nil {
		v, fv := x.newVal(p.Value, "P")
		x.h.Cells[id].Val = v
		if fv {
			x.paramFill(v, p.Value)
		}
	}
	return id
}

func (x *c16X) reqBodyCell(r *openapi3.RequestBodyRef) int {
	if r == nil {
		return -1
	}
	id, fresh := x.newCell(r, "requestBodies", r.Ref, r.RefPath())
	if fresh && r.Value != nil {
		v, fv := x.newVal(r.Value, "B")
		x.h.Cells[id].Val = v
		if fv {
			x.h.Vals[v].Content = x.content(r.Value.Content)
		}
	}
	return id
}

func (x *c16X) responseCell(r *openapi3.ResponseRef) int {
	if r == nil {
		return -1
	}
	id, fresh := x.newCell(r, "responses", r.Ref, r.RefPath())
	if fresh && r.Value != nil {
		v, fv := x.newVal(r.Value, "R")
		x.h.Cells[id].Val = v
		if fv {
			hs := []int{}
			for _, n := range c16_sortedKeys(r.Value.Headers) {
				hs = c16App(hs, x.headerCell(r.Value.Headers[n]))
			}
			x.h.Vals[v].Headers = hs
			x.h.Vals[v].Content = x.content(r.Value.Content)
			ls := []int{}
			for _, n := range c16_sortedKeys(r.Value.Links) {
				ls = c16App(ls, x.linkCell(r.Value.Links[n]))
			}
			x.h.Vals[v].Links = ls
		}
	}
	return id
}

func (x *c16X) callbackCell(c *openapi3.CallbackRef) int {
	if c == nil {
		return -1
	}
	id, fresh := x.newCell(c, "callbacks", c.Ref, c.RefPath())
	if fresh && c.Value != nil {
		v, fv := x.newVal(c.Value, "C")
		x.h.Cells[id].Val = v
		if fv {
			m := c.Value.Map()
			items := []int{}
			for _, n := range c16_sortedKeys(m) {
				items = c16App(items, x.pathItem(m[n]))
			}
			x.h.Vals[v].Items = items
		}
	}
	return id
}

func (x *c16X) pathItem(pi *openapi3.PathItem) int {
	if pi == nil {
		return -1
	}
	if id, ok := x.piID[pi]; ok {
		return id
	}
	id := len(x.h.PIs)
	x.piID[pi] = id
	x.h.PIs = append(x.h.PIs, c16PI{Ref: pi.Ref, Params: []int{}, Ops: []c16Op{}})
	x.piPtr = append(x.piPtr, pi)
	ps := []int{}
	for _, p := range pi.Parameters {
		ps = c16App(ps, x.paramCell(p))
	}
	ops := []c16Op{}
	om := pi.Operations()
	for _, n := range c16_sortedKeys(om) {
		op := om[n]
		o := c16Op{RB: x.reqBodyCell(op.RequestBody), Cbs: []int{}, Resps: []int{}, Params: []int{}}
		for _, cn := range c16_sortedKeys(op.Callbacks) {
			o.Cbs = c16App(o.Cbs, x.callbackCell(op.Callbacks[cn]))
		}
		if op.Responses != nil {
			rm := op.Responses.Map()
			for _, rn := range c16_sortedKeys(rm) {
				o.Resps = c16App(o.Resps, x.responseCell(rm[rn]))
			}
		}
		for _, p := range op.Parameters {
			o.Params = c16App(o.Params, x.paramCell(p))
		}
		ops = append(ops, o)
	}
	x.h.PIs[id].Params = ps
	x.h.PIs[id].Ops = ops
	return id
}

// c16Extract walks the loaded document in the order InternalizeRefs does and numbers ref cells, values
// and path items by pointer identity.
func c16Extract(doc *openapi3.T, root string, hasURL bool) *c16X {
	x := &c16X{h: &c16Heap{Root: root, HasURL: hasURL, Cells: []c16Cell{}, Vals: []c16Val{}, PIs: []c16PI{}, Comps: map[string][]c16Named{}, Paths: []int{}},
		cellID: map[any]int{}, valID: map[any]int{}, piID: map[*openapi3.PathItem]int{}}
	for _, k := range c16Kinds {
		x.h.Comps[k] = []c16Named{}
	}
	if c := doc.Components; c != nil {
		x.h.HasComp = true
		for _, n := range c16_sortedKeys(c.Schemas) {
			x.addComp("schemas", n, x.schemaCell(c.Schemas[n]))
		}
		for _, n := range c16_sortedKeys(c.Parameters) {
			x.addComp("parameters", n, x.paramCell(c.Parameters[n]))
		}
		for _, n := range c16_sortedKeys(c.Headers) {
			x.addComp("headers", n, x.headerCell(c.Headers[n]))
		}
		for _, n := range c16_sortedKeys(c.RequestBodies) {
			x.addComp("requestBodies", n, x.reqBodyCell(c.RequestBodies[n]))
		}
		for _, n := range c16_sortedKeys(c.Responses) {
			x.addComp("responses", n, x.responseCell(c.Responses[n]))
		}
		for _, n := range c16_sortedKeys(c.SecuritySchemes) {
			x.addComp("securitySchemes", n, x.secCell(c.SecuritySchemes[n]))
		}
		for _, n := range c16_sortedKeys(c.Examples) {
			x.addComp("examples", n, x.exampleCell(c.Examples[n]))
		}
		for _, n := range c16_sortedKeys(c.Links) {
			x.addComp("links", n, x.linkCell(c.Links[n]))
		}
		for _, n := range c16_sortedKeys(c.Callbacks) {
			x.addComp("callbacks", n, x.callbackCell(c.Callbacks[n]))
		}
	}
	if doc.Paths != nil {
		m := doc.Paths.Map()
		for _, n := range c16_sortedKeys(m) {
			x.h.Paths = c16App(x.h.Paths, x.pathItem(m[n]))
		}
	}
	// content classes
	inv := make([]any, len(x.h.Vals))
	for p, id := range x.valID {
		inv[id] = p
	}
	for i := range x.h.Vals {
		x.h.Vals[i].CC = c16Hash(c16Deep(reflect.ValueOf(inv[i]), 6))
	}
	return x
}

// ---------------------------------------------------------------- resolved content (bounded unfolding)

func c16Hash(v any) string {
	b, _ := json.Marshal(v)
	s := sha256.Sum256(b)
	return hex.EncodeToString(s[:6])
}

var (
	tPaths     = reflect.TypeOf(&openapi3.Paths{})
	tResponses = reflect.TypeOf(&openapi3.Responses{})
	tCallback  = reflect.TypeOf(&openapi3.Callback{})
	tPathItem  = reflect.TypeOf(openapi3.PathItem{})
	tSchema    = reflect.TypeOf(openapi3.Schema{})
)

// c16MapSel: which oneOf alternatives each discriminator mapping key selects (visitXOFOperations compares the mapping
// value with the alternative's $ref text). The texts themselves are not content: only what they select is.
func c16MapSel(s *openapi3.Schema) any {
	out := map[string]any{"propertyName": s.Discriminator.PropertyName}
	for k, m := range s.Discriminator.Mapping {
		sel := []any{}
		for i, r := range s.OneOf {
			if r != nil && r.Ref == m {
				sel = append(sel, i)
			}
		}
		out["selects "+k] = sel
	}
	return out
}

// c16Deep is the content a position resolves to: every reference is replaced by the content of its
// resolved Value, `hops` references deep (beyond that: "…"); $ref texts, origins and component names
// of targets do not occur in it.
func c16Deep(v reflect.Value, hops int) any {
	if !v.IsValid() {
		return nil
	}
	switch v.Type() {
	case tPaths:
		if v.IsNil() {
			return nil
		}
		return c16DeepMap(reflect.ValueOf(v.Interface().(*openapi3.Paths).Map()), hops)
	case tResponses:
		if v.IsNil() {
			return nil
		}
		return c16DeepMap(reflect.ValueOf(v.Interface().(*openapi3.Responses).Map()), hops)
	case tCallback:
		if v.IsNil() {
			return nil
		}
		return c16DeepMap(reflect.ValueOf(v.Interface().(*openapi3.Callback).Map()), hops)
	}
	switch v.Kind() {
	case reflect.Ptr, reflect.Interface:
		if v.IsNil() {
			return nil
		}
		return c16Deep(v.Elem(), hops)
	case reflect.Struct:
		t := v.Type()
		if rf, ok := t.FieldByName("Ref"); ok && rf.Type.Kind() == reflect.String {
			if _, ok2 := t.FieldByName("Value"); ok2 {
				ref := v.FieldByName("Ref").String()
				val := v.FieldByName("Value")
				if val.IsNil() {
					if ref == "" {
						return nil
					}
					return map[string]any{"$unresolved": true}
				}
				// every ref-or-value position counts one level, whether it is written as a $ref or inline
				// (InternalizeRefs inlines top-level components and path items): the unfolding is cut at the
				// same place before and after
				_ = ref
				if hops <= 0 {
					return "…"
				}
				return c16Deep(val, hops-1)
			}
		}
		out := map[string]any{}
		for i := 0; i < t.NumField(); i++ {
			f := t.Field(i)
			if f.PkgPath != "" || f.Name == "Origin" {
				continue
			}
			if t == tPathItem && f.Name == "Ref" {
				continue
			}
			if t == tSchema && f.Name == "Discriminator" {
				if sc := v.Interface().(openapi3.Schema); sc.Discriminator != nil {
					out["Discriminator"] = c16MapSel(&sc)
				}
				continue
			}
			fv := v.Field(i)
			if fv.IsZero() {
				continue
			}
			if d := c16Deep(fv, hops); d != nil {
				out[f.Name] = d
			}
		}
		if len(out) == 0 {
			return nil
		}
		return out
	case reflect.Map:
		return c16DeepMap(v, hops)
	case reflect.Slice, reflect.Array:
		if v.Type().Elem().Kind() == reflect.Uint8 {
			return fmt.Sprintf("%s", v.Interface())
		}
		out := []any{}
		for i := 0; i < v.Len(); i++ {
			out = append(out, c16Deep(v.Index(i), hops))
		}
		return out
	case reflect.Func, reflect.Chan:
		return nil
	default:
		return v.Interface()
	}
}

func c16DeepMap(v reflect.Value, hops int) any {
	if v.Len() == 0 {
		return nil
	}
	out := map[string]any{}
	it := v.MapRange()
	for it.Next() {
		out[fmt.Sprint(it.Key().Interface())] = c16Deep(it.Value(), hops)
	}
	return out
}

// ---------------------------------------------------------------- loading

func c16Files(c hx.Case) map[string][]byte {
	out := map[string][]byte{}
	if m, ok := c["files"].(map[string]any); ok {
		for k, v := range m {
			b, _ := json.Marshal(v)
			out[k] = b
		}
	}
	return out
}

func c16Load(files map[string][]byte, root string, external bool) (*openapi3.T, error) {
	l := openapi3.NewLoader()
	l.IsExternalRefsAllowed = external
	l.ReadFromURIFunc = func(_ *openapi3.Loader, u *url.URL) ([]byte, error) {
		if b, ok := files[u.Path]; ok {
			return b, nil
		}
		return nil, fmt.Errorf("no such file %q", u.Path)
	}
	return l.LoadFromURI(&url.URL{Path: root})
}

// ---------------------------------------------------------------- observation

func c16ExternalLeft(v any, out *[]string) {
	switch x := v.(type) {
	case map[string]any:
		for k, y := range x {
			if k == "$ref" {
				if s, ok := y.(string); ok && !strings.HasPrefix(s, "#/components/") {
					*out = append(*out, s)
				}
				continue
			}
			c16ExternalLeft(y, out)
		}
	case []any:
		for _, y := range x {
			c16ExternalLeft(y, out)
		}
	}
}

func c16CompNames(doc *openapi3.T) map[string][]string {
	out := map[string][]string{}
	for _, k := range c16Kinds {
		out[k] = []string{}
	}
	c := doc.Components
	if c == nil {
		return out
	}
	out["schemas"] = c16_sortedKeys(c.Schemas)
	out["parameters"] = c16_sortedKeys(c.Parameters)
	out["headers"] = c16_sortedKeys(c.Headers)
	out["requestBodies"] = c16_sortedKeys(c.RequestBodies)
	out["responses"] = c16_sortedKeys(c.Responses)
	out["securitySchemes"] = c16_sortedKeys(c.SecuritySchemes)
	out["examples"] = c16_sortedKeys(c.Examples)
	out["links"] = c16_sortedKeys(c.Links)
	out["callbacks"] = c16_sortedKeys(c.Callbacks)
	return out
}

// content of everything the ORIGINAL document names: paths and its own components
func c16DocContent(doc *openapi3.T, only map[string][]string) map[string]any {
	const hops = 8
	out := map[string]any{"paths": c16Deep(reflect.ValueOf(doc.Paths), hops)}
	c := doc.Components
	if c == nil {
		return out
	}
	get := func(k, n string) any {
		switch k {
		case "schemas":
			return c.Schemas[n]
		case "parameters":
			return c.Parameters[n]
		case "headers":
			return c.Headers[n]
		case "requestBodies":
			return c.RequestBodies[n]
		case "responses":
			return c.Responses[n]
		case "securitySchemes":
			return c.SecuritySchemes[n]
		case "examples":
			return c.Examples[n]
		case "links":
			return c.Links[n]
		default:
			return c.Callbacks[n]
		}
	}
	for k, ns := range only {
		for _, n := range ns {
			out[k+"/"+n] = c16Deep(reflect.ValueOf(get(k, n)), hops)
		}
	}
	return out
}

var c16Bodies = []string{`{"id":"abc"}`, `{"id":7}`, `"s"`, `"a-long-long-long-long-long-long-long-string"`, `5`, `500`, `{"p":{"q":"x"},"q":1}`, `{"p":3,"q":"y"}`, `[1,"a"]`, `{}`, `null`, `{"p":[{"p":1}]}`}
var c16ParamVals = []string{"5", "500", "abc", "a-long-long-long-long-long-long-long-string"}

// verdicts of request and response validation for every operation of the paths section
func c16Verdicts(doc *openapi3.T) []string {
	out := []string{}
	if doc.Paths == nil {
		return out
	}
	m := doc.Paths.Map()
	for _, pn := range c16_sortedKeys(m) {
		pi := m[pn]
		if pi == nil {
			continue
		}
		om := pi.Operations()
		for _, method := range c16_sortedKeys(om) {
			op := om[method]
			for bi, body := range c16Bodies {
				pv := c16ParamVals[bi%len(c16ParamVals)]
				verdict := func() (res string) {
					defer func() {
						if r := recover(); r != nil {
							res = "panic"
						}
					}()
					req, _ := http.NewRequest(method, "http://example.com"+pn, strings.NewReader(body))
					req.Header.Set("Content-Type", "application/json")
					q := url.Values{}
					pp := map[string]string{}
					for _, l := range []openapi3.Parameters{pi.Parameters, op.Parameters} {
						for _, p := range l {
							if p == nil || p.Value == nil {
								continue
							}
							switch p.Value.In {
							case "query":
								q.Set(p.Value.Name, pv)
							case "header":
								req.Header.Set(p.Value.Name, pv)
							case "path":
								pp[p.Value.Name] = pv
							case "cookie":
								req.AddCookie(&http.Cookie{Name: p.Value.Name, Value: pv})
							}
						}
					}
					req.URL.RawQuery = q.Encode()
					in := &openapi3filter.RequestValidationInput{Request: req, PathParams: pp,
						Route:   &routers.Route{Spec: doc, Path: pn, PathItem: pi, Method: method, Operation: op},
						Options: &openapi3filter.Options{AuthenticationFunc: openapi3filter.NoopAuthenticationFunc}}
					r1 := openapi3filter.ValidateRequest(context.Background(), in) == nil
					hdr := http.Header{"Content-Type": []string{"application/json"}}
					for _, hn := range []string{"H", "X-A", "X-B"} {
						hdr.Set(hn, pv)
					}
					rin := &openapi3filter.ResponseValidationInput{RequestValidationInput: in, Status: 200, Header: hdr,
						Options: &openapi3filter.Options{IncludeResponseStatus: true}}
					rin.SetBodyBytes([]byte(body))
					r2 := openapi3filter.ValidateResponse(context.Background(), rin) == nil
					return fmt.Sprintf("%v/%v", r1, r2)
				}()
				out = append(out, fmt.Sprintf("%s %s #%d %s", method, pn, bi, verdict))
			}
		}
	}
	return out
}

// c16Cyclic: does the (internalised) Go object graph contain a cycle of path items and callbacks none of which is
// serialised as a $ref?
func c16Cyclic(x *c16X) bool {
	onStack := map[*openapi3.PathItem]bool{}
	done := map[*openapi3.PathItem]bool{}
	var visit func(pi *openapi3.PathItem) bool
	visit = func(pi *openapi3.PathItem) bool {
		if pi == nil || pi.Ref != "" || done[pi] {
			return false
		}
		if onStack[pi] {
			return true
		}
		onStack[pi] = true
		for _, op := range pi.Operations() {
			for _, cb := range op.Callbacks {
				if cb == nil || cb.Ref != "" || cb.Value == nil {
					continue
				}
				for _, q := range cb.Value.Map() {
					if visit(q) {
						return true
					}
				}
			}
		}
		onStack[pi] = false
		done[pi] = true
		return false
	}
	for _, pi := range x.piPtr {
		if visit(pi) {
			return true
		}
	}
	return false
}

func c16ReadRefs(x *c16X) []string {
	out := make([]string, len(x.cellPtr))
	for i, p := range x.cellPtr {
		out[i] = reflect.ValueOf(p).Elem().FieldByName("Ref").String()
	}
	return out
}

func runC16(c hx.Case) any {
	files := c16Files(c)
	root, _ := c["root"].(string)
	ctx := context.Background()
	obs := map[string]any{}
	doc0, err := c16Load(files, root, true)
	if err != nil {
		return map[string]any{"kind": "noload", "loaderr": err.Error()}
	}
	doc, err := c16Load(files, root, true)
	if err != nil {
		return map[string]any{"kind": "noload", "loaderr": err.Error()}
	}
	x := c16Extract(doc, root, true)
	x.h.Valid = doc0.Validate(ctx, openapi3.DisableExamplesValidation()) == nil
	if want, ok := c["heap"]; ok {
		got := hx.Canon(normalizeJSON(x.h))
		if got != hx.Canon(want) {
			obs["heap_mismatch"] = true
		}
	} else {
		obs["heap_mismatch"] = true
	}
	valid0 := doc0.Validate(ctx, openapi3.DisableExamplesValidation()) == nil
	names0 := c16CompNames(doc0)
	content0 := c16DocContent(doc0, names0)
	verd0 := c16Verdicts(doc0)

	var pan any
	func() {
		defer func() {
			if r := recover(); r != nil {
				pan = fmt.Sprint(r)
			}
		}()
		doc.InternalizeRefs(ctx, nil)
	}()
	if pan != nil {
		obs["kind"] = "panic"
		obs["ipanic"] = true
		obs["panicmsg"] = pan
		return obs
	}
	obs["ipanic"] = false
	obs["refs"] = c16ReadRefs(x)
	pirefs := make([]string, len(x.piPtr))
	for i, p := range x.piPtr {
		pirefs[i] = p.Ref
	}
	obs["pirefs"] = pirefs
	obs["comps"] = c16CompNames(doc)
	// the reuse dimension: a SECOND call of InternalizeRefs on the same object (made only after everything the first
	// call is judged by has been read or serialised): final $ref texts, path item refs and component names after it
	c16second := func() {
		var pan2 any
		func() {
			defer func() {
				if r := recover(); r != nil {
					pan2 = fmt.Sprint(r)
				}
			}()
			doc.InternalizeRefs(ctx, nil)
		}()
		if pan2 != nil {
			obs["ipanic2"] = true
			obs["panicmsg2"] = pan2
			return
		}
		obs["ipanic2"] = false
		obs["refs2"] = c16ReadRefs(x)
		pirefs2 := make([]string, len(x.piPtr))
		for i, p := range x.piPtr {
			pirefs2[i] = p.Ref
		}
		obs["pirefs2"] = pirefs2
		obs["comps2"] = c16CompNames(doc)
	}
	if c16Cyclic(x) {
		c16second()
		// a path item written out in full that is reached again through callbacks written out in full: the document is
		// an infinite tree; MarshalJSON would overflow the stack (fatal, not recoverable)
		obs["kind"] = "cyclic"
		obs["cyclic"] = true
		return obs
	}
	obs["cyclic"] = false
	var data []byte
	func() {
		defer func() {
			if r := recover(); r != nil {
				err = fmt.Errorf("MarshalJSON panicked: %v", r)
			}
		}()
		data, err = doc.MarshalJSON()
	}()
	c16second()
	if err != nil {
		obs["kind"] = "nomarshal"
		obs["marshal_ok"] = false
		return obs
	}
	obs["marshal_ok"] = true
	if os.Getenv("VERIF_C16_STATS") != "" {
		obs["data"] = string(data)
	}
	var tree any
	json.Unmarshal(data, &tree)
	left := []string{}
	c16ExternalLeft(tree, &left)
	sort.Strings(left)
	obs["external_left"] = left
	doc2, err := c16Load(map[string][]byte{"/internalized.json": data}, "/internalized.json", false)
	if err != nil {
		obs["kind"] = "noreload"
		obs["reload_ok"] = false
		obs["reloaderr"] = err.Error()
		return obs
	}
	obs["reload_ok"] = true
	valid2 := doc2.Validate(ctx, openapi3.DisableExamplesValidation()) == nil
	obs["valid_before"] = valid0
	obs["valid_after"] = valid2
	content2 := c16DocContent(doc2, names0)
	ceq := hx.Canon(content0) == hx.Canon(content2)
	obs["content_equal"] = ceq
	if !ceq {
		diff := []string{}
		for k, v := range content0 {
			if hx.Canon(v) != hx.Canon(content2[k]) {
				diff = append(diff, k)
			}
		}
		sort.Strings(diff)
		obs["content_diff"] = diff
	}
	verd2 := c16Verdicts(doc2)
	veq := len(verd0) == len(verd2)
	for i := 0; veq && i < len(verd0); i++ {
		veq = verd0[i] == verd2[i]
	}
	obs["verdicts_equal"] = veq
	obs["verdicts_compared"] = len(verd0)
	if ceq && veq && valid0 == valid2 && len(left) == 0 {
		obs["kind"] = "ok"
	} else {
		obs["kind"] = "differs"
	}
	return obs
}

func normalizeJSON(v any) any {
	b, _ := json.Marshal(v)
	var out any
	dec := json.NewDecoder(strings.NewReader(string(b)))
	dec.UseNumber()
	dec.Decode(&out)
	return out
}

var _ = path.Join

// ---------------------------------------------------------------- layout builder

// c16B builds a multi-file layout from a sequence of decisions. In exhaustive mode the decisions come
// from a finite tape (after its end: always 0, the simplest alternative); in random mode from the rng.
type c16B struct {
	tape  []int
	pos   int
	r     *hx.Rng
	files map[string]any
	root  string
	defs  []string // openapi-shaped documents (root first)
	ctr   int
	whole map[string][]string    // kind -> whole-file targets created
	comps map[string][][2]string // kind -> (doc, name) components created
	over  bool                   // tape exhausted at least once
	hasX       bool              // the root has an inline path item /x
	pathSchema bool              // the root has /y with an inline response schema that can be referenced by pointer
	inner   []string             // whole-file schema targets that have a referable inner element
	overN   int                  // arity of the first decision asked after the end of the tape
	top     bool                 // the slot being filled is a root component
	noReuse int                  // >0 inside allOf: no reference to possibly unfinished ancestors (unguarded recursion is C10's finding #6)
	force   string               // focused layouts: the feature every eligible position gets
	focus   bool                 // focused layouts: only decisions taken while `live` read the tape, all others are 0
	live    bool
	used    bool                 // the forced feature was built at least once
}

// c16Features: positions and shapes beyond the basic builder. In the random stream each is switched on now and then;
// the focused family enumerates, for each, all decisions of the reference placed there.
var c16Features = []string{"mtnoschema", "pichainfile", "pex", "hex", "hcontent", "enc", "disc", "nullmt", "pichain", "pielem", "cbcycle", "toplink", "topexample", "topsec", "topheader", "topresponse"}

func (b *c16B) want(f string, oneIn int) bool {
	if b.focus {
		if b.force == f {
			b.used = true
			return true
		}
		return false
	}
	if b.r != nil {
		return b.r.Intn(oneIn) == 0
	}
	return false
}

// liveSlot fills the position the focused layout is about: its decisions are the ones enumerated
func (b *c16B) liveSlot(kind, file string, depth int) any {
	old := b.live
	b.live = true
	v := b.slot(kind, file, depth)
	b.live = old
	return v
}

func (b *c16B) choose(n int) int {
	if n <= 1 {
		return 0
	}
	if b.focus && !b.live {
		return 0
	}
	if b.r != nil {
		return b.r.Intn(n)
	}
	if b.pos < len(b.tape) {
		v := b.tape[b.pos]
		b.pos++
		if v >= n {
			v = n - 1
		}
		return v
	}
	if !b.over {
		b.over = true
		b.overN = n
	}
	return 0
}

func (b *c16B) next() int { b.ctr++; return b.ctr }

func c16Rel(from, to string) string {
	fd := strings.Split(path.Dir(from), "/")
	if path.Dir(from) == "." {
		fd = []string{}
	}
	td := strings.Split(to, "/")
	i := 0
	for i < len(fd) && i < len(td)-1 && fd[i] == td[i] {
		i++
	}
	out := []string{}
	for j := i; j < len(fd); j++ {
		out = append(out, "..")
	}
	out = append(out, td[i:]...)
	return strings.Join(out, "/")
}

func (b *c16B) dirOfRoot() string {
	d := path.Dir(b.root)
	if d == "." {
		return ""
	}
	if d == "/" {
		return "/"
	}
	return d + "/"
}

func (b *c16B) spell(from, to string) string {
	rel := c16Rel(from, to)
	switch b.choose(3) {
	case 1:
		if !strings.HasPrefix(rel, "..") {
			return "./" + rel
		}
	case 2:
		if i := strings.LastIndex(rel, "/"); i > 0 && !strings.HasPrefix(rel, "..") {
			return rel[:i] + "/../" + rel[strings.LastIndex(rel[:i], "/")+1:]
		}
	}
	return rel
}

func (b *c16B) doc(p string) map[string]any {
	if d, ok := b.files[p].(map[string]any); ok {
		return d
	}
	d := map[string]any{"components": map[string]any{}}
	b.files[p] = d
	b.defs = append(b.defs, p)
	return d
}

func (b *c16B) setComp(docp, kind, name string, v any) {
	d := b.doc(docp)
	cs := d["components"].(map[string]any)
	km, ok := cs[kind].(map[string]any)
	if !ok {
		km = map[string]any{}
		cs[kind] = km
	}
	km[name] = v
}

func (b *c16B) isDoc(p string) bool {
	for _, d := range b.defs {
		if d == p {
			return true
		}
	}
	return false
}

var c16WholeDirs = []string{"", "sub/", "sub/deep/", "../common/"}

// slot fills a position of the given kind inside `file`: inline value or one of the reference styles.
func (b *c16B) slot(kind, file string, depth int) any {
	if depth <= 0 {
		return b.val(kind, file, 0)
	}
	style := b.choose(7)
	if style == 6 && kind != "schemas" {
		style = 0
	}
	if b.r != nil {
		// random stream: keep the known-finding classes present but rare, so that most layouts are clean
		leaf := kind == "links" || kind == "examples" || kind == "securitySchemes"
		if style == 1 && (leaf || (b.top && (kind == "headers" || kind == "responses"))) && b.r.Intn(8) != 0 {
			style = 2
		}
		if b.top && kind == "links" && style != 0 && b.r.Intn(8) != 0 {
			style = 0
		}
		if kind == "callbacks" && style != 0 && b.r.Intn(3) != 0 {
			style = 0
		}
	}
	b.top = false
	switch style {
	default:
		return b.val(kind, file, depth-1)
	case 1: // whole-file reference (new file, or an existing one of the same kind)
		var target string
		if l := b.whole[kind]; len(l) > 0 && b.noReuse == 0 && b.choose(3) == 1 {
			target = l[b.choose(len(l))]
		} else {
			dir := c16WholeDirs[b.choose(len(c16WholeDirs))]
			base := b.dirOfRoot()
			if dir == "../common/" {
				if base == "" || base == "/" {
					dir = "common/"
				} else {
					base = path.Dir(strings.TrimSuffix(base, "/"))
					if base == "." {
						base = ""
					} else if base != "/" {
						base += "/"
					}
					dir = "common/"
				}
			}
			ext := []string{".json", ".v1.json", ".yaml"}[b.choose(3)]
			target = base + dir + fmt.Sprintf("%s%d%s", kind[:3], b.next(), ext)
			b.whole[kind] = append(b.whole[kind], target)
			b.files[target] = "pending"
			b.files[target] = b.val(kind, target, depth-1)
		}
		return map[string]any{"$ref": b.spell(file, target)}
	case 2, 3: // element reference into a definitions document (new component or an existing one)
		var docp, name string
		if l := b.comps[kind]; len(l) > 0 && b.noReuse == 0 && b.choose(3) == 1 {
			e := l[b.choose(len(l))]
			docp, name = e[0], e[1]
		} else {
			docp = b.dirOfRoot() + []string{"defs.json", "sub/defs2.json"}[b.choose(2)]
			name = fmt.Sprintf("N%d", b.next())
			b.comps[kind] = append(b.comps[kind], [2]string{docp, name})
			b.setComp(docp, kind, name, map[string]any{"$ref": "#/pending"})
			b.setComp(docp, kind, name, b.val(kind, docp, depth-1))
		}
		if docp == file {
			return map[string]any{"$ref": "#/components/" + kind + "/" + name}
		}
		return map[string]any{"$ref": b.spell(file, docp) + "#/components/" + kind + "/" + name}
	case 4: // component of the document the position lives in (or of the root, from a single-element file)
		docp := file
		if !b.isDoc(file) {
			docp = b.root
		}
		name := fmt.Sprintf("L%d", b.next())
		b.setComp(docp, kind, name, b.slot(kind, docp, depth-1))
		b.comps[kind] = append(b.comps[kind], [2]string{docp, name})
		if docp == file {
			return map[string]any{"$ref": "#/components/" + kind + "/" + name}
		}
		return map[string]any{"$ref": b.spell(file, docp) + "#/components/" + kind + "/" + name}
	case 6: // an element INSIDE a whole-file target (file.json#/properties/id); the file is also a whole-file target
		var target string
		if l := b.inner; len(l) > 0 && b.choose(2) == 1 {
			target = l[b.choose(len(l))]
		} else {
			target = b.dirOfRoot() + []string{"", "sub/"}[b.choose(2)] + fmt.Sprintf("rec%d.json", b.next())
			b.files[target] = map[string]any{"type": "object", "properties": map[string]any{"id": b.val("schemas", target, 0)}}
			b.inner = append(b.inner, target)
			b.whole["schemas"] = append(b.whole["schemas"], target)
			// a whole-document reference next to the element reference into the same file: as a root component
			// (sorting before or after every generated name) or not at all
			switch b.choose(3) {
			case 1:
				b.setComp(b.root, "schemas", fmt.Sprintf("Zrec%d", b.next()), map[string]any{"$ref": b.spell(b.root, target)})
			case 2:
				b.setComp(b.root, "schemas", fmt.Sprintf("Arec%d", b.next()), map[string]any{"$ref": b.spell(b.root, target)})
			}
		}
		return map[string]any{"$ref": b.spell(file, target) + "#/properties/id"}
	case 5: // reference back into the root document's components
		name := fmt.Sprintf("R%d", b.next())
		b.comps[kind] = append(b.comps[kind], [2]string{b.root, name})
		b.setComp(b.root, kind, name, map[string]any{"$ref": "#/pending"})
		b.setComp(b.root, kind, name, b.val(kind, b.root, depth-1))
		if b.root == file {
			return map[string]any{"$ref": "#/components/" + kind + "/" + name}
		}
		return map[string]any{"$ref": b.spell(file, b.root) + "#/components/" + kind + "/" + name}
	}
}

// val builds an inline value of the kind, living in `file`; nested positions are slots.
func (b *c16B) val(kind, file string, depth int) any {
	n := b.next()
	switch kind {
	case "schemas":
		if depth > 0 && b.want("disc", 10) {
			b.noReuse++
			a1, a2 := b.liveSlot("schemas", file, depth), b.liveSlot("schemas", file, depth)
			b.noReuse--
			mapping := map[string]any{}
			for i, a := range []any{a1, a2} {
				if m, ok := a.(map[string]any); ok {
					if r, ok := m["$ref"].(string); ok {
						mapping[[]string{"a", "b"}[i]] = r
					}
				}
			}
			return map[string]any{"oneOf": []any{a1, a2}, "discriminator": map[string]any{"propertyName": "kind", "mapping": mapping}}
		}
		shape := 0
		if depth > 0 {
			shape = b.choose(8)
		} else {
			shape = b.choose(2)
		}
		switch shape {
		case 0:
			return map[string]any{"type": "string", "maxLength": n}
		case 1:
			return map[string]any{"type": "integer", "maximum": n}
		case 2:
			defer func(v int) { b.noReuse = v }(b.noReuse)
			b.noReuse = 0
			return map[string]any{"type": "object", "properties": map[string]any{"p": b.slot("schemas", file, depth)}}
		case 3:
			defer func(v int) { b.noReuse = v }(b.noReuse)
			b.noReuse = 0
			return map[string]any{"type": "array", "items": b.slot("schemas", file, depth)}
		case 4:
			b.noReuse++
			defer func() { b.noReuse-- }()
			return map[string]any{"allOf": []any{b.slot("schemas", file, depth), b.slot("schemas", file, depth)}}
		case 5:
			defer func(v int) { b.noReuse = v }(b.noReuse)
			b.noReuse = 0
			return map[string]any{"type": "object", "additionalProperties": b.slot("schemas", file, depth),
				"properties": map[string]any{"id": map[string]any{"type": "string", "maxLength": n}}}
		case 6:
			// a reference into the document's own paths section (internal, but not under #/components)
			if file == b.root && b.pathSchema {
				return map[string]any{"type": "object", "properties": map[string]any{"viaPaths": map[string]any{"$ref": "#/paths/~1y/get/responses/200/content/application~1json/schema"}}}
			}
			fallthrough
		default: // reference to something that already exists (possibly an ancestor: a cycle)
			if l := b.comps["schemas"]; len(l) > 0 {
				e := l[b.choose(len(l))]
				ref := "#/components/schemas/" + e[1]
				if e[0] != file {
					ref = c16Rel(file, e[0]) + ref
				}
				return map[string]any{"type": "object", "description": fmt.Sprint("d", n), "properties": map[string]any{"q": map[string]any{"$ref": ref}}}
			}
			if l := b.whole["schemas"]; len(l) > 0 {
				return map[string]any{"type": "object", "description": fmt.Sprint("d", n), "properties": map[string]any{"q": map[string]any{"$ref": c16Rel(file, l[b.choose(len(l))])}}}
			}
			return map[string]any{"type": "string", "maxLength": n}
		}
	case "parameters":
		var p map[string]any
		if depth > 0 && b.choose(3) == 1 {
			p = map[string]any{"name": fmt.Sprint("p", n), "in": "query", "content": map[string]any{"application/json": map[string]any{"schema": b.slot("schemas", file, depth)}}}
		} else {
			p = map[string]any{"name": fmt.Sprint("p", n), "in": "query", "schema": b.slot("schemas", file, depth)}
		}
		if depth > 0 && b.want("pex", 5) {
			p["examples"] = map[string]any{"e": b.liveSlot("examples", file, depth)}
		}
		return p
	case "headers":
		var hd map[string]any
		if depth > 0 && b.want("hcontent", 6) {
			hd = map[string]any{"description": fmt.Sprint("h", n), "content": map[string]any{"application/json": map[string]any{"schema": b.liveSlot("schemas", file, depth)}}}
		} else {
			hd = map[string]any{"description": fmt.Sprint("h", n), "schema": b.slot("schemas", file, depth)}
		}
		if depth > 0 && b.want("hex", 5) {
			hd["examples"] = map[string]any{"e": b.liveSlot("examples", file, depth)}
		}
		return hd
	case "requestBodies":
		mt := map[string]any{"schema": b.slot("schemas", file, depth)}
		if depth > 0 && b.choose(2) == 1 {
			mt["examples"] = map[string]any{"e": b.slot("examples", file, depth)}
		}
		content := map[string]any{"application/json": mt}
		if depth > 0 && b.want("enc", 5) {
			content["multipart/form-data"] = map[string]any{"schema": map[string]any{"type": "object", "properties": map[string]any{"f": map[string]any{"type": "string"}}},
				"encoding": map[string]any{"f": map[string]any{"headers": map[string]any{"H": b.liveSlot("headers", file, depth)}}}}
		}
		if depth > 0 && b.want("mtnoschema", 6) {
			// a media type WITHOUT schema: its examples and encoding headers are internalised all the same
			content["text/plain"] = map[string]any{"examples": map[string]any{"e": b.liveSlot("examples", file, depth)}}
			content["text/csv"] = map[string]any{"encoding": map[string]any{"f": map[string]any{"headers": map[string]any{"H": b.liveSlot("headers", file, depth)}}}}
		}
		if depth > 0 && b.want("nullmt", 12) {
			// null entries that load and validate (b68fdca): a null media type, a null encoding
			content["text/null"] = nil
			content["application/x-www-form-urlencoded"] = map[string]any{"schema": map[string]any{"type": "object", "properties": map[string]any{"g": b.liveSlot("schemas", file, depth)}},
				"encoding": map[string]any{"g": nil}}
		}
		return map[string]any{"description": fmt.Sprint("b", n), "content": content}
	case "responses":
		r := map[string]any{"description": fmt.Sprint("r", n)}
		parts := 0
		if depth > 0 {
			parts = b.choose(8)
			if b.focus && (b.force == "hex" || b.force == "hcontent") {
				parts |= 2
			}
		}
		if parts&1 != 0 || depth == 0 {
			r["content"] = map[string]any{"application/json": map[string]any{"schema": b.slot("schemas", file, depth)}}
		}
		if parts&2 != 0 {
			r["headers"] = map[string]any{"H": b.slot("headers", file, depth)}
		}
		if parts&4 != 0 {
			r["links"] = map[string]any{"l": b.slot("links", file, depth)}
		}
		return r
	case "examples":
		return map[string]any{"value": n}
	case "links":
		return map[string]any{"operationId": "opx", "description": fmt.Sprint("l", n)}
	case "securitySchemes":
		return map[string]any{"type": "http", "scheme": "basic", "description": fmt.Sprint("s", n)}
	case "callbacks":
		if file == b.root && b.hasX && b.want("cbcycle", 10) {
			// the callback leads back to the path item whose operation carries it (1c81ad5)
			return map[string]any{"{$request.body#/u}": map[string]any{"$ref": "#/paths/~1x"}}
		}
		return map[string]any{"{$request.body#/u}": b.val("pathItem", file, depth)}
	case "pathItem":
		op := map[string]any{"responses": map[string]any{"200": b.slot("responses", file, depth)}}
		if depth > 0 {
			parts := b.choose(8)
			if b.focus {
				switch b.force {
				case "pex":
					parts |= 2
				case "enc", "nullmt", "mtnoschema":
					parts |= 1
				case "cbcycle":
					parts |= 4
				}
			}
			if parts&1 != 0 {
				op["requestBody"] = b.slot("requestBodies", file, depth)
			}
			if parts&2 != 0 {
				op["parameters"] = []any{b.slot("parameters", file, depth)}
			}
			if parts&4 != 0 && depth > 1 {
				op["callbacks"] = map[string]any{"cb": b.slot("callbacks", file, depth-1)}
			}
		}
		pi := map[string]any{"post": op}
		if depth > 0 && b.choose(3) == 1 {
			pi["parameters"] = []any{b.slot("parameters", file, depth)}
		}
		return pi
	}
	return map[string]any{}
}

var c16Roots = []string{"openapi.json", "a/openapi.json", "/r/a/openapi.json", "/openapi.json", "/r/a/b/spec.v1.json"}

// build makes one layout: a root with one `/x` path item (inline or a whole-file path-item reference) and
// a few top-level components, all positions filled through slot().
func (b *c16B) build(depth int) {
	b.files = map[string]any{}
	b.whole = map[string][]string{}
	b.comps = map[string][][2]string{}
	if b.focus {
		b.live = true
		b.root = []string{"openapi.json", "/r/a/openapi.json", "a/openapi.json"}[b.choose(3)]
		b.live = false
	} else {
		b.root = c16Roots[b.choose(len(c16Roots))]
	}
	rootDoc := map[string]any{"openapi": "3.0.0", "info": map[string]any{"title": "t", "version": "1"}, "components": map[string]any{}}
	b.files[b.root] = rootDoc
	b.defs = []string{b.root}
	paths := map[string]any{}
	rootDoc["paths"] = paths
	if b.choose(3) == 1 {
		b.pathSchema = true
		paths["/y"] = map[string]any{"get": map[string]any{"responses": map[string]any{"200": map[string]any{"description": "y",
			"content": map[string]any{"application/json": map[string]any{"schema": map[string]any{"type": "string", "maxLength": 40 + b.next()}}}}}}}
	}
	// focus: which kind gets a top-level component slot (besides what the path item needs)
	nTop := 1 + b.choose(2)
	if b.r != nil {
		nTop = b.r.Intn(4)
	}
	if b.focus {
		nTop = 0
	}
	for i := 0; i < nTop; i++ {
		k := c16Kinds[b.choose(len(c16Kinds))]
		name := fmt.Sprintf("T%d", b.next())
		b.setComp(b.root, k, name, map[string]any{"$ref": "#/pending"})
		b.top = true
		b.setComp(b.root, k, name, b.slot(k, b.root, depth))
		b.top = false
	}
	if k, ok := map[string]string{"toplink": "links", "topexample": "examples", "topsec": "securitySchemes", "topheader": "headers", "topresponse": "responses"}[b.force]; ok && b.focus {
		name := fmt.Sprintf("T%d", b.next())
		b.setComp(b.root, k, name, map[string]any{"$ref": "#/pending"})
		b.top = true
		b.setComp(b.root, k, name, b.liveSlot(k, b.root, depth))
		b.top = false
		b.used = true
	}
	if b.focus {
		b.live = true
	}
	pathStyle := b.choose(3)
	b.live = false
	switch {
	case b.want("pichain", 12):
		// a path item that refers to a path item that is itself a reference (9b25d89); /w sorts before /x before /z
		paths["/z"] = b.val("pathItem", b.root, depth)
		paths["/x"] = map[string]any{"$ref": "#/paths/~1z"}
		paths["/w"] = map[string]any{"$ref": "#/paths/~1x"}
	case b.want("pichainfile", 12):
		// a whole-file path item whose file is itself a reference to another file (376b90f)
		t1 := b.dirOfRoot() + "paths/p1.json"
		t2 := b.dirOfRoot() + "paths/deep/p2.json"
		b.files[t2] = b.val("pathItem", t2, depth)
		b.files[t1] = map[string]any{"$ref": b.spell(t1, t2)}
		paths["/x"] = map[string]any{"$ref": b.spell(b.root, t1)}
	case b.want("pielem", 12):
		// a path item given by an element reference into the paths section of another document
		docp := b.dirOfRoot() + "defs.json"
		d := b.doc(docp)
		d["paths"] = map[string]any{"/p": b.val("pathItem", docp, depth)}
		paths["/x"] = map[string]any{"$ref": b.spell(b.root, docp) + "#/paths/~1p"}
	case pathStyle == 0:
		b.hasX = true
		paths["/x"] = b.val("pathItem", b.root, depth)
	case pathStyle == 1:
		target := b.dirOfRoot() + "paths/x.json"
		b.files[target] = b.val("pathItem", target, depth)
		paths["/x"] = map[string]any{"$ref": b.spell(b.root, target)}
	default:
		// no paths: components only
	}
}

func c16MkCase(root string, files map[string]any) (hx.Case, error) {
	c := hx.Case{"root": root, "files": normalizeJSON(files)}
	doc, err := c16Load(c16Files(c), root, true)
	if err != nil {
		return nil, err
	}
	h := c16Extract(doc, root, true).h
	h.Valid = doc.Validate(context.Background(), openapi3.DisableExamplesValidation()) == nil
	c["heap"] = normalizeJSON(h)
	if c16CallbackCycle(h) {
		c["iso"] = true // a cycle through callbacks: evaluated in a child process, so that a recursion without end is observed as a crash
	}
	return c, nil
}

// c16CallbackCycle: is there a cycle path item -> operation callback -> callback value -> path item?
func c16CallbackCycle(h *c16Heap) bool {
	state := make([]int, len(h.PIs)) // 0 new, 1 on stack, 2 done
	var visit func(pi int) bool
	visit = func(pi int) bool {
		if pi < 0 {
			return false
		}
		if state[pi] == 1 {
			return true
		}
		if state[pi] == 2 {
			return false
		}
		state[pi] = 1
		for _, op := range h.PIs[pi].Ops {
			for _, cb := range op.Cbs {
				if cb < 0 || h.Cells[cb].Val < 0 {
					continue
				}
				for _, it := range h.Vals[h.Cells[cb].Val].Items {
					if visit(it) {
						return true
					}
				}
			}
		}
		state[pi] = 2
		return false
	}
	for i := range h.PIs {
		if visit(i) {
			return true
		}
	}
	return false
}

// ---------------------------------------------------------------- hand-written layouts (witnesses, regressions)

type c16Named2 struct {
	name  string
	root  string
	files map[string]any
}

func c16RootDoc(comps map[string]any, paths map[string]any) map[string]any {
	if paths == nil {
		paths = map[string]any{}
	}
	return map[string]any{"openapi": "3.0.0", "info": map[string]any{"title": "t", "version": "1"}, "paths": paths, "components": comps}
}

func c16_jm(kv ...any) map[string]any {
	m := map[string]any{}
	for i := 0; i+1 < len(kv); i += 2 {
		m[kv[i].(string)] = kv[i+1]
	}
	return m
}
func jref(s string) map[string]any { return map[string]any{"$ref": s} }
func jstrS(n int) map[string]any   { return c16_jm("type", "string", "maxLength", n) }

func c16Op200(resp any) map[string]any {
	return c16_jm("/x", c16_jm("post", c16_jm("responses", c16_jm("200", resp))))
}

func c16Witnesses() []c16Named2 {
	objP := func(p any) map[string]any { return c16_jm("type", "object", "properties", c16_jm("p", p)) }
	encMT := c16_jm("schema", c16_jm("type", "object", "properties", c16_jm("f", jstrS(9))), "encoding", c16_jm("f", c16_jm("headers", c16_jm("H", jref("#/components/headers/HH")))))
	return []c16Named2{
		{"f17-underscore-vs-slash", "openapi.json", map[string]any{
			"openapi.json": c16RootDoc(c16_jm("schemas", c16_jm("A", objP(jref("s/a_b.json")), "B", objP(jref("s/a/b.json")))), nil),
			"s/a_b.json":   jstrS(3), "s/a/b.json": c16_jm("type", "integer", "maximum", 4)}},
		{"f17-prefix-trim", "a/openapi.json", map[string]any{
			"a/openapi.json": c16RootDoc(c16_jm("schemas", c16_jm("A", objP(jref("../ab/x.json")), "B", objP(jref("../b/x.json")))), nil),
			"ab/x.json":      jstrS(3), "b/x.json": c16_jm("type", "integer", "maximum", 4)}},
		{"f17-file-vs-fragment", "openapi.json", map[string]any{
			"openapi.json": c16RootDoc(c16_jm("schemas", c16_jm("A", objP(jref("a/b.json#/components/schemas/C")), "B", objP(jref("a/b/C.json")))), nil),
			"a/b.json":     c16_jm("components", c16_jm("schemas", c16_jm("C", jstrS(3)))), "a/b/C.json": c16_jm("type", "integer", "maximum", 4)}},
		{"f41-encoding-header-ref", "openapi.json", map[string]any{
			"openapi.json": c16RootDoc(c16_jm("headers", c16_jm("HH", c16_jm("schema", jstrS(5)))),
				c16_jm("/x", c16_jm("post", c16_jm("requestBody", c16_jm("content", c16_jm("multipart/form-data", encMT)), "responses", c16_jm("200", c16_jm("description", "ok")))))),
		}},
		{"fix18-absolute-root-backref", "/r/a/openapi.json", map[string]any{
			"/r/a/openapi.json": c16RootDoc(c16_jm("schemas", c16_jm("R", jstrS(3), "S", jref("ext.json"))), nil),
			"/r/a/ext.json":     objP(jref("openapi.json#/components/schemas/R"))}},
		{"self-response", "openapi.json", map[string]any{
			"openapi.json": c16RootDoc(c16_jm("responses", c16_jm("ext", jref("ext.json"))), c16Op200(jref("#/components/responses/ext"))),
			"ext.json":     c16_jm("description", "r1", "content", c16_jm("application/json", c16_jm("schema", jstrS(3))))}},
		{"self-header", "openapi.json", map[string]any{
			"openapi.json": c16RootDoc(c16_jm("headers", c16_jm("h", jref("h.json"))), c16Op200(c16_jm("description", "r", "headers", c16_jm("H", jref("#/components/headers/h"))))),
			"h.json":       c16_jm("schema", jstrS(3))}},
		{"ext-value-first-reached-internally", "openapi.json", map[string]any{
			"openapi.json": c16RootDoc(c16_jm("schemas", c16_jm("A", objP(jref("#/components/schemas/X")), "X", jref("e.json#/components/schemas/Y"))), nil),
			"e.json":       c16_jm("components", c16_jm("schemas", c16_jm("Y", c16_jm("type", "object", "properties", c16_jm("q", jref("#/components/schemas/Z"))), "Z", jstrS(3))))}},
		{"m1-shape-whole-and-element", "openapi.json", map[string]any{
			"openapi.json":       c16RootDoc(c16_jm("schemas", c16_jm("Envelope", c16_jm("type", "object", "properties", c16_jm("id", jref("schemas/record.json#/properties/id"))), "Record", jref("schemas/record.json"))), nil),
			"schemas/record.json": c16_jm("type", "object", "properties", c16_jm("id", jstrS(7)))}},
		{"shared-header-twice", "openapi.json", map[string]any{
			"openapi.json": c16RootDoc(c16_jm(), c16_jm("/x", c16_jm("post", c16_jm("responses", c16_jm("200", c16_jm("description", "a", "headers", c16_jm("H", jref("common/h.json#/components/headers/RL"))),
				"201", c16_jm("description", "b", "headers", c16_jm("H", jref("common/h.json#/components/headers/RL")))))))),
			"common/h.json": c16_jm("components", c16_jm("headers", c16_jm("RL", c16_jm("schema", c16_jm("type", "integer", "maximum", 9)))))}},
		{"wrongrefpath-link-empty-name", "openapi.json", map[string]any{
			"openapi.json":    c16RootDoc(c16_jm(), c16Op200(c16_jm("description", "r4", "links", c16_jm("l", jref("./common/lin5.json"))))),
			"common/lin5.json": c16_jm("description", "l6", "operationId", "opx")}},
		{"flag-dropped-inline-path-item-of-external-callback", "openapi.json", map[string]any{
			"openapi.json": c16RootDoc(c16_jm("callbacks", c16_jm("T1", jref("sub/defs2.json#/components/callbacks/N2"))), nil),
			"sub/defs2.json": c16_jm("components", c16_jm("callbacks", c16_jm("N2", c16_jm("{$request.body#/u}", c16_jm("post", c16_jm("parameters", []any{c16_jm("in", "query", "name", "p7", "schema", jref("#/components/schemas/N8"))},
				"responses", c16_jm("200", c16_jm("description", "r")))))), "schemas", c16_jm("N8", c16_jm("type", "integer", "maximum", 9))))}},
		{"param-example-external", "openapi.json", map[string]any{
			"openapi.json": c16RootDoc(c16_jm(), c16_jm("/x", c16_jm("post", c16_jm("parameters", []any{c16_jm("name", "p", "in", "query", "schema", c16_jm("type", "integer"), "examples", c16_jm("e", jref("ex.json")))},
				"responses", c16_jm("200", c16_jm("description", "r")))))),
			"ex.json": c16_jm("value", 5)}},
		{"header-example-in-imported-file", "openapi.json", map[string]any{
			"openapi.json": c16RootDoc(c16_jm(), c16Op200(c16_jm("description", "r", "headers", c16_jm("H", jref("defs.json#/components/headers/HD"))))),
			"defs.json": c16_jm("components", c16_jm("headers", c16_jm("HD", c16_jm("schema", c16_jm("type", "integer"), "examples", c16_jm("e", jref("#/components/examples/E")))),
				"examples", c16_jm("E", c16_jm("value", 5))))}},
		{"discriminator-mapping-external", "openapi.json", map[string]any{
			"openapi.json": c16RootDoc(c16_jm("schemas", c16_jm("Pet", c16_jm("oneOf", []any{jref("dog.json"), jref("cat.json")}, "discriminator", c16_jm("propertyName", "kind", "mapping", c16_jm("dog", "dog.json", "cat", "cat.json"))))), nil),
			"dog.json":     c16_jm("type", "object", "required", []any{"kind", "bark"}, "properties", c16_jm("kind", c16_jm("type", "string"), "bark", c16_jm("type", "boolean"))),
			"cat.json":     c16_jm("type", "object", "required", []any{"kind"}, "properties", c16_jm("kind", c16_jm("type", "string"), "lives", c16_jm("type", "integer")))}},
		{"enc-header-external", "openapi.json", map[string]any{
			"openapi.json": c16RootDoc(c16_jm(), c16_jm("/x", c16_jm("post", c16_jm("requestBody", c16_jm("content", c16_jm("multipart/form-data", c16_jm("schema", c16_jm("type", "object", "properties", c16_jm("f", jstrS(9))),
				"encoding", c16_jm("f", c16_jm("headers", c16_jm("H", jref("h.json"))))))), "responses", c16_jm("200", c16_jm("description", "ok")))))),
			"h.json": c16_jm("schema", c16_jm("type", "integer", "maximum", 9))}},
		{"comp-link-external", "openapi.json", map[string]any{
			"openapi.json": c16RootDoc(c16_jm("links", c16_jm("L", jref("l.json"))), nil),
			"l.json":       c16_jm("operationId", "opx", "description", "l1")}},
		{"path-item-chain", "openapi.json", map[string]any{
			"openapi.json": c16RootDoc(c16_jm(), c16_jm("/a", jref("#/paths/~1b"), "/b", jref("#/paths/~1c"), "/c", c16_jm("get", c16_jm("responses", c16_jm("200", jref("r.json")))))),
			"r.json":       c16_jm("description", "r1")}},
		{"callback-cycle-via-paths", "openapi.json", map[string]any{
			"openapi.json": c16RootDoc(c16_jm("callbacks", c16_jm("C", c16_jm("/cb", jref("#/paths/~1a")))),
				c16_jm("/a", c16_jm("post", c16_jm("responses", c16_jm("200", c16_jm("description", "r")), "callbacks", c16_jm("c", jref("#/components/callbacks/C"))))))}},
		{"inline-callback-cycle", "openapi.json", map[string]any{
			"openapi.json": c16RootDoc(c16_jm(), c16_jm("/x", c16_jm("post", c16_jm("responses", c16_jm("200", c16_jm("description", "r")),
				"callbacks", c16_jm("cb", c16_jm("{$request.body#/u}", jref("#/paths/~1x")))))))}},
		{"loader-unresolved-below-path-item-element-ref", "openapi.json", map[string]any{
			"openapi.json": c16RootDoc(c16_jm("links", c16_jm("L8", jref("defs.json#/components/links/N9"))), c16_jm("/x", jref("defs.json#/paths/~1p"))),
			"defs.json": c16_jm("components", c16_jm("links", c16_jm("N9", c16_jm("description", "l10", "operationId", "opx"))),
				"paths", c16_jm("/p", c16_jm("post", c16_jm("responses", c16_jm("200", jref("res6.json")))))),
			"res6.json": c16_jm("description", "r7", "links", c16_jm("l", jref("openapi.json#/components/links/L8")))}},
		{"loader-unresolved-external-text-left", "openapi.json", map[string]any{
			"openapi.json": c16RootDoc(c16_jm("examples", c16_jm("L20", jref("defs.json#/components/examples/N21"))), c16_jm("/x", jref("defs.json#/paths/~1p"))),
			"defs.json": c16_jm("components", c16_jm("examples", c16_jm("N21", c16_jm("value", 22))),
				"paths", c16_jm("/p", c16_jm("post", c16_jm("parameters", []any{jref("sub/par.json")}, "responses", c16_jm("200", c16_jm("description", "r")))))),
			"sub/par.json": c16_jm("name", "p", "in", "query", "schema", c16_jm("type", "integer"), "examples", c16_jm("e", jref("../openapi.json#/components/examples/L20")))}},
		{"path-item-file-chain", "openapi.json", map[string]any{
			"openapi.json": c16RootDoc(c16_jm(), c16_jm("/x", jref("p1.json"))),
			"p1.json":      jref("sub/p2.json"),
			"sub/p2.json":  c16_jm("get", c16_jm("responses", c16_jm("200", jref("r.json")))),
			"sub/r.json":   c16_jm("description", "r")}},
		{"same-name-response-then-request-body", "openapi.json", map[string]any{
			"openapi.json": c16RootDoc(c16_jm(), c16_jm(
				"/a", c16_jm("post", c16_jm("responses", c16_jm("200", jref("common.json#/components/responses/Item")))),
				"/b", c16_jm("post", c16_jm("requestBody", jref("common.json#/components/requestBodies/Item"), "responses", c16_jm("200", c16_jm("description", "ok")))))),
			"common.json": c16_jm("components", c16_jm("responses", c16_jm("Item", c16_jm("description", "r11")),
				"requestBodies", c16_jm("Item", c16_jm("description", "b12", "content", c16_jm("application/json", c16_jm("schema", jstrS(12)))))))}},
		{"media-type-without-schema", "openapi.json", map[string]any{
			"openapi.json": c16RootDoc(c16_jm(), c16_jm("/x", c16_jm("post", c16_jm("requestBody", c16_jm("content", c16_jm(
				"text/plain", c16_jm("examples", c16_jm("e", jref("ex.json"))),
				"text/csv", c16_jm("encoding", c16_jm("f", c16_jm("headers", c16_jm("H", jref("h.json"))))))),
				"responses", c16_jm("200", c16_jm("description", "ok")))))),
			"ex.json": c16_jm("value", 5), "h.json": c16_jm("schema", c16_jm("type", "integer", "maximum", 9))}},
		{"callback-cycle", "openapi.json", map[string]any{
			"openapi.json": c16RootDoc(c16_jm("callbacks", c16_jm("cb", c16_jm("{$request.body#/u}", c16_jm("post", c16_jm("responses", c16_jm("200", c16_jm("description", "r")), "callbacks", c16_jm("again", jref("#/components/callbacks/cb"))))))), nil)}},
	}
}

// ---------------------------------------------------------------- same generated name for targets of two kinds

// c16Inline: a small inline value of the kind (n makes the content distinct)
func c16Inline(kind string, n int) any {
	switch kind {
	case "schemas":
		return jstrS(n)
	case "parameters":
		return c16_jm("name", fmt.Sprint("p", n), "in", "query", "schema", jstrS(n))
	case "headers":
		return c16_jm("description", fmt.Sprint("h", n), "schema", jstrS(n))
	case "requestBodies":
		return c16_jm("description", fmt.Sprint("b", n), "content", c16_jm("application/json", c16_jm("schema", jstrS(n))))
	case "responses":
		return c16_jm("description", fmt.Sprint("r", n))
	case "securitySchemes":
		return c16_jm("type", "http", "scheme", "basic", "description", fmt.Sprint("s", n))
	case "examples":
		return c16_jm("value", n)
	case "links":
		return c16_jm("operationId", "opx", "description", fmt.Sprint("l", n))
	default: // callbacks
		return c16_jm("{$request.body#/u}", c16_jm("post", c16_jm("responses", c16_jm("200", c16_jm("description", fmt.Sprint("c", n))))))
	}
}

// c16Place puts a reference of the kind at one of the places the descent visits: "comp" (root component of the kind),
// "nest" (inside a root component of an EARLIER collection), "/a" or "/b" (in the operation of that path).
// Returns false when the kind has no such place.
func c16Place(comps, paths map[string]any, kind, place string, ref any, tag string) bool {
	setc := func(k, n string, v any) {
		m, _ := comps[k].(map[string]any)
		if m == nil {
			m = map[string]any{}
			comps[k] = m
		}
		m[n] = v
	}
	switch place {
	case "comp":
		setc(kind, "T"+tag, ref)
		return true
	case "nest":
		switch kind {
		case "schemas":
			setc("parameters", "TP"+tag, c16_jm("name", "q"+tag, "in", "query", "schema", ref))
		case "headers":
			setc("responses", "TR"+tag, c16_jm("description", "nest"+tag, "headers", c16_jm("H", ref)))
		case "examples":
			setc("requestBodies", "TB"+tag, c16_jm("content", c16_jm("application/json", c16_jm("schema", jstrS(2), "examples", c16_jm("e", ref)))))
		case "links":
			setc("responses", "TR"+tag, c16_jm("description", "nest"+tag, "links", c16_jm("l", ref)))
		default:
			return false
		}
		return true
	}
	if kind == "securitySchemes" {
		return false
	}
	op := c16_jm("responses", c16_jm("200", c16_jm("description", "ok"+tag)))
	switch kind {
	case "schemas":
		op["responses"] = c16_jm("200", c16_jm("description", "ok"+tag, "content", c16_jm("application/json", c16_jm("schema", ref))))
	case "parameters":
		op["parameters"] = []any{ref}
	case "headers":
		op["responses"] = c16_jm("200", c16_jm("description", "ok"+tag, "headers", c16_jm("H", ref)))
	case "requestBodies":
		op["requestBody"] = ref
	case "responses":
		op["responses"] = c16_jm("200", ref)
	case "examples":
		op["responses"] = c16_jm("200", c16_jm("description", "ok"+tag, "content", c16_jm("application/json", c16_jm("schema", jstrS(2), "examples", c16_jm("e", ref)))))
	case "links":
		op["responses"] = c16_jm("200", c16_jm("description", "ok"+tag, "links", c16_jm("l", ref)))
	case "callbacks":
		op["callbacks"] = c16_jm("cb", ref)
	}
	paths[place] = c16_jm("post", op)
	return true
}

// c16SameName: for every pair of the nine component kinds, external targets common.json#/components/<k1>/Item and
// …/<k2>/Item (both are named common_Item by the resolver), referenced from every pair of places — so that each of
// the two is internalised first in some layout whenever the order of the descent allows it. The collections are
// separate maps: nothing may be shared between them.
func c16SameName(emit func(root string, files map[string]any)) {
	places := []string{"comp", "nest", "/a", "/b"}
	for i, k1 := range c16Kinds {
		for j, k2 := range c16Kinds {
			if j <= i {
				continue
			}
			for _, p1 := range places {
				for _, p2 := range places {
					if p1 == p2 && (p1 == "/a" || p1 == "/b") {
						continue
					}
					for _, root := range []string{"openapi.json", "/r/a/openapi.json"} {
						dir := path.Dir(root)
						common := "common.json"
						if dir != "." {
							common = dir + "/common.json"
						}
						comps, paths := map[string]any{}, map[string]any{}
						ok1 := c16Place(comps, paths, k1, p1, jref("common.json#/components/"+k1+"/Item"), "1")
						ok2 := c16Place(comps, paths, k2, p2, jref("common.json#/components/"+k2+"/Item"), "2")
						if !ok1 || !ok2 {
							continue
						}
						files := map[string]any{
							root:   c16RootDoc(comps, paths),
							common: c16_jm("components", c16_jm(k1, c16_jm("Item", c16Inline(k1, 11)), k2, c16_jm("Item", c16Inline(k2, 12)))),
						}
						emit(root, files)
					}
				}
			}
		}
	}
}

// ---------------------------------------------------------------- registration, generation, comparison

func init() {
	hx.Register(&hx.Prop{
		ID: "C16",
		Rule: "multi-file layouts built by a decision-driven builder (root at 5 relative/absolute locations; every component kind; positions in components, paths, " +
			"whole-file path items, callbacks; reference styles: inline, whole-file, element into definitions documents, component of the same document, back into the root; " +
			"re-use of existing targets; three spellings of the same relative path; cycles): ALL decision tapes up to a fixed length (exhaustive); a FOCUSED family per feature " +
			"(examples of parameters / headers, header content, encoding headers, discriminator mapping over oneOf, null media type / encoding entries, path item chains '#/paths/..', " +
			"a whole-file path item whose file is itself a reference, media types without schema carrying examples / encoding headers, " +
			"path item by element reference into another document, callback leading back to its path item, whole-kind root components for links / examples / securitySchemes / headers / responses): " +
			"all decision tapes of the reference placed at that position; a SAME-NAME family (targets common.json#/components/<k1>/Item and …/<k2>/Item for every pair of the nine kinds, referenced from every pair of places " +
			"root component / nested in an earlier root component / path /a / path /b, so that either is internalised first wherever the descent's order allows); hand-written witness layouts; then a seeded random stream of deeper layouts in which every feature is switched on now and then. " +
			"Each is loaded with external refs allowed, internalised, checked for an infinite tree, marshalled, reloaded with external refs disallowed and compared. " +
			"Non-trivial = the model reports at least one branch (an external reference added, an existing name re-used, root-component match, parent-is-external propagation, visited-set hit, …); " +
			"the has.* / root.* branches give the distribution of layout features.",
		Exhaustive: true,
		Gen:        genC16,
		Run: func(c hx.Case) any {
			if jbool(c, "iso") {
				return hx.RunIsolated("C16", c, 20000)
			}
			return runC16(c)
		},
		RunChild:  runC16,
		Compare:   cmpC16,
		Shrink:    shrinkC16,
		TimeoutMs: 20000,
		Workers:   12,
		Assumptions: []string{
			"the abstraction of the loaded document (ref texts, RefPath, pointer sharing) that the model of InternalizeRefs runs on is extracted from the real loader when a case is generated and re-derived and compared on every evaluation; the loader itself is C02's subject",
			"resolved content is compared as an unfolding 8 ref-or-value levels deep; verdicts of request/response validation on 12 fixed bodies × parameter values per operation",
			"root document paths are clean (no '.', '..' or doubled slashes), as produced by path.Join",
			"resolved content: discriminator mapping TEXTS are not compared, what each mapping key selects among the oneOf alternatives is; a `$ref` key is the only kind of reference looked for in the serialised document (Link.operationRef and Example.externalValue are not references the loader follows)",
			"the kernel-checked witness / regression theorems are about the heaps of lean/KinModel/Lemmas/C16Heaps.lean; the driver reports for each tagged corpus case whether the heap extracted from the real loader still is that heap",
		},
	})
}

func c16Emit(emit func(hx.Case), root string, files map[string]any, tag string, iso bool) bool {
	c, err := c16MkCase(root, files)
	if err != nil {
		return false
	}
	if tag != "" {
		c["tag"] = tag
	}
	if iso {
		c["iso"] = true
	}
	emit(c)
	return true
}

func genC16(ctx *hx.Ctx, emit func(hx.Case)) {
	for _, w := range c16Witnesses() {
		if os.Getenv("VERIF_C16_DEBUG") != "" {
			c, err := c16MkCase(w.root, w.files)
			if err != nil {
				fmt.Fprintf(os.Stderr, "WITNESS %s: load error %v\n", w.name, err)
				continue
			}
			var o any
			if strings.Contains(w.name, "callback-cycle") {
				o = hx.RunIsolated("C16", c, 20000)
			} else {
				o = runC16(c)
			}
			fmt.Fprintf(os.Stderr, "WITNESS %s: %s\n", w.name, hx.Canon(o))
			if d := os.Getenv("VERIF_C16_DEBUG"); d != "1" {
				c["tag"] = w.name
				bb, _ := json.MarshalIndent(c, "", " ")
				os.WriteFile(path.Join(d, w.name+".json"), bb, 0o644)
			}
			continue
		}
		c16Emit(emit, w.root, w.files, w.name, strings.Contains(w.name, "callback-cycle"))
	}
	if os.Getenv("VERIF_C16_DEBUG") != "" {
		return
	}
	// exhaustive: all decision tapes up to length L over alphabet 0..5 (values are clamped per decision)
	L := 5
	if ctx.Thorough() {
		L = 6
	}
	var rec func(tape []int)
	seen := map[string]bool{}
	rec = func(tape []int) {
		b := &c16B{tape: tape}
		b.build(2)
		key := hx.Canon(b.files) + b.root
		if !seen[key] {
			seen[key] = true
			c16Emit(emit, b.root, b.files, "", false)
		}
		if len(tape) >= L || !b.over {
			return
		}
		for v := 0; v < b.overN; v++ {
			rec(append(append([]int{}, tape...), v))
		}
	}
	rec([]int{})
	// same generated name for targets of two kinds: every pair of kinds × every pair of places × two root locations
	c16SameName(func(root string, files map[string]any) {
		key := hx.Canon(files) + root
		if !seen[key] {
			seen[key] = true
			c16Emit(emit, root, files, "", false)
		}
	})
	// focused layouts: for every feature, all decision tapes (same length) of the reference placed at that position
	for _, f := range c16Features {
		f := f
		var rec2 func(tape []int)
		rec2 = func(tape []int) {
			b := &c16B{tape: tape, focus: true, force: f}
			b.build(2)
			key := hx.Canon(b.files) + b.root
			if b.used && !seen[key] {
				seen[key] = true
				c16Emit(emit, b.root, b.files, "", f == "cbcycle")
			}
			if len(tape) >= L || !b.over {
				return
			}
			for v := 0; v < b.overN; v++ {
				rec2(append(append([]int{}, tape...), v))
			}
		}
		rec2([]int{})
	}
	n := 1500
	if ctx.Thorough() {
		n = 50000
	}
	for i := 0; i < n; i++ {
		b := &c16B{r: ctx.Rng}
		b.build(2 + ctx.Rng.Intn(2))
		c16Emit(emit, b.root, b.files, "", false)
	}
}

func cmpC16(c hx.Case, impl any, reply map[string]any) hx.Verdict {
	im, _ := impl.(map[string]any)
	if im == nil {
		return hx.Verdict{IM: false, IS: false, Detail: "no observation"}
	}
	v := hx.Verdict{IM: true, IS: true}
	// property (impl vs spec): the spec demands every observable to be as for an equivalent self-contained document
	bad := []string{}
	if _, h := im["hang"]; h {
		bad = append(bad, "InternalizeRefs did not return")
	}
	if _, h := im["crash"]; h {
		bad = append(bad, "process crashed: "+fmt.Sprint(im["crash"]))
	}
	if _, h := im["panic"]; h {
		bad = append(bad, "harness-level panic: "+fmt.Sprint(im["panic"]))
	}
	if jstr(im, "kind") == "noload" {
		return hx.Verdict{IM: true, IS: true, Detail: "layout does not load: " + jstr(im, "loaderr")}
	}
	if jbool(im, "ipanic") {
		bad = append(bad, "InternalizeRefs panicked: "+fmt.Sprint(im["panicmsg"]))
	} else if jbool(im, "cyclic") {
		bad = append(bad, "the internalised document is an infinite tree (a path item is reached again through callbacks written out in full): MarshalJSON does not terminate")
	} else if len(bad) == 0 {
		if !jbool(im, "marshal_ok") {
			bad = append(bad, "internalised document does not marshal")
		} else {
			if l := toStrs(im["external_left"]); len(l) > 0 {
				bad = append(bad, fmt.Sprintf("references outside #/components remain: %v", l))
			}
			if !jbool(im, "reload_ok") {
				bad = append(bad, "does not load with external refs disallowed: "+jstr(im, "reloaderr"))
			} else {
				if !jbool(im, "content_equal") {
					bad = append(bad, fmt.Sprintf("resolved content changed at %v", im["content_diff"]))
				}
				if jbool(im, "valid_before") != jbool(im, "valid_after") {
					bad = append(bad, fmt.Sprintf("Validate verdict changed: before %v after %v", im["valid_before"], im["valid_after"]))
				}
				if !jbool(im, "verdicts_equal") {
					bad = append(bad, "request/response validation verdicts changed")
				}
			}
		}
	}
	implOK := len(bad) == 0
	if !implOK && os.Getenv("VERIF_C16_STATS") != "" {
		bb, _ := json.Marshal(c["files"])
		fmt.Fprintf(os.Stderr, "STAT %s ||| %s ||| %s %s\n", strings.Join(bad, "; "), fmt.Sprint(im["panicmsg"]), c["root"], bb)
	}
	spec, _ := reply["spec"].(map[string]any)
	model, _ := reply["model"].(map[string]any)
	if spec == nil || model == nil {
		v.IM = false
		v.IS = implOK
		v.Detail = "no model reply; " + strings.Join(bad, "; ")
		return v
	}
	// spec outcome: {"ok": true} for every input — the property has no exceptions
	v.IS = implOK == jbool(spec, "ok")
	if !v.IS {
		v.Detail = strings.Join(bad, "; ")
	}
	// model vs implementation
	md := []string{}
	if jbool(im, "heap_mismatch") {
		md = append(md, "heap abstraction recorded in the case differs from the one re-derived from the loader")
	}
	if tw, ok := model["twin"].(bool); ok && !tw {
		md = append(md, "the heap of this corpus case is no longer the heap the witness/regression theorem is about (lean/KinModel/Lemmas/C16Heaps.lean): regenerate it with tools/c16_heap2lean.py and re-prove")
	}
	mp := jstr(model, "outcome")
	switch {
	case im["hang"] != nil || im["crash"] != nil:
		if mp != "diverge" {
			md = append(md, "impl hang/crash, model "+mp)
		}
	case jbool(im, "ipanic"):
		if mp != "panic" {
			md = append(md, "impl panic, model "+mp)
		}
	default:
		if mp != "done" {
			md = append(md, "impl returned, model "+mp)
		} else if jbool(model, "ambiguous") {
			// ReferencesComponentInRootDocument ranges over a Go map: with two root components that are whole-document
			// references to the same file, which name is returned is not determined. Names are then not compared;
			// the predicted property outcome does not depend on the choice and still is.
			if jbool(model, "specok") != implOK {
				md = append(md, fmt.Sprintf("model predicts property outcome %v, implementation shows %v (%s)", jbool(model, "specok"), implOK, strings.Join(bad, "; ")))
			}
		} else {
			if !sameStrs(toStrs(im["refs"]), toStrs(model["refs"]), true) {
				md = append(md, fmt.Sprintf("final $ref texts: impl %v model %v", im["refs"], model["refs"]))
			}
			if !sameStrs(toStrs(im["pirefs"]), toStrs(model["pirefs"]), true) {
				md = append(md, fmt.Sprintf("path item refs: impl %v model %v", im["pirefs"], model["pirefs"]))
			}
			ic, _ := im["comps"].(map[string]any)
			mc, _ := model["comps"].(map[string]any)
			for _, k := range c16Kinds {
				if !sameStrs(toStrs(ic[k]), toStrs(mc[k]), false) {
					md = append(md, fmt.Sprintf("components.%s: impl %v model %v", k, ic[k], mc[k]))
				}
			}
			if jbool(model, "specok") != implOK {
				md = append(md, fmt.Sprintf("model predicts property outcome %v, implementation shows %v (%s)", jbool(model, "specok"), implOK, strings.Join(bad, "; ")))
			}
			if jbool(model, "cyclic") != jbool(im, "cyclic") {
				md = append(md, fmt.Sprintf("infinite tree: model %v, implementation %v", jbool(model, "cyclic"), jbool(im, "cyclic")))
			}
			// second call (theorem second_call_changes_nothing: where the first call left only internal texts, a further call
			// adds nothing and renames nothing); compared with the model's second run where that hypothesis holds
			if jbool(model, "allint") || os.Getenv("VERIF_C16_SECOND_ALWAYS") != "" {
				if jbool(im, "ipanic2") {
					md = append(md, "second call of InternalizeRefs panicked: "+fmt.Sprint(im["panicmsg2"]))
				} else if jstr(model, "outcome2") != "done" {
					md = append(md, "second call: impl returned, model "+jstr(model, "outcome2"))
				} else {
					if !sameStrs(toStrs(im["refs2"]), toStrs(model["refs2"]), true) {
						md = append(md, fmt.Sprintf("second call, final $ref texts: impl %v model %v", im["refs2"], model["refs2"]))
					}
					if !sameStrs(toStrs(im["pirefs2"]), toStrs(model["pirefs2"]), true) {
						md = append(md, fmt.Sprintf("second call, path item refs: impl %v model %v", im["pirefs2"], model["pirefs2"]))
					}
					ic2, _ := im["comps2"].(map[string]any)
					mc2, _ := model["comps2"].(map[string]any)
					for _, k := range c16Kinds {
						if !sameStrs(toStrs(ic2[k]), toStrs(mc2[k]), false) {
							md = append(md, fmt.Sprintf("second call, components.%s: impl %v model %v", k, ic2[k], mc2[k]))
						}
					}
				}
			}
		}
	}
	if len(md) > 0 && os.Getenv("VERIF_C16_STATS") != "" {
		bb, _ := json.Marshal(c["files"])
		fmt.Fprintf(os.Stderr, "IMSTAT %s ||| %v ||| %s %s\n", strings.Join(md, "; "), reply["excl"], c["root"], bb)
	}
	if len(md) > 0 {
		v.IM = false
		if v.Detail != "" {
			v.Detail += " | "
		}
		v.Detail += "model: " + strings.Join(md, "; ")
	}
	return v
}

// shrinkC16: drop one root component, one path, one property-level sub-tree of the root, or one unused file;
// the heap abstraction is re-derived from the loader for every candidate (candidates that no longer load are dropped).
func shrinkC16(c hx.Case) []hx.Case {
	files, _ := c["files"].(map[string]any)
	root, _ := c["root"].(string)
	if files == nil {
		return nil
	}
	var out []hx.Case
	try := func(nf map[string]any) {
		nc, err := c16MkCase(root, nf)
		if err != nil {
			return
		}
		if jbool(c, "iso") {
			nc["iso"] = true
		}
		out = append(out, nc)
	}
	clone := func() map[string]any { return normalizeJSON(files).(map[string]any) }
	for fn := range files {
		if fn == root {
			continue
		}
		nf := clone()
		delete(nf, fn)
		try(nf)
	}
	rd, _ := files[root].(map[string]any)
	if rd == nil {
		return out
	}
	if comps, ok := rd["components"].(map[string]any); ok {
		for k, km := range comps {
			if m, ok := km.(map[string]any); ok {
				for n := range m {
					nf := clone()
					delete(nf[root].(map[string]any)["components"].(map[string]any)[k].(map[string]any), n)
					try(nf)
				}
			}
		}
	}
	if paths, ok := rd["paths"].(map[string]any); ok {
		for pn := range paths {
			nf := clone()
			delete(nf[root].(map[string]any)["paths"].(map[string]any), pn)
			try(nf)
		}
	}
	return out
}
