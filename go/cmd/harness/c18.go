package main

// C18 — a schema generated from a Go type accepts every JSON encoding of that type.
// Real code exercised: openapi3gen.NewSchemaRefForValue (generator, field discovery, type table, cycle cutting,
// component export), encoding/json.Marshal, openapi3.Loader (reference resolution inside the component map),
// Schema.VisitJSON.

import (
	"encoding/base64"
	"encoding/json"
	"errors"
	"fmt"
	"math/big"
	"os"
	"reflect"
	"sort"
	"strconv"
	"strings"
	"time"
	"unicode"
	"unicode/utf8"

	"github.com/getkin/kin-openapi/openapi3"
	"github.com/getkin/kin-openapi/openapi3gen"

	"kinverif/internal/hx"
)

func init() {
	hx.Register(&hx.Prop{
		ID: "C18",
		Rule: "exhaustive: every leaf kind (bool, 10 integer kinds, 2 float kinds, string, []byte, time.Time, and 7 defined types over them) under 17 wrappers (T, *T, **T, []T, []*T, map, map of *T, *[]T, [2]T, " +
			"field, pointer field, omitempty field, untagged field, same struct by value and by pointer in both orders) with the kind's extreme values and nil/non-nil pointers, with and without UseAllExportedFields; " +
			"every declared struct type of the zoo (41: recursive, mutually recursive, embedded, defined element types, empty, anonymous members, yaml tags, generics, arrays) under the full option matrix " +
			"(UseAllExportedFields x ThrowErrorOnCycle x SchemaCustomizer none/identity/excluding x CreateComponentSchemas off/on/+TopLevel/+Generics x CreateTypeNameGenerator none/prefix/table = 144 sets); " +
			"the zoo under 5 wrappers with random option sets; 40 embedded/tag/yaml shapes; then a seeded random stream of types " +
			"(reflect.StructOf/SliceOf/MapOf/ArrayOf/PointerTo, depth <= 4, <= 4 fields, embedded structs and defined types, tag options, yaml tags, name clashes, map key kinds, references to the declared types) with random values and random option sets; " +
			"histories on ONE generator (case field `pre`: types generated first with GenerateSchemaRef, then Generator.NewSchemaRefForValue): every declared struct after X, *X, []X, []*X, map X, X then *X, struct{P *X} for the declared structs X it refers to, under five option sets that cannot fail, " +
			"and a random stream of random types after one to three of their own component types (bare, behind a pointer, in a slice). " +
			"A case is non-trivial when the model reports at least one non-default branch (kind with bounds, pointer, cache hit, cycle cut, embedded, omitempty, untagged, exported component, option, ...).",
		Exhaustive: true,
		Gen:        genC18,
		Run:        runC18,
		Compare:    cmpC18,
		Shrink:     shrinkC18,
		Workers:    1, // openapi3gen's package-level typeInfos table is filled racily: two goroutines meeting a type for the first time get different *theTypeInfo, one cycle test is then missed and the schema is expanded one level more
		Assumptions: []string{
			"reflect and encoding/json are trusted; the model's encoder is compared with json.Marshal on every case",
			"float values are decimals with few digits (exact in the model); []byte and time.Time values are carried as their encoded text",
			"structs have at most 12 discovered fields (sort.Sort is an insertion sort, hence stable, up to that size)",
			"a SchemaCustomizer is exercised through the three ways it can return (nil, ExcludeSchemaSentinel, another error), not through edits of the schema",
			"type-name generators are injective on the declared names of a case (otherwise the case is outside the domain)",
			"histories contain no failing call (no ThrowErrorOnCycle, no customizer): what a failed call leaves in the generator is not compared",
			"generation runs on one goroutine (first-time concurrent use of one type changes where cycles are cut)",
		},
	})
}

var c18TimeType = reflect.TypeOf(time.Time{})

type obj = map[string]any

// c18Describe gives the case description of a Go type; declared zoo structs become {"k":"named"} and their
// field lists are collected into decls; defined non-struct types become {"k":"def","n":…,"u":underlying}.
func c18Describe(t reflect.Type, decls map[string]any, inline bool) obj {
	if t.Name() != "" && t.PkgPath() != "" && t.Kind() != reflect.Struct {
		if (t.Kind() == reflect.Slice || t.Kind() == reflect.Map) && t.Elem() == t {
			return obj{"k": "recs", "m": t.Kind() == reflect.Map}
		}
		if _, ok := c18Zoo[t.Name()]; !ok {
			panic("c18: defined type outside the zoo: " + t.String())
		}
		return obj{"k": "def", "n": t.Name(), "u": c18DescribeKind(t, decls, false)}
	}
	return c18DescribeKind(t, decls, inline)
}

func c18DescribeKind(t reflect.Type, decls map[string]any, inline bool) obj {
	switch t.Kind() {
	case reflect.Bool:
		return obj{"k": "bool"}
	case reflect.Int, reflect.Int8, reflect.Int16, reflect.Int32, reflect.Int64, reflect.Uint, reflect.Uint8, reflect.Uint16, reflect.Uint32, reflect.Uint64:
		return obj{"k": "int", "ik": t.Kind().String()}
	case reflect.Float32:
		return obj{"k": "float", "b32": true}
	case reflect.Float64:
		return obj{"k": "float", "b32": false}
	case reflect.String:
		return obj{"k": "string"}
	case reflect.Ptr:
		return obj{"k": "ptr", "e": c18Describe(t.Elem(), decls, inline)}
	case reflect.Slice:
		return sl(c18Describe(t.Elem(), decls, false))
	case reflect.Array:
		return obj{"k": "array", "len": t.Len(), "e": c18Describe(t.Elem(), decls, false)}
	case reflect.Map:
		d := obj{"k": "map", "e": c18Describe(t.Elem(), decls, false)}
		if kt := c18Describe(t.Key(), decls, false); kt["k"] != "string" {
			d["kt"] = kt
		}
		return d
	case reflect.Struct:
		if t == c18TimeType {
			return obj{"k": "time"}
		}
		if _, ok := c18Zoo[t.Name()]; ok && t.Name() != "" && !inline {
			if _, done := decls[t.Name()]; !done {
				decls[t.Name()] = nil // in progress
				decls[t.Name()] = c18Fields(t, decls)
			}
			return obj{"k": "named", "n": t.Name()}
		}
		return obj{"k": "struct", "fields": c18Fields(t, decls)}
	}
	panic("c18: unsupported kind " + t.Kind().String())
}

func c18Fields(t reflect.Type, decls map[string]any) []any {
	fs := []any{}
	for i := 0; i < t.NumField(); i++ {
		f := t.Field(i)
		tag := f.Tag.Get("json")
		first, _ := utf8.DecodeRuneInString(f.Name)
		fd := obj{"name": f.Name, "tag": tag, "emb": f.Anonymous, "unexp": !f.IsExported(), "lower": unicode.IsLower(first)}
		if y, ok := f.Tag.Lookup("yaml"); ok {
			fd["yaml"] = y
		}
		ft := f.Type
		if ft.Kind() == reflect.Ptr {
			ft = ft.Elem()
		}
		fd["t"] = c18Describe(f.Type, decls, f.Anonymous && tag == "" && ft.Kind() == reflect.Struct)
		fs = append(fs, fd)
	}
	return fs
}

func c18DeclList(decls map[string]any) []any {
	names := []string{}
	for n := range decls {
		names = append(names, n)
	}
	sort.Strings(names)
	out := []any{}
	for _, n := range names {
		out = append(out, obj{"name": n, "fields": decls[n]})
	}
	return out
}

// c18AddDecls collects the declarations a description refers to.
func c18AddDecls(d obj, decls map[string]any) {
	switch d["k"] {
	case "named":
		c18Describe(c18Zoo[d["n"].(string)], decls, false)
	case "def":
		c18AddDecls(asObj(d["u"]), decls)
	case "ptr", "slice", "map", "array":
		c18AddDecls(asObj(d["e"]), decls)
	case "struct":
		for _, f := range jlist(d["fields"]) {
			c18AddDecls(asObj(asObj(f)["t"]), decls)
		}
	}
}

func asObj(v any) obj {
	m, _ := v.(map[string]any)
	return m
}

func c18Build(d obj) reflect.Type {
	switch jstr(d, "k") {
	case "bool":
		return reflect.TypeOf(false)
	case "int":
		switch jstr(d, "ik") {
		case "int":
			return reflect.TypeOf(int(0))
		case "int8":
			return reflect.TypeOf(int8(0))
		case "int16":
			return reflect.TypeOf(int16(0))
		case "int32":
			return reflect.TypeOf(int32(0))
		case "int64":
			return reflect.TypeOf(int64(0))
		case "uint":
			return reflect.TypeOf(uint(0))
		case "uint8":
			return reflect.TypeOf(uint8(0))
		case "uint16":
			return reflect.TypeOf(uint16(0))
		case "uint32":
			return reflect.TypeOf(uint32(0))
		case "uint64":
			return reflect.TypeOf(uint64(0))
		}
	case "float":
		if jbool(d, "b32") {
			return reflect.TypeOf(float32(0))
		}
		return reflect.TypeOf(float64(0))
	case "string":
		return reflect.TypeOf("")
	case "bytes":
		return reflect.TypeOf([]byte{})
	case "time":
		return c18TimeType
	case "ptr":
		return reflect.PointerTo(c18Build(asObj(d["e"])))
	case "slice":
		return reflect.SliceOf(c18Build(asObj(d["e"])))
	case "array":
		n, _ := strconv.Atoi(fmt.Sprint(d["len"]))
		return reflect.ArrayOf(n, c18Build(asObj(d["e"])))
	case "map":
		kt := reflect.TypeOf("")
		if k := asObj(d["kt"]); k != nil {
			kt = c18Build(k)
		}
		return reflect.MapOf(kt, c18Build(asObj(d["e"])))
	case "named", "def":
		if t, ok := c18Zoo[jstr(d, "n")]; ok {
			return t
		}
	case "recs":
		if jbool(d, "m") {
			return reflect.TypeOf(ZM{})
		}
		return reflect.TypeOf(ZL{})
	case "struct":
		var sf []reflect.StructField
		for _, f := range jlist(d["fields"]) {
			fm := asObj(f)
			x := reflect.StructField{Name: jstr(fm, "name"), Type: c18Build(asObj(fm["t"])), Anonymous: jbool(fm, "emb")}
			tag := ""
			if jt := jstr(fm, "tag"); jt != "" {
				tag = `json:"` + jt + `"`
			}
			if y, ok := fm["yaml"].(string); ok {
				if tag != "" {
					tag += " "
				}
				tag += `yaml:"` + y + `"`
			}
			x.Tag = reflect.StructTag(tag)
			sf = append(sf, x)
		}
		return reflect.StructOf(sf)
	}
	panic(fmt.Sprintf("c18: bad type description %v", d))
}

func c18BuildValue(v obj, t reflect.Type) reflect.Value {
	out := reflect.New(t).Elem()
	switch t.Kind() {
	case reflect.Bool:
		out.SetBool(jbool(v, "b"))
	case reflect.Int, reflect.Int8, reflect.Int16, reflect.Int32, reflect.Int64:
		n, _ := strconv.ParseInt(fmt.Sprint(v["i"]), 10, 64)
		out.SetInt(n)
	case reflect.Uint, reflect.Uint8, reflect.Uint16, reflect.Uint32, reflect.Uint64:
		n, _ := strconv.ParseUint(fmt.Sprint(v["i"]), 10, 64)
		out.SetUint(n)
	case reflect.Float32, reflect.Float64:
		me := jlist(v["f"])
		x, _ := strconv.ParseFloat(fmt.Sprintf("%se-%s", fmt.Sprint(me[0]), fmt.Sprint(me[1])), 64)
		out.SetFloat(x)
	case reflect.String:
		out.SetString(jstr(v, "s"))
	case reflect.Ptr:
		if _, isNil := v["nil"]; isNil {
			return out
		}
		p := reflect.New(t.Elem())
		p.Elem().Set(c18BuildValue(asObj(v["ref"]), t.Elem()))
		out.Set(p)
	case reflect.Slice, reflect.Array:
		if _, isBytes := v["bytes"]; isBytes && t.Kind() == reflect.Slice {
			b, _ := base64.StdEncoding.DecodeString(jstr(v, "bytes"))
			s := reflect.MakeSlice(t, len(b), len(b))
			for i, x := range b {
				s.Index(i).SetUint(uint64(x))
			}
			out.Set(s)
			return out
		}
		l := jlist(v["slice"])
		if t.Kind() == reflect.Array {
			for i := 0; i < t.Len() && i < len(l); i++ {
				out.Index(i).Set(c18BuildValue(asObj(l[i]), t.Elem()))
			}
			return out
		}
		s := reflect.MakeSlice(t, len(l), len(l))
		for i, x := range l {
			s.Index(i).Set(c18BuildValue(asObj(x), t.Elem()))
		}
		out.Set(s)
	case reflect.Map:
		m := reflect.MakeMap(t)
		for _, kv := range jlist(v["map"]) {
			p := jlist(kv)
			k := reflect.New(t.Key()).Elem()
			ks := p[0].(string)
			switch t.Key().Kind() {
			case reflect.String:
				k.SetString(ks)
			case reflect.Int, reflect.Int8, reflect.Int16, reflect.Int32, reflect.Int64:
				n, _ := strconv.ParseInt(ks, 10, 64)
				k.SetInt(n)
			default:
				n, _ := strconv.ParseUint(ks, 10, 64)
				k.SetUint(n)
			}
			m.SetMapIndex(k, c18BuildValue(asObj(p[1]), t.Elem()))
		}
		out.Set(m)
	case reflect.Struct:
		if t == c18TimeType {
			tm, err := time.Parse(time.RFC3339Nano, jstr(v, "time"))
			if err != nil {
				panic(err)
			}
			out.Set(reflect.ValueOf(tm))
			return out
		}
		l := jlist(v["struct"])
		for i := 0; i < t.NumField() && i < len(l); i++ {
			if out.Field(i).CanSet() {
				out.Field(i).Set(c18BuildValue(asObj(l[i]), t.Field(i).Type))
			}
		}
	}
	return out
}

// ------------------------------------------------------------------ options

func c18Options(c hx.Case) []openapi3gen.Option {
	var opts []openapi3gen.Option
	o := asObj(c["opts"])
	if jbool(c, "all") || jbool(o, "all") {
		opts = append(opts, openapi3gen.UseAllExportedFields())
	}
	if o == nil {
		return opts
	}
	if jbool(o, "throw") {
		opts = append(opts, openapi3gen.ThrowErrorOnCycle())
	}
	if jbool(o, "cust") {
		excl, fail := toStrs(jlist(o["excl"])), toStrs(jlist(o["fail"]))
		opts = append(opts, openapi3gen.SchemaCustomizer(func(name string, t reflect.Type, tag reflect.StructTag, schema *openapi3.Schema) error {
			for _, x := range excl {
				if x == name {
					return &openapi3gen.ExcludeSchemaSentinel{}
				}
			}
			for _, x := range fail {
				if x == name {
					return errC18Custom
				}
			}
			return nil
		}))
	}
	if jbool(o, "export") {
		opts = append(opts, openapi3gen.CreateComponentSchemas(openapi3gen.ExportComponentSchemasOptions{
			ExportComponentSchemas: true, ExportTopLevelSchema: jbool(o, "top"), ExportGenerics: jbool(o, "generics")}))
	}
	if g := asObj(o["tng"]); g != nil {
		pfx := jstr(g, "pfx")
		tbl := map[string]string{}
		for _, kv := range jlist(g["tbl"]) {
			p := jlist(kv)
			if _, dup := tbl[fmt.Sprint(p[0])]; !dup { // first entry wins, as in the model's lookup
				tbl[fmt.Sprint(p[0])] = fmt.Sprint(p[1])
			}
		}
		opts = append(opts, openapi3gen.CreateTypeNameGenerator(func(t reflect.Type) string {
			if v, ok := tbl[t.Name()]; ok {
				return v
			}
			return pfx + t.Name()
		}))
	}
	return opts
}

var errC18Custom = errors.New("custom failure")

// ------------------------------------------------------------------ run the real code

// runC18: in-process (since 0916db1 no supported type makes the generator overflow the stack; a crash would be reported
// by the engine as a panic / by the check as a missing result)
func runC18(c hx.Case) any { return runC18Direct(c) }

func runC18Direct(c hx.Case) any {
	t := c18Build(asObj(c["type"]))
	val := c18BuildValue(asObj(c["value"]), t)
	opts := c18Options(c)
	res := obj{"ok": false, "gen": false, "load": false, "accept": false}
	enc, err := json.Marshal(val.Interface())
	if err != nil {
		res["err"] = "marshal: " + err.Error()
		return res
	}
	res["enc"] = json.RawMessage(enc)
	schemas := openapi3.Schemas{}
	var ref *openapi3.SchemaRef
	if pre := jlist(c["pre"]); len(pre) > 0 {
		// reuse: one Generator, GenerateSchemaRef for every earlier type (results and errors ignored: only the state
		// that is kept matters), then the export loop once, after the last call
		g := openapi3gen.NewGenerator(opts...)
		for _, p := range pre {
			_, _ = g.GenerateSchemaRef(c18Build(asObj(p)))
		}
		ref, err = g.NewSchemaRefForValue(val.Interface(), schemas)
	} else {
		ref, err = openapi3gen.NewSchemaRefForValue(val.Interface(), schemas, opts...)
	}
	if err != nil || ref == nil {
		res["err"] = fmt.Sprint("generate: ", err)
		switch {
		case err == nil:
			res["genErr"] = "excluded"
		case errors.As(err, new(*openapi3gen.CycleError)):
			res["genErr"] = "cycle"
		default:
			res["genErr"] = "err"
		}
		return res
	}
	res["gen"] = true
	rootJSON, err := json.Marshal(ref)
	if err != nil {
		res["err"] = "marshal schema: " + err.Error()
		return res
	}
	res["schema"] = json.RawMessage(rootJSON)
	compsJSON, _ := json.Marshal(schemas)
	res["comps"] = json.RawMessage(compsJSON)
	all := openapi3.Schemas{}
	for k, v := range schemas {
		all[k] = v
	}
	all["_root"] = ref
	doc := &openapi3.T{OpenAPI: "3.0.0", Info: &openapi3.Info{Title: "t", Version: "1"}, Paths: openapi3.NewPaths(),
		Components: &openapi3.Components{Schemas: all}}
	docJSON, err := json.Marshal(doc)
	if err != nil {
		res["err"] = "marshal doc: " + err.Error()
		return res
	}
	loaded, err := openapi3.NewLoader().LoadFromData(docJSON)
	if err != nil {
		res["err"] = "load: " + firstLine(err.Error())
		return res
	}
	res["load"] = true
	var decoded any
	if err := json.Unmarshal(enc, &decoded); err != nil {
		res["err"] = "decode: " + err.Error()
		return res
	}
	rs := loaded.Components.Schemas["_root"]
	if rs == nil || rs.Value == nil {
		res["err"] = "root schema missing after load"
		return res
	}
	if err := rs.Value.VisitJSON(decoded); err != nil {
		res["err"] = "visit: " + firstLine(err.Error())
		return res
	}
	res["accept"] = true
	res["ok"] = true
	return res
}

func firstLine(s string) string {
	if i := strings.Index(s, "\n"); i >= 0 {
		return s[:i]
	}
	return s
}

// ------------------------------------------------------------------ comparison

func c18NumEq(a, b json.Number, asFloat bool) bool {
	if asFloat {
		x, e1 := strconv.ParseFloat(a.String(), 64)
		y, e2 := strconv.ParseFloat(b.String(), 64)
		return e1 == nil && e2 == nil && x == y
	}
	x, ok1 := new(big.Rat).SetString(a.String())
	y, ok2 := new(big.Rat).SetString(b.String())
	return ok1 && ok2 && x.Cmp(y) == 0
}

func c18JSONEq(a, b any, asFloat bool) bool {
	switch x := a.(type) {
	case nil:
		return b == nil
	case bool:
		y, ok := b.(bool)
		return ok && x == y
	case string:
		y, ok := b.(string)
		return ok && x == y
	case json.Number:
		y, ok := b.(json.Number)
		return ok && c18NumEq(x, y, asFloat)
	case []any:
		y, ok := b.([]any)
		if !ok || len(x) != len(y) {
			return false
		}
		for i := range x {
			if !c18JSONEq(x[i], y[i], asFloat) {
				return false
			}
		}
		return true
	case map[string]any:
		y, ok := b.(map[string]any)
		if !ok || len(x) != len(y) {
			return false
		}
		for k, v := range x {
			w, ok := y[k]
			if !ok || !c18JSONEq(v, w, asFloat) {
				return false
			}
		}
		return true
	}
	return false
}

func cmpC18(c hx.Case, impl any, reply map[string]any) hx.Verdict {
	im, _ := impl.(map[string]any)
	model, _ := reply["model"].(map[string]any)
	spec, _ := reply["spec"].(map[string]any)
	if im == nil || model == nil || spec == nil {
		return hx.Verdict{IM: false, IS: false, Detail: "missing observation"}
	}
	if !jbool(spec, "inDomain") {
		// outside the property's quantifier (ill-typed value, value encoding as null, non-injective type names): nothing is claimed
		return hx.Verdict{IM: true, IS: true, Detail: "outside the domain"}
	}
	v := hx.Verdict{IM: true, IS: true}
	fail := func(s string) {
		if os.Getenv("C18DEBUG") != "" {
			fmt.Fprintln(os.Stderr, "C18DEBUG IM:", s, "CASE", hx.Canon(c))
		}
		if v.IM {
			v.IM = false
			if v.Detail != "" {
				v.Detail += " || "
			}
			v.Detail += "model: " + s
		}
	}
	outcome := jstr(model, "outcome")
	_, crashed := im["crash"]
	_, hung := im["hang"]
	if _, p := im["panic"]; p {
		return hx.Verdict{IM: false, IS: false, Detail: "implementation panicked: " + fmt.Sprint(im["panic"]) + " at " + fmt.Sprint(im["site"])}
	}
	if crashed || hung {
		// "schemas generated for recursive types are finite": the generator did not even return
		v.IS = false
		v.Detail = "property fails: the generator does not terminate (" + fmt.Sprint(im["crash"]) + ")"
		fail("model outcome " + outcome + ", implementation crashed")
		return v
	}
	// the property on this input: generation succeeds (unless the caller asked for errors: ThrowErrorOnCycle, a failing
	// customizer), references resolve (document loads), the encoding validates
	if ge := jstr(im, "genErr"); ge != "" {
		if !jbool(spec, "mayFail") {
			v.IS = false
			v.Detail = "property fails: no schema generated: " + jstr(im, "err")
		}
		if outcome != ge {
			fail("model outcome " + outcome + ", implementation " + ge + " (" + jstr(im, "err") + ")")
		}
		if !c18JSONEq(im["enc"], model["enc"], false) {
			fail(fmt.Sprintf("encoding differs: json.Marshal %s, model %s", hx.Canon(im["enc"]), hx.Canon(model["enc"])))
		}
		return v
	}
	if !jbool(im, "ok") {
		if os.Getenv("C18DEBUG") == "2" && strings.Contains(hx.Canon(reply["excl"]), "Dangling") {
			fmt.Fprintln(os.Stderr, "C18DEBUG DANGLING:", jstr(im, "err"), "CASE", hx.Canon(c))
		}
		v.IS = false
		v.Detail = "property fails: " + jstr(im, "err") + "; value " + hx.Canon(im["enc"]) + "; schema " + hx.Canon(im["schema"]) + "; components " + hx.Canon(im["comps"])
	}
	// correspondence
	if outcome != "ok" {
		fail("model outcome " + outcome + ", implementation generated " + hx.Canon(im["schema"]))
		return v
	}
	if !c18JSONEq(im["enc"], model["enc"], false) {
		fail(fmt.Sprintf("encoding differs: json.Marshal %s, model %s", hx.Canon(im["enc"]), hx.Canon(model["enc"])))
	}
	if !jbool(im, "gen") {
		fail("implementation failed to generate: " + jstr(im, "err"))
		return v
	}
	if !c18JSONEq(im["schema"], model["schema"], true) {
		fail(fmt.Sprintf("schema differs: impl %s, model %s", hx.Canon(im["schema"]), hx.Canon(model["schema"])))
	}
	var match map[string]any
	for _, o := range jlist(model["options"]) {
		om, _ := o.(map[string]any)
		if c18JSONEq(im["comps"], om["comps"], true) {
			match = om
			break
		}
	}
	if match == nil {
		fail(fmt.Sprintf("component map %s is none of the model's %d possibilities %s", hx.Canon(im["comps"]), len(jlist(model["options"])), hx.Canon(model["options"])))
		return v
	}
	if jbool(match, "resolves") != jbool(im, "load") {
		fail(fmt.Sprintf("references resolve: impl load=%v (%s), model %v", jbool(im, "load"), jstr(im, "err"), jbool(match, "resolves")))
	}
	// "acceptImpl": the model's verdict with the validator's int64 format as built (it cannot reject, see Drv/C18.lean)
	if jbool(im, "load") && jbool(match, "acceptImpl") != jbool(im, "accept") {
		fail(fmt.Sprintf("verdict: impl accept=%v (%s), model accept=%v (exact %v)", jbool(im, "accept"), jstr(im, "err"), jbool(match, "acceptImpl"), jbool(match, "accept")))
	}
	return v
}

// ------------------------------------------------------------------ generation

var c18IntKinds = []string{"int", "int8", "int16", "int32", "int64", "uint", "uint8", "uint16", "uint32", "uint64"}

var c18IntLo = map[string]string{"int": "-9223372036854775808", "int8": "-128", "int16": "-32768", "int32": "-2147483648", "int64": "-9223372036854775808",
	"uint": "0", "uint8": "0", "uint16": "0", "uint32": "0", "uint64": "0"}
var c18IntHi = map[string]string{"int": "9223372036854775807", "int8": "127", "int16": "32767", "int32": "2147483647", "int64": "9223372036854775807",
	"uint": "18446744073709551615", "uint8": "255", "uint16": "65535", "uint32": "4294967295", "uint64": "18446744073709551615"}

var c18Times = []string{"2020-01-02T03:04:05Z", "1999-12-31T23:59:59.123456789+05:30", "0001-01-01T00:00:00Z", "2024-02-29T12:00:00.5-08:00"}

func zdef(n string) obj {
	return c18Describe(c18Zoo[n], map[string]any{}, false)
}

func c18Leafs() []obj {
	out := []obj{{"k": "bool"}}
	for _, k := range c18IntKinds {
		out = append(out, obj{"k": "int", "ik": k})
	}
	out = append(out, obj{"k": "float", "b32": true}, obj{"k": "float", "b32": false}, obj{"k": "string"}, obj{"k": "bytes"}, obj{"k": "time"})
	// defined types over the basic kinds (and over []byte)
	for _, n := range []string{"ZOctet", "ZStr", "ZI16", "ZU64", "ZF32", "ZFlag", "ZDigest"} {
		out = append(out, zdef(n))
	}
	return out
}

// c18Under: the description below defined-type wrappers.
func c18Under(d obj) obj {
	for d["k"] == "def" {
		d = asObj(d["u"])
	}
	return d
}

func c18IsU8(d obj) bool {
	u := c18Under(d)
	return u["k"] == "int" && u["ik"] == "uint8"
}

// c18IsBytes: a type that encoding/json writes as base64 text.
func c18IsBytes(d obj) bool {
	u := c18Under(d)
	return u["k"] == "bytes" || (u["k"] == "slice" && c18IsU8(asObj(u["e"])))
}

// c18LeafValues: the interesting values of a leaf type (extremes first).
func c18LeafValues(d obj) []obj {
	if c18IsBytes(d) {
		return []obj{{"bytes": ""}, {"bytes": "AQID"}, {"bytes": "/+8="}}
	}
	d = c18Under(d)
	switch d["k"] {
	case "bool":
		return []obj{{"b": true}, {"b": false}}
	case "int":
		k := d["ik"].(string)
		vs := []obj{{"i": c18IntLo[k]}, {"i": c18IntHi[k]}, {"i": "0"}, {"i": "7"}}
		if c18IntLo[k] != "0" {
			vs = append(vs, obj{"i": "-1"})
		}
		return vs
	case "float":
		return []obj{{"f": []any{"0", "0"}}, {"f": []any{"-15", "1"}}, {"f": []any{"3", "0"}}, {"f": []any{"12345", "3"}}}
	case "string":
		return []obj{{"s": ""}, {"s": "héllo q"}}
	case "time":
		out := []obj{}
		for _, t := range c18Times {
			out = append(out, obj{"time": t})
		}
		return out
	}
	return nil
}

func c18IsLeaf(d obj) bool {
	if c18IsBytes(d) {
		return true
	}
	switch c18Under(d)["k"] {
	case "bool", "int", "float", "string", "time":
		return true
	}
	return false
}

func fld(name, tag string, t obj) obj {
	return obj{"name": name, "tag": tag, "emb": false, "unexp": false, "lower": false, "t": t}
}
func fldY(name, tag, yaml string, t obj) obj {
	return obj{"name": name, "tag": tag, "emb": false, "unexp": false, "lower": false, "yaml": yaml, "t": t}
}
func emb(name, tag string, t obj) obj {
	return obj{"name": name, "tag": tag, "emb": true, "unexp": false, "lower": false, "t": t}
}
func st(fs ...any) obj { return obj{"k": "struct", "fields": fs} }
func ptr(t obj) obj    { return obj{"k": "ptr", "e": t} }
func sl(t obj) obj { // []uint8 IS []byte; a slice of a DEFINED uint8 type stays a slice (and is encoded as base64 text all the same)
	if t["k"] == "int" && t["ik"] == "uint8" {
		return obj{"k": "bytes"}
	}
	return obj{"k": "slice", "e": t}
}
func arr(n int, t obj) obj { return obj{"k": "array", "len": n, "e": t} }
func mp(t obj) obj         { return obj{"k": "map", "e": t} }
func mpk(kt, t obj) obj    { return obj{"k": "map", "kt": kt, "e": t} }
func named(n string) obj   { return obj{"k": "named", "n": n} }
func vst(vs ...any) obj    { return obj{"struct": vs} }
func vref(v obj) obj       { return obj{"ref": v} }

var vnil = obj{"nil": true}

func c18Case(t, v obj, all bool) hx.Case {
	return c18CaseO(t, v, all, nil)
}

// c18CaseO: a case with generator options (nil / empty: none).
func c18CaseO(t, v obj, all bool, o obj) hx.Case {
	decls := map[string]any{}
	c18AddDecls(t, decls)
	c := hx.Case{"type": t, "value": v, "all": all, "decls": c18DeclList(decls)}
	if len(o) > 0 {
		c["opts"] = o
	}
	return c
}

func c18MapKeys(d obj) []string {
	if kt := asObj(d["kt"]); kt != nil {
		u := c18Under(kt)
		if u["k"] == "int" {
			if c18IntLo[u["ik"].(string)] == "0" {
				return []string{"1", "22", "200"}
			}
			return []string{"1", "-3", "22"}
		}
	}
	return []string{"k", "next", "a"}
}

// c18Value draws a value of the described type.
func c18Value(r *hx.Rng, d obj, decls map[string]any, depth int) obj {
	if c18IsLeaf(d) {
		vs := c18LeafValues(d)
		u := c18Under(d)
		if u["k"] == "int" && r.Chance(30) {
			k := u["ik"].(string)
			lo, _ := new(big.Int).SetString(c18IntLo[k], 10)
			hi, _ := new(big.Int).SetString(c18IntHi[k], 10)
			span := new(big.Int).Sub(hi, lo)
			x := new(big.Int).SetUint64(r.U64())
			x.Mod(x, span.Add(span, big.NewInt(1)))
			return obj{"i": x.Add(x, lo).String()}
		}
		if u["k"] == "string" && r.Chance(50) {
			return obj{"s": hx.Pick(r, []string{"a", "xyz", "5", "true", "null", " "})}
		}
		return hx.Pick(r, vs)
	}
	switch d["k"] {
	case "def":
		return c18Value(r, asObj(d["u"]), decls, depth)
	case "ptr":
		if depth <= 0 || r.Chance(35) {
			return vnil
		}
		return vref(c18Value(r, asObj(d["e"]), decls, depth-1))
	case "slice", "array", "recs":
		n := r.Intn(3)
		if depth <= 0 {
			n = 0
		}
		e := asObj(d["e"])
		if d["k"] == "array" {
			n, _ = strconv.Atoi(fmt.Sprint(d["len"]))
		}
		if d["k"] == "recs" {
			e = d
			if jbool(d, "m") {
				l := []any{}
				for i := 0; i < n; i++ {
					l = append(l, []any{[]string{"k", "next", "a"}[i], c18Value(r, e, decls, depth-1)})
				}
				return obj{"map": l}
			}
		}
		l := []any{}
		for i := 0; i < n; i++ {
			l = append(l, c18Value(r, e, decls, depth-1))
		}
		return obj{"slice": l}
	case "map":
		n := r.Intn(3)
		if depth <= 0 {
			n = 0
		}
		keys := c18MapKeys(d)
		l := []any{}
		for i := 0; i < n; i++ {
			l = append(l, []any{keys[i], c18Value(r, asObj(d["e"]), decls, depth-1)})
		}
		return obj{"map": l}
	case "named":
		fs, _ := decls[d["n"].(string)].([]any)
		return c18StructValue(r, fs, decls, depth)
	case "struct":
		return c18StructValue(r, jlist(d["fields"]), decls, depth)
	}
	return vnil
}

func c18StructValue(r *hx.Rng, fs []any, decls map[string]any, depth int) obj {
	vs := []any{}
	for _, f := range fs {
		vs = append(vs, c18Value(r, asObj(asObj(f)["t"]), decls, depth-1))
	}
	return obj{"struct": vs}
}

// c18FlatCount: number of fields discovered in a struct description (embedded untagged structs expanded).
func c18FlatCount(fs []any) int {
	n := 0
	for _, f := range fs {
		fm := asObj(f)
		if jbool(fm, "emb") && jstr(fm, "tag") == "" {
			t := asObj(fm["t"])
			if jstr(t, "k") == "ptr" {
				t = asObj(t["e"])
			}
			n += c18FlatCount(jlist(t["fields"])) + 1
		} else {
			n++
		}
	}
	return n
}

var c18NamedStructs = []string{"ZNode", "ZKids", "ZTree", "ZA", "ZB", "ZBoth", "ZDList", "ZInner", "ZSliceRec", "ZMapRec", "ZDeep", "ZOuter", "ZMid", "ZEmb", "ZEmbRec",
	"ZUses", "ZEmpty", "ZHasEmpty", "ZHasNoTags", "ZAnon", "ZEmbDef", "ZYaml", "ZHasBox", "ZNS", "ZTriA", "ZTriC", "ZArr", "ZSelfVal", "ZWide", "ZHolder", "ZUnder"}
var c18DefNames = []string{"ZOctet", "ZStr", "ZI16", "ZU64", "ZF32", "ZFlag", "ZNames", "ZDigest", "ZOctets", "ZGrid", "ZDict", "ZStrMap", "ZNodes", "ZNodeMap", "ZNL"}

// c18RandType draws a type description. anon=false: no anonymous struct (every struct is a declared one).
func c18RandType(r *hx.Rng, depth int, allowNamed, anon bool) obj {
	leafs := c18Leafs()
	if depth <= 0 {
		return hx.Pick(r, leafs)
	}
	switch r.Intn(12) {
	case 0, 1:
		return hx.Pick(r, leafs)
	case 2, 3:
		return ptr(c18RandType(r, depth-1, allowNamed, anon))
	case 4:
		return sl(c18RandType(r, depth-1, allowNamed, anon))
	case 5:
		if r.Chance(25) {
			return mpk(hx.Pick(r, []obj{zdef("ZStr"), {"k": "int", "ik": "int"}, {"k": "int", "ik": "uint8"}, {"k": "int", "ik": "int16"}}), c18RandType(r, depth-1, allowNamed, anon))
		}
		return mp(c18RandType(r, depth-1, allowNamed, anon))
	case 6, 7:
		if allowNamed {
			return named(hx.Pick(r, c18NamedStructs))
		}
		return hx.Pick(r, leafs)
	case 8:
		if allowNamed {
			return zdef(hx.Pick(r, c18DefNames))
		}
		return hx.Pick(r, leafs)
	case 9:
		if r.Chance(40) {
			return arr(1+r.Intn(2), c18RandType(r, depth-1, allowNamed, anon))
		}
		fallthrough
	default:
		if !anon {
			return named(hx.Pick(r, c18NamedStructs))
		}
		return c18RandStruct(r, depth, allowNamed, true)
	}
}

func c18RandStruct(r *hx.Rng, depth int, allowNamed, allowEmb bool) obj {
	n := 1 + r.Intn(4)
	fs := []any{}
	names := []string{"A", "B", "C", "D", "E", "F"}
	tags := []string{"a", "b", "c", "x", "next", "v"}
	for i := 0; i < n; i++ {
		name := names[i]
		if allowEmb && r.Chance(20) {
			if r.Chance(25) { // an embedded defined non-struct type: a field for encoding/json, nothing for the generator
				dn := hx.Pick(r, []string{"ZOctet", "ZStr", "ZI16", "ZNames"})
				t := zdef(dn)
				if r.Chance(30) {
					t = ptr(t)
				}
				dup := false
				for _, f := range fs {
					dup = dup || jstr(asObj(f), "name") == dn
				}
				if !dup {
					fs = append(fs, emb(dn, "", t))
					continue
				}
			}
			inner := c18RandStruct(r, depth-1, allowNamed, r.Chance(30))
			var t obj = inner
			if r.Chance(40) {
				t = ptr(inner)
			}
			tag := ""
			if r.Chance(15) {
				tag = hx.Pick(r, tags)
			}
			fs = append(fs, emb("E"+name, tag, t))
			continue
		}
		t := c18RandType(r, depth-1, allowNamed, true)
		tag := ""
		switch r.Intn(10) {
		case 0:
			tag = "" // untagged
		case 1:
			tag = "-"
		case 2:
			tag = ",omitempty"
		case 3, 4:
			tag = hx.Pick(r, tags) + ",omitempty"
		case 5:
			if r.Chance(40) {
				tag = hx.Pick(r, tags) + ",string"
			} else {
				tag = hx.Pick(r, tags)
			}
		default:
			tag = strings.ToLower(name)
			if r.Chance(12) {
				tag = hx.Pick(r, tags) // possible clash
			}
		}
		f := fld(name, tag, t)
		if r.Chance(12) {
			f["yaml"] = hx.Pick(r, []string{"y" + strings.ToLower(name), "yy,omitempty", "-", "a", ""})
		}
		fs = append(fs, f)
	}
	if c18FlatCount(fs) > 12 { // beyond 12 elements sort.Sort is no longer an insertion sort
		return c18RandStruct(r, depth, allowNamed, false)
	}
	return st(fs...)
}

func c18Wrappers(leaf obj) []obj {
	inner := st(fld("X", "x", leaf))
	return []obj{
		leaf, ptr(leaf), ptr(ptr(leaf)), sl(leaf), sl(ptr(leaf)), mp(leaf), mp(ptr(leaf)), ptr(sl(leaf)), arr(2, leaf), arr(1, ptr(leaf)),
		st(fld("A", "a", leaf)), st(fld("A", "a", ptr(leaf))), st(fld("A", "a,omitempty", leaf)), st(fld("A", "", leaf), fld("B", "b", leaf)),
		st(fld("A", "a", inner), fld("B", "b", ptr(inner))), st(fld("A", "a", ptr(inner)), fld("B", "b", inner)),
		st(fld("A", "a", inner), fld("B", "b", sl(ptr(inner))), fld("C", "c", mp(ptr(inner)))),
	}
}

// c18AllValues enumerates values of a (small, non-recursive) type: every leaf value, nil and non-nil pointers,
// slices/maps of zero and two elements. The product is capped.
func c18AllValues(d obj, cap int) []obj {
	var out []obj
	if c18IsLeaf(d) {
		return c18LeafValues(d)
	}
	switch d["k"] {
	case "named", "recs":
		return nil
	case "def":
		return c18AllValues(asObj(d["u"]), cap)
	case "ptr":
		out = append(out, vnil)
		for _, v := range c18AllValues(asObj(d["e"]), cap) {
			out = append(out, vref(v))
		}
	case "slice":
		es := c18AllValues(asObj(d["e"]), cap)
		out = append(out, obj{"slice": []any{}})
		for i, v := range es {
			out = append(out, obj{"slice": []any{v, es[(i+1)%len(es)]}})
		}
	case "array":
		es := c18AllValues(asObj(d["e"]), cap)
		n, _ := strconv.Atoi(fmt.Sprint(d["len"]))
		for i := range es {
			l := []any{}
			for k := 0; k < n; k++ {
				l = append(l, es[(i+k)%len(es)])
			}
			out = append(out, obj{"slice": l})
		}
	case "map":
		es := c18AllValues(asObj(d["e"]), cap)
		out = append(out, obj{"map": []any{}})
		keys := c18MapKeys(d)
		for i, v := range es {
			out = append(out, obj{"map": []any{[]any{keys[0], v}, []any{keys[1], es[(i+1)%len(es)]}}})
		}
	case "struct":
		fs := jlist(d["fields"])
		per := make([][]obj, len(fs))
		max := 0
		for i, f := range fs {
			per[i] = c18AllValues(asObj(asObj(f)["t"]), cap)
			if len(per[i]) > max {
				max = len(per[i])
			}
		}
		// diagonal enumeration: every value of every field occurs, shifted against each other
		for k := 0; k < max*2 && len(out) < cap; k++ {
			vs := []any{}
			for i := range fs {
				vs = append(vs, per[i][(k+i*(k/max))%len(per[i])])
			}
			out = append(out, obj{"struct": vs})
		}
	}
	if len(out) > cap {
		out = out[:cap]
	}
	return out
}

// ---- option sets

// c18OptionMatrix: every combination of the generator options (the customizer in its three modelled behaviours,
// the type-name generator as none / prefix / table that swaps two names and maps the rest by prefix).
func c18OptionMatrix(root string) []obj {
	var out []obj
	for _, all := range []bool{false, true} {
		for _, throw := range []bool{false, true} {
			for cust := 0; cust < 3; cust++ {
				for exp := 0; exp < 4; exp++ {
					for tng := 0; tng < 3; tng++ {
						o := obj{}
						if all {
							o["all"] = true
						}
						if throw {
							o["throw"] = true
						}
						switch cust {
						case 1:
							o["cust"] = true
						case 2:
							o["cust"] = true
							o["excl"] = []any{"v", "next", "y", "kids"}
						}
						switch exp {
						case 1:
							o["export"] = true
						case 2:
							o["export"], o["top"] = true, true
						case 3:
							o["export"], o["top"], o["generics"] = true, true, true
						}
						switch tng {
						case 1:
							o["tng"] = obj{"pfx": "X_", "tbl": []any{}}
						case 2:
							tbl := []any{[]any{"ZNode", "ZB"}, []any{"ZB", "ZNode"}}
							if root != "ZNode" && root != "ZB" {
								tbl = append(tbl, []any{root, "Renamed." + root})
							}
							o["tng"] = obj{"pfx": "", "tbl": tbl}
						}
						out = append(out, o)
					}
				}
			}
		}
	}
	return out
}

func c18RandOpts(r *hx.Rng) obj {
	o := obj{}
	if r.Chance(40) {
		return o
	}
	if r.Chance(12) {
		o["throw"] = true
	}
	if r.Chance(25) {
		o["cust"] = true
		if r.Chance(50) {
			o["excl"] = []any{hx.Pick(r, []string{"a", "b", "x", "next", "v", "_root", "kids"}), hx.Pick(r, []string{"c", "A", "in", "m", "y"})}
		}
		if r.Chance(15) {
			o["fail"] = []any{hx.Pick(r, []string{"a", "b", "x", "next", "v", "_root", "kids", "p", "q"})}
		}
	}
	if r.Chance(55) {
		o["export"] = true
		o["top"] = r.Chance(50)
		o["generics"] = r.Chance(50)
	}
	if r.Chance(35) {
		if r.Chance(60) {
			o["tng"] = obj{"pfx": hx.Pick(r, []string{"X_", "pkg.", "T"}), "tbl": []any{}}
		} else {
			a, b := hx.Pick(r, c18NamedStructs), hx.Pick(r, c18NamedStructs)
			o["tng"] = obj{"pfx": "", "tbl": []any{[]any{a, b}, []any{b, a}}}
		}
	}
	return o
}

func c18ZooCases(ctx *hx.Ctx, emit func(hx.Case)) {
	r := ctx.Rng
	wraps := []func(obj) obj{func(t obj) obj { return t }, ptr, sl, func(t obj) obj { return mp(ptr(t)) },
		func(t obj) obj { return st(fld("P", "p", ptr(t)), fld("Q", "q", t)) }}
	// (a) every declared struct as the root, under every option set
	for _, n := range c18ZooStructs {
		t := named(n)
		decls := map[string]any{}
		c18AddDecls(t, decls)
		for i, o := range c18OptionMatrix(n) {
			all := jbool(o, "all")
			delete(o, "all")
			v := c18Value(r, t, decls, 2+i%3)
			emit(c18CaseO(t, v, all, o))
		}
	}
	// (b) declared structs and defined types under wrappers, default options and random option sets
	per := 3
	if ctx.Thorough() {
		per = 20
	}
	names := append(append([]string{}, c18ZooStructs...), c18ZooDefs...)
	for _, n := range names {
		base := named(n)
		if c18Zoo[n].Kind() != reflect.Struct {
			base = zdef(n)
		}
		for wi, wrap := range wraps {
			t := wrap(base)
			decls := map[string]any{}
			c18AddDecls(t, decls)
			for i := 0; i < per; i++ {
				v := c18Value(r, t, decls, 1+i%5)
				if _, isNil := v["nil"]; isNil {
					continue
				}
				emit(c18CaseO(t, v, false, nil))
				emit(c18CaseO(t, v, true, nil))
				o := c18RandOpts(r)
				if wi == 4 { // an anonymous root struct: keep the export options for the other wrappers
					delete(o, "export")
				}
				emit(c18CaseO(t, v, r.Chance(30), o))
			}
		}
	}
}

func c18Shapes() []obj {
	i8, s, b := obj{"k": "int", "ik": "int8"}, obj{"k": "string"}, obj{"k": "bool"}
	in1 := st(fld("X", "x", i8), fld("Y", "y,omitempty", s))
	in2 := st(fld("X", "x", s), fld("W", "w", b))
	oct := zdef("ZOctet")
	return []obj{
		st(emb("In", "", in1), fld("Z", "z", b)),
		st(emb("In", "", ptr(in1)), fld("Z", "z", b)),
		st(emb("In", "in", in1), fld("Z", "z", b)),
		st(emb("In", "-", in1), fld("Z", "z", b)),
		st(emb("In", "", in1), fld("X", "x", s)),                      // outer wins in encoding/json
		st(fld("X", "x", s), emb("In", "", in1)),                      // same, other order
		st(emb("In", "", in1), emb("Jn", "", in2)),                    // clash at equal depth, both tagged: dropped
		st(emb("In", "", in1), fld("X", "", s)),                       // untagged outer X vs tagged inner x: different names
		st(emb("In", "", st(fld("X", "", i8))), fld("X", "", s)),      // untagged clash
		st(emb("In", "", st(emb("Deep", "", in1), fld("Q", "q", b)))), // two levels
		st(emb("In", "", ptr(st(emb("Deep", "", ptr(in1)), fld("Q", "q", b))))),
		st(fld("A", "a,omitempty", ptr(i8)), fld("B", "b,omitempty", sl(i8)), fld("C", "c,omitempty", mp(s)), fld("D", "d,omitempty", in1)),
		st(fld("A", "n,string", obj{"k": "int", "ik": "int"})),
		st(fld("A", "n,string", b), fld("B", "m,string", ptr(obj{"k": "int", "ik": "uint8"}))),
		st(fld("A", "n,string", sl(i8))), // option has no effect on slices
		st(fld("A", "", i8), fld("B", "", s)),
		st(fld("A", "-", i8)),
		st(),
		st(fld("A", ",omitempty", i8), fld("B", "b", st())),
		st(fld("A", "a", named("ZNode")), fld("B", "b", ptr(named("ZNode"))), fld("C", "c", ptr(ptr(named("ZNode"))))),
		st(fld("A", "a", ptr(named("ZNode"))), fld("B", "b", named("ZNode"))),
		st(fld("A", "a", sl(named("ZKids"))), fld("B", "b", named("ZKids"))),
		st(fld("A", "a", named("ZA")), fld("B", "b", named("ZB"))),
		st(fld("A", "a", named("ZB")), fld("B", "b", named("ZA"))),
		st(fld("A", "a", named("ZOuter")), fld("B", "b", named("ZMid"))),
		sl(sl(ptr(named("ZNode")))),
		mp(sl(named("ZTree"))),
		st(fld("B", "b", in1), fld("A", "a", in1), fld("C", "c", ptr(in1))),
		st(fld("C", "c", ptr(in1)), fld("A", "zz", in1)),
		// round 3: defined element types, embedded defined types, yaml tags, arrays, map keys
		sl(oct), ptr(sl(oct)), sl(sl(oct)), mp(sl(oct)), sl(ptr(oct)), arr(3, oct),
		st(fld("A", "a", sl(oct)), fld("B", "b,omitempty", sl(oct)), fld("C", "c", zdef("ZOctets")), fld("D", "d", ptr(zdef("ZDigest")))),
		st(emb("ZOctet", "", oct), fld("Z", "z", b)),
		st(emb("ZStr", "", ptr(zdef("ZStr"))), emb("ZI16", "n", zdef("ZI16")), fld("Z", "z", b)),
		st(emb("ZOctet", "", oct), fld("X", "ZOctet", s)), // the embedded field's name clashes with a tag
		st(fldY("A", "", "alpha", i8), fldY("B", "", "beta,omitempty", s), fldY("C", "c", "cc", b), fldY("D", "", "-", i8)),
		st(fldY("A", "", "b", i8), fld("B", "b", s)), // yaml name clashes with a JSON name (only matters with UseAllExportedFields)
		st(emb("In", "", st(fldY("X", "", "deep", i8))), fld("Z", "z", b)),
		mpk(zdef("ZStr"), i8), mpk(obj{"k": "int", "ik": "int"}, ptr(s)), mpk(obj{"k": "int", "ik": "uint8"}, sl(i8)),
		st(fld("A", "a", arr(2, ptr(named("ZNode")))), fld("B", "b", named("ZNode"))),
		st(fld("A", "a", zdef("ZNodes")), fld("B", "b", zdef("ZNodeMap")), fld("C", "c", named("ZNode"))),
	}
}

func genC18(ctx *hx.Ctx, emit func(hx.Case)) {
	r := ctx.Rng
	// 1. every leaf kind under every wrapper, all values
	for _, leaf := range c18Leafs() {
		for _, w := range c18Wrappers(leaf) {
			for _, v := range c18AllValues(w, 24) {
				if _, isNil := v["nil"]; isNil {
					continue
				}
				emit(c18Case(w, v, false))
				if w["k"] == "struct" {
					emit(c18Case(w, v, true))
				}
			}
		}
	}
	// 2. embedded / tag / cache shapes
	for _, t := range c18Shapes() {
		decls := map[string]any{}
		c18AddDecls(t, decls)
		n := 6
		if ctx.Thorough() {
			n = 30
		}
		for i := 0; i < n; i++ {
			for _, all := range []bool{false, true} {
				v := c18Value(r, t, decls, 1+i%4)
				emit(c18Case(t, v, all))
			}
		}
	}
	// 3. declared zoo
	c18ZooCases(ctx, emit)
	// 3b. reuse of one generator
	c18ReuseCases(ctx, emit)
	// 4. the self-recursive container types
	for _, t := range []obj{{"k": "recs", "m": false}, {"k": "recs", "m": true}, st(fld("A", "a", obj{"k": "recs", "m": false}))} {
		decls := map[string]any{}
		emit(c18CaseO(t, c18Value(r, t, decls, 2), false, nil))
		emit(c18CaseO(t, c18Value(r, t, decls, 3), false, obj{"throw": true}))
	}
	// 5. random stream
	n := 2500
	if ctx.Thorough() {
		n = 40000
	}
	for i := 0; i < n; i++ {
		o := c18RandOpts(r)
		// with ExportComponentSchemas every anonymous struct becomes the component "": use declared structs only, mostly
		anon := !jbool(o, "export") || r.Chance(20)
		t := c18RandType(r, 1+r.Intn(4), r.Chance(60) || !anon, anon)
		decls := map[string]any{}
		c18AddDecls(t, decls)
		for k := 0; k < 2; k++ {
			v := c18Value(r, t, decls, 1+r.Intn(5))
			if _, isNil := v["nil"]; isNil {
				continue
			}
			emit(c18CaseO(t, v, r.Chance(35), o))
		}
	}
	// 6. random histories on one generator
	c18RandomHistories(ctx, emit)
}

// c18SubTypes: the type descriptions occurring inside d (d included), declared structs as `named`.
func c18SubTypes(d obj, out *[]obj) {
	if d == nil {
		return
	}
	*out = append(*out, d)
	switch d["k"] {
	case "def":
		c18SubTypes(asObj(d["u"]), out)
	case "ptr", "slice", "map", "array":
		c18SubTypes(asObj(d["e"]), out)
	case "struct":
		for _, f := range jlist(d["fields"]) {
			c18SubTypes(asObj(asObj(f)["t"]), out)
		}
	}
}

// c18RandomHistories: random types under random option sets that cannot fail (no ThrowErrorOnCycle, no customizer), each
// generated after a random history of one to three types taken from inside the type (bare, behind a pointer, in a slice).
func c18RandomHistories(ctx *hx.Ctx, emit func(hx.Case)) {
	r := ctx.Rng
	n := 500
	if ctx.Thorough() {
		n = 8000
	}
	for i := 0; i < n; i++ {
		o := c18RandOpts(r)
		delete(o, "throw")
		delete(o, "cust")
		delete(o, "excl")
		delete(o, "fail")
		anon := !jbool(o, "export") || r.Chance(20)
		t := c18RandType(r, 1+r.Intn(3), r.Chance(70) || !anon, anon)
		decls := map[string]any{}
		c18AddDecls(t, decls)
		var subs []obj
		c18SubTypes(t, &subs)
		names := []string{}
		for x := range decls {
			names = append(names, x)
		}
		sort.Strings(names)
		for _, x := range names {
			subs = append(subs, named(x))
		}
		var pre []any
		for k := 1 + r.Intn(3); k > 0; k-- {
			p := subs[r.Intn(len(subs))]
			switch r.Intn(4) {
			case 0:
				p = ptr(p)
			case 1:
				p = sl(p)
			}
			pre = append(pre, p)
		}
		v := c18Value(r, t, decls, 1+r.Intn(4))
		if _, isNil := v["nil"]; isNil {
			continue
		}
		emit(c18CaseP(t, v, r.Chance(35), o, pre))
	}
}

// ------------------------------------------------------------------ shrinking

func c18Sub(c hx.Case, t, v obj) hx.Case {
	return c18CaseP(t, v, jbool(c, "all"), asObj(c["opts"]), jlist(c["pre"]))
}

// c18CaseP: a case in which the types `pre` are generated first, in this order, on the same Generator.
func c18CaseP(t, v obj, all bool, o obj, pre []any) hx.Case {
	c := c18CaseO(t, v, all, o)
	if len(pre) == 0 {
		return c
	}
	decls := map[string]any{}
	c18AddDecls(t, decls)
	for _, p := range pre {
		c18AddDecls(asObj(p), decls)
	}
	c["decls"] = c18DeclList(decls)
	c["pre"] = pre
	return c
}

// c18ReuseCases: the history dimension. For every declared struct of the zoo and every declared struct X it refers to
// (itself included): X, *X, []X, []*X, map[string]X and X then *X are generated first on the same generator, under the
// option sets that cannot fail (no ThrowErrorOnCycle, no customizer).
func c18ReuseCases(ctx *hx.Ctx, emit func(hx.Case)) {
	r := ctx.Rng
	optSets := []obj{nil, {"export": true}, {"export": true, "top": true}, {"tng": obj{"pfx": "X_", "tbl": []any{}}},
		{"export": true, "top": true, "tng": obj{"pfx": "X_", "tbl": []any{}}}}
	for _, n := range c18ZooStructs {
		t := named(n)
		decls := map[string]any{}
		c18AddDecls(t, decls)
		var xs []string
		for x := range decls {
			xs = append(xs, x)
		}
		sort.Strings(xs)
		if len(xs) > 3 && !ctx.Thorough() {
			xs = xs[:3]
		}
		for _, x := range xs {
			X := named(x)
			pres := [][]any{{X}, {ptr(X)}, {sl(X)}, {sl(ptr(X))}, {mp(X)}, {X, ptr(X)}, {st(fld("P", "p", ptr(X)))}}
			for pi, pre := range pres {
				for oi, o := range optSets {
					if !ctx.Thorough() && (pi+oi)%2 == 1 && oi > 0 {
						continue
					}
					oo := obj{}
					for k, v := range o {
						oo[k] = v
					}
					v := c18Value(r, t, decls, 1+(pi+oi)%3)
					emit(c18CaseP(t, v, false, oo, pre))
				}
			}
		}
	}
}

func shrinkC18(c hx.Case) []hx.Case {
	var out []hx.Case
	t, v := asObj(c["type"]), asObj(c["value"])
	if t == nil || v == nil {
		return nil
	}
	if pre := jlist(c["pre"]); len(pre) > 0 { // a shorter history
		for _, p := range dropEach(pre) {
			out = append(out, c18CaseP(t, v, jbool(c, "all"), asObj(c["opts"]), p))
		}
	}
	decls := map[string]any{}
	for _, d := range jlist(c["decls"]) {
		decls[jstr(asObj(d), "name")] = asObj(d)["fields"]
	}
	switch jstr(t, "k") {
	case "def":
		out = append(out, c18Sub(c, asObj(t["u"]), v))
	case "ptr":
		if inner := asObj(v["ref"]); inner != nil {
			out = append(out, c18Sub(c, asObj(t["e"]), inner))
		}
	case "slice", "array":
		l := jlist(v["slice"])
		for _, x := range l {
			out = append(out, c18Sub(c, asObj(t["e"]), asObj(x)))
		}
		if jstr(t, "k") == "slice" {
			for _, n := range dropEach(l) {
				out = append(out, c18Sub(c, t, obj{"slice": n}))
			}
		}
	case "map":
		l := jlist(v["map"])
		for _, x := range l {
			out = append(out, c18Sub(c, asObj(t["e"]), asObj(jlist(x)[1])))
		}
		for _, n := range dropEach(l) {
			out = append(out, c18Sub(c, t, obj{"map": n}))
		}
	case "struct", "named":
		fs := jlist(t["fields"])
		if jstr(t, "k") == "named" {
			fs, _ = decls[jstr(t, "n")].([]any)
		}
		vs := jlist(v["struct"])
		for i := range fs {
			if i < len(vs) {
				ft := asObj(asObj(fs[i])["t"])
				if _, isNil := asObj(vs[i])["nil"]; !isNil {
					out = append(out, c18Sub(c, ft, asObj(vs[i])))
				}
			}
		}
		if jstr(t, "k") == "struct" && len(fs) == len(vs) {
			for i := range fs {
				nf := append(append([]any{}, fs[:i]...), fs[i+1:]...)
				nv := append(append([]any{}, vs[:i]...), vs[i+1:]...)
				out = append(out, c18Sub(c, obj{"k": "struct", "fields": nf}, obj{"struct": nv}))
			}
			// shrink inside one field
			for i := range fs {
				fm := asObj(fs[i])
				for _, sub := range shrinkC18(c18Sub(c, asObj(fm["t"]), asObj(vs[i]))) {
					st2, sv2 := asObj(sub["type"]), asObj(sub["value"])
					if jstr(st2, "k") == jstr(asObj(fm["t"]), "k") && !(jbool(fm, "emb") && jstr(fm, "tag") == "") {
						nf := append([]any{}, fs...)
						nv := append([]any{}, vs...)
						nfm := obj{}
						for k, x := range fm {
							nfm[k] = x
						}
						nfm["t"] = st2
						nf[i], nv[i] = nfm, sv2
						out = append(out, c18Sub(c, obj{"k": "struct", "fields": nf}, obj{"struct": nv}))
					}
				}
			}
		}
	}
	if jbool(c, "all") {
		x := cloneCase(c)
		x["all"] = false
		out = append(out, x)
	}
	if o := asObj(c["opts"]); len(o) > 0 {
		for k := range o {
			no := obj{}
			for k2, x := range o {
				if k2 != k {
					no[k2] = x
				}
			}
			x := cloneCase(c)
			if len(no) == 0 {
				delete(x, "opts")
			} else {
				x["opts"] = no
			}
			out = append(out, x)
		}
	}
	return out
}
